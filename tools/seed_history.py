#!/usr/bin/env python3
# tools/seed_history.py <ID> "<text>"   record how a seeded change was first missed and what was strengthened (kept by seeded_eval.sh)
import json,sys
p='/verif/seeded/%s/meta.json'%sys.argv[1]
m=json.load(open(p)); m.setdefault('evaluation',{})['history']=sys.argv[2]; json.dump(m,open(p,'w'),indent=1)
