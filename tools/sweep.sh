#!/bin/bash
# tools/sweep.sh [tier] [seed...]   run every registered check and summarise (exit status, violations, known findings, wall)
TIER="${1:-quick}"; shift
SEEDS="${@:-1}"
cd /verif
for s in $SEEDS; do
  for id in $(jq -r '.checks[].property_id' MANIFEST.json); do
    t0=$(date +%s.%N)
    VERIF_SEED=$s ./check $id $TIER > /dev/shm/sweep-$id-$s.log 2>&1; rc=$?
    t1=$(date +%s.%N)
    printf "%s seed=%s rc=%d viol=%d known=%d wall=%.0fs  %s\n" $id $s $rc $(grep -c '^VIOLATION' /dev/shm/sweep-$id-$s.log) $(grep -c '^KNOWN-FINDING' /dev/shm/sweep-$id-$s.log) $(echo "$t1-$t0" | bc) "$(grep -m1 -E '^C[0-9]+ (quick|thorough)' /dev/shm/sweep-$id-$s.log | cut -c1-90)"
  done
done
