#!/bin/bash
# tools/seed_install.sh <ID> <needs text> [also_check ...]   copy /tmp/seed-<ID>-out into /verif/seeded/<ID> and write meta.json
ID="$1"; NEEDS="$2"; shift 2
S=/tmp/seed-$ID-out; D=/verif/seeded/$ID
[ -f "$S/patch.diff" ] || { echo "no $S/patch.diff"; exit 2; }
mkdir -p "$D"; cp -r "$S"/* "$D"/
PROP=${ID%%-*}; M=${ID##*-}
DEMO=$(ls -d "$D"/demo_* | head -1 | xargs basename)
python3 - "$D/meta.json" "$PROP" "$DEMO" "$NEEDS" "$ID" "$@" <<'PY'
import json,sys
meta,prop,demo,needs,ID=sys.argv[1:6]; also=sys.argv[6:]
m={"property":prop,"demo_cmd":"go test -mod=mod -vet=off -count=1 ./%s/"%demo,"needs":needs,"origin":"fresh sub-agent seed-%s, given only the property text"%ID.lower()}
if also: m["also_checks"]=also
json.dump(m,open(meta,'w'),indent=1)
PY
cat "$D/meta.json"; grep -n "go run\|go test\|bash " "$D/NOTES.md" | head -5
