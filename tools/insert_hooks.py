#!/usr/bin/env python3
"""One-shot helper used to place verifhook.Point lines in /repo (kept for the record).
Each entry: (file, function signature prefix, anchor line (stripped), occurrence within function, hook name)
The hook line is inserted BEFORE the anchor line with the anchor's indentation."""
import re,sys
R='/repo/'
H=[
 ('backend/posix/with_otmpfile.go','func (tmp *tmpfile) link()','objPath := filepath.Join(tmp.bucket, tmp.objname)',1,'link.enter'),
 ('backend/posix/with_otmpfile.go','func (tmp *tmpfile) link()','dir := filepath.Dir(objPath)',1,'link.afterRemove'),
 ('backend/posix/with_otmpfile.go','func (tmp *tmpfile) link()','if !tmp.isOTmp {',1,'link.afterMkdir'),
 ('backend/posix/with_otmpfile.go','func (tmp *tmpfile) link()','err = tmp.f.Close()',1,'link.afterLinkat'),
 ('backend/posix/with_otmpfile.go','func (tmp *tmpfile) fallbackLink()','objPath := filepath.Join(tmp.bucket, tmp.objname)',1,'flink.beforeRename'),
 ('backend/posix/with_otmpfile.go','func (tmp *tmpfile) fallbackLink()','return nil',1,'flink.afterRename'),
 ('backend/posix/posix.go','func (p *Posix) PutObject(','for k, v := range po.Metadata {',1,'putdir.afterMkdir'),
 ('backend/posix/posix.go','func (p *Posix) PutObject(','f, err := p.openTmpFile(filepath.Join(*po.Bucket, metaTmpDir),',1,'put.afterStat'),
 ('backend/posix/posix.go','func (p *Posix) PutObject(','hash := md5.New()',1,'put.afterOpenTmp'),
 ('backend/posix/posix.go','func (p *Posix) PutObject(','dir := filepath.Dir(name)',1,'put.afterData'),
 ('backend/posix/posix.go','func (p *Posix) PutObject(','err = f.link()',1,'put.afterAttrs'),
 ('backend/posix/posix.go','func (p *Posix) PutObject(','// Set object tagging',1,'put.afterLink'),
 ('backend/posix/posix.go','func (p *Posix) PutObject(','// Set object legal hold',1,'put.afterTags'),
 ('backend/posix/posix.go','func (p *Posix) PutObject(','// Set object retention',1,'put.afterLegalHold'),
 ('backend/posix/posix.go','func (p *Posix) createObjVersion(','versionPath = filepath.Join(versionBucketPath, versioningKey)',1,'ver.afterData'),
 ('backend/posix/posix.go','func (p *Posix) createObjVersion(','if err := f.link(); err != nil {',1,'ver.afterAttrs'),
 ('backend/posix/posix.go','func (p *Posix) createObjVersion(','return versionPath, nil',1,'ver.afterLink'),
 ('backend/posix/posix.go','func (p *Posix) DeleteObject(','// Mark the object as a delete marker',1,'del.afterVersionCopy'),
 ('backend/posix/posix.go','func (p *Posix) DeleteObject(','versionId := nullVersionId',1,'del.afterMarker'),
 ('backend/posix/posix.go','func (p *Posix) DeleteObject(','ents, err := os.ReadDir(versionPath)',1,'del.afterRemove'),
 ('backend/posix/posix.go','func (p *Posix) DeleteObject(','attrs, err := p.meta.ListAttributes(versionPath, srcVersionId)',1,'del.afterPromoteLink'),
 ('backend/posix/posix.go','func (p *Posix) DeleteObject(','err = os.Remove(filepath.Join(versionPath, srcVersionId))',1,'del.afterPromoteAttrs'),
 ('backend/posix/posix.go','func (p *Posix) DeleteObject(','err = os.Remove(objpath)',2,'del.afterStat'),
 ('backend/posix/posix.go','func (p *Posix) DeleteObject(','err = p.meta.DeleteAttributes(bucket, object)',1,'del.afterUnlink'),
 ('backend/posix/posix.go','func (p *Posix) DeleteObject(','p.removeParents(bucket, object)',3,'del.afterAttrsRemoved'),
 ('backend/posix/posix.go','func (p *Posix) GetObject(','if strings.HasSuffix(object, "/") && !fi.IsDir() {',1,'get.afterStat'),
 ('backend/posix/posix.go','func (p *Posix) GetObject(','f, err := os.Open(objPath)',1,'get.afterAttrs'),
 ('backend/posix/posix.go','func (p *Posix) GetObject(','var checksums s3response.Checksum',1,'get.afterOpen'),
 ('backend/posix/posix.go','func (p *Posix) HeadObject(','if strings.HasSuffix(object, "/") && !fi.IsDir() {',1,'head.afterStat'),
 ('backend/posix/posix.go','func (p *Posix) CompleteMultipartUpload(','var hashRdr *utils.HashReader',1,'cmp.afterCheck'),
 ('backend/posix/posix.go','func (p *Posix) CompleteMultipartUpload(','upiddir := filepath.Join(objdir, uploadID)',1,'cmp.afterAssemble'),
 ('backend/posix/posix.go','func (p *Posix) CompleteMultipartUpload(','// if the versioning is enabled, generate a new versionID for the object',1,'cmp.afterVersionCopy'),
 ('backend/posix/posix.go','func (p *Posix) CompleteMultipartUpload(','err = f.link()',1,'cmp.afterAttrs'),
 ('backend/posix/posix.go','func (p *Posix) CompleteMultipartUpload(','// cleanup tmp dirs',1,'cmp.afterLink'),
 ('backend/posix/posix.go','func (p *Posix) CompleteMultipartUpload(','return &s3.CompleteMultipartUploadOutput{',1,'cmp.afterCleanup'),
 ('backend/posix/posix.go','func (p *Posix) UploadPart(','dataSum := hash.Sum(nil)',1,'part.afterData'),
 ('backend/posix/posix.go','func (p *Posix) UploadPart(','return res, nil',1,'part.afterLink'),
 ('backend/posix/posix.go','func (p *Posix) CreateBucket(','if doChown {',1,'mkbucket.afterMkdir'),
 ('backend/posix/posix.go','func (p *Posix) CreateBucket(','err = p.meta.StoreAttribute(nil, bucket, "", ownershipkey, []byte(input.ObjectOwnership))',1,'mkbucket.afterAcl'),
 ('backend/posix/posix.go','func (p *Posix) DeleteBucket(','// Remove the bucket',1,'rmbucket.afterEmptyCheck'),
 ('backend/posix/posix.go','func (p *Posix) DeleteBucket(','// Remove the bucket from versioning directory',1,'rmbucket.afterRemoveAll'),
 ('backend/meta/sidecar.go','func (s SideCar) StoreAttribute(','return nil',1,'sidecar.afterStore'),
 ('auth/iam_cache.go','func (c *IAMCache) GetUserAccount(','c.iamcache.set(access, a)',1,'iamcache.afterFetch'),
 ('auth/iam_internal.go','func (s *IAMServiceInternal) storeIAM(','// save copy of data',1,'iam.afterRemove'),
 ('auth/iam_internal.go','func (s *IAMServiceInternal) storeIAM(','b, err = update(b)',1,'iam.afterBackup'),
 ('auth/iam_internal.go','func (s *IAMServiceInternal) writeTempFile(','err = os.Rename(f.Name(), fname)',1,'iam.beforeRename'),
 ('s3event/webhook.go','func (w *Webhook) send(','',0,'event.send'),
]
IMPORT='\t"github.com/versity/versitygw/internal/verifhook"\n'
files={}
for f,fn,anchor,occ,name in H:
    L=files.setdefault(f,open(R+f).read().split('\n'))
    start=next(i for i,l in enumerate(L) if l.startswith(fn))
    end=next(i for i in range(start+1,len(L)) if L[i]=='}')
    if occ==0:
        L.insert(start+1,'\tverifhook.Point("%s")'%name); continue
    n=0
    for i in range(start,end):
        if L[i].strip()==anchor:
            n+=1
            if n==occ:
                ind=L[i][:len(L[i])-len(L[i].lstrip())]
                L.insert(i,ind+'verifhook.Point("%s")'%name)
                break
    else:
        sys.exit("anchor not found: %s %s %r #%d"%(f,fn,anchor,occ))
for f,L in files.items():
    s='\n'.join(L)
    if 'internal/verifhook' not in s:
        # add import after the first versitygw import, else at the end of the import block
        m=re.search(r'import \((.*?)\n\)',s,re.S)
        blk=m.group(0)
        lines=blk.split('\n')
        idx=None
        for i,l in enumerate(lines):
            if 'github.com/versity/versitygw/' in l and l.strip().strip('"')<'github.com/versity/versitygw/internal/verifhook':
                idx=i
        if idx is None:
            idx=len(lines)-2
        lines.insert(idx+1,IMPORT.rstrip('\n'))
        s=s.replace(blk,'\n'.join(lines),1)
    open(R+f,'w').write(s)
print("inserted",len(H))
