#!/bin/bash
# tools/baseline.sh [tree]   run the pinned 199-test baseline (hooks off) on a tree (default /repo) and report missing passes
export GOFLAGS=-mod=mod GOPROXY=off GOSUMDB=off GOTOOLCHAIN=local
T="${1:-/repo}"
(cd "$T" && go test -mod=mod -vet=off -count=1 -json ./... 2>/dev/null) | python3 -c "
import sys,json
p=set()
for l in sys.stdin:
    try: e=json.loads(l)
    except: continue
    if e.get('Action')=='pass' and e.get('Test'): p.add(e['Package']+'::'+e['Test'])
b=set(json.load(open('/root/.vp/BASELINE.json'))['stable_pass'])
print('baseline: %d of %d pass, missing: %s'%(len(b&p),len(b),sorted(b-p)[:8]))
sys.exit(0 if b<=p else 1)
"
