#!/usr/bin/env python3
"""Rewrites section 8.2 of DESIGN.md (between the FINDINGS markers) from known-findings.txt and known-findings.d/*.txt:
per property the repaired defects (fix: commits in /repo) and the recorded known findings."""
import re,glob,collections,subprocess
fixed=collections.defaultdict(list); known=collections.defaultdict(list)
for f in ['/verif/known-findings.txt']+sorted(glob.glob('/verif/known-findings.d/*.txt')):
    for l in open(f):
        l=l.strip()
        m=re.match(r'fixed: property=(C\d+) (\w+) (.*)',l)
        if m: fixed[m.group(1)].append((m.group(2),m.group(3))); continue
        m=re.match(r'KNOWN-FINDING: property=(C\d+) sig=(\S+) (.*)',l)
        if m: known[m.group(1)].append((m.group(2),m.group(3)))
def clip(s,n):
    return s if len(s)<=n else s[:n].rsplit(' ',1)[0]+' …'
out=[]
ids=sorted(set(fixed)|set(known))
nf=sum(len(v) for v in fixed.values()); nk=sum(len(v) for v in known.values())
commits=set(c for v in fixed.values() for c,_ in v)
out.append(f"{nf} repaired defects ({len(commits)} `fix:` commits; a commit that repairs defects of two properties is listed under both) and {nk} recorded known-finding signatures. Full witness texts are in `known-findings.txt` / `known-findings.d/`.\n")
for p in ids:
    out.append(f"**{p}** — {len(fixed[p])} repaired, {len(known[p])} known-finding signature(s)\n")
    for c,t in fixed[p]:
        out.append(f"* fixed `{c}`: {clip(t,230)}")
    for s,t in known[p]:
        out.append(f"* KNOWN `{s}`: {clip(t,230)}")
    out.append("")
s=open('/verif/DESIGN.md').read()
a,b='<!-- FINDINGS-BEGIN -->','<!-- FINDINGS-END -->'
if a not in s: raise SystemExit('markers missing')
s=s[:s.index(a)+len(a)]+'\n'+'\n'.join(out)+'\n'+s[s.index(b):]
open('/verif/DESIGN.md','w').write(s)
print(nf,'fixed',nk,'known')
