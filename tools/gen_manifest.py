#!/usr/bin/env python3
"""Regenerates /verif/MANIFEST.json from the table below (keeps it schema-valid)."""
import json, subprocess, os
V = os.path.dirname(os.path.dirname(os.path.abspath(__file__)))
hook_commits = subprocess.run(["git","-C","/repo","log","--format=%H %s"],capture_output=True,text=True).stdout.splitlines()
hook_commits = [l.split()[0] for l in hook_commits if l.split(" ",1)[1].startswith("verif:")]

# id -> (level, technique, level text, level note, design section)
CHECKS = {
 "C13": ("exploration", "differential runtime monitor: reference range parser vs real GET/HEAD responses and direct calls of ParseGetObjectRange",
   "Every generated Range header (fixed hostile list x object sizes plus PRNG-generated and mutated headers) is sent to a real gateway and fed to the exported parser; status, Content-Range, Content-Length and body are compared with an independent reference parser and the object bytes. Held on the executions produced; says nothing about headers not generated.",
   "Trusts the harness reference parser (written from the property statement), HTTP/1.1 parsing of net/http, tmpfs semantics. Arguable forms (suffix -n, signed numbers, >64-bit numbers) are accepted either way.", "3/C13"),
 "C05": ("exploration", "deterministic hook-point scheduler (one request held at each filesystem step while another runs to completion, same/other gateway process) + atomicity monitor on every read + porcupine linearizability check of client-boundary histories; stress histories with injected delays; race detector lane",
   "Every (paused operation, hook point it passes, observer operation, process placement, temp-file strategy) schedule is executed against real gateway processes sharing one storage; unique write ids make every read identify its write four ways (body hash, length, ETag, metadata). Exhaustive over the instrumented steps for two-request schedules; three-way interleavings and preemption between hook points only by stress.",
   "Trusts the placement of the hook points (between filesystem steps), porcupine v1.3.0, the register model (with the delete-by-version rule), tmpfs. Recorded known findings: GET/HEAD read size, attributes and data by path in separate steps (torn reads); delete-by-version racing a writer.", "3/C05"),
 "C11": ("fault_enumeration", "crash-point enumeration: the hook scheduler holds the operation at each filesystem step of its recorded trace, the harness SIGKILLs the gateway there, a newly started process is examined by an old-or-new state monitor (unique write ids) plus leftover/later-operation probes",
   "For every operation kind (PUT new/overwrite/versioned/with tags+lock, directory object, copy, upload-part, multipart completion, delete, delete marker, delete-by-version, batch delete) x storage configuration (O_TMPFILE|named temp x xattr|sidecar) the gateway is killed at EVERY hook hit of the operation's trace (exhaustive over the instrumented steps, single request in flight) and the state is judged through a fresh process; a no-crash control run of each operation must satisfy the same oracle.",
   "Trusts hook placement between filesystem steps; models process death (SIGKILL), not power loss (the code never fsyncs); tmpfs. Known findings: post-publication steps (tags/lock, multipart cleanup), two-step delete marker, directory objects, the sidecar store's path-based metadata.", "3/C11"),
 "C17": ("exploration", "model-based admin/lookup histories judged after every acknowledgement (secret, role, uid/gid probes, ListUsers, users.json), gated cache-miss schedules at iamcache.afterFetch, porcupine per access key on concurrent histories, race-detector lane",
   "Sequential histories judge every lookup that starts after an acknowledged create/update/delete (current secret accepted, every older secret refused, role and uid/gid effective, store file valid); deterministic schedules interleave a cold-cache lookup with delete/update; concurrent histories of 8 clients are checked for linearizability per access key against an account register model.",
   "Trusts the account register model, porcupine, the single hook point in the cache-miss path; one gateway process as the property states; harness runs as root for chown probes.", "3/C17"),
 "C07": ("exploration", "differential runtime monitor: reference S3 listing model + page-chain oracle vs direct calls of backend.Walk on generated in-memory trees and vs real ListObjects V1/V2 on posix buckets",
   "Generated key sets (bytes below and above '/', nested prefixes, directory objects, keys that prefix others) x prefix x delimiter (incl. multi-character) x max-keys x marker/start-after/continuation-token; every first page and every followed marker chain is compared with an independent reference listing (each entry exactly once, ascending, <= max per page, terminating, true Size/ETag, no internal names). Held on the generated cases only.",
   "Trusts the reference listing written from the S3 rules; posix cannot hold every key set (refused uploads are left out of the reference). Known findings: directory-walk order is not key order for siblings with a byte below '/', non-empty directory objects are not listed with a delimiter.", "3/C07"),
 "C06": ("exploration", "fault-injecting client + state monitor: every upload mode x integrity field x corruption is sent to a real gateway, the key/part is compared with its previous state; uncorrupted twins as controls",
   "PutObject and UploadPart in five payload encodings with exactly one integrity assertion falsified per case (Content-MD5, x-amz-content-sha256, five checksum algorithms as header and trailer, chunk and trailer signatures, declared lengths, truncations, extra data) on new and existing keys; a corrupted upload must be refused and leave the key byte-identical to before, the control must store exactly the declared bytes.",
   "Trusts the harness's own SigV4/aws-chunked encoders (validated against the gateway by the self-test), tmpfs. Arguable inputs (bytes after the final chunk, omitted final chunk with intact data) are observed, not judged.", "3/C06"),
 "C14": ("exploration", "differential runtime monitor: reference policy evaluator / glob matcher / validity judge vs direct calls of the exported auth functions (exhaustive glob space up to length 4/5 over {a,b,*,?}) and vs real requests under generated policies",
   "The exported evaluator, glob matcher and document validator are called on millions of generated (policy, caller, action, resource) and (pattern, subject) cases and compared with a reference written from the property statement; the glob space over {a,b,*,?} is enumerated completely up to length 4 (quick) / 5 (thorough); invalid documents are PUT over a valid policy and the old policy must stay in force; real requests by two users under generated policies are compared with the reference decision.",
   "Trusts the reference evaluator; documents whose validity the statement leaves open (wildcard action with one resource kind) are generated but not judged.", "3/C14"),
 "C16": ("exploration", "reference naming predicate vs IsValidBucketName and real CreateBucket; settings round-trip monitor with restarts and byte-exact snapshots; ListBuckets ownership/paging chains; hook-point scheduler for DeleteBucket against concurrent uploads (both directions, same/other process); stress with conservation check; race lane",
   "Bucket names are generated against the core S3 rules; each bucket setting is put/deleted/read back on two gateway processes with a restart in between; creating an existing bucket by three kinds of caller must leave a byte-exact snapshot unchanged; every ListBuckets prefix/max-buckets/continuation chain for three owners is compared with the ownership model; DeleteBucket is held at each of its steps while an upload completes (and the converse) and the outcome pair is judged (never both acknowledged with the object lost).",
   "Trusts the hook placement, the core-rules reading of 'S3 naming rules' (extended rules not judged). Known finding: an upload in flight re-creates a bucket that DeleteBucket removed meanwhile.", "3/C16"),
 "C04": ("exploration", "hostile-parameter workload against a uid-confined gateway in a jail tree with canaries at every directory level; monitors: byte-exact snapshot of everything outside the named bucket, canary contents / planted names in responses, sibling objects of the named bucket",
   "Every path-like client parameter (bucket, key, copy source parts, listing prefix/markers/delimiter, versionId, uploadId, partNumber, DeleteObjects keys and version ids, admin bucket) is filled with escapes (13 spellings of '..' x depth 1-8 x file/directory tails, absolute paths) on every operation that takes it, by the bucket's non-admin owner and by root; after each request the whole jail is diffed and the response is searched for canaries.",
   "Trusts snapshot completeness (content hash, mode, owner, xattrs); escapes that fasthttp or the URI/signature layer refuse never reach the handlers and are counted but trivial. The gateway runs as uid 4242 so that a confinement bug cannot touch the machine.", "3/C04"),
 "C12": ("exploration", "fragmentation-enumerating reader shim around the exported chunk readers (every single cut and header-neighbourhood cut pairs of short streams, boundary-biased cuts of long ones, 12 destination buffer sizes) with an independent encoder; every single-byte mutation and truncation of short streams; real chunked PUTs over sockets written in chosen fragments",
   "For legal streams of all three aws-chunked modes and five checksum algorithms the decoded bytes must equal the payload and end with io.EOF under EVERY enumerated fragmentation and buffer size; every single-byte mutation, truncation point and named defect of short streams must end in an error or in exactly the payload. Exhaustive over single cuts for streams <= 600 bytes; long streams and socket fragmentation are sampled.",
   "Trusts the harness encoder (written from the AWS specification and self-checked per stream), and that a reader-level fragmentation shim represents network read boundaries.", "3/C12"),
 "C02": ("exploration", "endpoint catalogue x credential-defect catalogue x body/encoding against a uid-confined gateway; monitors: status class, byte-exact snapshot of root/versioning/sidecar/IAM trees, canary strings in responses; positive control per endpoint",
   "Every route/sub-resource/path shape (104 catalogue entries incl. trailing-slash and directory forms, copies, multipart, admin) is sent with each of 42 SigV4 defects (missing/malformed authorization, unknown key, wrong secret, flipped signature nibble, altered signed header/query/payload/hash, date skew by hours, scope/region/service mismatch, presign expiry/alteration, streaming seed/chunk inconsistencies) and each body class (empty, valid, 1 MiB, three aws-chunked encodings), signed as root and as an IAM admin; the request must be answered 4xx, leave the four trees byte-identical and disclose no seeded data. The same entry with a correct signature must have its effect, else the entry counts as dead.",
   "Trusts the harness's independent SigV4 implementation (validated by the positive controls), snapshot completeness; dates are skewed by hours so no verdict depends on machine speed.", "3/C02"),
}
PENDING_REASON = "check not yet built in this session (under construction; see DESIGN.md section 3)"
props=[json.loads(l)["id"] for l in open(os.path.join(V,"properties.jsonl"))]
NA = {}  # id -> reason for genuinely not applicable properties
m = {
 "version": 1,
 "setup_cmd": "./check --setup",
 "hooks": {"guard":"verif","enable":"go build -tags verif ./cmd/versitygw (hook package internal/verifhook; points are single added lines verifhook.Point(name))",
           "baseline_off_cmd":"cd /repo && go test -mod=mod -vet=off -count=1 -timeout 25m ./...",
           "source_commits":hook_commits,"add_only":True},
 "engines":[{"name":"vcheck","path":"harness/cmd/vcheck","serves_properties":sorted(CHECKS),"kind_free_text":"Go harness: starts real versitygw processes built from /repo with -tags verif (and -race), drives generated/hostile/concurrent workloads through an independent SigV4 client, and decides with runtime monitors (reference models, snapshots, hook scheduler, porcupine)"}],
 "checks":[],
 "notes":"All checks are runtime monitors over executions of the real code (see DESIGN.md). known-findings.txt lists recorded/fixed genuine defects.",
 "not_applicable":[],
}
for pid in props:
    if pid in CHECKS:
        lvl,tech,text,note,ref = CHECKS[pid]
        m["checks"].append({"property_id":pid,"quick_cmd":f"./check {pid} quick","thorough_cmd":f"./check {pid} thorough",
          "evidence_file":f"evidence/{pid}.json","replay_cmd_template":f"./check {pid} --replay {{path}}","engine":"vcheck",
          "level_claimed":{"category":lvl,"text":text,"design_ref":"DESIGN.md section "+ref},"level_note":note,"technique":tech})
    else:
        m["not_applicable"].append({"property_id":pid,"reason":NA.get(pid,PENDING_REASON)})
json.dump(m,open(os.path.join(V,"MANIFEST.json"),"w"),indent=1)
print("checks:",len(m["checks"]),"not_applicable:",len(m["not_applicable"]))
