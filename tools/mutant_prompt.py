#!/usr/bin/env python3
"""prints the prompt for a seeded-change sub-agent: tools/mutant_prompt.py C05 m1 ["extra hint"]"""
import json,sys
pid,tag=sys.argv[1],sys.argv[2]
hint=sys.argv[3] if len(sys.argv)>3 else ""
p=[json.loads(l) for l in open('/verif/properties.jsonl') if json.loads(l)['id']==pid][0]
ID=f"{pid}-{tag}"
print(f"""You are helping to evaluate a verification framework by seeding ONE realistic defect into a copy of a Go project. Work ONLY in your own scratch git worktree of versity/versitygw: create it with `git -C /repo worktree add /tmp/seed-{ID} HEAD`. Never modify /repo itself. Do not read, list or use anything under /verif (it holds the framework under evaluation; your change must be independent of it). Every shell call needs: export GOFLAGS=-mod=mod GOPROXY=off GOSUMDB=off GOTOOLCHAIN=local (no network).

The property that your change must break:
  Title: {p['title']}
  Statement: {p['statement']}
  It is meant to hold: {p['quantifier']['text']}

Task: change the gateway's source in your worktree so that this property is BROKEN, while
 (a) the project still compiles (`go build ./...`),
 (b) the existing test suite still passes exactly as before (`go test -mod=mod -vet=off -count=1 ./...`; package cmd/versitygw fails on the unchanged tree too - ignore that one),
 (c) the breakage needs something SPECIFIC to manifest - a particular interleaving of concurrent requests, a crash or fault at a particular point, a multi-step sequence of operations, an unusual input, or two cooperating code sites that each look fine alone - NOT something that ordinary use (a plain put/get/list of a normal object) would expose at once.
It should look like a plausible mistake, "optimisation" or refactoring a maintainer could make; keep it small (ideally < 30 changed lines), in non-test code. Do not touch the package internal/verifhook, and leave every existing `verifhook.Point(...)` line where it is (they are inert instrumentation points). {hint}

Also write a DEMONSTRATION: a Go test file or a small program/script that FAILS (non-zero exit) on your changed tree and PASSES on the unchanged tree, runnable with one shell command from the worktree root. It may start the real gateway (build: `go build -o /tmp/seed-{ID}-vgw ./cmd/versitygw`; run: `ROOT_ACCESS_KEY=ak ROOT_SECRET_KEY=sk /tmp/seed-{ID}-vgw --port 127.0.0.1:<port> --iam-dir <dir> --quiet posix [--versioning-dir <d>] [--sidecar <d>] [--disableotmp] [--chuid --chgid] <rootdir>`; the admin API (PATCH /create-user etc., XML bodies) is on the same port; `--readonly` and `--event-webhook-url <url>` are global flags before `posix`; tmpfs /dev/shm supports xattrs) and talk to it with the aws-sdk-go-v2 S3 client that is already a dependency of the module (custom endpoint, path style, static credentials, region us-east-1), or it may call exported functions directly. Pick free ports (bind 127.0.0.1:0), keep scratch data under /tmp/seed-{ID}-data, kill every process you start, make the demo deterministic (no flaky timing: if it needs an interleaving or a crash at a particular step, force it - the repository has inert instrumentation points that become active when the gateway is built with `-tags verif`: read the doc comment of /repo/internal/verifhook/hook_on.go (environment variables that log, delay, block or SIGKILL the process at a named point; `grep -rn verifhook.Point` lists the points) - or use a very large body, a FIFO, or call the racing functions directly).

Deliver in /tmp/seed-{ID}-out/ :
  patch.diff   = `git diff` of the SOURCE change only (not the demo files)
  demo files   = the test/program (they are copied into the worktree root for running, so a test file should live in its own directory, e.g. demo_{tag}/demo_test.go with its own package, or be a `go run`-able main under demo_{tag}/)
  NOTES.md     = what you changed and why it breaks the property; what exactly is needed for it to manifest; the exact one-line command that runs the demo from the worktree root; expected result with and without the patch.
Verify (a), (b), (c) yourself, including running the demo on a SECOND clean worktree without the patch (must pass) and on the patched one (must fail). Remove your worktrees at the end (`git -C /repo worktree remove --force <dir>`), keep only /tmp/seed-{ID}-out. Final answer: a short summary and the paths.""")
