#!/usr/bin/env python3
"""Rewrites the seeded-changes table of DESIGN.md (between the SEEDED-TABLE markers) from seeded/*/meta.json."""
import json,glob,os,re
rows=[]; n=caught=first=0
for f in sorted(glob.glob('/verif/seeded/*/meta.json')):
    m=json.load(open(f)); id=os.path.basename(os.path.dirname(f)); ev=m.get('evaluation',{})
    hist=ev.get('history','')
    n+=1
    if ev.get('detected'):
        caught+=1
        status='caught'
        if hist.startswith('MISSED'): status='missed at first, caught after strengthening'
        else: first+=1
    elif ev.get('detected_by_other_check_only'):
        status='MISSED by its own check, caught by '+'+'.join(ev.get('detected_by',[]))
    elif 'detected' in ev: status='MISSED'
    else: status='(not evaluated yet)'
    others=[p for p in ev.get('detected_by',[]) if p!=m['property']]
    if ev.get('detected') and others: status+=' (also by '+', '.join(others)+')'
    viol='; '.join(v.split(': ',1)[-1] for v in ev.get('violations',[])[:2])
    rows.append(f"| {id} | {m['property']} | {m['needs']} | {status} | `{viol}` |")
    if hist: rows.append(f"| | | *{hist}* | | |")
head=f"{n} seeded changes kept; {caught} are caught by the check of their own property in the quick tier ({first} of them by the check as it was when the change arrived, {caught-first} after the check was strengthened).\n\n"
table=head+"| seeded change | property | what it needs in order to manifest | result (./check quick against the patched scratch tree) | first signatures |\n|---|---|---|---|---|\n"+'\n'.join(rows)
s=open('/verif/DESIGN.md').read()
a,b='<!-- SEEDED-TABLE-BEGIN -->','<!-- SEEDED-TABLE-END -->'
if a not in s:
    raise SystemExit("markers missing")
s=s[:s.index(a)+len(a)]+'\n'+table+'\n'+s[s.index(b):]
open('/verif/DESIGN.md','w').write(s)
print(len(rows),"rows;",n,"seeds,",caught,"caught,",first,"at once")
