#!/usr/bin/env python3
"""Rewrites the seeded-changes table of DESIGN.md (between the SEEDED-TABLE markers) from seeded/*/meta.json."""
import json,glob,os,re
rows=[]
for f in sorted(glob.glob('/verif/seeded/*/meta.json')):
    m=json.load(open(f)); id=os.path.basename(os.path.dirname(f)); ev=m.get('evaluation',{})
    hist=ev.get('history','')
    status='caught' if ev.get('detected') else 'MISSED'
    if ev.get('detected') and hist.startswith('MISSED'): status='missed at first, caught after strengthening'
    viol='; '.join(ev.get('violations',[])[:2])
    rows.append(f"| {id} | {m['property']} | {m['needs']} | {status} | `{viol}` |")
    if hist: rows.append(f"| | | *{hist}* | | |")
table="| seeded change | property | what it needs in order to manifest | result (./check quick against the patched scratch tree) | first signatures |\n|---|---|---|---|---|\n"+'\n'.join(rows)
s=open('/verif/DESIGN.md').read()
a,b='<!-- SEEDED-TABLE-BEGIN -->','<!-- SEEDED-TABLE-END -->'
if a not in s:
    raise SystemExit("markers missing")
s=s[:s.index(a)+len(a)]+'\n'+table+'\n'+s[s.index(b):]
open('/verif/DESIGN.md','w').write(s)
print(len(rows),"rows")
