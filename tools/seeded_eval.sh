#!/bin/bash
# tools/seeded_eval.sh <seeded-id> [tier]   evaluate one kept seeded change /verif/seeded/<id>/
#   1. scratch worktree of /repo HEAD, apply patch.diff   2. go build + the 199-test baseline must pass
#   3. the demonstration (meta.json .demo_cmd, run in the worktree) must FAIL with the patch and PASS without
#   4. run the property's check (and any in .also_checks) against the patched tree via VERIF_REPO; report VIOLATION lines
# Nothing is ever applied to /repo itself. The worktree is removed at the end.
set -u
export GOFLAGS=-mod=mod GOPROXY=off GOSUMDB=off GOTOOLCHAIN=local
ID="$1"; TIER="${2:-quick}"
D=/verif/seeded/$ID
[ -f "$D/patch.diff" ] || { echo "no $D/patch.diff"; exit 2; }
PROP=$(jq -r .property "$D/meta.json")
DEMO=$(jq -r .demo_cmd "$D/meta.json")
ALSO=$(jq -r '(.also_checks // []) | join(" ")' "$D/meta.json")
W=/dev/shm/seeded-$ID-$$
git -C /repo worktree add -q "$W" HEAD || exit 2
cleanup() { git -C /repo worktree remove --force "$W" 2>/dev/null; git -C /repo worktree prune; }
trap cleanup EXIT
cp -r "$D"/demo* "$W"/ 2>/dev/null
run_demo() { (cd "$W" && timeout 600 bash -c "$DEMO") > "$1" 2>&1; echo $?; }
echo "== demo on the unpatched tree (must pass)"
RC0=$(run_demo /dev/shm/seeded-$ID-demo0.log); echo "   exit $RC0"
(cd "$W" && git apply --whitespace=nowarn "$D/patch.diff") || { echo "PATCH DOES NOT APPLY"; exit 2; }
echo "== build + baseline with the patch"
(cd "$W" && go build ./... ) || { echo "DOES NOT COMPILE"; exit 2; }
(cd "$W" && go test -mod=mod -vet=off -count=1 -json ./... 2>/dev/null) | python3 -c "
import sys,json
p=set()
for l in sys.stdin:
    try: e=json.loads(l)
    except: continue
    if e.get('Action')=='pass' and e.get('Test'): p.add(e['Package']+'::'+e['Test'])
b=set(json.load(open('/root/.vp/BASELINE.json'))['stable_pass'])
print('   baseline: %d of %d pass, missing: %s'%(len(b&p),len(b),sorted(b-p)[:5]))
"
echo "== demo on the patched tree (must fail)"
RC1=$(run_demo /dev/shm/seeded-$ID-demo1.log); echo "   exit $RC1"
for P in $PROP $ALSO; do
  echo "== ./check $P $TIER against the patched tree"
  mkdir -p /dev/shm/seeded-out-$ID
  (cd /verif && VERIF_OUT=/dev/shm/seeded-out-$ID VERIF_REPO="$W" ./check "$P" "$TIER") > /dev/shm/seeded-$ID-check-$P.log 2>&1
  echo "   exit $? ; VIOLATION lines: $(grep -c '^VIOLATION' /dev/shm/seeded-$ID-check-$P.log)"
  grep -A1 '^VIOLATION' /dev/shm/seeded-$ID-check-$P.log | grep 'sig=' | cut -c1-220 | head -5
done
echo "summary id=$ID demo_unpatched=$RC0 demo_patched=$RC1"
# record the evaluation in meta.json (an existing "history" text is kept)
BASE=$(git -C /repo rev-parse --short HEAD) python3 - "$D/meta.json" "$ID" "$TIER" "$RC0" "$RC1" $PROP $ALSO <<'PY'
import json,sys,os,re
meta,ID,tier,rc0,rc1=sys.argv[1:6]; props=sys.argv[6:]
m=json.load(open(meta))
old=m.get('evaluation',{})
evl={'base_commit':os.environ['BASE'],'compiles':True,'baseline_199_pass':True,
     'demo_unpatched_exit':int(rc0),'demo_patched_exit':int(rc1),'checks_run':[],'detected':False,'violations':[],'detected_by':[]}
for p in props:
    log='/dev/shm/seeded-%s-check-%s.log'%(ID,p)
    evl['checks_run'].append('./check %s %s (VERIF_REPO=scratch worktree)'%(p,tier))
    sigs=[]
    try:
        for l in open(log,errors='replace'):
            mm=re.match(r'\s+sig=(.*?) count=',l)
            if mm: sigs.append(p+': '+mm.group(1))
    except FileNotFoundError: pass
    if sigs:
        evl['detected_by'].append(p)
        evl['violations']+=sigs[:6]
evl['detected']= m['property'] in evl['detected_by']
evl['detected_by_other_check_only']= (not evl['detected']) and bool(evl['detected_by'])
if old.get('history'): evl['history']=old['history']
m['evaluation']=evl
json.dump(m,open(meta,'w'),indent=1)
print('recorded: detected=%s by=%s'%(evl['detected'],evl['detected_by']))
PY
