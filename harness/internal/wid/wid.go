// Package wid makes histories unambiguous: every write gets a unique id that is
// recoverable from the body (hash and length), the ETag, a user-metadata header
// and the content type, so a read identifies the write it observed four ways.
package wid

import (
	"crypto/md5"
	"encoding/hex"
	"fmt"
	"math/rand"
	"strconv"
	"strings"
	"sync"

	"verif/harness/internal/s3c"
)

type Write struct {
	ID    int
	Body  []byte
	MD5   string
	CType string
}

// Hdr returns the identifying request headers of the write.
func (w *Write) Hdr() []string {
	return []string{"X-Amz-Meta-Wid", strconv.Itoa(w.ID), "Content-Type", w.CType}
}

type Set struct {
	mu    sync.Mutex
	next  int
	byMD5 map[string]*Write
	byID  map[int]*Write
}

func NewSet() *Set { return &Set{byMD5: map[string]*Write{}, byID: map[int]*Write{}} }

// Mk creates a fresh write; small: 1..3001 bytes, big: 100000..300000 bytes, length determined by the id.
func (ws *Set) Mk(big bool) *Write {
	ws.mu.Lock()
	ws.next++
	id := ws.next
	ws.mu.Unlock()
	n := 1 + (id*7919)%3001
	if big {
		n = 100000 + (id*104729)%200000
	}
	return ws.mkN(id, n)
}

// MkSize creates a fresh write of exactly n bytes.
func (ws *Set) MkSize(n int) *Write {
	ws.mu.Lock()
	ws.next++
	id := ws.next
	ws.mu.Unlock()
	return ws.mkN(id, n)
}

func (ws *Set) mkN(id, n int) *Write {
	r := rand.New(rand.NewSource(int64(id)*2654435761 + 17))
	b := make([]byte, n)
	r.Read(b)
	copy(b, []byte(fmt.Sprintf("w%d|", id)))
	s := md5.Sum(b)
	w := &Write{ID: id, Body: b, MD5: hex.EncodeToString(s[:]), CType: fmt.Sprintf("application/x-w-%d", id)}
	ws.mu.Lock()
	ws.byMD5[w.MD5] = w
	ws.byID[id] = w
	ws.mu.Unlock()
	return w
}

// AliasETag registers another ETag (e.g. a multipart ETag) for a write.
func (ws *Set) AliasETag(etag string, w *Write) {
	ws.mu.Lock()
	ws.byMD5[strings.Trim(etag, `"`)] = w
	ws.mu.Unlock()
}

func (ws *Set) ByETag(etag string) *Write {
	ws.mu.Lock()
	defer ws.mu.Unlock()
	return ws.byMD5[strings.Trim(etag, `"`)]
}

func (ws *Set) ByID(id int) *Write {
	ws.mu.Lock()
	defer ws.mu.Unlock()
	return ws.byID[id]
}

// Obs is what one read said, reduced to write ids.
type Obs struct {
	Status  int
	Wid     int    // agreed write id; 0 = absent; -1 = torn
	Torn    string // description of the inconsistency
	Refused bool   // an answer other than 200/404, or no answer
}

func widOfCtype(ct string) int {
	if strings.HasPrefix(ct, "application/x-w-") {
		n, err := strconv.Atoi(strings.TrimPrefix(ct, "application/x-w-"))
		if err == nil {
			return n
		}
	}
	return -1
}

// Judge is the atomicity monitor for a GET (head=false) or HEAD response.
func (ws *Set) Judge(r *s3c.Resp, head bool) Obs {
	if r.Err != nil {
		if strings.HasPrefix(r.Err.Error(), "read body") {
			return Obs{Status: 200, Wid: -1, Torn: "response body shorter than its Content-Length (" + r.Raw + "): " + r.Err.Error()}
		}
		return Obs{Refused: true}
	}
	if r.Status == 404 {
		return Obs{Status: 404, Wid: 0}
	}
	if r.Status != 200 {
		return Obs{Status: r.Status, Refused: true}
	}
	o := Obs{Status: 200}
	we := ws.ByETag(r.Header.Get("Etag"))
	metaW, _ := strconv.Atoi(r.Header.Get("X-Amz-Meta-Wid"))
	ctW := widOfCtype(r.Header.Get("Content-Type"))
	cl, _ := strconv.Atoi(r.Header.Get("Content-Length"))
	var parts []string
	etagW := -1
	if we != nil {
		etagW = we.ID
	}
	ids := map[string]int{"etag": etagW, "meta": metaW, "ctype": ctW}
	if !head {
		s := md5.Sum(r.Body)
		wb := ws.ByETag(hex.EncodeToString(s[:]))
		if wb == nil {
			ids["body"] = -1
			parts = append(parts, fmt.Sprintf("body(len %d) is not the complete body of any write", len(r.Body)))
		} else {
			ids["body"] = wb.ID
		}
	}
	ref := etagW
	if v, ok := ids["body"]; ok && v > 0 {
		ref = v
	}
	if ref > 0 {
		if wr := ws.ByID(ref); wr != nil && cl != len(wr.Body) {
			parts = append(parts, fmt.Sprintf("Content-Length %d but write %d has %d bytes", cl, ref, len(wr.Body)))
		}
	}
	first := -2
	for _, k := range []string{"body", "etag", "meta", "ctype"} {
		v, ok := ids[k]
		if !ok {
			continue
		}
		if first == -2 {
			first = v
		} else if v != first {
			parts = append(parts, fmt.Sprintf("%s belongs to write %d but another component to write %d", k, v, first))
			break
		}
	}
	if first <= 0 {
		parts = append(parts, "components do not identify a write")
	}
	if len(parts) > 0 {
		o.Torn = strings.Join(parts, "; ") + fmt.Sprintf(" [body/etag/meta/ctype ids=%v len=%d]", ids, cl)
		o.Wid = -1
		return o
	}
	o.Wid = first
	return o
}
