// Package ev carries the per-run context of a check: seed/tier, counters for
// the evidence file, the violation / known-finding discipline and replay files.
package ev

import (
	"bufio"
	"crypto/sha1"
	"encoding/hex"
	"encoding/json"
	"fmt"
	"math/rand"
	"os"
	"path/filepath"
	"sort"
	"strconv"
	"strings"
	"sync"
	"time"
)

// VerifDir is /verif (overridable for tests).
func VerifDir() string {
	if d := os.Getenv("VERIF_DIR"); d != "" {
		return d
	}
	return "/verif"
}

// OutDir is where evidence/ and replay/ are written (VERIF_OUT overrides it for runs against mutated trees,
// so that they do not overwrite the evidence of the real tree).
func OutDir() string {
	if d := os.Getenv("VERIF_OUT"); d != "" {
		return d
	}
	return VerifDir()
}

type Violation struct {
	Sig    string `json:"sig"`
	Case   string `json:"case"`
	Detail any    `json:"detail"`
	Count  int    `json:"count"`
	Replay string `json:"replay,omitempty"`
}

type Ctx struct {
	Prop  string
	Tier  string
	Seed  int64
	Level string
	Only  string // when set, only the case with this id is executed (replay)

	start time.Time
	mu    sync.Mutex

	evaluations  int
	distinct     map[string]bool
	samples      []any
	extra        map[string]any
	counters     map[string]int
	viol         map[string]*Violation
	violOrder    []string
	known        map[string]string // sig -> description (from known-findings.txt)
	knownMet     map[string]int
	knownSample  map[string]any
	inconclusive map[string]int
	observations map[string]int
	assumptions  []string
}

func New(prop, level string) *Ctx {
	tier := os.Getenv("VERIF_TIER")
	if tier != "thorough" {
		tier = "quick"
	}
	seed := int64(1)
	if s := os.Getenv("VERIF_SEED"); s != "" {
		if v, err := strconv.ParseInt(s, 10, 64); err == nil {
			seed = v
		}
	}
	c := &Ctx{Prop: prop, Tier: tier, Seed: seed, Level: level, Only: os.Getenv("VERIF_ONLY"), start: time.Now(),
		distinct: map[string]bool{}, extra: map[string]any{}, counters: map[string]int{}, viol: map[string]*Violation{},
		known: map[string]string{}, knownMet: map[string]int{}, knownSample: map[string]any{},
		inconclusive: map[string]int{}, observations: map[string]int{}}
	c.loadKnown()
	return c
}

func (c *Ctx) Thorough() bool { return c.Tier == "thorough" }

// Pick returns q in the quick tier and t in the thorough tier.
func (c *Ctx) Pick(q, t int) int {
	if c.Thorough() {
		return t
	}
	return q
}

// Rng returns a PRNG determined by the seed and a lane name.
func (c *Ctx) Rng(lane string) *rand.Rand {
	h := sha1.Sum([]byte(lane))
	var x int64
	for i := 0; i < 8; i++ {
		x = x<<8 | int64(h[i])
	}
	return rand.New(rand.NewSource(c.Seed*1000003 ^ x))
}

// Want reports whether the case with this id should run (replay filter).
func (c *Ctx) Want(caseID string) bool {
	return c.Only == "" || c.Only == caseID || strings.HasPrefix(caseID, c.Only+"/") || strings.HasPrefix(c.Only, caseID+"/")
}

func (c *Ctx) loadKnown() {
	c.loadKnownFile(filepath.Join(VerifDir(), "known-findings.txt"))
	c.loadKnownFile(filepath.Join(VerifDir(), "known-findings.d", c.Prop+".txt"))
}

func (c *Ctx) loadKnownFile(path string) {
	f, err := os.Open(path)
	if err != nil {
		return
	}
	defer f.Close()
	sc := bufio.NewScanner(f)
	sc.Buffer(make([]byte, 1<<20), 1<<20)
	for sc.Scan() {
		l := strings.TrimSpace(sc.Text())
		if !strings.HasPrefix(l, "KNOWN-FINDING:") {
			continue // comments and "fixed:" lines suppress nothing
		}
		rest := strings.TrimSpace(strings.TrimPrefix(l, "KNOWN-FINDING:"))
		fields := strings.Fields(rest)
		if len(fields) < 2 || fields[0] != "property="+c.Prop || !strings.HasPrefix(fields[1], "sig=") {
			continue
		}
		sig := strings.TrimPrefix(fields[1], "sig=")
		c.known[sig] = strings.Join(fields[2:], " ")
	}
}

func (c *Ctx) Eval(n int) {
	c.mu.Lock()
	c.evaluations += n
	c.mu.Unlock()
}

// Distinct records a distinct non-trivial case class.
func (c *Ctx) Distinct(key string) {
	c.mu.Lock()
	c.distinct[key] = true
	c.mu.Unlock()
}

func (c *Ctx) DistinctCount() int {
	c.mu.Lock()
	defer c.mu.Unlock()
	return len(c.distinct)
}

// Sample keeps up to 6 written-out cases.
func (c *Ctx) Sample(v any) {
	c.mu.Lock()
	if len(c.samples) < 6 {
		c.samples = append(c.samples, v)
	}
	c.mu.Unlock()
}

func (c *Ctx) Set(key string, v any) {
	c.mu.Lock()
	c.extra[key] = v
	c.mu.Unlock()
}

func (c *Ctx) Add(key string, n int) {
	c.mu.Lock()
	c.counters[key] += n
	c.mu.Unlock()
}

func (c *Ctx) Counter(key string) int {
	c.mu.Lock()
	defer c.mu.Unlock()
	return c.counters[key]
}

func (c *Ctx) Assume(s string) {
	c.mu.Lock()
	c.assumptions = append(c.assumptions, s)
	c.mu.Unlock()
}

// Inconclusive records a case that could not be judged.
func (c *Ctx) Inconclusive(why string) {
	c.mu.Lock()
	c.inconclusive[why]++
	c.mu.Unlock()
}

// Observe records a non-deciding observation (over-denial, dependency race, ...).
func (c *Ctx) Observe(what string) {
	c.mu.Lock()
	c.observations[what]++
	c.mu.Unlock()
}

// Violation records a refuting observation. sig identifies the specific defect
// (stable across runs); caseID re-executes the case under --replay.
func (c *Ctx) Violation(sig, caseID string, detail any) {
	c.mu.Lock()
	defer c.mu.Unlock()
	for k := range c.known {
		if k == sig || (strings.Contains(k, "*") && globMatch(k, sig)) {
			c.knownMet[k]++
			if _, ok := c.knownSample[k]; !ok {
				c.knownSample[k] = map[string]any{"sig": sig, "case": caseID, "detail": detail}
			}
			return
		}
	}
	v := c.viol[sig]
	if v == nil {
		v = &Violation{Sig: sig, Case: caseID, Detail: detail}
		c.viol[sig] = v
		c.violOrder = append(c.violOrder, sig)
	}
	v.Count++
}

// globMatch: '*' in the pattern matches any run of characters.
func globMatch(p, s string) bool {
	parts := strings.Split(p, "*")
	if !strings.HasPrefix(s, parts[0]) {
		return false
	}
	s = s[len(parts[0]):]
	for i := 1; i < len(parts); i++ {
		part := parts[i]
		if i == len(parts)-1 {
			return strings.HasSuffix(s, part)
		}
		j := strings.Index(s, part)
		if j < 0 {
			return false
		}
		s = s[j+len(part):]
	}
	return s == ""
}

func (c *Ctx) Violations() int {
	c.mu.Lock()
	defer c.mu.Unlock()
	return len(c.viol)
}

func sanitize(s string) string {
	var sb strings.Builder
	for _, r := range s {
		if r >= 'a' && r <= 'z' || r >= 'A' && r <= 'Z' || r >= '0' && r <= '9' || r == '-' || r == '_' || r == '.' {
			sb.WriteRune(r)
		} else {
			sb.WriteByte('_')
		}
	}
	out := sb.String()
	if len(out) > 60 {
		out = out[:60]
	}
	return out
}

// Finish writes the evidence file, prints KNOWN-FINDING / VIOLATION lines and
// returns the process exit code. minDistinct is the "observed nothing" guard.
func (c *Ctx) Finish(rule string, minDistinct int) int {
	c.mu.Lock()
	defer c.mu.Unlock()
	vd := OutDir()
	// replay files
	for _, sig := range c.violOrder {
		v := c.viol[sig]
		dir := filepath.Join(vd, "replay", c.Prop)
		os.MkdirAll(dir, 0o755)
		h := sha1.Sum([]byte(sig))
		p := filepath.Join(dir, sanitize(sig)+"-"+hex.EncodeToString(h[:4])+".json")
		b, _ := json.MarshalIndent(map[string]any{"property": c.Prop, "sig": sig, "seed": c.Seed, "tier": c.Tier,
			"case": v.Case, "detail": v.Detail, "count": v.Count}, "", " ")
		os.WriteFile(p, b, 0o644)
		v.Replay = p
	}
	cov := map[string]any{}
	for k, v := range c.extra {
		cov[k] = v
	}
	for k, v := range c.counters {
		cov[k] = v
	}
	cov["evaluations"] = c.evaluations
	cov["distinct_nontrivial"] = len(c.distinct)
	cov["rule"] = rule
	samples := c.samples
	if len(samples) == 0 {
		samples = []any{}
	}
	cov["samples"] = samples
	inc := 0
	for _, n := range c.inconclusive {
		inc += n
	}
	cov["inconclusive"] = inc
	if inc > 0 {
		cov["inconclusive_by_reason"] = c.inconclusive
	}
	if len(c.observations) > 0 {
		cov["observations"] = c.observations
	}
	var classes []string
	for k := range c.distinct {
		classes = append(classes, k)
	}
	sort.Strings(classes)
	if len(classes) > 40 {
		classes = append(classes[:40], fmt.Sprintf("... %d more", len(classes)-40))
	}
	cov["distinct_classes_seen"] = classes
	km := map[string]int{}
	for k, n := range c.knownMet {
		km[k] = n
	}
	cov["known_findings_met"] = km
	if len(c.knownSample) > 0 {
		cov["known_findings_witness"] = c.knownSample
	}
	var vl []*Violation
	for _, sig := range c.violOrder {
		vl = append(vl, c.viol[sig])
	}
	if len(vl) > 0 {
		cov["violation_list"] = vl
	}
	evd := map[string]any{
		"property_id": c.Prop, "tier": c.Tier, "seed": c.Seed, "level": c.Level, "coverage": cov,
		"assumptions": append([]string{}, c.assumptions...), "wall_s": time.Since(c.start).Seconds(), "violations": len(vl),
	}
	b, _ := json.MarshalIndent(evd, "", " ")
	if c.Only == "" {
		os.MkdirAll(filepath.Join(vd, "evidence"), 0o755)
		os.WriteFile(filepath.Join(vd, "evidence", c.Prop+".json"), b, 0o644)
	}
	// stdout summary
	fmt.Printf("%s %s seed=%d: evaluations=%d distinct_nontrivial=%d inconclusive=%d wall=%.1fs\n", c.Prop, c.Tier, c.Seed,
		c.evaluations, len(c.distinct), inc, time.Since(c.start).Seconds())
	var kk []string
	for k := range c.knownMet {
		kk = append(kk, k)
	}
	sort.Strings(kk)
	for _, k := range kk {
		fmt.Printf("KNOWN-FINDING: property=%s sig=%s %s (met %d times)\n", c.Prop, k, c.known[k], c.knownMet[k])
	}
	for i, v := range vl {
		if i >= 25 {
			fmt.Printf("... and %d more violation signatures (see evidence/%s.json violation_list and replay/%s/)\n", len(vl)-i, c.Prop, c.Prop)
			fmt.Printf("VIOLATION property=%s replay=%s\n", c.Prop, vl[len(vl)-1].Replay)
			break
		}
		d, _ := json.Marshal(v.Detail)
		if len(d) > 600 {
			d = append(d[:600], "..."...)
		}
		fmt.Printf("VIOLATION property=%s replay=%s\n  sig=%s count=%d case=%s detail=%s\n", c.Prop, v.Replay, v.Sig, v.Count, v.Case, d)
	}
	if len(vl) > 0 {
		return 1
	}
	if c.Only == "" && len(c.distinct) < minDistinct {
		fmt.Printf("%s: OBSERVED TOO LITTLE: distinct_nontrivial=%d < %d - this run is inconclusive, not a pass\n", c.Prop, len(c.distinct), minDistinct)
		return 2
	}
	return 0
}
