// Package gate is the harness side of the verifhook scheduler socket: a
// gateway built with -tags verif blocks at gated hook points until released.
package gate

import (
	"bufio"
	"fmt"
	"net"
	"os"
	"path/filepath"
	"strings"
	"sync"
	"time"
)

// Hit is one goroutine blocked at a hook point.
type Hit struct {
	Pid  string
	Gid  string
	Name string
	conn net.Conn
	once sync.Once
}

func (h *Hit) Who() string { return h.Pid + "/" + h.Gid }

// Release lets the goroutine continue.
func (h *Hit) Release() {
	h.once.Do(func() {
		h.conn.Write([]byte{1})
		h.conn.Close()
	})
}

// Ctl owns the scheduler socket.
type Ctl struct {
	Sock string
	ln   net.Listener
	held chan *Hit

	mu     sync.Mutex
	policy func(h *Hit) bool // true = hold (deliver on Held), false = release at once
	trace  []string
	closed bool
}

var ctlSeq int
var ctlMu sync.Mutex

// New creates a controller with its socket in dir.
func New(dir string) (*Ctl, error) {
	ctlMu.Lock()
	ctlSeq++
	n := ctlSeq
	ctlMu.Unlock()
	sock := filepath.Join(dir, fmt.Sprintf("gate-%d-%d.sock", os.Getpid(), n))
	os.Remove(sock)
	ln, err := net.Listen("unix", sock)
	if err != nil {
		return nil, err
	}
	os.Chmod(sock, 0o777)
	c := &Ctl{Sock: sock, ln: ln, held: make(chan *Hit, 1024)}
	go c.accept()
	return c, nil
}

// Env returns the environment that makes a gateway use this controller for the given points ("*" = all).
func (c *Ctl) Env(points ...string) []string {
	if len(points) == 0 {
		points = []string{"*"}
	}
	return []string{"VERIF_HOOK_GATE=" + c.Sock, "VERIF_HOOK_GATED=" + strings.Join(points, ",")}
}

func (c *Ctl) accept() {
	for {
		cn, err := c.ln.Accept()
		if err != nil {
			return
		}
		go func(cn net.Conn) {
			br := bufio.NewReader(cn)
			line, err := br.ReadString('\n')
			if err != nil {
				cn.Close()
				return
			}
			f := strings.Fields(line)
			if len(f) < 3 {
				cn.Close()
				return
			}
			h := &Hit{Pid: f[0], Gid: f[1], Name: f[2], conn: cn}
			c.mu.Lock()
			c.trace = append(c.trace, h.Who()+" "+h.Name)
			p := c.policy
			hold := false
			if p != nil {
				hold = p(h)
			}
			closed := c.closed
			c.mu.Unlock()
			if hold && !closed {
				c.held <- h
			} else {
				h.Release()
			}
		}(cn)
	}
}

// SetPolicy installs the hold/release decision (called under the controller's lock, in arrival order).
func (c *Ctl) SetPolicy(p func(h *Hit) bool) {
	c.mu.Lock()
	c.policy = p
	c.mu.Unlock()
}

// ResetTrace clears and returns the list of hits seen so far ("pid/gid name").
func (c *Ctl) ResetTrace() []string {
	c.mu.Lock()
	t := c.trace
	c.trace = nil
	c.mu.Unlock()
	return t
}

// WaitHeld waits for the next held hit (nil on timeout).
func (c *Ctl) WaitHeld(d time.Duration) *Hit {
	select {
	case h := <-c.held:
		return h
	case <-time.After(d):
		return nil
	}
}

// DrainRelease releases everything currently held.
func (c *Ctl) DrainRelease() {
	for {
		select {
		case h := <-c.held:
			h.Release()
		default:
			return
		}
	}
}

// Close releases everything and removes the socket.
func (c *Ctl) Close() {
	c.mu.Lock()
	c.closed = true
	c.policy = nil
	c.mu.Unlock()
	c.ln.Close()
	c.DrainRelease()
	os.Remove(c.Sock)
}

// HoldNth returns a policy that identifies the first goroutine that hits after
// installation as the paused request P and holds P's j-th hit (1-based); every
// other hit is released at once. The returned func reports P's hit names so far.
func HoldNth(j int) (policy func(h *Hit) bool, seen func() []string) {
	var who string
	var names []string
	var mu sync.Mutex
	policy = func(h *Hit) bool {
		mu.Lock()
		defer mu.Unlock()
		if who == "" {
			who = h.Who()
		}
		if h.Who() != who {
			return false
		}
		names = append(names, h.Name)
		return len(names) == j
	}
	seen = func() []string {
		mu.Lock()
		defer mu.Unlock()
		return append([]string{}, names...)
	}
	return
}

// TraceFirst returns a policy that holds nothing and records the hit names of
// the first goroutine that hits after installation.
func TraceFirst() (policy func(h *Hit) bool, seen func() []string) {
	return HoldNth(-1)
}
