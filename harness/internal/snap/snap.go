// Package snap takes byte-exact snapshots of directory trees (content hash,
// mode, owner, user.* xattrs, symlink targets; never times) and diffs them.
package snap

import (
	"crypto/sha256"
	"encoding/hex"
	"fmt"
	"io"
	"os"
	"path/filepath"
	"sort"
	"strings"

	"golang.org/x/sys/unix"
)

// Entry is one filesystem object.
type Entry struct {
	Type  string // f d l o
	Mode  uint32
	UID   uint32
	GID   uint32
	Size  int64
	Hash  string
	Link  string
	Xattr map[string]string
}

func (e Entry) String() string {
	var xs []string
	for k, v := range e.Xattr {
		xs = append(xs, k+"="+v)
	}
	sort.Strings(xs)
	return fmt.Sprintf("%s %o %d:%d size=%d %s %s {%s}", e.Type, e.Mode, e.UID, e.GID, e.Size, e.Hash, e.Link, strings.Join(xs, ","))
}

// Snap maps relative path to entry.
type Snap map[string]Entry

func xattrs(path string) map[string]string {
	sz, err := unix.Llistxattr(path, nil)
	if err != nil || sz <= 0 {
		return nil
	}
	buf := make([]byte, sz+64)
	sz, err = unix.Llistxattr(path, buf)
	if err != nil {
		return nil
	}
	m := map[string]string{}
	for _, name := range strings.Split(string(buf[:sz]), "\x00") {
		if name == "" {
			continue
		}
		vsz, err := unix.Lgetxattr(path, name, nil)
		if err != nil {
			continue
		}
		v := make([]byte, vsz+16)
		vsz, err = unix.Lgetxattr(path, name, v)
		if err != nil {
			continue
		}
		m[name] = string(v[:vsz])
	}
	if len(m) == 0 {
		return nil
	}
	return m
}

// Take snapshots the tree below root. Paths for which skip returns true are left out (with their subtree).
func Take(root string, skip func(rel string) bool) (Snap, error) {
	s := Snap{}
	err := filepath.Walk(root, func(p string, fi os.FileInfo, err error) error {
		if err != nil {
			if os.IsNotExist(err) {
				return nil
			}
			return err
		}
		rel, _ := filepath.Rel(root, p)
		if skip != nil && rel != "." && skip(rel) {
			if fi.IsDir() {
				return filepath.SkipDir
			}
			return nil
		}
		e := Entry{Mode: uint32(fi.Mode().Perm())}
		if st, ok := fi.Sys().(*unix.Stat_t); ok {
			e.UID, e.GID = st.Uid, st.Gid
		} else {
			var st unix.Stat_t
			if unix.Lstat(p, &st) == nil {
				e.UID, e.GID = st.Uid, st.Gid
			}
		}
		switch {
		case fi.Mode()&os.ModeSymlink != 0:
			e.Type = "l"
			e.Link, _ = os.Readlink(p)
		case fi.IsDir():
			e.Type = "d"
			e.Xattr = xattrs(p)
		case fi.Mode().IsRegular():
			e.Type = "f"
			e.Size = fi.Size()
			f, err := os.Open(p)
			if err == nil {
				h := sha256.New()
				io.Copy(h, f)
				f.Close()
				e.Hash = hex.EncodeToString(h.Sum(nil)[:12])
			} else {
				e.Hash = "unreadable"
			}
			e.Xattr = xattrs(p)
		default:
			e.Type = "o"
		}
		s[rel] = e
		return nil
	})
	return s, err
}

// Diff lists the paths that differ (added "+", removed "-", changed "~").
func Diff(a, b Snap) []string {
	var out []string
	for p, ea := range a {
		eb, ok := b[p]
		if !ok {
			out = append(out, "- "+p+" ["+ea.String()+"]")
		} else if ea.String() != eb.String() {
			out = append(out, "~ "+p+" ["+ea.String()+"] -> ["+eb.String()+"]")
		}
	}
	for p, eb := range b {
		if _, ok := a[p]; !ok {
			out = append(out, "+ "+p+" ["+eb.String()+"]")
		}
	}
	sort.Strings(out)
	return out
}

// CopyTree copies a directory tree preserving modes, owners and xattrs (cp -a).
func CopyTree(src, dst string) error {
	return filepath.Walk(src, func(p string, fi os.FileInfo, err error) error {
		if err != nil {
			return err
		}
		rel, _ := filepath.Rel(src, p)
		t := filepath.Join(dst, rel)
		var st unix.Stat_t
		unix.Lstat(p, &st)
		switch {
		case fi.Mode()&os.ModeSymlink != 0:
			l, _ := os.Readlink(p)
			if err := os.Symlink(l, t); err != nil {
				return err
			}
			os.Lchown(t, int(st.Uid), int(st.Gid))
			return nil
		case fi.IsDir():
			if err := os.MkdirAll(t, fi.Mode().Perm()); err != nil {
				return err
			}
		case fi.Mode().IsRegular():
			in, err := os.Open(p)
			if err != nil {
				return err
			}
			out, err := os.OpenFile(t, os.O_CREATE|os.O_WRONLY|os.O_TRUNC, fi.Mode().Perm())
			if err != nil {
				in.Close()
				return err
			}
			_, err = io.Copy(out, in)
			in.Close()
			out.Close()
			if err != nil {
				return err
			}
		default:
			return nil
		}
		os.Chmod(t, fi.Mode().Perm())
		os.Lchown(t, int(st.Uid), int(st.Gid))
		for k, v := range xattrs(p) {
			unix.Lsetxattr(t, k, []byte(v), 0)
		}
		os.Chtimes(t, fi.ModTime(), fi.ModTime())
		return nil
	})
}
