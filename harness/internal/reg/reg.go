// Package reg is the registry of property checks.
package reg

import "verif/harness/internal/ev"

type Check struct {
	ID    string
	Level string
	Run   func(c *ev.Ctx) int // returns exit code (use c.Finish)
}

var All = map[string]Check{}

func Register(id, level string, run func(c *ev.Ctx) int) {
	All[id] = Check{ID: id, Level: level, Run: run}
}
