// Package fx bundles a store, one or more gateway processes on it and clients.
package fx

import (
	"fmt"
	"os"
	"path/filepath"
	"sync"
	"time"

	"verif/harness/internal/gw"
	"verif/harness/internal/s3c"
)

type Env struct {
	Name  string
	Store *gw.Store
	Cfg   gw.Config
	GWs   []*gw.GW
}

var mu sync.Mutex
var n int

// UniqueDir returns a fresh directory below the scratch dir.
func UniqueDir(name string) string {
	mu.Lock()
	n++
	k := n
	mu.Unlock()
	d := filepath.Join(gw.Scratch(), fmt.Sprintf("%s-%d", name, k))
	os.MkdirAll(d, 0o755)
	return d
}

// New creates a fresh store and starts count gateways with cfg on it.
func New(name string, cfg gw.Config, count int) (*Env, error) {
	st, err := gw.NewStore(UniqueDir(name))
	if err != nil {
		return nil, err
	}
	return OnStore(name, st, cfg, count)
}

// OnStore starts count gateways with cfg on an existing store.
func OnStore(name string, st *gw.Store, cfg gw.Config, count int) (*Env, error) {
	e := &Env{Name: name, Store: st, Cfg: cfg}
	cfg.Store = st
	for i := 0; i < count; i++ {
		c := cfg
		c.Name = fmt.Sprintf("%s%d", name, i)
		g, err := gw.Start(c)
		if err != nil {
			e.Close()
			return nil, err
		}
		e.GWs = append(e.GWs, g)
	}
	return e, nil
}

// Client returns a root client for gateway i.
func (e *Env) Client(i int) *s3c.Client {
	g := e.GWs[i]
	c := s3c.New(g.Addr, gw.RootAK, gw.RootSK)
	c.AdminAddr = g.AdminAddr
	c.Log = g
	return c
}

// Restart stops gateway i (SIGTERM) and starts a new process with the same configuration (new port).
func (e *Env) Restart(i int) error {
	e.GWs[i].Stop()
	g, err := gw.Start(e.GWs[i].Cfg)
	if err != nil {
		return err
	}
	e.GWs[i] = g
	return nil
}

// Dead returns a crash description if any gateway died or logged a panic.
func (e *Env) Dead() (int, *gw.Crash) {
	for i, g := range e.GWs {
		if g.Alive() {
			// a panicking process may still be printing its goroutine dump
			if g.ScrapeCrash() != nil {
				g.WaitExit(5 * time.Second)
			}
		}
		if !g.Alive() {
			c := g.ScrapeCrash()
			if c == nil {
				c = &gw.Crash{Message: fmt.Sprintf("process exited: %v", g.ExitErr())}
			}
			return i, c
		}
	}
	return -1, nil
}

// Close stops all gateways and removes the store.
func (e *Env) Close() {
	for _, g := range e.GWs {
		if g != nil {
			g.Stop()
		}
	}
	if e.Store != nil && os.Getenv("VERIF_KEEP") == "" {
		os.RemoveAll(e.Store.Base)
	}
}

// CreateUser creates an IAM account through the admin API of gateway 0.
func (e *Env) CreateUser(access, secret, role string, uid, gid int) *s3c.Resp {
	body := fmt.Sprintf(`<Account><Access>%s</Access><Secret>%s</Secret><Role>%s</Role><UserID>%d</UserID><GroupID>%d</GroupID></Account>`,
		s3c.XMLEsc(access), s3c.XMLEsc(secret), role, uid, gid)
	return e.Client(0).Admin("/create-user", "", []byte(body))
}
