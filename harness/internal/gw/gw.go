// Package gw builds, starts, stops and watches real versitygw processes.
package gw

import (
	"bufio"
	"bytes"
	"fmt"
	"net"
	"os"
	"os/exec"
	"path/filepath"
	"regexp"
	"strings"
	"sync"
	"syscall"
	"time"
)

const (
	RootAK = "rootaccesskey"
	RootSK = "rootsecretkey0123456789"
	Region = "us-east-1"
)

// Scratch is the private scratch directory of this run (VERIF_SCRATCH).
func Scratch() string {
	s := os.Getenv("VERIF_SCRATCH")
	if s == "" {
		panic("VERIF_SCRATCH not set (run through ./check)")
	}
	return s
}

func goEnv() []string {
	env := os.Environ()
	env = append(env, "GOFLAGS=-mod=mod", "GOPROXY=off", "GOSUMDB=off", "GOTOOLCHAIN=local", "CGO_ENABLED=1")
	return env
}

var buildMu sync.Mutex

// Binary returns the path of the gateway binary built from /repo's working tree
// with -tags verif (and -race when asked), building it on first use.
func Binary(race bool) (string, error) {
	buildMu.Lock()
	defer buildMu.Unlock()
	name := "versitygw"
	args := []string{"build", "-tags", "verif", "-o"}
	if race {
		name = "versitygw-race"
	}
	out := filepath.Join(Scratch(), name)
	if _, err := os.Stat(out); err == nil {
		return out, nil
	}
	args = append(args, out)
	if race {
		args = append(args, "-race")
	}
	args = append(args, "./cmd/versitygw")
	repo := os.Getenv("VERIF_REPO")
	if repo == "" {
		repo = "/repo"
	}
	cmd := exec.Command("go", args...)
	cmd.Dir = repo
	cmd.Env = goEnv()
	b, err := cmd.CombinedOutput()
	if err != nil {
		return "", fmt.Errorf("build gateway: %v\n%s", err, b)
	}
	return out, nil
}

// Store is a set of directories several gateway processes may share.
type Store struct {
	Base    string // everything lives below
	Root    string
	VerDir  string
	Sidecar string
	IAMDir  string
}

// NewStore creates the directories of a store below base (which is created).
func NewStore(base string) (*Store, error) {
	s := &Store{Base: base,
		Root:    filepath.Join(base, "root"),
		VerDir:  filepath.Join(base, "versions"),
		Sidecar: filepath.Join(base, "sidecar"),
		IAMDir:  filepath.Join(base, "iam"),
	}
	for _, d := range []string{s.Root, s.VerDir, s.Sidecar, s.IAMDir} {
		if err := os.MkdirAll(d, 0o755); err != nil {
			return nil, err
		}
	}
	return s, nil
}

// Chown gives the store to uid/gid (for confined gateways).
func (s *Store) Chown(uid, gid int) error {
	return filepath.Walk(s.Base, func(p string, _ os.FileInfo, err error) error {
		if err != nil {
			return err
		}
		return os.Lchown(p, uid, gid)
	})
}

// Config of one gateway process.
type Config struct {
	Name       string
	Store      *Store
	Race       bool
	Sidecar    bool
	NoOTmp     bool
	Versioning bool
	Readonly   bool
	Chown      bool   // --chuid --chgid
	Webhook    string // --event-webhook-url
	EvFilter   string // --event-filter
	Env        []string
	UID        int    // run as this uid/gid when non-zero
	MemLimitMB int    // RLIMIT_AS via prlimit when non-zero (non-race only)
	S3Proxy    *Proxy // run "s3" backend instead of posix
	AdminPort  bool
	Debug      bool
	ExtraArgs  []string
}

type Proxy struct {
	Endpoint string
	AK, SK   string
}

// GW is a running gateway process.
type GW struct {
	Cfg       Config
	Addr      string // 127.0.0.1:port
	AdminAddr string // separate admin listener (Config.AdminPort), "" otherwise
	URL       string // http://127.0.0.1:port
	LogPath   string
	cmd       *exec.Cmd
	done      chan struct{}
	waitErr   error
	mu        sync.Mutex
	reqLog    *os.File
}

func FreePort() (int, error) {
	l, err := net.Listen("tcp", "127.0.0.1:0")
	if err != nil {
		return 0, err
	}
	defer l.Close()
	return l.Addr().(*net.TCPAddr).Port, nil
}

var seqMu sync.Mutex
var seq int

// Start launches a gateway and waits until it accepts connections.
func Start(cfg Config) (*GW, error) {
	bin, err := Binary(cfg.Race)
	if err != nil {
		return nil, err
	}
	var lastErr error
	for attempt := 0; attempt < 5; attempt++ {
		g, err := start1(bin, cfg)
		if err == nil {
			return g, nil
		}
		lastErr = err
	}
	return nil, lastErr
}

func start1(bin string, cfg Config) (*GW, error) {
	port, err := FreePort()
	if err != nil {
		return nil, err
	}
	seqMu.Lock()
	seq++
	n := seq
	seqMu.Unlock()
	addr := fmt.Sprintf("127.0.0.1:%d", port)
	logDir := filepath.Join(Scratch(), "logs")
	os.MkdirAll(logDir, 0o777)
	os.Chmod(logDir, 0o777)
	logPath := filepath.Join(logDir, fmt.Sprintf("gw-%s-%d-%d.log", cfg.Name, os.Getpid(), n))
	args := []string{"--port", addr, "--iam-dir", cfg.Store.IAMDir, "--health", "/health", "--quiet"}
	if cfg.Readonly {
		args = append(args, "--readonly")
	}
	adminAddr := ""
	if cfg.AdminPort {
		ap, err := FreePort()
		if err != nil {
			return nil, err
		}
		adminAddr = fmt.Sprintf("127.0.0.1:%d", ap)
		args = append(args, "--admin-port", adminAddr)
	}
	if cfg.Webhook != "" {
		args = append(args, "--event-webhook-url", cfg.Webhook)
	}
	if cfg.EvFilter != "" {
		args = append(args, "--event-filter", cfg.EvFilter)
	}
	if cfg.Debug {
		args = append(args, "--debug")
	}
	args = append(args, cfg.ExtraArgs...)
	if cfg.S3Proxy != nil {
		args = append(args, "s3", "--endpoint", cfg.S3Proxy.Endpoint, "--access", cfg.S3Proxy.AK,
			"--secret", cfg.S3Proxy.SK, "--region", Region, "--disable-checksum", "--ssl-skip-verify")
	} else {
		args = append(args, "posix")
		if cfg.Versioning {
			args = append(args, "--versioning-dir", cfg.Store.VerDir)
		}
		if cfg.Sidecar {
			args = append(args, "--sidecar", cfg.Store.Sidecar)
		}
		if cfg.NoOTmp {
			args = append(args, "--disableotmp")
		}
		if cfg.Chown {
			args = append(args, "--chuid", "--chgid")
		}
		args = append(args, cfg.Store.Root)
	}
	var cmd *exec.Cmd
	if cfg.MemLimitMB > 0 && !cfg.Race {
		pargs := append([]string{fmt.Sprintf("--as=%d", int64(cfg.MemLimitMB)<<20), bin}, args...)
		cmd = exec.Command("prlimit", pargs...)
	} else {
		cmd = exec.Command(bin, args...)
	}
	lf, err := os.OpenFile(logPath, os.O_CREATE|os.O_WRONLY|os.O_TRUNC, 0o666)
	if err != nil {
		return nil, err
	}
	cmd.Stdout = lf
	cmd.Stderr = lf
	cmd.Dir = cfg.Store.Base
	cmd.Env = append([]string{"ROOT_ACCESS_KEY=" + RootAK, "ROOT_SECRET_KEY=" + RootSK, "PATH=" + os.Getenv("PATH"),
		"HOME=" + cfg.Store.Base, "GOTRACEBACK=all"}, cfg.Env...)
	if cfg.Race {
		cmd.Env = append(cmd.Env, "GORACE=halt_on_error=0 log_path="+logPath+".race")
	}
	cmd.SysProcAttr = &syscall.SysProcAttr{Setpgid: true, Pdeathsig: syscall.SIGKILL}
	if cfg.UID != 0 {
		cmd.SysProcAttr.Credential = &syscall.Credential{Uid: uint32(cfg.UID), Gid: uint32(cfg.UID), NoSetGroups: false, Groups: []uint32{}}
	}
	if err := cmd.Start(); err != nil {
		lf.Close()
		return nil, err
	}
	lf.Close()
	g := &GW{Cfg: cfg, Addr: addr, AdminAddr: adminAddr, URL: "http://" + addr, LogPath: logPath, cmd: cmd, done: make(chan struct{})}
	go func() {
		g.waitErr = cmd.Wait()
		close(g.done)
	}()
	// readiness: TCP connect + health endpoint
	deadline := time.Now().Add(60 * time.Second)
	for {
		select {
		case <-g.done:
			b, _ := os.ReadFile(logPath)
			return nil, fmt.Errorf("gateway exited during start: %v\n%s", g.waitErr, tail(b, 2000))
		default:
		}
		c, err := net.DialTimeout("tcp", addr, time.Second)
		if err == nil {
			c.Close()
			// the port may have been taken by somebody else between FreePort and the gateway's bind:
			// the connect then reaches a foreign listener. Only accept if OUR process owns the listener.
			if ownsListener(cmd.Process.Pid, port) {
				break
			}
			select {
			case <-g.done:
				b, _ := os.ReadFile(logPath)
				return nil, fmt.Errorf("gateway lost the race for port %d: %v\n%s", port, g.waitErr, tail(b, 500))
			default:
			}
		}
		if time.Now().After(deadline) {
			g.Kill()
			return nil, fmt.Errorf("gateway did not come up on %s", addr)
		}
		time.Sleep(20 * time.Millisecond)
	}
	rl, _ := os.OpenFile(logPath+".req", os.O_CREATE|os.O_WRONLY|os.O_APPEND, 0o666)
	g.reqLog = rl
	return g, nil
}

// ownsListener reports whether process pid holds the LISTEN socket on 127.0.0.1:port.
func ownsListener(pid, port int) bool {
	f, err := os.Open("/proc/net/tcp")
	if err != nil {
		return true // cannot tell
	}
	defer f.Close()
	want := fmt.Sprintf(":%04X", port)
	inode := ""
	sc := bufio.NewScanner(f)
	for n := 0; sc.Scan() && n < 200000; n++ {
		fl := strings.Fields(sc.Text())
		if len(fl) < 10 || fl[3] != "0A" {
			continue
		}
		if strings.HasSuffix(fl[1], want) {
			inode = fl[9]
			break
		}
	}
	if inode == "" {
		return false
	}
	ents, err := os.ReadDir(fmt.Sprintf("/proc/%d/fd", pid))
	if err != nil {
		return false
	}
	for _, e := range ents {
		l, err := os.Readlink(fmt.Sprintf("/proc/%d/fd/%s", pid, e.Name()))
		if err == nil && l == "socket:["+inode+"]" {
			return true
		}
	}
	return false
}

func tail(b []byte, n int) []byte {
	if len(b) > n {
		return b[len(b)-n:]
	}
	return b
}

// LogReq appends a line to the per-gateway request log (called before a request is sent).
func (g *GW) LogReq(line string) {
	g.mu.Lock()
	defer g.mu.Unlock()
	if g.reqLog != nil {
		g.reqLog.WriteString(strings.ReplaceAll(line, "\n", "\\n") + "\n")
	}
}

// Pid of the gateway process (of prlimit's exec'd child, same pid).
func (g *GW) Pid() int { return g.cmd.Process.Pid }

// Alive reports whether the process is still running.
func (g *GW) Alive() bool {
	select {
	case <-g.done:
		return false
	default:
		return true
	}
}

// WaitExit waits up to d for the process to exit; returns true if it did.
func (g *GW) WaitExit(d time.Duration) bool {
	select {
	case <-g.done:
		return true
	case <-time.After(d):
		return false
	}
}

// ExitSignal returns the signal that killed the process (0 if none / still running).
func (g *GW) ExitSignal() syscall.Signal {
	if g.Alive() {
		return 0
	}
	if ee, ok := g.waitErr.(*exec.ExitError); ok {
		if ws, ok := ee.Sys().(syscall.WaitStatus); ok && ws.Signaled() {
			return ws.Signal()
		}
	}
	return 0
}

func (g *GW) ExitErr() error { return g.waitErr }

// Stop terminates the gateway gracefully (SIGTERM, then SIGKILL).
func (g *GW) Stop() {
	if g.Alive() {
		g.cmd.Process.Signal(syscall.SIGTERM)
		if !g.WaitExit(5 * time.Second) {
			g.Kill()
		}
	}
	g.closeLog()
}

// Kill sends SIGKILL and waits.
func (g *GW) Kill() {
	if g.Alive() {
		syscall.Kill(-g.cmd.Process.Pid, syscall.SIGKILL)
		g.cmd.Process.Kill()
		g.WaitExit(10 * time.Second)
	}
	g.closeLog()
}

func (g *GW) closeLog() {
	g.mu.Lock()
	if g.reqLog != nil {
		g.reqLog.Close()
		g.reqLog = nil
	}
	g.mu.Unlock()
}

var (
	rePanic     = regexp.MustCompile(`(?m)^(panic: .*|fatal error: .*)$`)
	reFrameLine = regexp.MustCompile(`(?m)^(github\.com/versity/versitygw/.*\))\s*$`)
)

// Crash describes a panic / fatal error found in a gateway log.
type Crash struct {
	Message  string
	TopFrame string // first versitygw frame after the message
	Excerpt  string
}

// ScrapeCrash looks for panic / fatal error text in the gateway log.
func (g *GW) ScrapeCrash() *Crash {
	b, err := os.ReadFile(g.LogPath)
	if err != nil {
		return nil
	}
	loc := rePanic.FindIndex(b)
	if loc == nil {
		return nil
	}
	c := &Crash{Message: string(b[loc[0]:loc[1]])}
	rest := b[loc[1]:]
	if m := reFrameLine.FindSubmatch(rest); m != nil {
		// the function name is everything before the argument list (pointer receivers contain parentheses)
		l := string(m[1])
		if i := strings.LastIndexByte(l, '('); i > 0 {
			l = l[:i]
		}
		c.TopFrame = l
	}
	end := loc[0] + 3000
	if end > len(b) {
		end = len(b)
	}
	c.Excerpt = string(b[loc[0]:end])
	return c
}

// RaceReports returns the DATA RACE blocks of a -race gateway.
func (g *GW) RaceReports() []string {
	var out []string
	files, _ := filepath.Glob(g.LogPath + ".race*")
	files = append(files, g.LogPath)
	for _, f := range files {
		b, err := os.ReadFile(f)
		if err != nil {
			continue
		}
		parts := bytes.Split(b, []byte("=================="))
		for _, p := range parts {
			if bytes.Contains(p, []byte("WARNING: DATA RACE")) {
				out = append(out, string(p))
			}
		}
	}
	return out
}

// RaceSig reduces a race report to a signature: the outermost versitygw frame of each of the two stacks.
func RaceSig(report string) (sig string, inVersity bool) {
	// split into stacks at blank lines; take first two stacks (the two accesses)
	blocks := strings.Split(report, "\n\n")
	var tops []string
	for _, b := range blocks {
		if !(strings.Contains(b, "Write at") || strings.Contains(b, "Read at") || strings.Contains(b, "Previous write") || strings.Contains(b, "Previous read")) {
			continue
		}
		top := ""
		for _, l := range strings.Split(b, "\n") {
			l = strings.TrimSpace(l)
			if strings.HasPrefix(l, "github.com/versity/versitygw/") {
				// strip the argument list (the last parenthesis group), keep pointer receivers
				if i := strings.LastIndexByte(l, '('); i > 0 {
					l = l[:i]
				}
				if top == "" {
					top = l // innermost versitygw frame
				}
			}
		}
		if top != "" {
			inVersity = true
		} else {
			top = "(dependency)"
		}
		tops = append(tops, strings.TrimPrefix(top, "github.com/versity/versitygw/"))
		if len(tops) == 2 {
			break
		}
	}
	return strings.Join(tops, " <-> "), inVersity
}

// VmHWM returns the peak resident set size in KiB (0 if unknown).
func (g *GW) VmHWM() int64 {
	b, err := os.ReadFile(fmt.Sprintf("/proc/%d/status", g.Pid()))
	if err != nil {
		return 0
	}
	for _, l := range strings.Split(string(b), "\n") {
		if strings.HasPrefix(l, "VmHWM:") {
			var kb int64
			fmt.Sscanf(strings.TrimSpace(strings.TrimPrefix(l, "VmHWM:")), "%d", &kb)
			return kb
		}
	}
	return 0
}

// VmRSS returns the current resident set size in KiB (0 if unknown).
func (g *GW) VmRSS() int64 {
	b, err := os.ReadFile(fmt.Sprintf("/proc/%d/status", g.Pid()))
	if err != nil {
		return 0
	}
	for _, l := range strings.Split(string(b), "\n") {
		if strings.HasPrefix(l, "VmRSS:") {
			var kb int64
			fmt.Sscanf(strings.TrimSpace(strings.TrimPrefix(l, "VmRSS:")), "%d", &kb)
			return kb
		}
	}
	return 0
}
