package s3c

import (
	"bytes"
	"crypto/sha1"
	"crypto/sha256"
	"encoding/base64"
	"encoding/binary"
	"encoding/hex"
	"fmt"
	"hash/crc32"
	"hash/crc64"
)

// Stream describes an aws-chunked encoding of Req.Body.
type Stream struct {
	Mode        string // StreamSigned | StreamSignedTr | StreamUnsignTr
	ChunkSizes  []int  // sizes of successive chunks (cycled; the remainder goes into a last chunk); nil = one chunk
	TrailerName string // e.g. x-amz-checksum-crc32 (for the trailer modes)
	TrailerVal  string // "" = computed from the payload
	DecodedLen  *int64 // override X-Amz-Decoded-Content-Length

	// corruption knobs (all zero = legal stream)
	BadChunkSig    int    // 1-based index of the chunk whose signature is corrupted (0 = none; -1 = final 0-chunk)
	BadTrailerSig  bool   // corrupt x-amz-trailer-signature
	TruncateAt     int    // if >0 cut the encoded stream to this many bytes
	ExtraTail      []byte // appended after the stream
	OmitFinalChunk bool
	UpperHex       bool // chunk sizes in upper-case hex
	Mutate         func(enc []byte) []byte
}

var crc64nvmeTable = crc64.MakeTable(0x9a6c9329ac4bc9b5)

// Checksum computes the base64 checksum value for an algorithm name
// (crc32, crc32c, sha1, sha256, crc64nvme).
func Checksum(algo string, data []byte) string {
	switch algo {
	case "crc32":
		var b [4]byte
		binary.BigEndian.PutUint32(b[:], crc32.ChecksumIEEE(data))
		return base64.StdEncoding.EncodeToString(b[:])
	case "crc32c":
		var b [4]byte
		binary.BigEndian.PutUint32(b[:], crc32.Checksum(data, crc32.MakeTable(crc32.Castagnoli)))
		return base64.StdEncoding.EncodeToString(b[:])
	case "sha1":
		s := sha1.Sum(data)
		return base64.StdEncoding.EncodeToString(s[:])
	case "sha256":
		s := sha256.Sum256(data)
		return base64.StdEncoding.EncodeToString(s[:])
	case "crc64nvme":
		var b [8]byte
		binary.BigEndian.PutUint64(b[:], crc64.Checksum(data, crc64nvmeTable))
		return base64.StdEncoding.EncodeToString(b[:])
	}
	panic("unknown checksum algo " + algo)
}

// Algos lists the checksum algorithms.
var Algos = []string{"crc32", "crc32c", "sha1", "sha256", "crc64nvme"}

func (s *Stream) split(payload []byte) [][]byte {
	var out [][]byte
	rest := payload
	for i := 0; len(rest) > 0; i++ {
		n := len(rest)
		if len(s.ChunkSizes) > 0 {
			n = s.ChunkSizes[i%len(s.ChunkSizes)]
			if n <= 0 {
				n = 1
			}
			if n > len(rest) {
				n = len(rest)
			}
		}
		out = append(out, rest[:n])
		rest = rest[n:]
	}
	return out
}

func flip(sig string) string {
	b := []byte(sig)
	if b[0] == '0' {
		b[0] = '1'
	} else {
		b[0] = '0'
	}
	return string(b)
}

// Encode produces the aws-chunked body.
func (s *Stream) Encode(payload []byte, key []byte, amzDate, scope, seedSig string) []byte {
	var w bytes.Buffer
	chunks := s.split(payload)
	hexfmt := "%x"
	if s.UpperHex {
		hexfmt = "%X"
	}
	trName := s.TrailerName
	trVal := s.TrailerVal
	if trName != "" && trVal == "" {
		trVal = Checksum(trName[len("x-amz-checksum-"):], payload)
	}
	switch s.Mode {
	case StreamUnsignTr:
		for _, c := range chunks {
			fmt.Fprintf(&w, hexfmt+"\r\n", len(c))
			w.Write(c)
			w.WriteString("\r\n")
		}
		if !s.OmitFinalChunk {
			w.WriteString("0\r\n")
			if trName != "" {
				fmt.Fprintf(&w, "%s:%s\r\n", trName, trVal)
			}
			w.WriteString("\r\n")
		}
	default:
		prev := seedSig
		sign := func(data []byte) string {
			sts := "AWS4-HMAC-SHA256-PAYLOAD\n" + amzDate + "\n" + scope + "\n" + prev + "\n" + EmptySHA256 + "\n" + SHA256Hex(data)
			return hex.EncodeToString(hmacSHA256(key, sts))
		}
		for i, c := range chunks {
			sig := sign(c)
			prev = sig
			out := sig
			if s.BadChunkSig == i+1 {
				out = flip(sig)
			}
			fmt.Fprintf(&w, hexfmt+";chunk-signature=%s\r\n", len(c), out)
			w.Write(c)
			w.WriteString("\r\n")
		}
		if !s.OmitFinalChunk {
			sig := sign(nil)
			prev = sig
			out := sig
			if s.BadChunkSig == -1 {
				out = flip(sig)
			}
			fmt.Fprintf(&w, "0;chunk-signature=%s\r\n", out)
			if s.Mode == StreamSignedTr && trName != "" {
				fmt.Fprintf(&w, "%s:%s\r\n", trName, trVal)
				sts := "AWS4-HMAC-SHA256-TRAILER\n" + amzDate + "\n" + scope + "\n" + prev + "\n" + SHA256Hex([]byte(trName+":"+trVal+"\n"))
				tsig := hex.EncodeToString(hmacSHA256(key, sts))
				if s.BadTrailerSig {
					tsig = flip(tsig)
				}
				fmt.Fprintf(&w, "x-amz-trailer-signature:%s\r\n", tsig)
			}
			w.WriteString("\r\n")
		}
	}
	enc := w.Bytes()
	if s.TruncateAt > 0 && s.TruncateAt < len(enc) {
		enc = enc[:s.TruncateAt]
	}
	enc = append(enc, s.ExtraTail...)
	if s.Mutate != nil {
		enc = s.Mutate(enc)
	}
	return enc
}
