package s3c

import (
	"crypto/md5"
	"encoding/base64"
	"encoding/hex"
	"encoding/xml"
	"fmt"
	"sort"
	"strconv"
	"strings"
)

// Convenience wrappers for common, well-formed operations.

func bp(bucket string) string { return "/" + URIEncode(bucket, true) }
func op(bucket, key string) string {
	return "/" + URIEncode(bucket, true) + "/" + URIEncode(key, false)
}
func MD5Hex(b []byte) string            { s := md5.Sum(b); return hex.EncodeToString(s[:]) }
func MD5B64(b []byte) string            { s := md5.Sum(b); return base64.StdEncoding.EncodeToString(s[:]) }
func ObjPath(bucket, key string) string { return op(bucket, key) }
func BucketPath(bucket string) string   { return bp(bucket) }

func (c *Client) CreateBucket(b string, hdr ...string) *Resp {
	return c.Do(&Req{Method: "PUT", Path: bp(b), Header: pairs(hdr)})
}
func (c *Client) DeleteBucket(b string) *Resp { return c.Do(&Req{Method: "DELETE", Path: bp(b)}) }
func (c *Client) HeadBucket(b string) *Resp   { return c.Do(&Req{Method: "HEAD", Path: bp(b)}) }
func (c *Client) ListBuckets() *Resp          { return c.Do(&Req{Method: "GET", Path: "/"}) }

func pairs(kv []string) H {
	var h H
	for i := 0; i+1 < len(kv); i += 2 {
		h = append(h, [2]string{kv[i], kv[i+1]})
	}
	return h
}

func (c *Client) PutObject(b, k string, body []byte, hdr ...string) *Resp {
	return c.Do(&Req{Method: "PUT", Path: op(b, k), Body: body, Header: pairs(hdr)})
}
func (c *Client) GetObject(b, k string, hdr ...string) *Resp {
	return c.Do(&Req{Method: "GET", Path: op(b, k), Header: pairs(hdr)})
}
func (c *Client) GetObjectV(b, k, vid string, hdr ...string) *Resp {
	return c.Do(&Req{Method: "GET", Path: op(b, k), Query: Q("versionId", vid), Header: pairs(hdr)})
}
func (c *Client) HeadObject(b, k string, hdr ...string) *Resp {
	return c.Do(&Req{Method: "HEAD", Path: op(b, k), Header: pairs(hdr)})
}
func (c *Client) HeadObjectV(b, k, vid string) *Resp {
	return c.Do(&Req{Method: "HEAD", Path: op(b, k), Query: Q("versionId", vid)})
}
func (c *Client) DeleteObject(b, k string, hdr ...string) *Resp {
	return c.Do(&Req{Method: "DELETE", Path: op(b, k), Header: pairs(hdr)})
}
func (c *Client) DeleteObjectV(b, k, vid string, hdr ...string) *Resp {
	return c.Do(&Req{Method: "DELETE", Path: op(b, k), Query: Q("versionId", vid), Header: pairs(hdr)})
}
func (c *Client) CopyObject(sb, sk, db, dk string, hdr ...string) *Resp {
	h := pairs(hdr)
	h = append(h, [2]string{"X-Amz-Copy-Source", URIEncode(sb+"/"+sk, false)})
	return c.Do(&Req{Method: "PUT", Path: op(db, dk), Header: h})
}

// Sub sends a sub-resource request (e.g. "tagging", "acl", "versioning").
func (c *Client) Sub(method, b, k, sub string, body []byte, hdr ...string) *Resp {
	p := bp(b)
	if k != "" {
		p = op(b, k)
	}
	h := pairs(hdr)
	if body != nil && h.Get("Content-MD5") == "" {
		h = append(h, [2]string{"Content-MD5", MD5B64(body)})
	}
	return c.Do(&Req{Method: method, Path: p, Query: sub, Header: h, Body: body})
}

func (c *Client) PutBucketVersioning(b, status string) *Resp {
	body := `<VersioningConfiguration xmlns="http://s3.amazonaws.com/doc/2006-03-01/"><Status>` + status + `</Status></VersioningConfiguration>`
	return c.Sub("PUT", b, "", "versioning", []byte(body))
}

func TaggingXML(tags map[string]string) []byte {
	var keys []string
	for k := range tags {
		keys = append(keys, k)
	}
	sort.Strings(keys)
	var sb strings.Builder
	sb.WriteString(`<Tagging xmlns="http://s3.amazonaws.com/doc/2006-03-01/"><TagSet>`)
	for _, k := range keys {
		sb.WriteString("<Tag><Key>" + xmlEsc(k) + "</Key><Value>" + xmlEsc(tags[k]) + "</Value></Tag>")
	}
	sb.WriteString(`</TagSet></Tagging>`)
	return []byte(sb.String())
}

func xmlEsc(s string) string {
	var sb strings.Builder
	xml.EscapeText(&sb, []byte(s))
	return sb.String()
}

func XMLEsc(s string) string { return xmlEsc(s) }

// ParseTagging extracts the tag set of a GetObjectTagging / GetBucketTagging body.
func ParseTagging(body []byte) (map[string]string, error) {
	var t struct {
		TagSet struct {
			Tag []struct{ Key, Value string }
		}
	}
	if err := xml.Unmarshal(body, &t); err != nil {
		return nil, err
	}
	m := map[string]string{}
	for _, e := range t.TagSet.Tag {
		m[e.Key] = e.Value
	}
	return m, nil
}

// Multipart helpers.
func (c *Client) CreateMPU(b, k string, hdr ...string) (string, *Resp) {
	r := c.Do(&Req{Method: "POST", Path: op(b, k), Query: "uploads=", Header: pairs(hdr)})
	if !r.OK() {
		return "", r
	}
	var o struct{ UploadId string }
	xml.Unmarshal(r.Body, &o)
	return o.UploadId, r
}

func (c *Client) UploadPart(b, k, id string, n int, body []byte, hdr ...string) *Resp {
	return c.Do(&Req{Method: "PUT", Path: op(b, k), Query: Q("partNumber", strconv.Itoa(n), "uploadId", id), Body: body, Header: pairs(hdr)})
}

type Part struct {
	N    int
	ETag string
}

func CompleteXML(parts []Part) []byte {
	var sb strings.Builder
	sb.WriteString(`<CompleteMultipartUpload xmlns="http://s3.amazonaws.com/doc/2006-03-01/">`)
	for _, p := range parts {
		fmt.Fprintf(&sb, "<Part><PartNumber>%d</PartNumber><ETag>%s</ETag></Part>", p.N, xmlEsc(p.ETag))
	}
	sb.WriteString(`</CompleteMultipartUpload>`)
	return []byte(sb.String())
}

func (c *Client) CompleteMPU(b, k, id string, parts []Part, hdr ...string) *Resp {
	return c.Do(&Req{Method: "POST", Path: op(b, k), Query: Q("uploadId", id), Body: CompleteXML(parts), Header: pairs(hdr)})
}

func (c *Client) AbortMPU(b, k, id string) *Resp {
	return c.Do(&Req{Method: "DELETE", Path: op(b, k), Query: Q("uploadId", id)})
}

// MultipartETag computes the S3 multipart ETag from part bodies.
func MultipartETag(parts [][]byte) string {
	var all []byte
	for _, p := range parts {
		s := md5.Sum(p)
		all = append(all, s[:]...)
	}
	s := md5.Sum(all)
	return fmt.Sprintf("%s-%d", hex.EncodeToString(s[:]), len(parts))
}

// ListResult is a parsed ListObjects(V2) page.
type ListResult struct {
	Name                  string
	Prefix                string
	Delimiter             string
	MaxKeys               int
	IsTruncated           bool
	Marker                string
	NextMarker            string
	ContinuationToken     string
	NextContinuationToken string
	StartAfter            string
	KeyCount              int
	Contents              []struct {
		Key  string
		ETag string
		Size int64
	}
	CommonPrefixes []struct{ Prefix string }
}

func ParseList(body []byte) (*ListResult, error) {
	var l ListResult
	if err := xml.Unmarshal(body, &l); err != nil {
		return nil, err
	}
	return &l, nil
}

// ListV2 lists one page.
func (c *Client) ListV2(b string, kv ...string) *Resp {
	q := "list-type=2"
	if len(kv) > 0 {
		q += "&" + Q(kv...)
	}
	return c.Do(&Req{Method: "GET", Path: bp(b), Query: q})
}

func (c *Client) ListV1(b string, kv ...string) *Resp {
	return c.Do(&Req{Method: "GET", Path: bp(b), Query: Q(kv...)})
}

// Admin API
type Account struct {
	Access  string `json:"access" xml:"Access"`
	Secret  string `json:"secret" xml:"Secret"`
	Role    string `json:"role" xml:"Role"`
	UserID  int    `json:"userID" xml:"UserID"`
	GroupID int    `json:"groupID" xml:"GroupID"`
}

func (c *Client) Admin(path, query string, body []byte) *Resp {
	if c.AdminAddr != "" && c.AdminAddr != c.Addr {
		a := &Client{Addr: c.AdminAddr, AK: c.AK, SK: c.SK, Region: c.Region, Log: c.Log, DefaultWatchdog: c.DefaultWatchdog}
		return a.Do(&Req{Method: "PATCH", Path: path, Query: query, Body: body})
	}
	return c.Do(&Req{Method: "PATCH", Path: path, Query: query, Body: body})
}
