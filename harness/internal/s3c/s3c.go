// Package s3c is a raw S3 client written from the AWS SigV4 specification,
// independent of the signer code in /repo. Requests are written to the socket
// byte by byte as specified by the caller (no path cleaning, no header
// canonicalisation), responses are parsed with net/http.
package s3c

import (
	"bufio"
	"bytes"
	"crypto/hmac"
	"crypto/sha256"
	"encoding/hex"
	"errors"
	"fmt"
	"io"
	"net"
	"net/http"
	"sort"
	"strconv"
	"strings"
	"sync"
	"time"
)

const (
	Unsigned        = "UNSIGNED-PAYLOAD"
	StreamSigned    = "STREAMING-AWS4-HMAC-SHA256-PAYLOAD"
	StreamSignedTr  = "STREAMING-AWS4-HMAC-SHA256-PAYLOAD-TRAILER"
	StreamUnsignTr  = "STREAMING-UNSIGNED-PAYLOAD-TRAILER"
	EmptySHA256     = "e3b0c44298fc1c149afbf4c8996fb92427ae41e4649b934ca495991b7852b855"
	amzTimeFmt      = "20060102T150405Z"
	defaultWatchdog = 120 * time.Second
)

// H is an ordered header list with exact names.
type H [][2]string

func (h H) Get(name string) string {
	for _, kv := range h {
		if strings.EqualFold(kv[0], name) {
			return kv[1]
		}
	}
	return ""
}

func (h *H) Set(name, val string) {
	for i, kv := range *h {
		if strings.EqualFold(kv[0], name) {
			(*h)[i][1] = val
			return
		}
	}
	*h = append(*h, [2]string{name, val})
}

func (h *H) Del(name string) {
	out := (*h)[:0]
	for _, kv := range *h {
		if !strings.EqualFold(kv[0], name) {
			out = append(out, kv)
		}
	}
	*h = out
}

// Req describes a request before signing.
type Req struct {
	Method    string
	Path      string // wire path, already percent-encoded (use EncodePath for keys)
	CanonPath string // if set: the canonical URI used for signing instead of Path (hostile wire spellings)
	Query     string // wire query without '?', already encoded (use Q to build)
	Header    H
	Body      []byte

	// Signing
	NoSign      bool      // send without any authorization
	Presign     bool      // query-string authentication
	Expires     int       // presign expiry seconds (default 3600)
	PayloadHash string    // x-amz-content-sha256 value; "" = sha256(Body) hex ("UNSIGNED-PAYLOAD" for presign)
	Time        time.Time // signing time (default now)
	AK, SK      string    // override client credentials
	Region      string    // override region
	Service     string    // override service ("s3")
	Stream      *Stream   // aws-chunked body built from Body
	NoHashHdr   bool      // do not send x-amz-content-sha256 (still used in canonical request)
	ExtraSigned []string  // additional header names to sign (all x-amz-*, host, content-md5, content-type are signed by default)
	OnlySigned  []string  // if set, exactly these headers are signed

	// Hooks to corrupt the request: called after signing, just before sending.
	Tamper func(b *Built)

	// Transport
	NoContentLength bool          // omit Content-Length
	ContentLength   *int64        // override declared Content-Length
	Fragments       []int         // write body to the socket in pieces of these sizes (cycled), small pause between
	CloseAfter      int           // if >0: close the connection after sending this many body bytes
	Watchdog        time.Duration // default 120s
	FreshConn       bool
	// slow client: pause once for StallFor after StallWriteAfter bytes of the body were sent / after StallReadAfter
	// bytes of the response body were read (0 = no pause on that side)
	StallWriteAfter int
	StallReadAfter  int
	StallFor        time.Duration
}

// Built is the fully signed request about to go on the wire.
type Built struct {
	Method string
	Target string // path?query
	Header H
	Body   []byte
	Sig    string // seed signature
}

// Resp is a parsed response.
type Resp struct {
	Status int
	Header http.Header
	Body   []byte
	Err    error // transport / parse error (Status == 0)
	Raw    string
}

func (r *Resp) OK() bool { return r.Err == nil && r.Status >= 200 && r.Status < 300 }

// ErrCode extracts <Code> from an S3 error body.
func (r *Resp) ErrCode() string {
	b := r.Body
	i := bytes.Index(b, []byte("<Code>"))
	if i < 0 {
		return ""
	}
	j := bytes.Index(b[i:], []byte("</Code>"))
	if j < 0 {
		return ""
	}
	return string(b[i+6 : i+j])
}

func (r *Resp) String() string {
	if r.Err != nil {
		return "ERR " + r.Err.Error()
	}
	c := r.ErrCode()
	if c != "" {
		return fmt.Sprintf("%d %s", r.Status, c)
	}
	return strconv.Itoa(r.Status)
}

// Logger receives one line per request before it is sent.
type Logger interface{ LogReq(string) }

// Client talks to one gateway.
type Client struct {
	AdminAddr string // where Admin() sends its requests when the gateway has a separate admin listener ("" = Addr)
	Addr      string // host:port
	AK, SK    string
	Region    string
	Log       Logger
	// DefaultWatchdog replaces the 120 s per-request watchdog when a request does not set its own.
	DefaultWatchdog time.Duration

	mu   sync.Mutex
	idle []*conn
}

type conn struct {
	c  net.Conn
	br *bufio.Reader
}

func New(addr, ak, sk string) *Client {
	return &Client{Addr: addr, AK: ak, SK: sk, Region: "us-east-1"}
}

// With returns a client for the same gateway with other credentials.
func (c *Client) With(ak, sk string) *Client {
	return &Client{Addr: c.Addr, AdminAddr: c.AdminAddr, AK: ak, SK: sk, Region: c.Region, Log: c.Log, DefaultWatchdog: c.DefaultWatchdog}
}

// At returns a client with the same credentials for another gateway address.
func (c *Client) At(addr string, log Logger) *Client {
	return &Client{Addr: addr, AK: c.AK, SK: c.SK, Region: c.Region, Log: log}
}

func isUnreserved(b byte) bool {
	return b >= 'A' && b <= 'Z' || b >= 'a' && b <= 'z' || b >= '0' && b <= '9' || b == '-' || b == '_' || b == '.' || b == '~'
}

// URIEncode per the SigV4 specification.
func URIEncode(s string, encodeSlash bool) string {
	var sb strings.Builder
	for i := 0; i < len(s); i++ {
		b := s[i]
		if isUnreserved(b) || (b == '/' && !encodeSlash) {
			sb.WriteByte(b)
		} else {
			fmt.Fprintf(&sb, "%%%02X", b)
		}
	}
	return sb.String()
}

// EncodePath turns /bucket/key text into a wire path.
func EncodePath(p string) string { return URIEncode(p, false) }

// Q builds an encoded query string from key, value pairs in the given order.
// A value of "\x00" means "key only" (no '=').
func Q(kv ...string) string {
	var parts []string
	for i := 0; i+1 < len(kv); i += 2 {
		if kv[i+1] == "\x00" {
			parts = append(parts, URIEncode(kv[i], true))
		} else {
			parts = append(parts, URIEncode(kv[i], true)+"="+URIEncode(kv[i+1], true))
		}
	}
	return strings.Join(parts, "&")
}

func hmacSHA256(key []byte, data string) []byte {
	h := hmac.New(sha256.New, key)
	h.Write([]byte(data))
	return h.Sum(nil)
}

func SHA256Hex(b []byte) string {
	s := sha256.Sum256(b)
	return hex.EncodeToString(s[:])
}

// SigningKey derives the SigV4 signing key.
func SigningKey(secret, date, region, service string) []byte {
	k := hmacSHA256([]byte("AWS4"+secret), date)
	k = hmacSHA256(k, region)
	k = hmacSHA256(k, service)
	return hmacSHA256(k, "aws4_request")
}

func pctDecode(s string) string {
	var sb strings.Builder
	for i := 0; i < len(s); i++ {
		if s[i] == '%' && i+2 < len(s) {
			if v, err := strconv.ParseUint(s[i+1:i+3], 16, 8); err == nil {
				sb.WriteByte(byte(v))
				i += 2
				continue
			}
		}
		if s[i] == '+' {
			sb.WriteByte(' ')
			continue
		}
		sb.WriteByte(s[i])
	}
	return sb.String()
}

// canonicalQuery sorts and re-encodes a wire query.
func canonicalQuery(q string, skip string) string {
	if q == "" {
		return ""
	}
	type kv struct{ k, v string }
	var kvs []kv
	for _, p := range strings.Split(q, "&") {
		if p == "" {
			continue
		}
		k, v, _ := strings.Cut(p, "=")
		k = pctDecode(k)
		v = pctDecode(v)
		if k == skip {
			continue
		}
		kvs = append(kvs, kv{URIEncode(k, true), URIEncode(v, true)})
	}
	sort.SliceStable(kvs, func(i, j int) bool {
		if kvs[i].k != kvs[j].k {
			return kvs[i].k < kvs[j].k
		}
		return kvs[i].v < kvs[j].v
	})
	var parts []string
	for _, e := range kvs {
		parts = append(parts, e.k+"="+e.v)
	}
	return strings.Join(parts, "&")
}

func trimAll(s string) string {
	return strings.Join(strings.Fields(s), " ")
}

// Build signs the request.
func (c *Client) Build(r *Req) *Built {
	ak, sk, region, service := c.AK, c.SK, c.Region, "s3"
	if r.AK != "" {
		ak = r.AK
	}
	if r.SK != "" {
		sk = r.SK
	}
	if r.Region != "" {
		region = r.Region
	}
	if r.Service != "" {
		service = r.Service
	}
	t := r.Time
	if t.IsZero() {
		t = time.Now()
	}
	t = t.UTC()
	amzDate := t.Format(amzTimeFmt)
	day := amzDate[:8]
	scope := day + "/" + region + "/" + service + "/aws4_request"

	hdr := append(H{}, r.Header...)
	if hdr.Get("Host") == "" {
		hdr = append(H{{"Host", c.Addr}}, hdr...)
	}
	body := r.Body
	path := r.Path
	if path == "" {
		path = "/"
	}
	b := &Built{Method: r.Method}
	signPath := path
	if r.CanonPath != "" {
		signPath = r.CanonPath
	}

	payloadHash := r.PayloadHash
	if r.Stream != nil {
		payloadHash = r.Stream.Mode
		hdr.Set("X-Amz-Decoded-Content-Length", strconv.Itoa(len(r.Body)))
		if r.Stream.DecodedLen != nil {
			hdr.Set("X-Amz-Decoded-Content-Length", strconv.FormatInt(*r.Stream.DecodedLen, 10))
		}
		if hdr.Get("Content-Encoding") == "" {
			hdr.Set("Content-Encoding", "aws-chunked")
		}
		if r.Stream.Mode != StreamSigned && r.Stream.TrailerName != "" {
			hdr.Set("X-Amz-Trailer", r.Stream.TrailerName)
		}
	}
	if payloadHash == "" {
		if r.Presign {
			payloadHash = Unsigned
		} else {
			payloadHash = SHA256Hex(body)
		}
	}

	if r.NoSign {
		b.Target = target(path, r.Query)
		if r.Stream != nil {
			body = r.Stream.Encode(r.Body, nil, amzDate, scope, strings.Repeat("0", 64))
		}
		b.Header, b.Body = hdr, body
		return b
	}

	if r.Presign {
		exp := r.Expires
		if exp == 0 {
			exp = 3600
		}
		signed := []string{"host"}
		q := r.Query
		add := Q("X-Amz-Algorithm", "AWS4-HMAC-SHA256", "X-Amz-Credential", ak+"/"+scope, "X-Amz-Date", amzDate,
			"X-Amz-Expires", strconv.Itoa(exp), "X-Amz-SignedHeaders", strings.Join(signed, ";"))
		if q != "" {
			q += "&"
		}
		q += add
		creq := r.Method + "\n" + signPath + "\n" + canonicalQuery(q, "") + "\n" + "host:" + trimAll(hdr.Get("Host")) + "\n\n" + "host" + "\n" + payloadHash
		sts := "AWS4-HMAC-SHA256\n" + amzDate + "\n" + scope + "\n" + SHA256Hex([]byte(creq))
		sig := hex.EncodeToString(hmacSHA256(SigningKey(sk, day, region, service), sts))
		q += "&X-Amz-Signature=" + sig
		b.Target = target(path, q)
		b.Header, b.Body, b.Sig = hdr, body, sig
		return b
	}

	hdr.Set("X-Amz-Date", amzDate)
	if !r.NoHashHdr {
		hdr.Set("X-Amz-Content-Sha256", payloadHash)
	}
	// choose signed headers
	var names []string
	seen := map[string]bool{}
	want := func(n string) bool {
		n = strings.ToLower(n)
		if r.OnlySigned != nil {
			for _, o := range r.OnlySigned {
				if strings.ToLower(o) == n {
					return true
				}
			}
			return false
		}
		if n == "host" || n == "content-md5" || n == "content-type" || n == "range" || strings.HasPrefix(n, "x-amz-") {
			return true
		}
		for _, o := range r.ExtraSigned {
			if strings.ToLower(o) == n {
				return true
			}
		}
		return false
	}
	vals := map[string][]string{}
	for _, kv := range hdr {
		n := strings.ToLower(kv[0])
		if !want(n) {
			continue
		}
		if !seen[n] {
			seen[n] = true
			names = append(names, n)
		}
		vals[n] = append(vals[n], trimAll(kv[1]))
	}
	sort.Strings(names)
	var ch strings.Builder
	for _, n := range names {
		ch.WriteString(n + ":" + strings.Join(vals[n], ",") + "\n")
	}
	signedHdrs := strings.Join(names, ";")
	creq := r.Method + "\n" + signPath + "\n" + canonicalQuery(r.Query, "") + "\n" + ch.String() + "\n" + signedHdrs + "\n" + payloadHash
	sts := "AWS4-HMAC-SHA256\n" + amzDate + "\n" + scope + "\n" + SHA256Hex([]byte(creq))
	key := SigningKey(sk, day, region, service)
	sig := hex.EncodeToString(hmacSHA256(key, sts))
	hdr.Set("Authorization", "AWS4-HMAC-SHA256 Credential="+ak+"/"+scope+", SignedHeaders="+signedHdrs+", Signature="+sig)
	if r.Stream != nil {
		body = r.Stream.Encode(r.Body, key, amzDate, scope, sig)
	}
	b.Target = target(path, r.Query)
	b.Header, b.Body, b.Sig = hdr, body, sig
	return b
}

func target(path, q string) string {
	if q == "" {
		return path
	}
	return path + "?" + q
}

func (c *Client) getConn(fresh bool) (*conn, bool, error) {
	if !fresh {
		c.mu.Lock()
		if n := len(c.idle); n > 0 {
			cn := c.idle[n-1]
			c.idle = c.idle[:n-1]
			c.mu.Unlock()
			return cn, true, nil
		}
		c.mu.Unlock()
	}
	nc, err := net.DialTimeout("tcp", c.Addr, 10*time.Second)
	if err != nil {
		return nil, false, err
	}
	if tc, ok := nc.(*net.TCPConn); ok {
		tc.SetNoDelay(true)
	}
	return &conn{c: nc, br: bufio.NewReaderSize(nc, 64<<10)}, false, nil
}

func (c *Client) putConn(cn *conn) {
	c.mu.Lock()
	if len(c.idle) < 64 {
		c.idle = append(c.idle, cn)
		cn = nil
	}
	c.mu.Unlock()
	if cn != nil {
		cn.c.Close()
	}
}

// CloseIdle drops pooled connections.
func (c *Client) CloseIdle() {
	c.mu.Lock()
	for _, cn := range c.idle {
		cn.c.Close()
	}
	c.idle = nil
	c.mu.Unlock()
}

// Do signs and sends.
func (c *Client) Do(r *Req) *Resp {
	b := c.Build(r)
	if r.Tamper != nil {
		r.Tamper(b)
	}
	return c.Send(b, r)
}

// Wire renders the request head.
func (b *Built) Wire(r *Req) []byte {
	var w bytes.Buffer
	fmt.Fprintf(&w, "%s %s HTTP/1.1\r\n", b.Method, b.Target)
	hasCL := false
	for _, kv := range b.Header {
		if strings.EqualFold(kv[0], "Content-Length") {
			hasCL = true
		}
		fmt.Fprintf(&w, "%s: %s\r\n", kv[0], kv[1])
	}
	if !hasCL && (r == nil || !r.NoContentLength) {
		n := int64(len(b.Body))
		if r != nil && r.ContentLength != nil {
			n = *r.ContentLength
		}
		if n > 0 || b.Method == "PUT" || b.Method == "POST" || b.Method == "PATCH" {
			fmt.Fprintf(&w, "Content-Length: %d\r\n", n)
		}
	}
	w.WriteString("\r\n")
	return w.Bytes()
}

// Send writes a built request and reads the response.
func (c *Client) Send(b *Built, r *Req) *Resp {
	if r == nil {
		r = &Req{}
	}
	head := b.Wire(r)
	if c.Log != nil {
		bl := len(b.Body)
		c.Log.LogReq(fmt.Sprintf("%s body=%d %q", strings.SplitN(string(head), "\r\n", 2)[0], bl, headSummary(b.Header)))
	}
	wd := r.Watchdog
	if wd == 0 {
		wd = c.DefaultWatchdog
	}
	if wd == 0 {
		wd = defaultWatchdog
	}
	fresh := r.FreshConn || r.CloseAfter > 0 || r.Fragments != nil || r.StallFor > 0
	for attempt := 0; ; attempt++ {
		cn, reused, err := c.getConn(fresh)
		if err != nil {
			return &Resp{Err: err}
		}
		resp, wrote, keep := c.roundTrip(cn, head, b, r, wd)
		if resp.Err != nil && reused && attempt == 0 && !wrote {
			cn.c.Close()
			fresh = true
			continue
		}
		if resp.Err != nil && reused && attempt == 0 && isConnReset(resp.Err) && len(resp.Raw) == 0 {
			// stale pooled connection closed by the server before reading anything of ours
			cn.c.Close()
			fresh = true
			continue
		}
		if keep {
			c.putConn(cn)
		} else {
			cn.c.Close()
		}
		return resp
	}
}

func isConnReset(err error) bool {
	if err == nil {
		return false
	}
	s := err.Error()
	return errors.Is(err, io.EOF) || strings.Contains(s, "connection reset") || strings.Contains(s, "broken pipe") || strings.Contains(s, "EOF")
}

func headSummary(h H) string {
	var parts []string
	for _, kv := range h {
		n := strings.ToLower(kv[0])
		if n == "authorization" || n == "x-amz-date" || n == "host" {
			continue
		}
		v := kv[1]
		if len(v) > 80 {
			v = v[:80] + "..."
		}
		parts = append(parts, kv[0]+"="+v)
	}
	return strings.Join(parts, "; ")
}

func (c *Client) roundTrip(cn *conn, head []byte, b *Built, r *Req, wd time.Duration) (resp *Resp, wroteAny bool, keep bool) {
	cn.c.SetDeadline(time.Now().Add(wd))
	defer cn.c.SetDeadline(time.Time{})
	body := b.Body
	closeEarly := false
	if r.CloseAfter > 0 && r.CloseAfter < len(body) {
		body = body[:r.CloseAfter]
		closeEarly = true
	}
	werrCh := make(chan error, 1)
	go func() {
		var werr error
		if r.StallWriteAfter > 0 && r.StallWriteAfter < len(body) && r.StallFor > 0 {
			_, werr = cn.c.Write(head)
			if werr == nil {
				_, werr = cn.c.Write(body[:r.StallWriteAfter])
			}
			if werr == nil {
				time.Sleep(r.StallFor)
				_, werr = cn.c.Write(body[r.StallWriteAfter:])
			}
		} else if r.Fragments == nil {
			// single write of head+body for small requests (keeps one segment)
			if len(head)+len(body) <= 64<<10 {
				_, werr = cn.c.Write(append(append([]byte{}, head...), body...))
			} else {
				_, werr = cn.c.Write(head)
				if werr == nil {
					_, werr = cn.c.Write(body)
				}
			}
		} else {
			_, werr = cn.c.Write(head)
			rest := body
			for i := 0; werr == nil && len(rest) > 0; i++ {
				n := r.Fragments[i%len(r.Fragments)]
				if n <= 0 {
					n = 1
				}
				if n > len(rest) {
					n = len(rest)
				}
				_, werr = cn.c.Write(rest[:n])
				rest = rest[n:]
				time.Sleep(300 * time.Microsecond)
			}
		}
		if werr == nil && closeEarly {
			if tc, ok := cn.c.(*net.TCPConn); ok {
				tc.CloseWrite()
			}
		}
		werrCh <- werr
	}()
	hr, err := http.ReadResponse(cn.br, &http.Request{Method: b.Method})
	if err != nil {
		// was anything of the request written? if the write failed immediately, allow a retry
		select {
		case werr := <-werrCh:
			if werr != nil {
				return &Resp{Err: fmt.Errorf("write: %v; read: %v", werr, err)}, false, false
			}
		case <-time.After(50 * time.Millisecond):
		}
		return &Resp{Err: err}, true, false
	}
	var data []byte
	var rerr error
	if r.StallReadAfter > 0 && r.StallFor > 0 {
		first := make([]byte, r.StallReadAfter)
		var n int
		n, rerr = io.ReadFull(hr.Body, first)
		data = first[:n]
		if rerr == io.ErrUnexpectedEOF || rerr == io.EOF {
			rerr = nil
		} else if rerr == nil {
			time.Sleep(r.StallFor)
			var rest []byte
			rest, rerr = io.ReadAll(hr.Body)
			data = append(data, rest...)
		}
	} else {
		data, rerr = io.ReadAll(hr.Body)
	}
	hr.Body.Close()
	res := &Resp{Status: hr.StatusCode, Header: hr.Header, Body: data}
	if rerr != nil {
		res.Err = fmt.Errorf("read body: %w", rerr)
		res.Status = 0
		res.Raw = fmt.Sprintf("status=%d partial=%d", hr.StatusCode, len(data))
		return res, true, false
	}
	// wait for writer (it may still be sending a body the server refused early)
	select {
	case werr := <-werrCh:
		keep = werr == nil && !hr.Close && !closeEarly
	case <-time.After(200 * time.Millisecond):
		keep = false
	}
	return res, true, keep
}
