//go:build !solo || solo_c17

package props

import _ "verif/harness/props/c17"
