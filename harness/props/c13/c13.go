// Package c13: Range reads return exactly the requested bytes.
//
// Lane A: direct calls of backend.ParseGetObjectRange against a reference parser
// written from the property statement. Lane B: real GETs (and HEADs) with
// generated Range headers against objects of several sizes; the monitor checks
// status, Content-Range, Content-Length and body against the object bytes held
// by the harness.
package c13

import (
	"bytes"
	"fmt"
	"math"
	"math/rand"
	"sort"
	"strconv"
	"strings"

	"github.com/versity/versitygw/backend"

	"verif/harness/internal/ev"
	"verif/harness/internal/fx"
	"verif/harness/internal/gw"
	"verif/harness/internal/reg"
	"verif/harness/internal/s3c"
)

func init() { reg.Register("C13", "exploration", Run) }

// reference outcome
type outcome struct {
	kind   string // "slice" | "unsat" | "ignore"
	start  int64
	length int64
}

type expect struct {
	strict []outcome // any of these is acceptable
	class  string
}

func allDigits(s string) bool {
	if s == "" {
		return false
	}
	for i := 0; i < len(s); i++ {
		if s[i] < '0' || s[i] > '9' {
			return false
		}
	}
	return true
}

// parseNum: digits -> (value, overflow)
func parseNum(s string) (int64, bool) {
	v, err := strconv.ParseInt(s, 10, 64)
	if err != nil {
		return math.MaxInt64, true
	}
	return v, false
}

// lenient numeric forms whose legality is arguable: sign prefix, surrounding blanks
func lenientNum(s string) (string, bool) {
	t := strings.Trim(s, " \t")
	t = strings.TrimPrefix(t, "+")
	if allDigits(t) && t != s {
		return t, true
	}
	return "", false
}

func sliceOf(size, a, b int64, openEnd bool) outcome {
	if a >= size {
		return outcome{kind: "unsat"}
	}
	if openEnd || b >= size {
		b = size - 1
	}
	return outcome{kind: "slice", start: a, length: b - a + 1}
}

// reference decides what the property statement demands for (size, header).
func reference(size int64, hdr string) expect {
	ignore := outcome{kind: "ignore"}
	if hdr == "" {
		return expect{[]outcome{ignore}, "absent"}
	}
	unit, spec, ok := strings.Cut(hdr, "=")
	if !ok {
		return expect{[]outcome{ignore}, "garbage:no-equals"}
	}
	if unit != "bytes" {
		if strings.EqualFold(strings.TrimSpace(unit), "bytes") {
			// "Bytes=", " bytes=" - arguable; evaluate leniently and accept either
			e := reference(size, "bytes="+spec)
			return expect{append(e.strict, ignore), "ambiguous:unit-spelling"}
		}
		return expect{[]outcome{ignore}, "other-unit"}
	}
	if f, _, ok := strings.Cut(spec, "-"); ok && allDigits(f) {
		if a, ovf := parseNum(f); !ovf && a >= size {
			// the first position lies beyond the end AND the rest may be malformed:
			// both 416 and "malformed -> whole object" are defensible readings
			e := referenceInner(size, spec)
			for _, o := range e.strict {
				if o.kind == "unsat" {
					return e
				}
			}
			return expect{append(e.strict, outcome{kind: "unsat"}), e.class + ":first-oob"}
		}
	}
	return referenceInner(size, spec)
}

func referenceInner(size int64, spec string) expect {
	ignore := outcome{kind: "ignore"}
	if strings.Contains(spec, ",") {
		return expect{[]outcome{ignore}, "multi-range"}
	}
	if strings.Contains(spec, "=") {
		return expect{[]outcome{ignore}, "garbage:two-equals"}
	}
	first, last, ok := strings.Cut(spec, "-")
	if !ok {
		return expect{[]outcome{ignore}, "garbage:no-dash"}
	}
	if first != "" && strings.Trim(first, " \t") == "" {
		// blanks only before the dash: with the blanks dropped (a lenient, arguable reading) this is the suffix form
		first = ""
		last = strings.Trim(last, " \t")
	}
	if first == "" {
		// suffix form -n: legal HTTP, not implemented by the gateway: both readings accepted
		if allDigits(last) {
			n, ovf := parseNum(last)
			if ovf || n >= size {
				n = size
			}
			if n == 0 || size == 0 {
				return expect{[]outcome{ignore, {kind: "unsat"}}, "suffix"}
			}
			return expect{[]outcome{ignore, {kind: "slice", start: size - n, length: n}}, "suffix"}
		}
		return expect{[]outcome{ignore}, "garbage:suffix"}
	}
	if strings.Contains(last, "-") {
		return expect{[]outcome{ignore}, "garbage:extra-dash"}
	}
	amb := false
	if !allDigits(first) {
		t, ok := lenientNum(first)
		if !ok {
			return expect{[]outcome{ignore}, "garbage:first"}
		}
		first, amb = t, true
	}
	if last != "" && strings.Trim(last, " \t") == "" {
		// blanks only behind the dash: with the blanks dropped this is the open-ended form a-
		last, amb = "", true
	}
	if last != "" && !allDigits(last) {
		t, ok := lenientNum(last)
		if !ok {
			return expect{[]outcome{ignore}, "garbage:last"}
		}
		last, amb = t, true
	}
	a, aOvf := parseNum(first)
	if aOvf {
		// a number too large for 64 bits: beyond the end by value, unparsable by form - not judged strictly
		return expect{[]outcome{{kind: "unsat"}, ignore}, "ambiguous:huge-first"}
	}
	var res outcome
	class := "a-b"
	if last == "" {
		res = sliceOf(size, a, 0, true)
		class = "a-"
	} else {
		b, bOvf := parseNum(last)
		if bOvf {
			return expect{[]outcome{sliceOf(size, a, 0, true), ignore}, "ambiguous:huge-last"}
		}
		if b < a {
			if a >= size {
				// reversed and out of bounds: malformed (200) or unsatisfiable (416) are both defensible
				return expect{[]outcome{ignore, {kind: "unsat"}}, "reversed-oob"}
			}
			return expect{[]outcome{ignore}, "reversed"}
		}
		res = sliceOf(size, a, b, false)
		if b >= size {
			class = "a-b:clipped"
		}
	}
	if res.kind == "unsat" {
		class += ":unsat"
	}
	if amb {
		return expect{[]outcome{res, ignore}, "ambiguous:lenient-number"}
	}
	return expect{[]outcome{res}, class}
}

func sizeClass(n int64) string {
	switch {
	case n == 0:
		return "0"
	case n == 1:
		return "1"
	case n < 100:
		return "small"
	case n <= 256<<10:
		return "medium"
	case n < 1<<20:
		return "long"
	}
	return "huge"
}

var junk = []string{"", " ", "\t", "abc", "0x10", "1e3", "-", "--", "=", "bytes", "bytes=", "bytes=-", "bytes=--1", "bytes=1--2",
	"bytes=1-2-3", "bytes==1-2", "bytes=1=2", "bits=0-1", "byte=0-1", "BYTES=0-1", "Bytes=0-1", " bytes=0-1", "bytes =0-1", "bytes= 0-1",
	"bytes=0 -1", "bytes=0- 1", "bytes=0-1 ", "bytes=+0-1", "bytes=0-+1", "bytes=-0", "bytes=-1", "bytes=0-0", "bytes=0-", "bytes=1-0",
	"bytes=0-1,2-3", "bytes=0-1, 2-3", "bytes=,", "bytes=0-1,", "bytes=١-٢", "bytes=１-２", "bytes=1.0-2", "bytes=a-b", "bytes=0-z",
	"bytes=9223372036854775807-", "bytes=9223372036854775808-", "bytes=0-9223372036854775807", "bytes=0-9223372036854775808",
	"bytes=99999999999999999999-", "bytes=0-99999999999999999999", "bytes=-99999999999999999999", "bytes=00000000000000000000001-2",
	"bytes=-9223372036854775808", "bytes=18446744073709551615-18446744073709551616", "bytes=0-18446744073709551616"}

func genHeader(r *rand.Rand, size int64) string {
	lim := size + 2
	if lim <= 0 {
		lim = math.MaxInt64
	}
	num := func() string {
		switch r.Intn(12) {
		case 0:
			return "0"
		case 1:
			return strconv.FormatInt(size, 10)
		case 2:
			return strconv.FormatInt(size-1, 10)
		case 3:
			return strconv.FormatUint(uint64(size)+1, 10)
		case 4:
			return strconv.FormatInt(size/2, 10)
		case 5:
			return strconv.FormatInt(r.Int63n(lim), 10)
		case 6:
			return strconv.FormatInt(r.Int63(), 10)
		case 7:
			return "0" + strconv.FormatInt(r.Int63n(lim), 10)
		case 8:
			return strings.Repeat("9", 18+r.Intn(4))
		case 9:
			return "1"
		default:
			return strconv.FormatInt(r.Int63n(lim), 10)
		}
	}
	switch r.Intn(10) {
	case 0:
		return junk[r.Intn(len(junk))]
	case 1:
		return "bytes=" + num() + "-"
	case 2:
		return "bytes=-" + num()
	case 3:
		return "bytes=" + num() + "-" + num() + "," + num() + "-" + num()
	case 4:
		// mutate a legal header by one byte
		h := []byte("bytes=" + num() + "-" + num())
		alphabet := " \t-=+,.0a9\x00"
		switch r.Intn(3) {
		case 0:
			h[r.Intn(len(h))] = alphabet[r.Intn(len(alphabet))]
		case 1:
			i := r.Intn(len(h) + 1)
			h = append(h[:i], append([]byte{alphabet[r.Intn(len(alphabet))]}, h[i:]...)...)
		default:
			i := r.Intn(len(h))
			h = append(h[:i], h[i+1:]...)
		}
		return string(h)
	default:
		return "bytes=" + num() + "-" + num()
	}
}

func matches(o outcome, start, length int64, valid bool, isErr bool, size int64) bool {
	switch o.kind {
	case "unsat":
		return isErr
	case "ignore":
		return !isErr && !valid && start == 0 && length == size
	default:
		return !isErr && valid && start == o.start && length == o.length
	}
}

func laneDirect(c *ev.Ctx) {
	r := c.Rng("direct")
	sizes := []int64{0, 1, 2, 10, 4096, 1 << 31, math.MaxInt64}
	n := c.Pick(30000, 6000000)
	check := func(id string, size int64, h string) {
		start, length, valid, err := backend.ParseGetObjectRange(size, h)
		e := reference(size, h)
		c.Eval(1)
		ok := false
		for _, o := range e.strict {
			if matches(o, start, length, valid, err != nil, size) {
				ok = true
			}
		}
		// universal safety: a valid slice never leaves the object
		if err == nil && (start < 0 || length < 0 || start+length > size || start+length < 0) {
			ok = false
		}
		c.Distinct("direct|" + sizeClass(size) + "|" + e.class)
		if !ok {
			c.Violation("direct:"+e.class, id, map[string]any{"size": size, "range": h, "got": fmt.Sprintf("start=%d len=%d valid=%v err=%v", start, length, valid, err), "want_one_of": fmt.Sprint(e.strict)})
		}
	}
	for _, s := range sizes {
		for i, j := range junk {
			id := fmt.Sprintf("direct/junk/%d/%d", s, i)
			if c.Want(id) {
				check(id, s, j)
			}
		}
	}
	for i := 0; i < n; i++ {
		size := sizes[r.Intn(len(sizes))]
		h := genHeader(r, size)
		id := fmt.Sprintf("direct/gen/%d", i)
		if !c.Want(id) {
			continue
		}
		check(id, size, h)
		if i < 2 {
			c.Sample(map[string]any{"lane": "direct", "size": size, "range": h, "reference": fmt.Sprint(reference(size, h))})
		}
	}
}

func laneE2E(c *ev.Ctx) {
	env, err := fx.New("c13", gw.Config{Versioning: true}, 1)
	if err != nil {
		c.Inconclusive("gateway start: " + err.Error())
		return
	}
	defer env.Close()
	cl := env.Client(0)
	if r := cl.CreateBucket("rng"); !r.OK() {
		c.Inconclusive("create bucket: " + r.String())
		return
	}
	r := c.Rng("e2e")
	objs := map[int64][]byte{}
	// 790753 = 3 x 256 KiB + 4321, 262145 = 256 KiB + 1: bodies that span several of any server-side copy buffer
	for _, sz := range []int64{0, 1, 2, 100, 70000, 262145, 790753} {
		b := make([]byte, sz)
		r.Read(b)
		objs[sz] = b
		if resp := cl.PutObject("rng", fmt.Sprintf("o%d", sz), b); !resp.OK() {
			c.Inconclusive("seed put: " + resp.String())
			return
		}
	}
	// an explicit directory object is an object of length 0 like any other (its directory inode has a size of its own)
	dirObj := false
	if resp := cl.PutObject("rng", "dirobj/", nil); resp.OK() {
		dirObj = true
	}
	sizes := []int64{0, 1, 2, 100, 70000}
	bigSizes := []int64{262145, 790753}
	n := c.Pick(500, 40000)
	// If-Range validators that may accompany a Range: with one that matches the range is served, with one that does not
	// the answer may be the whole object instead (200) - never a 200 that carries a slice
	ifRange := func(kind string, obj []byte) string {
		switch kind {
		case "current-etag":
			return `"` + s3c.MD5Hex(obj) + `"`
		case "stale-etag":
			return `"` + s3c.MD5Hex([]byte("an older body")) + `"`
		case "weak-etag":
			return `W/"` + s3c.MD5Hex(obj) + `"`
		case "unquoted-etag":
			return s3c.MD5Hex(obj)
		case "garbage":
			return "not a validator"
		case "date-past":
			return "Mon, 02 Jan 2006 15:04:05 GMT"
		case "date-future":
			return "Fri, 01 Jan 2088 00:00:00 GMT"
		}
		return ""
	}
	ifRangeKinds := []string{"current-etag", "stale-etag", "weak-etag", "unquoted-etag", "garbage", "date-past", "date-future"}
	// other conditional headers next to a Range: the answer may also be 304 (no body) or 412 - still never a 200
	// that carries a slice, nor a 206 with other bytes than the range names. Written "Header-Name|kind".
	condKinds := []string{"If-Match|current-etag", "If-Match|stale-etag", "If-None-Match|current-etag", "If-None-Match|stale-etag",
		"If-Modified-Since|date-past", "If-Modified-Since|date-future", "If-Unmodified-Since|date-past", "If-Unmodified-Since|date-future"}
	// query arguments that address the object in another way or decorate the answer, next to a Range: the request may
	// be refused (4xx: S3 itself refuses Range together with partNumber), or served as the range / as the whole
	// object - status, Content-Range, Content-Length and body must still describe one and the same thing
	queryKinds := []string{"partNumber=1", "partNumber=2", "partNumber=0", "response-content-type=text%2Fplain", "response-cache-control=no-cache", "x-id=GetObject", "versionId=null"}
	compQuery := ""
	comp := ""
	useDir := false
	// objects that carry attributes of their own (a Content-Encoding, content headers, user metadata): a range is a
	// range of the stored bytes whatever the attributes say about them
	altKey := ""
	altObjs := map[string][]byte{}
	for i, enc := range []string{"gzip", "br", "deflate", "zstd", "identity", "GZIP"} {
		b := make([]byte, []int{1000, 70000}[i%2])
		r.Read(b)
		k := fmt.Sprintf("encoded-%s-%d", enc, len(b))
		if resp := cl.PutObject("rng", k, b, "Content-Encoding", enc, "Content-Type", "application/x-tar", "Cache-Control", "no-transform", "X-Amz-Meta-Packed", "yes"); resp.OK() {
			altObjs[k] = b
		}
	}
	one := func(id string, size int64, h string, head bool) {
		obj := objs[size]
		key := fmt.Sprintf("o%d", size)
		if useDir {
			key = "dirobj/"
		}
		if altKey != "" {
			key, obj = altKey, altObjs[altKey]
		}
		var resp *s3c.Resp
		method := "GET"
		hdr := []string{"Range", h}
		compHdr, compKind := "If-Range", comp
		if hn, k, ok := strings.Cut(comp, "|"); ok {
			compHdr, compKind = hn, k
		}
		if comp != "" {
			hdr = append(hdr, compHdr, ifRange(compKind, obj))
		}
		if compQuery != "" {
			rq := &s3c.Req{Method: "GET", Path: s3c.ObjPath("rng", key), Query: compQuery}
			if head {
				rq.Method = "HEAD"
			}
			for i := 0; i+1 < len(hdr); i += 2 {
				rq.Header = append(rq.Header, [2]string{hdr[i], hdr[i+1]})
			}
			if head {
				method = "HEAD"
			}
			resp = cl.Do(rq)
		} else if head {
			method = "HEAD"
			resp = cl.HeadObject("rng", key, hdr...)
		} else {
			resp = cl.GetObject("rng", key, hdr...)
		}
		c.Eval(1)
		if resp.Err != nil && strings.HasPrefix(resp.Err.Error(), "read body") && env.GWs[0].Alive() {
			// status line and headers arrived, the body ended before Content-Length bytes
			c.Violation("e2e:body-shorter-than-content-length:"+sizeClass(size), id, map[string]any{"method": method, "size": size, "range": h, "answer": resp.Raw, "error": resp.Err.Error()})
			return
		}
		if resp.Err != nil {
			if _, cr := env.Dead(); cr != nil {
				c.Violation("e2e:gateway-died", id, map[string]any{"range": h, "crash": cr.Message, "frame": cr.TopFrame})
			} else {
				c.Inconclusive("transport error")
			}
			return
		}
		e := reference(size, h)
		if strings.ContainsAny(h, "\x00\r\n") {
			return // not transmittable as a header value
		}
		if (resp.Status == 403 || resp.Status == 400) && h != strings.Join(strings.Fields(h), " ") {
			c.Observe("header value with blanks refused before range handling (" + resp.ErrCode() + ")")
			return
		}
		if head {
			// the property speaks about GET; a HEAD that ignores Range is the "unsupported form" outcome
			e.strict = append(e.strict, outcome{kind: "ignore"})
		}
		if compQuery != "" {
			e.strict = append(e.strict, outcome{kind: "ignore"})
			qn, _, _ := strings.Cut(compQuery, "=")
			e.class += "+query:" + qn
			if resp.Status >= 400 && resp.Status < 500 && resp.Status != 416 {
				c.Distinct("e2e|" + method + "|" + sizeClass(size) + "|" + e.class + "|refused")
				return
			}
		}
		if comp != "" {
			e.strict = append(e.strict, outcome{kind: "ignore"})
			e.class += "+" + strings.ToLower(compHdr) + ":" + compKind
			if compHdr != "If-Range" && (resp.Status == 412 || resp.Status == 304 && len(resp.Body) == 0) {
				c.Distinct("e2e|" + method + "|" + sizeClass(size) + "|" + e.class + "|precondition")
				return
			}
		}
		if useDir {
			e.class += "+directory-object"
		}
		if altKey != "" {
			e.class += "+content-encoding:" + strings.SplitN(strings.TrimPrefix(altKey, "encoded-"), "-", 2)[0]
		}
		c.Distinct("e2e|" + method + "|" + sizeClass(size) + "|" + e.class)
		cr := resp.Header.Get("Content-Range")
		cl := resp.Header.Get("Content-Length")
		obs := map[string]any{"method": method, "size": size, "range": h, "status": resp.Status, "content_range": cr, "content_length": cl, "body_len": len(resp.Body), "class": e.class}
		if compQuery != "" {
			obs["query"] = compQuery
		}
		if comp != "" {
			obs["conditional_header"] = compHdr + ": " + ifRange(compKind, obj)
		}
		bad := func(sig, why string) {
			obs["why"] = why
			c.Violation("e2e:"+sig, id, obs)
		}
		// which acceptable outcome does the response claim?
		ok := false
		for _, o := range e.strict {
			switch o.kind {
			case "unsat":
				if resp.Status == 416 {
					ok = true
				}
			case "ignore":
				if resp.Status == 200 && cr == "" && cl == strconv.FormatInt(size, 10) && (head || bytes.Equal(resp.Body, obj)) {
					ok = true
				}
			case "slice":
				wantCR := fmt.Sprintf("bytes %d-%d/%d", o.start, o.start+o.length-1, size)
				if resp.Status == 206 && cr == wantCR && cl == strconv.FormatInt(o.length, 10) && (head || bytes.Equal(resp.Body, obj[o.start:o.start+o.length])) {
					ok = true
				}
			}
		}
		if ok {
			return
		}
		// classify the failure
		switch {
		case resp.Status == 206 && cr == "" && (head || bytes.Equal(resp.Body, obj)):
			bad("status206-without-content-range:"+strings.SplitN(e.class, ":", 2)[0], "206 for a range form that was not honoured (whole object, no Content-Range)")
		case resp.Status >= 500:
			bad("server-error", "5xx")
		case resp.Status == 206 || resp.Status == 200:
			if !head && cl != strconv.Itoa(len(resp.Body)) {
				bad("length-mismatch", "Content-Length disagrees with body")
			} else {
				bad("wrong-bytes-or-headers:"+e.class, "status/Content-Range/Content-Length/body do not describe an acceptable outcome")
			}
		default:
			bad("wrong-status:"+e.class, "unexpected status")
		}
	}
	for _, s := range sizes {
		for i, j := range junk {
			id := fmt.Sprintf("e2e/junk/%d/%d", s, i)
			if c.Want(id) && (s != 70000 || i%3 == 0 || c.Thorough()) {
				one(id, s, j, i%5 == 4)
			}
		}
	}
	// long bodies: a fixed set of ranges per big object (every run), plus one in ten of the generated cases
	for _, s := range bigSizes {
		for i, h := range []string{"", "bytes=0-", "bytes=1-", fmt.Sprintf("bytes=1-%d", s-2), fmt.Sprintf("bytes=%d-", s-262144-7), "bytes=0-262143", "bytes=0-262144", "bytes=5-524292", fmt.Sprintf("bytes=%d-%d", s/2, s+100), "bytes=-300000", "bytes=100000-400000"} {
			id := fmt.Sprintf("e2e/big/%d/%d", s, i)
			if c.Want(id) {
				one(id, s, h, false)
			}
		}
	}
	// every validator kind with a plain satisfiable range, on a small and a long object
	for _, s := range []int64{100, 790753} {
		for i, k := range ifRangeKinds {
			for j, h := range []string{"bytes=10-29", "bytes=50-", "bytes=-7"} {
				id := fmt.Sprintf("e2e/if-range/%d/%d/%d", s, i, j)
				if c.Want(id) {
					comp = k
					one(id, s, h, false)
					comp = ""
				}
			}
		}
	}
	{
		var aks []string
		for k := range altObjs {
			aks = append(aks, k)
		}
		sort.Strings(aks)
		for ai, k := range aks {
			sz := int64(len(altObjs[k]))
			for i, h := range []string{"bytes=100-199", "bytes=0-0", fmt.Sprintf("bytes=%d-", sz-10), "bytes=0-", fmt.Sprintf("bytes=5-%d", sz+50), ""} {
				id := fmt.Sprintf("e2e/encoded/%d/%d", ai, i)
				if c.Want(id) {
					altKey = k
					one(id, sz, h, false)
					altKey = ""
				}
			}
		}
	}
	if dirObj {
		for i, h := range []string{"bytes=0-", "bytes=0-0", "bytes=0-10", "bytes=5-", "bytes=-1", "bytes=1-2", "bytes=0-4095", "bytes=39-40", ""} {
			id := fmt.Sprintf("e2e/dirobj/%d", i)
			if c.Want(id) {
				useDir = true
				one(id, 0, h, i%4 == 3)
				useDir = false
			}
		}
	}
	for i, q := range queryKinds {
		for j, h := range []string{"bytes=10-19", "bytes=50-", "bytes=-7", "bytes=0-99"} {
			id := fmt.Sprintf("e2e/query/%d/%d", i, j)
			if c.Want(id) {
				compQuery = q
				one(id, 100, h, j == 3)
				compQuery = ""
			}
		}
	}
	for i, k := range condKinds {
		for j, h := range []string{"bytes=10-29", "bytes=-7"} {
			id := fmt.Sprintf("e2e/cond/%d/%d", i, j)
			if c.Want(id) {
				comp = k
				one(id, 100, h, false)
				comp = ""
			}
		}
	}
	for i := 0; i < n; i++ {
		size := sizes[r.Intn(len(sizes))]
		if r.Intn(10) == 0 {
			size = bigSizes[r.Intn(len(bigSizes))]
		}
		h := genHeader(r, size)
		id := fmt.Sprintf("e2e/gen/%d", i)
		ck := ""
		switch r.Intn(12) {
		case 0, 1:
			ck = ifRangeKinds[r.Intn(len(ifRangeKinds))]
		case 2:
			ck = condKinds[r.Intn(len(condKinds))]
		}
		cq := ""
		if r.Intn(10) == 0 {
			cq = queryKinds[r.Intn(len(queryKinds))]
		}
		if !c.Want(id) {
			continue
		}
		comp, compQuery = ck, cq
		one(id, size, h, i%7 == 6)
		comp, compQuery = "", ""
		if i < 2 {
			c.Sample(map[string]any{"lane": "e2e", "size": size, "range": h})
		}
	}
	if _, cr := env.Dead(); cr != nil {
		c.Violation("e2e:gateway-died", "e2e", map[string]any{"crash": cr.Message, "frame": cr.TopFrame})
	}
}

func Run(c *ev.Ctx) int {
	c.Assume("HTTP/1.1 over loopback; object sizes 0..70000 end to end, up to 2^63-1 in the direct lane")
	c.Assume("suffix ranges (-n), sign-prefixed / blank-padded numbers, >64-bit numbers and unit case variants are not judged strictly (either honoured correctly or ignored)")
	laneDirect(c)
	laneE2E(c)
	laneGated(c)
	return c.Finish("lane gated: a ranged GET paused at get.afterStat / get.afterAttrs / get.afterOpen while the key is overwritten with an object of another size, the answer must describe one of the two objects throughout; lane direct: ParseGetObjectRange(size, header) vs reference parser over a fixed junk list x 7 sizes plus PRNG headers; lane e2e: real GET/HEAD with Range on objects of 5 sizes; a case is distinct by (lane, method, size class, range-form class incl. expected outcome)", 20)
}
