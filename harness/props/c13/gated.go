package c13

import (
	"bytes"
	"fmt"
	"strconv"
	"strings"
	"time"

	"verif/harness/internal/ev"
	"verif/harness/internal/fx"
	"verif/harness/internal/gate"
	"verif/harness/internal/gw"
	"verif/harness/internal/s3c"
)

// Lane G: "the body never disagrees with the status, length and range headers" while the object changes. A ranged
// GET is paused at each of the instrumentation points it passes while the key is overwritten with an object of
// another size; the answer must describe ONE of the two objects throughout: status, Content-Range, Content-Length
// and body are those the reference gives for the old object, or those it gives for the new one.
func laneGated(c *ev.Ctx) {
	if !c.Want("G") {
		return
	}
	ctl, err := gate.New(gw.Scratch())
	if err != nil {
		c.Inconclusive(err.Error())
		return
	}
	defer ctl.Close()
	env, err := fx.New("c13g", gw.Config{Env: ctl.Env("get.afterStat", "get.afterAttrs", "get.afterOpen")}, 1)
	if err != nil {
		c.Inconclusive("gateway start (gated lane): " + err.Error())
		return
	}
	defer env.Close()
	cl := env.Client(0)
	const b = "gated"
	if r := cl.CreateBucket(b); !r.OK() {
		c.Inconclusive("create bucket: " + r.String())
		return
	}
	mk := func(tag string, n int) []byte {
		return bytes.Repeat([]byte(tag), n/len(tag)+1)[:n]
	}
	type sc struct {
		oldN, newN int
		hdr        string
	}
	scs := []sc{{300, 1000, "bytes=100-"}, {1000, 300, "bytes=100-899"}, {1000, 300, "bytes=-50"}, {300, 1000, "bytes=-50"}, {1000, 300, "bytes=500-"},
		{300, 1000, "bytes=500-"}, {1000, 10, "bytes=0-0"}, {10, 1000, "bytes=5-2000"}, {1000, 300, ""}, {300, 1000, "bytes=0-299"}}
	n := 0
	for si, s := range scs {
		for j := 1; j <= 3; j++ {
			id := fmt.Sprintf("G/%d/%d", si, j)
			if !c.Want(id) {
				continue
			}
			n++
			key := fmt.Sprintf("k-%d-%d", si, j)
			oldB, newB := mk("OLD-object.", s.oldN), mk("new_OBJECT|", s.newN)
			if r := cl.PutObject(b, key, oldB); !r.OK() {
				c.Inconclusive("put: " + r.String())
				return
			}
			pol, _ := gate.HoldNth(j)
			ctl.SetPolicy(pol)
			ch := make(chan *s3c.Resp, 1)
			go func() {
				var h s3c.H
				if s.hdr != "" {
					h = s3c.H{{"Range", s.hdr}}
				}
				ch <- cl.Do(&s3c.Req{Method: "GET", Path: s3c.ObjPath(b, key), Header: h})
			}()
			var h *gate.Hit
			var early *s3c.Resp
			for t := 0; t < 400 && h == nil && early == nil; t++ {
				if h = ctl.WaitHeld(25 * time.Millisecond); h == nil {
					select {
					case early = <-ch:
					default:
					}
				}
			}
			ctl.SetPolicy(nil)
			if h == nil {
				if early == nil {
					<-ch
				}
				c.Observe("gated lane: GET was answered before its point " + strconv.Itoa(j))
				continue
			}
			point := h.Name
			pr := cl.Do(&s3c.Req{Method: "PUT", Path: s3c.ObjPath(b, key), Body: newB, FreshConn: true})
			h.Release()
			g := <-ch
			c.Eval(1)
			if !pr.OK() {
				c.Observe("gated lane: overwrite refused: " + pr.String())
				continue
			}
			det := map[string]any{"schedule": "GET (Range: " + s.hdr + ") paused at " + point + " | PUT of " + strconv.Itoa(s.newN) + " bytes over " + strconv.Itoa(s.oldN) + " bytes | release",
				"answer": g.String(), "content_range": g.Header.Get("Content-Range"), "content_length": g.Header.Get("Content-Length"), "body_len": len(g.Body), "body_head": string(g.Body[:min(len(g.Body), 24)])}
			if g.Err != nil {
				c.Violation("gated:GET@"+point+"|PUT:answer-cut-or-dropped", id, det)
				continue
			}
			fits := func(obj []byte) bool {
				e := reference(int64(len(obj)), s.hdr)
				for _, o := range e.strict {
					switch o.kind {
					case "unsat":
						if g.Status == 416 {
							return true
						}
					case "ignore":
						if g.Status == 200 && bytes.Equal(g.Body, obj) && g.Header.Get("Content-Length") == strconv.Itoa(len(obj)) {
							return true
						}
					case "slice":
						want := obj[o.start : o.start+o.length]
						cr := fmt.Sprintf("bytes %d-%d/%d", o.start, o.start+o.length-1, len(obj))
						if g.Status == 206 && bytes.Equal(g.Body, want) && g.Header.Get("Content-Length") == strconv.Itoa(len(want)) && g.Header.Get("Content-Range") == cr {
							return true
						}
					}
				}
				return false
			}
			switch {
			case fits(oldB):
				c.Distinct("G|" + point + "|" + sizeRel(s.oldN, s.newN) + "|" + rangeKind(s.hdr) + "|old")
			case fits(newB):
				c.Distinct("G|" + point + "|" + sizeRel(s.oldN, s.newN) + "|" + rangeKind(s.hdr) + "|new")
			default:
				c.Violation("gated:GET@"+point+"|PUT:answer-describes-neither-object:"+sizeRel(s.oldN, s.newN), id, det)
			}
		}
	}
	c.Add("gated_schedules", n)
}

func sizeRel(o, n int) string {
	if n > o {
		return "grows"
	}
	return "shrinks"
}

func rangeKind(h string) string {
	switch {
	case h == "":
		return "none"
	case strings.HasPrefix(h, "bytes=-"):
		return "suffix"
	case strings.HasSuffix(h, "-"):
		return "open"
	}
	return "closed"
}
