//go:build !solo || solo_c01

package props

import _ "verif/harness/props/c01"
