//go:build !solo || solo_selftest

package props

import _ "verif/harness/props/selftest"
