//go:build !solo || solo_c12

package props

import _ "verif/harness/props/c12"
