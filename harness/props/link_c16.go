//go:build !solo || solo_c16

package props

import _ "verif/harness/props/c16"
