//go:build !solo || solo_c10

package props

import _ "verif/harness/props/c10"
