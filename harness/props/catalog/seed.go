package catalog

import (
	"encoding/xml"
	"fmt"
	"os"
	"path/filepath"
	"strings"

	"verif/harness/internal/fx"
	"verif/harness/internal/s3c"
)

// Account is a seeded IAM account.
type Account struct {
	Access, Secret, Role string
}

// Object is a seeded object (or object version).
type Object struct {
	Bucket, Key, Content, ETag, VersionID string
}

// State describes the seeded store: everything needed to instantiate catalogue
// entries and to recognise seeded data in a response.
//
//	accounts   Admin (role admin), UserPlus (userplus), User (user); secrets are canaries
//	Plain      bucket owned by root, ownership BucketOwnerPreferred, ACL (READ for User), tags, policy
//	           (Sid = PolicySid), objects Obj (tags, metadata), Nested (d/e/...), Dir (directory object
//	           "…/"), an in-progress multipart upload (MPUKey, UploadID) with part 1 (PartContent, PartETag)
//	Vers       bucket owned by UserPlus, versioning Enabled: key V1.Key with versions V1 and V2 (= latest),
//	           key Gone with one version and a delete marker (MarkerVersionID)
//	Lock       bucket with object lock enabled (default retention GOVERNANCE 1 day): Locked (retention
//	           GOVERNANCE until 2099 + legal hold ON), Free and FreeNested (stored before the default rule: no retention, no hold)
//	Empty      empty bucket owned by User
//	NewBucket  a name that does not exist
//
// Every bucket already contains the gateway's bookkeeping directory .sgwtmp.
type State struct {
	Admin, UserPlus, User Account

	Plain, Vers, Lock, Empty, NewBucket string
	PlainOwner                          string

	Obj, Nested, Dir Object
	ObjTagValue      string
	ObjMetaValue     string
	BucketTagValue   string
	PolicySid        string

	MPUKey, UploadID, PartContent, PartETag string

	V1, V2          Object
	Gone            Object
	MarkerVersionID string

	Locked, Free, FreeNested Object
}

// Canaries lists every string of the seed that must never show up in the
// response to a request that was not authorised.
func (st *State) Canaries() []string {
	out := []string{
		st.Admin.Secret, st.UserPlus.Secret, st.User.Secret,
		st.Admin.Access, st.UserPlus.Access, st.User.Access,
		st.Plain, st.Vers, st.Lock, st.Empty,
		st.ObjTagValue, st.ObjMetaValue, st.BucketTagValue, st.PolicySid,
		st.MPUKey, st.UploadID, st.PartContent, st.PartETag,
		st.MarkerVersionID,
	}
	for _, o := range []Object{st.Obj, st.Nested, st.V1, st.V2, st.Gone, st.Locked, st.Free, st.FreeNested} {
		out = append(out, o.Key, o.Content, strings.Trim(o.ETag, `"`), o.VersionID)
	}
	out = append(out, strings.TrimSuffix(st.Dir.Key, "/"))
	var res []string
	seen := map[string]bool{}
	for _, s := range out {
		if len(s) >= 6 && !seen[s] {
			seen[s] = true
			res = append(res, s)
		}
	}
	return res
}

type seeder struct {
	cl  *s3c.Client
	err error
}

func (s *seeder) ok(what string, r *s3c.Resp) *s3c.Resp {
	if s.err == nil && !r.OK() {
		s.err = fmt.Errorf("seed: %s: %s %s", what, r.String(), firstLine(r.Body))
	}
	return r
}

func firstLine(b []byte) string {
	if len(b) > 300 {
		b = b[:300]
	}
	return string(b)
}

func (s *seeder) put(what, b, k, content string, hdr ...string) Object {
	r := s.ok(what, s.cl.PutObject(b, k, []byte(content), hdr...))
	o := Object{Bucket: b, Key: k, Content: content}
	if r.Header != nil {
		o.ETag = r.Header.Get("ETag")
		o.VersionID = r.Header.Get("x-amz-version-id")
	}
	return o
}

// Seed builds the seeded store through gateway 0 of env (root credentials). The
// gateway must run with a versioning directory (gw.Config{Versioning: true}).
//
// Seed a store at the path it will be served from: with --sidecar the metadata of
// object versions is filed under the absolute path of the versioning directory, so
// a seeded store that is copied elsewhere loses them. To reset a store, keep a
// snap.CopyTree of it and copy that back to the same path (gateway stopped: the IAM
// cache lives in the process). Typical use:
//
//	env, _ := fx.New("cXX", gw.Config{Versioning: true}, 1)
//	st, err := catalog.Seed(env)
//	for _, e := range catalog.All() {
//	    a := e.Bind(st)                                  // tweak a.Bucket / a.Key / ... at will
//	    rq := e.Request(a, catalog.BodyValid).Req()      // *s3c.Req: add credentials / knobs
//	    resp := env.Client(0).Do(rq)
//	}
func Seed(env *fx.Env) (*State, error) {
	st := &State{
		Admin:    Account{"cnryadmin", "CNRYsecretOfAdmin0001", "admin"},
		UserPlus: Account{"cnryplus", "CNRYsecretOfUserPlus02", "userplus"},
		User:     Account{"cnryuser", "CNRYsecretOfUser000003", "user"},
		Plain:    "cnry-plain", Vers: "cnry-vers", Lock: "cnry-lock", Empty: "cnry-empty", NewBucket: "cnry-created",
		ObjTagValue: "CNRYobjTagValue", ObjMetaValue: "CNRYobjMetaValue", BucketTagValue: "CNRYbucketTagValue",
		PolicySid: "CNRYpolicySid", MPUKey: "cnry-mpu.bin", PartContent: "CNRY-part-one-content-0123456789",
	}
	root := env.Client(0)
	s := &seeder{cl: root}
	for i, a := range []Account{st.Admin, st.UserPlus, st.User} {
		s.ok("create user "+a.Access, env.CreateUser(a.Access, a.Secret, a.Role, 0, 0))
		_ = i
	}
	st.PlainOwner = root.AK

	// Plain
	s.ok("create plain", root.CreateBucket(st.Plain, "X-Amz-Object-Ownership", "BucketOwnerPreferred", "X-Amz-Grant-Read", st.User.Access))
	s.ok("tag plain", root.Sub("PUT", st.Plain, "", "tagging", s3c.TaggingXML(map[string]string{"cnry-tag": st.BucketTagValue})))
	s.ok("policy plain", root.Sub("PUT", st.Plain, "", "policy", []byte(PolicyJSON(st.PolicySid, st.UserPlus.Access, st.Plain))))
	st.Obj = s.put("obj", st.Plain, "cnry-obj.txt", "CNRY-plain-object-content-abcdefghijklmnopqrstuvwxyz",
		"X-Amz-Meta-Cnry", st.ObjMetaValue, "X-Amz-Tagging", "cnry-otag="+st.ObjTagValue, "Content-Type", "text/plain")
	st.Nested = s.put("nested", st.Plain, "d/e/cnry-nested.txt", "CNRY-nested-object-content-0123456789")
	st.Dir = s.put("dir", st.Plain, "cnry-dir/", "")
	id, r := root.CreateMPU(st.Plain, st.MPUKey)
	s.ok("create mpu", r)
	st.UploadID = id
	pr := s.ok("upload part", root.UploadPart(st.Plain, st.MPUKey, id, 1, []byte(st.PartContent)))
	if pr.Header != nil {
		st.PartETag = pr.Header.Get("ETag")
	}

	// Vers (owned by the userplus account)
	plus := root.With(st.UserPlus.Access, st.UserPlus.Secret)
	s.ok("create vers", plus.CreateBucket(st.Vers))
	s.ok("versioning vers", plus.PutBucketVersioning(st.Vers, "Enabled"))
	s.cl = plus
	st.V1 = s.put("v1", st.Vers, "cnry-v.txt", "CNRY-version-one-content-AAAAAAAAAAAA")
	st.V2 = s.put("v2", st.Vers, "cnry-v.txt", "CNRY-version-two-content-BBBBBBBBBBBB")
	st.Gone = s.put("gone", st.Vers, "cnry-gone.txt", "CNRY-deleted-object-content-CCCCCCCC")
	dr := s.ok("delete gone", plus.DeleteObject(st.Vers, st.Gone.Key))
	if dr.Header != nil {
		st.MarkerVersionID = dr.Header.Get("x-amz-version-id")
	}
	s.cl = root

	// Lock
	s.ok("create lock", root.CreateBucket(st.Lock, "X-Amz-Bucket-Object-Lock-Enabled", "true"))
	// the two "free" objects are stored before the bucket gets its default retention rule, so that they
	// carry no retention (PutObjectRetention / PutObjectLegalHold controls must be able to act on them)
	st.Free = s.put("free", st.Lock, "cnry-free.txt", "CNRY-free-object-content-EEEEEEEE")
	st.FreeNested = s.put("free nested", st.Lock, "d/e/cnry-free.txt", "CNRY-free-nested-content-FFFFFFFF")
	s.ok("lock config", root.Sub("PUT", st.Lock, "", "object-lock", []byte(LockConfigXML("GOVERNANCE", 1))))
	st.Locked = s.put("locked", st.Lock, "cnry-locked.txt", "CNRY-locked-object-content-DDDDDDDD",
		"X-Amz-Object-Lock-Mode", "GOVERNANCE", "X-Amz-Object-Lock-Retain-Until-Date", FarFuture, "X-Amz-Object-Lock-Legal-Hold", "ON")

	// Empty (made non-empty once so that .sgwtmp exists, then handed to the user account)
	s.ok("create empty", root.CreateBucket(st.Empty))
	s.put("tmp", st.Empty, "tmp", "x")
	s.ok("delete tmp", root.DeleteObject(st.Empty, "tmp"))
	s.ok("chown empty", root.Admin("/change-bucket-owner", s3c.Q("bucket", st.Empty, "owner", st.User.Access), nil))

	if s.err != nil {
		return nil, s.err
	}
	// sanity: ids were captured
	for what, v := range map[string]string{"upload id": st.UploadID, "part etag": st.PartETag, "v1 id": st.V1.VersionID, "v2 id": st.V2.VersionID,
		"marker id": st.MarkerVersionID, "obj etag": st.Obj.ETag} {
		if v == "" {
			return nil, fmt.Errorf("seed: %s not returned by the gateway", what)
		}
	}
	if st.V1.VersionID == st.V2.VersionID {
		return nil, fmt.Errorf("seed: versions not distinct")
	}
	for _, b := range []string{st.Plain, st.Vers, st.Lock, st.Empty} {
		if fi, err := os.Stat(filepath.Join(env.Store.Root, b, ".sgwtmp")); err != nil || !fi.IsDir() {
			return nil, fmt.Errorf("seed: %s/.sgwtmp missing after seeding", b)
		}
	}
	// the multipart listing must show the upload (guards against a silently different layout)
	lr := root.Do(&s3c.Req{Method: "GET", Path: s3c.BucketPath(st.Plain), Query: "uploads="})
	var l struct {
		Upload []struct{ UploadId string }
	}
	xml.Unmarshal(lr.Body, &l)
	if len(l.Upload) != 1 || l.Upload[0].UploadId != st.UploadID {
		return nil, fmt.Errorf("seed: multipart upload not listed: %s", lr.String())
	}
	return st, nil
}
