// Package catalog is the endpoint catalogue of DESIGN.md Appendix A plus the
// seeded store it is instantiated against. It is shared by the hostile-input
// checks (C02 today; C03, C04, C15, C20 are expected users) and contains NO
// property-specific logic: it only knows how to build a *well-formed* request
// for every route / sub-resource / path shape of the gateway and which seeded
// data such a request touches.
//
// # API
//
//	catalog.All() []*Entry               every catalogue entry (stable order, stable names)
//	catalog.ByName(name) *Entry          lookup
//	catalog.Seed(env) (*State, error)    build the seeded store through env.Client(0) (root) – see seed.go
//
//	type Entry struct {                  one endpoint = method x path shape x sub-resource
//	    Name   string                    stable id, e.g. "put-bucket-versioning-slash", "get-object-nested"
//	    Op     string                    S3 / admin operation name (PutBucketVersioning, ...)
//	    Method string
//	    Level  Level                     LvlService | LvlBucket | LvlObject | LvlAdmin
//	    Shape  string                    "plain" | "slash" (/b/) | "dir" (k/) | "nested" (d/e/k)
//	    Sub    string                    discriminating query ("" | "versioning" | "uploadId&partNumber" ...)
//	    Kind   Kind                      R (must keep working read-only) | W (mutator)
//	    Live   bool                      positive control expected to have its effect on the posix backend
//	    Action string                    AWS action name used by the C03 reference ("" = none)
//	    ACL    string                    READ | WRITE | READ_ACP | WRITE_ACP | "" (uniform rule of DESIGN 2.8)
//	    SrcAction string                 for copies: action needed on the copy source
//	    Role   string                    "" | "admin" | "not-user" (role requirement instead of an action)
//	    HasBody, Streamable, NoDrain bool  body expected / aws-chunked encodings apply / handler is
//	                                     anticipated not to read the wrapped body reader to EOF
//	}
//	e.Bind(st) Args                      default parameters against the seeded State (bucket, key, uploadId,
//	                                     versionId, copy source, account ...); callers may overwrite any field
//	e.Request(args, BodyEmpty|BodyValid|BodyBig) Request
//	                                     Request{Method, Path, Query, Header, Body}; Path/Query are wire
//	                                     encoded. BodyValid = small body valid for the endpoint (XML, JSON or
//	                                     object data), BodyBig = the same padded to 1 MiB in a way that keeps
//	                                     it valid, BodyEmpty = no body.
//	req.Req() *s3c.Req                   a fresh, unsigned-knob-free s3c request to add credentials/defects to
//	e.Proof(st, args) []string           strings of which at least one must occur in a correctly signed
//	                                     response for a reader to count as "returned seeded data" (nil: 2xx is
//	                                     enough, the operation returns no seeded data)
//
//	type State struct { ... }            names / ids / canaries of the seeded store (seed.go)
//	st.Canaries() []string               every secret string of the seed (contents, ETags, version ids,
//	                                     upload id, tag / metadata values, policy Sid, account secrets, names)
package catalog

import (
	"bytes"
	"fmt"
	"strconv"
	"strings"

	"verif/harness/internal/s3c"
)

type Kind byte

const (
	R Kind = 'R'
	W Kind = 'W'
)

func (k Kind) String() string { return string(k) }

type Level int

const (
	LvlService Level = iota
	LvlBucket
	LvlObject
	LvlAdmin
)

type BodyClass int

const (
	BodyEmpty BodyClass = iota
	BodyValid
	BodyBig
)

const BigSize = 1 << 20

// Args are the parameters a catalogue entry is instantiated with.
type Args struct {
	Bucket       string // target bucket (raw)
	Key          string // target key (raw, may contain '/', may end in '/')
	UploadID     string
	VersionID    string
	PartNumber   int
	SrcBucket    string // copy source
	SrcKey       string
	SrcVersionID string
	Access       string // admin API: account acted upon
	Secret       string // admin API: secret of a created / updated account
	Owner        string // admin API change-bucket-owner: new owner; ACL bodies: bucket owner
	Grantee      string // ACL requests: account that is granted something
	DelKeys      []string
	PartETag     string
	Data         []byte // object / part payload of the BodyValid class
}

// Request is a well-formed, not yet signed request.
type Request struct {
	Method string
	Path   string
	Query  string
	Header s3c.H
	Body   []byte
}

// Req returns a fresh s3c request (header slice copied).
func (r Request) Req() *s3c.Req {
	return &s3c.Req{Method: r.Method, Path: r.Path, Query: r.Query, Header: append(s3c.H{}, r.Header...), Body: r.Body}
}

type Entry struct {
	Name       string
	Op         string
	Method     string
	Level      Level
	Shape      string
	Sub        string
	Kind       Kind
	Live       bool
	Action     string
	ACL        string
	SrcAction  string
	Role       string
	HasBody    bool
	Streamable bool
	NoDrain    bool

	bind   func(st *State) Args
	query  func(a Args) string
	header func(a Args) s3c.H
	body   func(a Args) []byte
	pad    byte // padding byte for BodyBig (0 = space)
	proof  func(st *State, a Args) []string
}

func (e *Entry) Bind(st *State) Args { return e.bind(st) }

// Path returns the wire path for the entry's level and shape.
func (e *Entry) Path(a Args) string {
	switch e.Level {
	case LvlService:
		return "/"
	case LvlAdmin:
		return "/" + e.Sub
	case LvlBucket:
		p := s3c.BucketPath(a.Bucket)
		if e.Shape == "slash" {
			p += "/"
		}
		return p
	}
	return s3c.ObjPath(a.Bucket, a.Key)
}

func (e *Entry) Request(a Args, bc BodyClass) Request {
	r := Request{Method: e.Method, Path: e.Path(a)}
	if e.query != nil {
		r.Query = e.query(a)
	}
	if e.header != nil {
		r.Header = e.header(a)
	}
	if bc != BodyEmpty && e.body != nil {
		r.Body = e.body(a)
	}
	if bc == BodyBig {
		// keep the body valid for the endpoint: XML / JSON documents are padded with
		// trailing blanks, object data simply is 1 MiB long
		if n := BigSize - len(r.Body); n > 0 {
			p := e.pad
			if p == 0 {
				p = ' '
			}
			r.Body = append(append([]byte{}, r.Body...), bytes.Repeat([]byte{p}, n)...)
		}
	}
	return r
}

func (e *Entry) Proof(st *State, a Args) []string {
	if e.proof == nil {
		return nil
	}
	// ETags are quoted in headers and entity-escaped in XML bodies: compare the bare value
	var out []string
	for _, p := range e.proof(st, a) {
		out = append(out, strings.Trim(p, `"`))
	}
	return out
}

// ---------------------------------------------------------------------------

const xmlns = `xmlns="http://s3.amazonaws.com/doc/2006-03-01/"`

func q(kv ...string) func(Args) string { s := s3c.Q(kv...); return func(Args) string { return s } }

func fixed(b string) func(Args) []byte { return func(Args) []byte { return []byte(b) } }

func PolicyJSON(sid, principal, bucket string) string {
	return fmt.Sprintf(`{"Version":"2012-10-17","Statement":[{"Sid":%q,"Effect":"Allow","Principal":{"AWS":[%q]},"Action":"s3:GetObject","Resource":"arn:aws:s3:::%s/*"}]}`, sid, principal, bucket)
}

func ACLXML(owner, grantee, perm string) string {
	return `<AccessControlPolicy ` + xmlns + `><Owner><ID>` + owner + `</ID></Owner><AccessControlList><Grant>` +
		`<Grantee xmlns:xsi="http://www.w3.org/2001/XMLSchema-instance" xsi:type="CanonicalUser"><ID>` + grantee + `</ID></Grantee>` +
		`<Permission>` + perm + `</Permission></Grant></AccessControlList></AccessControlPolicy>`
}

func VersioningXML(status string) string {
	return `<VersioningConfiguration ` + xmlns + `><Status>` + status + `</Status></VersioningConfiguration>`
}

func LockConfigXML(mode string, days int) string {
	return `<ObjectLockConfiguration ` + xmlns + `><ObjectLockEnabled>Enabled</ObjectLockEnabled><Rule><DefaultRetention><Mode>` + mode +
		`</Mode><Days>` + strconv.Itoa(days) + `</Days></DefaultRetention></Rule></ObjectLockConfiguration>`
}

func OwnershipXML(v string) string {
	return `<OwnershipControls ` + xmlns + `><Rule><ObjectOwnership>` + v + `</ObjectOwnership></Rule></OwnershipControls>`
}

// RetentionXML: the date is years away from now (no wall clock in any verdict).
func RetentionXML(mode, until string) string {
	return `<Retention ` + xmlns + `><Mode>` + mode + `</Mode><RetainUntilDate>` + until + `</RetainUntilDate></Retention>`
}

func LegalHoldXML(status string) string {
	return `<LegalHold ` + xmlns + `><Status>` + status + `</Status></LegalHold>`
}

func DeleteXML(keys ...string) string {
	var sb strings.Builder
	sb.WriteString(`<Delete ` + xmlns + `>`)
	for _, k := range keys {
		sb.WriteString(`<Object><Key>` + s3c.XMLEsc(k) + `</Key></Object>`)
	}
	sb.WriteString(`</Delete>`)
	return sb.String()
}

func AccountXML(access, secret, role string, uid, gid int) string {
	return fmt.Sprintf(`<Account><Access>%s</Access><Secret>%s</Secret><Role>%s</Role><UserID>%d</UserID><GroupID>%d</GroupID></Account>`,
		s3c.XMLEsc(access), s3c.XMLEsc(secret), role, uid, gid)
}

const FarFuture = "2099-01-01T00:00:00Z"

func copySrc(a Args) string {
	s := s3c.URIEncode(a.SrcBucket+"/"+a.SrcKey, false)
	if a.SrcVersionID != "" {
		s += "?versionId=" + a.SrcVersionID
	}
	return s
}

var (
	all    []*Entry
	byName = map[string]*Entry{}
)

func add(e *Entry) *Entry {
	if e.Shape == "" {
		e.Shape = "plain"
	}
	if byName[e.Name] != nil {
		panic("catalog: duplicate entry " + e.Name)
	}
	all = append(all, e)
	byName[e.Name] = e
	return e
}

// bucket adds a bucket-level entry in both path shapes (/b and /b/).
func bucket(e Entry) {
	e.Level = LvlBucket
	p := e
	add(&p)
	s := e
	s.Name += "-slash"
	s.Shape = "slash"
	if e.Method == "PUT" && e.Sub != "tagging" && e.Sub != "acl" {
		// PUT with >= 3 path segments and neither ?tagging nor ?acl: the gateway defers the
		// signature check into a body reader that PutBucketActions never uses
		s.NoDrain = true
	}
	add(&s)
}

func object(e Entry) *Entry {
	e.Level = LvlObject
	return add(&e)
}

// All returns every catalogue entry.
func All() []*Entry { return all }

func ByName(n string) *Entry { return byName[n] }

func strs(s ...string) []string { return s }

func init() {
	// ---- service ---------------------------------------------------------
	add(&Entry{Name: "list-buckets", Op: "ListBuckets", Method: "GET", Level: LvlService, Kind: R, Live: true,
		bind:  func(st *State) Args { return Args{} },
		proof: func(st *State, a Args) []string { return strs(st.Plain, st.Vers) }})

	// ---- bucket level: PUT -------------------------------------------------
	bucket(Entry{Name: "create-bucket", Op: "CreateBucket", Method: "PUT", Kind: W, Live: true, Role: "not-user",
		bind: func(st *State) Args { return Args{Bucket: st.NewBucket} }})
	bucket(Entry{Name: "put-bucket-acl", Op: "PutBucketAcl", Method: "PUT", Sub: "acl", Kind: W, Live: true, HasBody: true,
		Action: "s3:PutBucketAcl", ACL: "WRITE_ACP", query: q("acl", "\x00"),
		bind: func(st *State) Args { return Args{Bucket: st.Plain, Owner: st.PlainOwner, Grantee: st.UserPlus.Access} },
		body: func(a Args) []byte { return []byte(ACLXML(a.Owner, a.Grantee, "FULL_CONTROL")) }})
	bucket(Entry{Name: "put-bucket-tagging", Op: "PutBucketTagging", Method: "PUT", Sub: "tagging", Kind: W, Live: true, HasBody: true,
		Action: "s3:PutBucketTagging", ACL: "WRITE", query: q("tagging", "\x00"),
		bind: func(st *State) Args { return Args{Bucket: st.Plain} },
		body: func(a Args) []byte { return s3c.TaggingXML(map[string]string{"cat-new": "replaced"}) }})
	bucket(Entry{Name: "put-bucket-versioning", Op: "PutBucketVersioning", Method: "PUT", Sub: "versioning", Kind: W, Live: true, HasBody: true,
		Action: "s3:PutBucketVersioning", ACL: "WRITE", query: q("versioning", "\x00"),
		bind: func(st *State) Args { return Args{Bucket: st.Plain} },
		body: fixed(VersioningXML("Enabled"))})
	bucket(Entry{Name: "put-bucket-policy", Op: "PutBucketPolicy", Method: "PUT", Sub: "policy", Kind: W, Live: true, HasBody: true,
		Action: "s3:PutBucketPolicy", ACL: "WRITE", query: q("policy", "\x00"),
		bind: func(st *State) Args { return Args{Bucket: st.Vers, Grantee: st.User.Access} },
		body: func(a Args) []byte { return []byte(PolicyJSON("cat-replaced", a.Grantee, a.Bucket)) }})
	bucket(Entry{Name: "put-bucket-object-lock", Op: "PutObjectLockConfiguration", Method: "PUT", Sub: "object-lock", Kind: W, Live: true, HasBody: true,
		Action: "s3:PutBucketObjectLockConfiguration", ACL: "WRITE", query: q("object-lock", "\x00"),
		bind: func(st *State) Args { return Args{Bucket: st.Lock} },
		body: fixed(LockConfigXML("COMPLIANCE", 7))})
	bucket(Entry{Name: "put-bucket-ownership", Op: "PutBucketOwnershipControls", Method: "PUT", Sub: "ownershipControls", Kind: W, Live: true, HasBody: true,
		Action: "s3:PutBucketOwnershipControls", ACL: "WRITE", query: q("ownershipControls", "\x00"),
		bind: func(st *State) Args { return Args{Bucket: st.Plain} },
		body: fixed(OwnershipXML("BucketOwnerEnforced"))})
	bucket(Entry{Name: "put-bucket-cors", Op: "PutBucketCors", Method: "PUT", Sub: "cors", Kind: W, Live: false, HasBody: true,
		Action: "s3:PutBucketCORS", ACL: "WRITE", query: q("cors", "\x00"),
		bind: func(st *State) Args { return Args{Bucket: st.Plain} },
		body: fixed(`<CORSConfiguration ` + xmlns + `><CORSRule><AllowedMethod>GET</AllowedMethod><AllowedOrigin>*</AllowedOrigin></CORSRule></CORSConfiguration>`)})

	// ---- bucket level: DELETE ----------------------------------------------
	bucket(Entry{Name: "delete-bucket", Op: "DeleteBucket", Method: "DELETE", Kind: W, Live: true,
		Action: "s3:DeleteBucket", ACL: "WRITE",
		bind: func(st *State) Args { return Args{Bucket: st.Empty} }})
	bucket(Entry{Name: "delete-bucket-tagging", Op: "DeleteBucketTagging", Method: "DELETE", Sub: "tagging", Kind: W, Live: true,
		Action: "s3:PutBucketTagging", ACL: "WRITE", query: q("tagging", "\x00"),
		bind: func(st *State) Args { return Args{Bucket: st.Plain} }})
	bucket(Entry{Name: "delete-bucket-ownership", Op: "DeleteBucketOwnershipControls", Method: "DELETE", Sub: "ownershipControls", Kind: W, Live: true,
		Action: "s3:PutBucketOwnershipControls", ACL: "WRITE", query: q("ownershipControls", "\x00"),
		bind: func(st *State) Args { return Args{Bucket: st.Plain} }})
	bucket(Entry{Name: "delete-bucket-policy", Op: "DeleteBucketPolicy", Method: "DELETE", Sub: "policy", Kind: W, Live: true,
		Action: "s3:DeleteBucketPolicy", ACL: "WRITE", query: q("policy", "\x00"),
		bind: func(st *State) Args { return Args{Bucket: st.Plain} }})
	bucket(Entry{Name: "delete-bucket-cors", Op: "DeleteBucketCors", Method: "DELETE", Sub: "cors", Kind: W, Live: false,
		Action: "s3:PutBucketCORS", ACL: "WRITE", query: q("cors", "\x00"),
		bind: func(st *State) Args { return Args{Bucket: st.Plain} }})

	// ---- bucket level: HEAD / GET -------------------------------------------
	bucket(Entry{Name: "head-bucket", Op: "HeadBucket", Method: "HEAD", Kind: R, Live: true,
		Action: "s3:ListBucket", ACL: "READ",
		bind: func(st *State) Args { return Args{Bucket: st.Plain} }})
	bucket(Entry{Name: "get-bucket-tagging", Op: "GetBucketTagging", Method: "GET", Sub: "tagging", Kind: R, Live: true,
		Action: "s3:GetBucketTagging", ACL: "READ", query: q("tagging", "\x00"),
		bind:  func(st *State) Args { return Args{Bucket: st.Plain} },
		proof: func(st *State, a Args) []string { return strs(st.BucketTagValue) }})
	bucket(Entry{Name: "get-bucket-ownership", Op: "GetBucketOwnershipControls", Method: "GET", Sub: "ownershipControls", Kind: R, Live: true,
		Action: "s3:GetBucketOwnershipControls", ACL: "READ", query: q("ownershipControls", "\x00"),
		bind:  func(st *State) Args { return Args{Bucket: st.Plain} },
		proof: func(st *State, a Args) []string { return strs("BucketOwnerPreferred") }})
	bucket(Entry{Name: "get-bucket-versioning", Op: "GetBucketVersioning", Method: "GET", Sub: "versioning", Kind: R, Live: true,
		Action: "s3:GetBucketVersioning", ACL: "READ", query: q("versioning", "\x00"),
		bind:  func(st *State) Args { return Args{Bucket: st.Vers} },
		proof: func(st *State, a Args) []string { return strs("<Status>Enabled</Status>") }})
	bucket(Entry{Name: "get-bucket-policy", Op: "GetBucketPolicy", Method: "GET", Sub: "policy", Kind: R, Live: true,
		Action: "s3:GetBucketPolicy", ACL: "READ", query: q("policy", "\x00"),
		bind:  func(st *State) Args { return Args{Bucket: st.Plain} },
		proof: func(st *State, a Args) []string { return strs(st.PolicySid) }})
	bucket(Entry{Name: "get-bucket-cors", Op: "GetBucketCors", Method: "GET", Sub: "cors", Kind: R, Live: false,
		Action: "s3:GetBucketCORS", ACL: "READ", query: q("cors", "\x00"),
		bind: func(st *State) Args { return Args{Bucket: st.Plain} }})
	bucket(Entry{Name: "get-bucket-object-lock", Op: "GetObjectLockConfiguration", Method: "GET", Sub: "object-lock", Kind: R, Live: true,
		Action: "s3:GetBucketObjectLockConfiguration", ACL: "READ", query: q("object-lock", "\x00"),
		bind:  func(st *State) Args { return Args{Bucket: st.Lock} },
		proof: func(st *State, a Args) []string { return strs("<Mode>GOVERNANCE</Mode>") }})
	bucket(Entry{Name: "list-object-versions", Op: "ListObjectVersions", Method: "GET", Sub: "versions", Kind: R, Live: true,
		Action: "s3:ListBucketVersions", ACL: "READ", query: q("versions", "\x00"),
		bind:  func(st *State) Args { return Args{Bucket: st.Vers} },
		proof: func(st *State, a Args) []string { return strs(st.V1.VersionID) }})
	bucket(Entry{Name: "get-bucket-acl", Op: "GetBucketAcl", Method: "GET", Sub: "acl", Kind: R, Live: true,
		Action: "s3:GetBucketAcl", ACL: "READ_ACP", query: q("acl", "\x00"),
		bind:  func(st *State) Args { return Args{Bucket: st.Plain} },
		proof: func(st *State, a Args) []string { return strs(st.User.Access) }})
	bucket(Entry{Name: "list-multipart-uploads", Op: "ListMultipartUploads", Method: "GET", Sub: "uploads", Kind: R, Live: true,
		Action: "s3:ListBucketMultipartUploads", ACL: "READ", query: q("uploads", "\x00"),
		bind:  func(st *State) Args { return Args{Bucket: st.Plain} },
		proof: func(st *State, a Args) []string { return strs(st.UploadID) }})
	bucket(Entry{Name: "list-objects-v2", Op: "ListObjectsV2", Method: "GET", Sub: "list-type=2", Kind: R, Live: true,
		Action: "s3:ListBucket", ACL: "READ", query: q("list-type", "2"),
		bind:  func(st *State) Args { return Args{Bucket: st.Plain} },
		proof: func(st *State, a Args) []string { return strs(st.Obj.ETag) }})
	bucket(Entry{Name: "list-objects-v1", Op: "ListObjects", Method: "GET", Kind: R, Live: true,
		Action: "s3:ListBucket", ACL: "READ", query: q("prefix", "cnry", "max-keys", "100"),
		bind:  func(st *State) Args { return Args{Bucket: st.Plain} },
		proof: func(st *State, a Args) []string { return strs(st.Obj.ETag) }})

	// ---- bucket level: POST --------------------------------------------------
	bucket(Entry{Name: "delete-objects", Op: "DeleteObjects", Method: "POST", Sub: "delete", Kind: W, Live: true, HasBody: true,
		Action: "s3:DeleteObject", ACL: "WRITE", query: q("delete", "\x00"),
		bind: func(st *State) Args { return Args{Bucket: st.Plain, DelKeys: []string{st.Obj.Key, st.Nested.Key}} },
		body: func(a Args) []byte { return []byte(DeleteXML(a.DelKeys...)) }})

	// ---- object level: HEAD / GET ----------------------------------------------
	objProof := func(st *State, a Args) []string { return strs(st.Obj.Content, st.Obj.ETag) }
	bindObj := func(st *State) Args { return Args{Bucket: st.Plain, Key: st.Obj.Key} }
	bindDir := func(st *State) Args { return Args{Bucket: st.Plain, Key: st.Dir.Key} }
	bindNested := func(st *State) Args { return Args{Bucket: st.Plain, Key: st.Nested.Key} }
	bindV1 := func(st *State) Args { return Args{Bucket: st.Vers, Key: st.V1.Key, VersionID: st.V1.VersionID} }
	bindLocked := func(st *State) Args { return Args{Bucket: st.Lock, Key: st.Locked.Key} }
	bindFree := func(st *State) Args { return Args{Bucket: st.Lock, Key: st.Free.Key} }
	bindMPU := func(st *State) Args {
		return Args{Bucket: st.Plain, Key: st.MPUKey, UploadID: st.UploadID, PartNumber: 1, PartETag: st.PartETag}
	}
	qVersion := func(a Args) string { return s3c.Q("versionId", a.VersionID) }
	qUpload := func(a Args) string { return s3c.Q("uploadId", a.UploadID) }
	qPart := func(a Args) string { return s3c.Q("partNumber", strconv.Itoa(a.PartNumber), "uploadId", a.UploadID) }

	object(Entry{Name: "head-object", Op: "HeadObject", Method: "HEAD", Kind: R, Live: true, Action: "s3:GetObject", ACL: "READ",
		bind: bindObj, proof: func(st *State, a Args) []string { return strs(st.Obj.ETag) }})
	object(Entry{Name: "head-object-version", Op: "HeadObject", Method: "HEAD", Sub: "versionId", Kind: R, Live: true, Action: "s3:GetObjectVersion", ACL: "READ",
		bind: bindV1, query: qVersion, proof: func(st *State, a Args) []string { return strs(st.V1.ETag) }})
	object(Entry{Name: "head-object-dir", Op: "HeadObject", Method: "HEAD", Shape: "dir", Kind: R, Live: true, Action: "s3:GetObject", ACL: "READ",
		bind: bindDir, proof: func(st *State, a Args) []string { return strs("application/x-directory") }})
	object(Entry{Name: "head-object-nested", Op: "HeadObject", Method: "HEAD", Shape: "nested", Kind: R, Live: true, Action: "s3:GetObject", ACL: "READ",
		bind: bindNested, proof: func(st *State, a Args) []string { return strs(st.Nested.ETag) }})
	object(Entry{Name: "get-object", Op: "GetObject", Method: "GET", Kind: R, Live: true, Action: "s3:GetObject", ACL: "READ",
		bind: bindObj, proof: objProof})
	object(Entry{Name: "get-object-range", Op: "GetObject", Method: "GET", Sub: "Range", Kind: R, Live: true, Action: "s3:GetObject", ACL: "READ",
		bind: bindObj, header: func(Args) s3c.H { return s3c.H{{"Range", "bytes=0-11"}} },
		proof: func(st *State, a Args) []string { return strs(st.Obj.Content[:12]) }})
	object(Entry{Name: "get-object-version", Op: "GetObject", Method: "GET", Sub: "versionId", Kind: R, Live: true, Action: "s3:GetObjectVersion", ACL: "READ",
		bind: bindV1, query: qVersion, proof: func(st *State, a Args) []string { return strs(st.V1.Content) }})
	object(Entry{Name: "get-object-dir", Op: "GetObject", Method: "GET", Shape: "dir", Kind: R, Live: true, Action: "s3:GetObject", ACL: "READ",
		bind: bindDir, proof: func(st *State, a Args) []string { return strs("application/x-directory") }})
	object(Entry{Name: "get-object-nested", Op: "GetObject", Method: "GET", Shape: "nested", Kind: R, Live: true, Action: "s3:GetObject", ACL: "READ",
		bind: bindNested, proof: func(st *State, a Args) []string { return strs(st.Nested.Content) }})
	object(Entry{Name: "get-object-tagging", Op: "GetObjectTagging", Method: "GET", Sub: "tagging", Kind: R, Live: true, Action: "s3:GetObjectTagging", ACL: "READ",
		bind: bindObj, query: q("tagging", "\x00"), proof: func(st *State, a Args) []string { return strs(st.ObjTagValue) }})
	object(Entry{Name: "get-object-retention", Op: "GetObjectRetention", Method: "GET", Sub: "retention", Kind: R, Live: true, Action: "s3:GetObjectRetention", ACL: "READ",
		bind: bindLocked, query: q("retention", "\x00"), proof: func(st *State, a Args) []string { return strs("2099-") }})
	object(Entry{Name: "get-object-legal-hold", Op: "GetObjectLegalHold", Method: "GET", Sub: "legal-hold", Kind: R, Live: true, Action: "s3:GetObjectLegalHold", ACL: "READ",
		bind: bindLocked, query: q("legal-hold", "\x00"), proof: func(st *State, a Args) []string { return strs("<Status>ON</Status>") }})
	object(Entry{Name: "list-parts", Op: "ListParts", Method: "GET", Sub: "uploadId", Kind: R, Live: true, Action: "s3:ListMultipartUploadParts", ACL: "READ",
		bind: bindMPU, query: qUpload, proof: func(st *State, a Args) []string { return strs(st.PartETag) }})
	object(Entry{Name: "get-object-acl", Op: "GetObjectAcl", Method: "GET", Sub: "acl", Kind: R, Live: false, Action: "s3:GetObjectAcl", ACL: "READ_ACP",
		bind: bindObj, query: q("acl", "\x00")})
	object(Entry{Name: "get-object-attributes", Op: "GetObjectAttributes", Method: "GET", Sub: "attributes", Kind: R, Live: true, Action: "s3:GetObjectAttributes", ACL: "READ",
		bind: bindObj, query: q("attributes", "\x00"), header: func(Args) s3c.H { return s3c.H{{"X-Amz-Object-Attributes", "ETag,ObjectSize"}} },
		proof: func(st *State, a Args) []string { return strs(strings.Trim(st.Obj.ETag, `"`)) }})

	// ---- object level: DELETE ----------------------------------------------------
	object(Entry{Name: "delete-object", Op: "DeleteObject", Method: "DELETE", Kind: W, Live: true, Action: "s3:DeleteObject", ACL: "WRITE", bind: bindObj})
	object(Entry{Name: "delete-object-version", Op: "DeleteObject", Method: "DELETE", Sub: "versionId", Kind: W, Live: true, Action: "s3:DeleteObjectVersion", ACL: "WRITE",
		bind: bindV1, query: qVersion})
	object(Entry{Name: "delete-object-versioned", Op: "DeleteObject", Method: "DELETE", Kind: W, Live: true, Action: "s3:DeleteObject", ACL: "WRITE",
		bind: func(st *State) Args { return Args{Bucket: st.Vers, Key: st.V2.Key} }})
	object(Entry{Name: "delete-object-dir", Op: "DeleteObject", Method: "DELETE", Shape: "dir", Kind: W, Live: true, Action: "s3:DeleteObject", ACL: "WRITE", bind: bindDir})
	object(Entry{Name: "delete-object-nested", Op: "DeleteObject", Method: "DELETE", Shape: "nested", Kind: W, Live: true, Action: "s3:DeleteObject", ACL: "WRITE", bind: bindNested})
	object(Entry{Name: "delete-object-tagging", Op: "DeleteObjectTagging", Method: "DELETE", Sub: "tagging", Kind: W, Live: true, Action: "s3:DeleteObjectTagging", ACL: "WRITE",
		bind: bindObj, query: q("tagging", "\x00")})
	object(Entry{Name: "abort-multipart-upload", Op: "AbortMultipartUpload", Method: "DELETE", Sub: "uploadId", Kind: W, Live: true, Action: "s3:AbortMultipartUpload", ACL: "WRITE",
		bind: bindMPU, query: qUpload})

	// ---- object level: POST --------------------------------------------------------
	object(Entry{Name: "create-multipart-upload", Op: "CreateMultipartUpload", Method: "POST", Sub: "uploads", Kind: W, Live: true, Action: "s3:PutObject", ACL: "WRITE",
		bind: func(st *State) Args { return Args{Bucket: st.Plain, Key: "cnry-new-mpu.bin"} }, query: q("uploads", "\x00")})
	object(Entry{Name: "create-multipart-upload-nested", Op: "CreateMultipartUpload", Method: "POST", Sub: "uploads", Shape: "nested", Kind: W, Live: true, Action: "s3:PutObject", ACL: "WRITE",
		bind: func(st *State) Args { return Args{Bucket: st.Plain, Key: "d/e/cnry-new-mpu.bin"} }, query: q("uploads", "\x00")})
	object(Entry{Name: "complete-multipart-upload", Op: "CompleteMultipartUpload", Method: "POST", Sub: "uploadId", Kind: W, Live: true, HasBody: true, Action: "s3:PutObject", ACL: "WRITE",
		bind: bindMPU, query: qUpload,
		body: func(a Args) []byte { return s3c.CompleteXML([]s3c.Part{{N: a.PartNumber, ETag: a.PartETag}}) }})
	object(Entry{Name: "restore-object", Op: "RestoreObject", Method: "POST", Sub: "restore", Kind: W, Live: false, HasBody: true, Action: "s3:RestoreObject", ACL: "WRITE",
		bind: bindObj, query: q("restore", "\x00"),
		body: fixed(`<RestoreRequest ` + xmlns + `><Days>1</Days></RestoreRequest>`)})
	object(Entry{Name: "select-object-content", Op: "SelectObjectContent", Method: "POST", Sub: "select&select-type=2", Kind: R, Live: false, HasBody: true, Action: "s3:GetObject", ACL: "READ",
		bind: bindObj, query: q("select", "\x00", "select-type", "2"),
		proof: func(st *State, a Args) []string { return strs(st.Obj.Content) },
		body: fixed(`<SelectObjectContentRequest ` + xmlns + `><Expression>select * from s3object</Expression><ExpressionType>SQL</ExpressionType>` +
			`<InputSerialization><CSV></CSV></InputSerialization><OutputSerialization><CSV></CSV></OutputSerialization></SelectObjectContentRequest>`)})

	// ---- object level: PUT ----------------------------------------------------------
	data := func(a Args) []byte { return a.Data }
	object(Entry{Name: "put-object", Op: "PutObject", Method: "PUT", Kind: W, Live: true, HasBody: true, Streamable: true, Action: "s3:PutObject", ACL: "WRITE", pad: 'x',
		bind: func(st *State) Args {
			return Args{Bucket: st.Plain, Key: "cnry-new.txt", Data: []byte("new object data written by a catalogue request")}
		},
		body: data})
	object(Entry{Name: "put-object-overwrite", Op: "PutObject", Method: "PUT", Kind: W, Live: true, HasBody: true, Streamable: true, Action: "s3:PutObject", ACL: "WRITE", pad: 'x',
		bind: func(st *State) Args {
			return Args{Bucket: st.Plain, Key: st.Obj.Key, Data: []byte("overwriting data written by a catalogue request")}
		},
		body: data})
	object(Entry{Name: "put-object-overwrite-versioned", Op: "PutObject", Method: "PUT", Kind: W, Live: true, HasBody: true, Streamable: true, Action: "s3:PutObject", ACL: "WRITE", pad: 'x',
		bind: func(st *State) Args {
			return Args{Bucket: st.Vers, Key: st.V2.Key, Data: []byte("third version written by a catalogue request")}
		},
		body: data})
	object(Entry{Name: "put-object-nested", Op: "PutObject", Method: "PUT", Shape: "nested", Kind: W, Live: true, HasBody: true, Streamable: true, Action: "s3:PutObject", ACL: "WRITE", pad: 'x',
		bind: func(st *State) Args {
			return Args{Bucket: st.Plain, Key: "n1/n2/cnry-new.txt", Data: []byte("nested object data written by a catalogue request")}
		},
		body: data})
	object(Entry{Name: "put-object-locked", Op: "PutObject", Method: "PUT", Sub: "lock-headers", Kind: W, Live: true, HasBody: true, Streamable: true, Action: "s3:PutObject", ACL: "WRITE", pad: 'x',
		bind: func(st *State) Args {
			return Args{Bucket: st.Lock, Key: "cnry-new-locked.txt", Data: []byte("locked object data written by a catalogue request")}
		},
		header: func(Args) s3c.H {
			return s3c.H{{"X-Amz-Object-Lock-Mode", "GOVERNANCE"}, {"X-Amz-Object-Lock-Retain-Until-Date", FarFuture}, {"X-Amz-Tagging", "cat=new"}}
		},
		body: data})
	// directory object: Content-Length 0, the backend never touches the body reader
	object(Entry{Name: "put-object-dir", Op: "PutObject", Method: "PUT", Shape: "dir", Kind: W, Live: true, NoDrain: true, Action: "s3:PutObject", ACL: "WRITE",
		bind:   func(st *State) Args { return Args{Bucket: st.Plain, Key: "cnry-newdir/"} },
		header: func(Args) s3c.H { return s3c.H{{"X-Amz-Meta-Cat", "dirmeta"}} }})
	object(Entry{Name: "put-object-dir-nested", Op: "PutObject", Method: "PUT", Shape: "dir", Sub: "nested", Kind: W, Live: true, NoDrain: true, Action: "s3:PutObject", ACL: "WRITE",
		bind: func(st *State) Args { return Args{Bucket: st.Vers, Key: "n1/n2/cnry-newdir/"} }})
	object(Entry{Name: "copy-object", Op: "CopyObject", Method: "PUT", Sub: "x-amz-copy-source", Kind: W, Live: true, Action: "s3:PutObject", SrcAction: "s3:GetObject", ACL: "WRITE",
		bind: func(st *State) Args {
			return Args{Bucket: st.Vers, Key: "cnry-copied.txt", SrcBucket: st.Plain, SrcKey: st.Obj.Key}
		},
		header: func(a Args) s3c.H { return s3c.H{{"X-Amz-Copy-Source", copySrc(a)}} },
		proof:  func(st *State, a Args) []string { return strs(strings.Trim(st.Obj.ETag, `"`)) }})
	object(Entry{Name: "copy-object-version", Op: "CopyObject", Method: "PUT", Sub: "x-amz-copy-source?versionId", Shape: "nested", Kind: W, Live: true, Action: "s3:PutObject", SrcAction: "s3:GetObjectVersion", ACL: "WRITE",
		bind: func(st *State) Args {
			return Args{Bucket: st.Plain, Key: "n1/cnry-copied.txt", SrcBucket: st.Vers, SrcKey: st.V1.Key, SrcVersionID: st.V1.VersionID}
		},
		header: func(a Args) s3c.H {
			return s3c.H{{"X-Amz-Copy-Source", copySrc(a)}, {"X-Amz-Metadata-Directive", "REPLACE"}, {"X-Amz-Meta-Cat", "copied"}}
		}})
	object(Entry{Name: "upload-part", Op: "UploadPart", Method: "PUT", Sub: "uploadId&partNumber", Kind: W, Live: true, HasBody: true, Streamable: true, Action: "s3:PutObject", ACL: "WRITE", pad: 'x',
		bind: func(st *State) Args {
			a := bindMPU(st)
			a.PartNumber = 2
			a.Data = []byte("second part written by a catalogue request")
			return a
		},
		query: qPart, body: data})
	object(Entry{Name: "upload-part-copy", Op: "UploadPartCopy", Method: "PUT", Sub: "uploadId&partNumber+x-amz-copy-source", Kind: W, Live: true, Action: "s3:PutObject", SrcAction: "s3:GetObject", ACL: "WRITE",
		bind: func(st *State) Args {
			a := bindMPU(st)
			a.PartNumber = 3
			a.SrcBucket, a.SrcKey = st.Plain, st.Obj.Key
			return a
		},
		query: qPart, header: func(a Args) s3c.H {
			return s3c.H{{"X-Amz-Copy-Source", copySrc(a)}, {"X-Amz-Copy-Source-Range", "bytes=0-9"}}
		}})
	object(Entry{Name: "put-object-tagging", Op: "PutObjectTagging", Method: "PUT", Sub: "tagging", Kind: W, Live: true, HasBody: true, Action: "s3:PutObjectTagging", ACL: "WRITE",
		bind: bindObj, query: q("tagging", "\x00"),
		body: func(Args) []byte { return s3c.TaggingXML(map[string]string{"cat-new": "replaced"}) }})
	object(Entry{Name: "put-object-tagging-dir", Op: "PutObjectTagging", Method: "PUT", Sub: "tagging", Shape: "dir", Kind: W, Live: true, HasBody: true, Action: "s3:PutObjectTagging", ACL: "WRITE",
		bind: bindDir, query: q("tagging", "\x00"),
		body: func(Args) []byte { return s3c.TaggingXML(map[string]string{"cat-new": "replaced"}) }})
	object(Entry{Name: "put-object-retention", Op: "PutObjectRetention", Method: "PUT", Sub: "retention", Kind: W, Live: true, HasBody: true, NoDrain: true, Action: "s3:PutObjectRetention", ACL: "WRITE",
		bind: bindFree, query: q("retention", "\x00"), body: fixed(RetentionXML("GOVERNANCE", FarFuture))})
	object(Entry{Name: "put-object-retention-nested", Op: "PutObjectRetention", Method: "PUT", Sub: "retention", Shape: "nested", Kind: W, Live: true, HasBody: true, NoDrain: true, Action: "s3:PutObjectRetention", ACL: "WRITE",
		bind:  func(st *State) Args { return Args{Bucket: st.Lock, Key: st.FreeNested.Key} },
		query: q("retention", "\x00"), body: fixed(RetentionXML("COMPLIANCE", FarFuture))})
	object(Entry{Name: "put-object-legal-hold", Op: "PutObjectLegalHold", Method: "PUT", Sub: "legal-hold", Kind: W, Live: true, HasBody: true, NoDrain: true, Action: "s3:PutObjectLegalHold", ACL: "WRITE",
		bind: bindFree, query: q("legal-hold", "\x00"), body: fixed(LegalHoldXML("ON"))})
	object(Entry{Name: "put-object-legal-hold-off", Op: "PutObjectLegalHold", Method: "PUT", Sub: "legal-hold", Kind: W, Live: true, HasBody: true, NoDrain: true, Action: "s3:PutObjectLegalHold", ACL: "WRITE",
		bind: bindLocked, query: q("legal-hold", "\x00"), body: fixed(LegalHoldXML("OFF"))})
	object(Entry{Name: "put-object-acl", Op: "PutObjectAcl", Method: "PUT", Sub: "acl", Kind: W, Live: false, Action: "s3:PutObjectAcl", ACL: "WRITE_ACP",
		bind: bindObj, query: q("acl", "\x00"), header: func(Args) s3c.H { return s3c.H{{"X-Amz-Acl", "public-read"}} }})

	// ---- admin API ---------------------------------------------------------------------
	adm := func(e Entry) { e.Level = LvlAdmin; e.Method = "PATCH"; e.Role = "admin"; add(&e) }
	adm(Entry{Name: "admin-create-user", Op: "CreateUser", Sub: "create-user", Kind: W, Live: true, HasBody: true,
		bind: func(st *State) Args { return Args{Access: "cnrynewuser", Secret: "cnrynewusersecret"} },
		body: func(a Args) []byte { return []byte(AccountXML(a.Access, a.Secret, "user", 0, 0)) }})
	adm(Entry{Name: "admin-delete-user", Op: "DeleteUser", Sub: "delete-user", Kind: W, Live: true,
		bind:  func(st *State) Args { return Args{Access: st.User.Access} },
		query: func(a Args) string { return s3c.Q("access", a.Access) }})
	adm(Entry{Name: "admin-update-user", Op: "UpdateUser", Sub: "update-user", Kind: W, Live: true, HasBody: true,
		bind:  func(st *State) Args { return Args{Access: st.User.Access, Secret: "cnryreplacedsecret"} },
		query: func(a Args) string { return s3c.Q("access", a.Access) },
		body:  func(a Args) []byte { return []byte(`<MutableProps><Secret>` + a.Secret + `</Secret></MutableProps>`) }})
	adm(Entry{Name: "admin-list-users", Op: "ListUsers", Sub: "list-users", Kind: R, Live: true,
		bind:  func(st *State) Args { return Args{} },
		proof: func(st *State, a Args) []string { return strs(st.User.Secret) }})
	adm(Entry{Name: "admin-change-bucket-owner", Op: "ChangeBucketOwner", Sub: "change-bucket-owner", Kind: W, Live: true,
		bind:  func(st *State) Args { return Args{Bucket: st.Plain, Owner: st.UserPlus.Access} },
		query: func(a Args) string { return s3c.Q("bucket", a.Bucket, "owner", a.Owner) }})
	adm(Entry{Name: "admin-list-buckets", Op: "ListBucketsAndOwners", Sub: "list-buckets", Kind: R, Live: true,
		bind:  func(st *State) Args { return Args{} },
		proof: func(st *State, a Args) []string { return strs(st.Plain) }})
}
