package c06

import (
	"bytes"
	"fmt"
	"strings"

	"verif/harness/internal/ev"
	"verif/harness/internal/fx"
	"verif/harness/internal/gw"
	"verif/harness/internal/s3c"
)

// Lane E: uploads that declare the aws-chunked framing of SigV4A (x-amz-content-sha256:
// STREAMING-AWS4-ECDSA-P256-SHA256-PAYLOAD[-TRAILER]). The gateway cannot verify the chunk signatures of that scheme
// (and the ones sent here are zeros), so no such upload can be one in which "every integrity assertion holds": it is
// refused and the key keeps its state. Were it accepted, the stored bytes are compared with the declared payload -
// a gateway that does not know the framing stores the framing.
func laneEcdsa(c *ev.Ctx) {
	if !c.Want("ecdsa") {
		return
	}
	env, err := fx.New("c06e", gw.Config{}, 1)
	if err != nil {
		c.Inconclusive("gateway start: " + err.Error())
		return
	}
	defer env.Close()
	cl := env.Client(0)
	b := bucket
	if r := cl.CreateBucket(b); !r.OK() {
		c.Inconclusive("create bucket: " + r.String())
		return
	}
	zeros := strings.Repeat("0", 64)
	payload := []byte("hello, declared payload")
	n := 0
	for _, kind := range []string{"STREAMING-AWS4-ECDSA-P256-SHA256-PAYLOAD", "STREAMING-AWS4-ECDSA-P256-SHA256-PAYLOAD-TRAILER"} {
		for _, declen := range []bool{true, false} {
			for _, target := range []string{"put-new", "put-existing", "part"} {
				n++
				id := fmt.Sprintf("ecdsa/%d", n)
				if !c.Want(id) {
					continue
				}
				var body bytes.Buffer
				fmt.Fprintf(&body, "%x;chunk-signature=%s\r\n%s\r\n0;chunk-signature=%s\r\n", len(payload), zeros, payload, zeros)
				hdr := s3c.H{{"Content-Encoding", "aws-chunked"}}
				if strings.HasSuffix(kind, "TRAILER") {
					fmt.Fprintf(&body, "x-amz-checksum-crc32:%s\r\nx-amz-trailer-signature:%s\r\n", s3c.Checksum("crc32", payload), zeros)
					hdr = append(hdr, [2]string{"X-Amz-Trailer", "x-amz-checksum-crc32"})
				}
				body.WriteString("\r\n")
				if declen {
					hdr = append(hdr, [2]string{"X-Amz-Decoded-Content-Length", fmt.Sprint(len(payload))})
				}
				key := fmt.Sprintf("k%d", n)
				old := []byte("previous content of the key")
				query := ""
				uploadID := ""
				switch target {
				case "put-existing":
					if r := cl.PutObject(b, key, old); !r.OK() {
						c.Inconclusive("lane E: seeding the key: " + r.String())
						continue
					}
				case "part":
					var r *s3c.Resp
					if uploadID, r = cl.CreateMPU(b, key); !r.OK() {
						c.Inconclusive("lane E: create upload: " + r.String())
						continue
					}
					query = s3c.Q("partNumber", "1", "uploadId", uploadID)
				}
				resp := cl.Do(&s3c.Req{Method: "PUT", Path: s3c.ObjPath(b, key), Query: query, Body: body.Bytes(), Header: hdr, PayloadHash: kind})
				c.Eval(1)
				if resp.Err != nil {
					if _, cr := env.Dead(); cr != nil {
						c.Violation("gateway-died", id, map[string]any{"crash": cr.Message, "frame": cr.TopFrame})
						return
					}
					c.Inconclusive("lane E: transport error")
					continue
				}
				class := fmt.Sprintf("%s:%s:declen=%v", target, strings.TrimPrefix(kind, "STREAMING-AWS4-"), declen)
				det := map[string]any{"x-amz-content-sha256": kind, "decoded_length_declared": declen, "target": target, "answer": resp.String(), "declared_payload": string(payload)}
				if resp.OK() {
					var stored []byte
					if target == "part" {
						if parts, lr := listParts(cl, key, uploadID); lr.OK() && len(parts) == 1 {
							det["part_listed_size"] = parts[0].Size
						}
					} else if g := cl.GetObject(b, key); g.OK() {
						stored = g.Body
						det["stored"] = short(stored)
						det["stored_is"] = classify(stored, payload)
					}
					c.Violation("ecdsa-stream:accepted:"+class, id, det)
				} else {
					g := cl.GetObject(b, key)
					switch {
					case target == "put-new" && g.Status != 404:
						det["get_afterwards"] = g.String()
						c.Violation("ecdsa-stream:refused-but-key-exists:"+class, id, det)
					case target == "put-existing" && !(g.OK() && bytes.Equal(g.Body, old)):
						det["get_afterwards"] = g.String()
						c.Violation("ecdsa-stream:refused-but-key-changed:"+class, id, det)
					default:
						c.Distinct(fmt.Sprintf("E|%s|%d", class, resp.Status))
					}
				}
				if uploadID != "" {
					cl.AbortMPU(b, key, uploadID)
				}
			}
		}
	}
}
