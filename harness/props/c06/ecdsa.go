package c06

import (
	"bytes"
	"fmt"
	"strings"

	"verif/harness/internal/ev"
	"verif/harness/internal/fx"
	"verif/harness/internal/gw"
	"verif/harness/internal/s3c"
)

// Lane E: uploads that declare the aws-chunked framing of SigV4A (x-amz-content-sha256:
// STREAMING-AWS4-ECDSA-P256-SHA256-PAYLOAD[-TRAILER]). The gateway cannot verify the chunk signatures of that scheme
// (and the ones sent here are zeros), so no such upload can be one in which "every integrity assertion holds": it is
// refused and the key keeps its state. Were it accepted, the stored bytes are compared with the declared payload -
// a gateway that does not know the framing stores the framing.
func laneEcdsa(c *ev.Ctx) {
	if !c.Want("ecdsa") {
		return
	}
	env, err := fx.New("c06e", gw.Config{}, 1)
	if err != nil {
		c.Inconclusive("gateway start: " + err.Error())
		return
	}
	defer env.Close()
	cl := env.Client(0)
	b := bucket
	if r := cl.CreateBucket(b); !r.OK() {
		c.Inconclusive("create bucket: " + r.String())
		return
	}
	zeros := strings.Repeat("0", 64)
	payload := []byte("hello, declared payload")
	n := 0
	for _, kind := range []string{"STREAMING-AWS4-ECDSA-P256-SHA256-PAYLOAD", "STREAMING-AWS4-ECDSA-P256-SHA256-PAYLOAD-TRAILER"} {
		for _, declen := range []bool{true, false} {
			for _, target := range []string{"put-new", "put-existing", "part"} {
				n++
				id := fmt.Sprintf("ecdsa/%d", n)
				if !c.Want(id) {
					continue
				}
				var body bytes.Buffer
				fmt.Fprintf(&body, "%x;chunk-signature=%s\r\n%s\r\n0;chunk-signature=%s\r\n", len(payload), zeros, payload, zeros)
				hdr := s3c.H{{"Content-Encoding", "aws-chunked"}}
				if strings.HasSuffix(kind, "TRAILER") {
					fmt.Fprintf(&body, "x-amz-checksum-crc32:%s\r\nx-amz-trailer-signature:%s\r\n", s3c.Checksum("crc32", payload), zeros)
					hdr = append(hdr, [2]string{"X-Amz-Trailer", "x-amz-checksum-crc32"})
				}
				body.WriteString("\r\n")
				if declen {
					hdr = append(hdr, [2]string{"X-Amz-Decoded-Content-Length", fmt.Sprint(len(payload))})
				}
				key := fmt.Sprintf("k%d", n)
				old := []byte("previous content of the key")
				query := ""
				uploadID := ""
				switch target {
				case "put-existing":
					if r := cl.PutObject(b, key, old); !r.OK() {
						c.Inconclusive("lane E: seeding the key: " + r.String())
						continue
					}
				case "part":
					var r *s3c.Resp
					if uploadID, r = cl.CreateMPU(b, key); !r.OK() {
						c.Inconclusive("lane E: create upload: " + r.String())
						continue
					}
					query = s3c.Q("partNumber", "1", "uploadId", uploadID)
				}
				resp := cl.Do(&s3c.Req{Method: "PUT", Path: s3c.ObjPath(b, key), Query: query, Body: body.Bytes(), Header: hdr, PayloadHash: kind})
				c.Eval(1)
				if resp.Err != nil {
					if _, cr := env.Dead(); cr != nil {
						c.Violation("gateway-died", id, map[string]any{"crash": cr.Message, "frame": cr.TopFrame})
						return
					}
					c.Inconclusive("lane E: transport error")
					continue
				}
				class := fmt.Sprintf("%s:%s:declen=%v", target, strings.TrimPrefix(kind, "STREAMING-AWS4-"), declen)
				det := map[string]any{"x-amz-content-sha256": kind, "decoded_length_declared": declen, "target": target, "answer": resp.String(), "declared_payload": string(payload)}
				if resp.OK() {
					var stored []byte
					if target == "part" {
						if parts, lr := listParts(cl, key, uploadID); lr.OK() && len(parts) == 1 {
							det["part_listed_size"] = parts[0].Size
						}
					} else if g := cl.GetObject(b, key); g.OK() {
						stored = g.Body
						det["stored"] = short(stored)
						det["stored_is"] = classify(stored, payload)
					}
					c.Violation("ecdsa-stream:accepted:"+class, id, det)
				} else {
					g := cl.GetObject(b, key)
					switch {
					case target == "put-new" && g.Status != 404:
						det["get_afterwards"] = g.String()
						c.Violation("ecdsa-stream:refused-but-key-exists:"+class, id, det)
					case target == "put-existing" && !(g.OK() && bytes.Equal(g.Body, old)):
						det["get_afterwards"] = g.String()
						c.Violation("ecdsa-stream:refused-but-key-changed:"+class, id, det)
					default:
						c.Distinct(fmt.Sprintf("E|%s|%d", class, resp.Status))
					}
				}
				if uploadID != "" {
					cl.AbortMPU(b, key, uploadID)
				}
			}
		}
	}
}

// Lane D: directory objects (keys ending in "/") are uploads of zero bytes, and an integrity assertion about zero
// bytes can be false like any other: a wrong Content-MD5, a wrong x-amz-checksum-* header (for each algorithm) or a
// wrong payload digest on PutObject of "dir/" must be refused and must not create the directory object; the same
// request with the right value for the empty body is the positive control.
func laneDirObjects(c *ev.Ctx) {
	if !c.Want("dirobj") {
		return
	}
	env, err := fx.New("c06d", gw.Config{}, 1)
	if err != nil {
		c.Inconclusive("gateway start: " + err.Error())
		return
	}
	defer env.Close()
	cl := env.Client(0)
	b := bucket
	if r := cl.CreateBucket(b); !r.OK() {
		c.Inconclusive("create bucket: " + r.String())
		return
	}
	other := []byte("not the empty body")
	type assertion struct {
		name     string
		hdr      func(body []byte) s3c.H
		payload  func(body []byte) string
		unsigned bool
	}
	var as []assertion
	as = append(as, assertion{name: "md5", hdr: func(x []byte) s3c.H { return s3c.H{{"Content-MD5", s3c.MD5B64(x)}} }})
	as = append(as, assertion{name: "sha256", payload: func(x []byte) string { return s3c.SHA256Hex(x) }})
	for _, a := range s3c.Algos {
		a := a
		as = append(as, assertion{name: "hdr-" + a, hdr: func(x []byte) s3c.H { return s3c.H{{"x-amz-checksum-" + a, s3c.Checksum(a, x)}} }})
		as = append(as, assertion{name: "hdr-" + a + "+unsigned-payload", unsigned: true, hdr: func(x []byte) s3c.H { return s3c.H{{"x-amz-checksum-" + a, s3c.Checksum(a, x)}} }})
	}
	for i, a := range as {
		id := fmt.Sprintf("dirobj/%d", i)
		if !c.Want(id) {
			continue
		}
		mk := func(key string, about []byte) *s3c.Resp {
			r := &s3c.Req{Method: "PUT", Path: s3c.ObjPath(b, key), Body: []byte{}}
			if a.hdr != nil {
				r.Header = a.hdr(about)
			}
			if a.payload != nil {
				r.PayloadHash = a.payload(about)
			}
			if a.unsigned {
				r.PayloadHash = s3c.Unsigned
			}
			return cl.Do(r)
		}
		good, bad := fmt.Sprintf("dir-good-%d/", i), fmt.Sprintf("dir-bad-%d/", i)
		ctl := mk(good, nil)
		c.Eval(1)
		if ctl.Err != nil {
			c.Inconclusive("lane D: transport error")
			continue
		}
		if !ctl.OK() {
			c.Observe("lane D: positive control (" + a.name + " of the empty body) refused: " + ctl.String())
			continue
		}
		r := mk(bad, other)
		c.Eval(1)
		if r.Err != nil {
			c.Inconclusive("lane D: transport error")
			continue
		}
		h := cl.HeadObject(b, bad)
		det := map[string]any{"key": bad, "false_assertion": a.name, "answer": r.String(), "head_afterwards": h.String(), "control_with_true_assertion": ctl.String()}
		switch {
		case r.OK():
			c.Violation("put:directory-object:"+a.name+":wrong-value:accepted", id, det)
		case h.Status != 404:
			c.Violation("put:directory-object:"+a.name+":wrong-value:refused-but-created", id, det)
		default:
			c.Distinct(fmt.Sprintf("D|%s|%d", a.name, r.Status))
		}
	}
}
