package c06

import (
	"bytes"
	"fmt"
	"strings"
	"time"

	"verif/harness/internal/ev"
	"verif/harness/internal/fx"
	"verif/harness/internal/gate"
	"verif/harness/internal/gw"
	"verif/harness/internal/s3c"
)

// Gated lane: "the request fails and the key keeps exactly its previous state" - also when that state changed while
// the failing request was being served. An upload A whose integrity assertion will fail (it is only decided at the end
// of its body) is paused at each instrumentation point it passes; while it is paused a correct upload B of the SAME key
// (own data, content type, metadata, tags) runs to completion; then A is released and is refused. The key must then be
// B's object in every respect, read through both processes; the failed request may not take anything of it away.
// Also with the key absent or holding an older object O before, and with nothing uploaded in between (then: absent / O).

type gatedFail struct {
	name string
	req  func(path string, body []byte) *s3c.Req
}

func gatedFails() []gatedFail {
	return []gatedFail{
		{"wrong-content-md5", func(path string, body []byte) *s3c.Req {
			return &s3c.Req{Method: "PUT", Path: path, Body: body, Header: s3c.H{{"Content-MD5", s3c.MD5B64([]byte("not this body"))}, {"Content-Type", "text/a-failing"}, {"X-Amz-Meta-Who", "a"}}}
		}},
		{"wrong-checksum-sha256", func(path string, body []byte) *s3c.Req {
			return &s3c.Req{Method: "PUT", Path: path, Body: body, PayloadHash: s3c.Unsigned, Header: s3c.H{{"X-Amz-Checksum-Sha256", s3c.Checksum("sha256", []byte("not this body"))}, {"Content-Type", "text/a-failing"}, {"X-Amz-Meta-Who", "a"}}}
		}},
		{"wrong-trailer-crc32", func(path string, body []byte) *s3c.Req {
			bad := s3c.Checksum("crc32", []byte("not this body"))
			return &s3c.Req{Method: "PUT", Path: path, Body: body, Header: s3c.H{{"Content-Type", "text/a-failing"}, {"X-Amz-Meta-Who", "a"}},
				Stream: &s3c.Stream{Mode: s3c.StreamUnsignTr, ChunkSizes: []int{8192}, TrailerName: "x-amz-checksum-crc32", TrailerVal: bad}}
		}},
		{"bad-chunk-signature", func(path string, body []byte) *s3c.Req {
			return &s3c.Req{Method: "PUT", Path: path, Body: body, Header: s3c.H{{"Content-Type", "text/a-failing"}, {"X-Amz-Meta-Who", "a"}},
				Stream: &s3c.Stream{Mode: s3c.StreamSigned, ChunkSizes: []int{8192}, BadChunkSig: 3}}
		}},
		{"longer-than-declared", func(path string, body []byte) *s3c.Req {
			dl := int64(len(body) - 7)
			return &s3c.Req{Method: "PUT", Path: path, Body: body, Header: s3c.H{{"Content-Type", "text/a-failing"}, {"X-Amz-Meta-Who", "a"}},
				Stream: &s3c.Stream{Mode: s3c.StreamSigned, ChunkSizes: []int{8192}, DecodedLen: &dl}}
		}},
	}
}

func gatedLane(c *ev.Ctx, strat string, sidecar bool) {
	store := "xattr"
	if sidecar {
		store = "sidecar"
	}
	tag := "[" + strat + "+" + store + "]"
	base := "gated/" + strat + "-" + store
	if !c.Want(base) {
		return
	}
	ctl, err := gate.New(gw.Scratch())
	if err != nil {
		c.Inconclusive(err.Error())
		return
	}
	defer ctl.Close()
	env, err := fx.New("c06g", gw.Config{NoOTmp: strat == "nootmp", Sidecar: sidecar, Env: ctl.Env()}, 1)
	if err != nil {
		c.Inconclusive("gateway start (gated lane): " + err.Error())
		return
	}
	defer env.Close()
	// a second process on the same storage, never paused, for reading back
	env2, err := fx.OnStore("c06h", env.Store, gw.Config{NoOTmp: strat == "nootmp", Sidecar: sidecar}, 1)
	if err != nil {
		c.Inconclusive("second gateway (gated lane): " + err.Error())
		return
	}
	defer func() {
		env2.Store = nil
		env2.Close()
	}()
	cl, other := env.Client(0), env2.Client(0)
	const bucket = "gated"
	if r := cl.CreateBucket(bucket); !r.OK() {
		c.Inconclusive("create bucket: " + r.String())
		return
	}
	aBody := bytes.Repeat([]byte("A-failing-upload."), 3000)
	oBody := bytes.Repeat([]byte("O-older-object.."), 1500)
	bBody := bytes.Repeat([]byte("B-correct-upload"), 2500)
	bHdr := []string{"Content-Type", "text/b-correct", "X-Amz-Meta-Who", "b", "X-Amz-Meta-Only-B", "yes", "X-Amz-Tagging", "who=b"}
	oHdr := []string{"Content-Type", "text/o-older", "X-Amz-Meta-Who", "o", "X-Amz-Tagging", "who=o"}
	type want struct {
		name  string
		body  []byte
		ctype string
		who   string
		tag   string
	}
	wantB := &want{"the correct upload B", bBody, "text/b-correct", "b", "b"}
	wantO := &want{"the older object O", oBody, "text/o-older", "o", "o"}
	n := 0
	for _, gf := range gatedFails() {
		// learn the points a failing upload passes (second run: a bucket's first upload takes other paths)
		var trace []string
		for rep := 0; rep < 2; rep++ {
			pol, seen := gate.TraceFirst()
			ctl.SetPolicy(pol)
			r := cl.Do(gf.req(s3c.ObjPath(bucket, fmt.Sprintf("trace-%s-%d", gf.name, rep)), aBody))
			ctl.SetPolicy(nil)
			trace = seen()
			if r.OK() {
				c.Observe("gated lane: upload meant to fail was acknowledged: " + gf.name)
				trace = nil
				break
			}
		}
		if len(trace) == 0 {
			continue
		}
		c.Set("gated_points_"+gf.name+"_"+strat+"_"+store, trace)
		for j := 1; j <= len(trace); j++ {
			for _, before := range []string{"absent", "older"} {
				for _, between := range []string{"upload", "nothing"} {
					n++
					id := fmt.Sprintf("%s/%s/%d/%s/%s", base, gf.name, j, before, between)
					if !c.Want(id) {
						continue
					}
					key := fmt.Sprintf("k-%d", n)
					if before == "older" {
						if r := cl.PutObject(bucket, key, oBody, oHdr...); !r.OK() {
							c.Inconclusive("seed older object: " + r.String())
							return
						}
					}
					pol, _ := gate.HoldNth(j)
					ctl.SetPolicy(pol)
					ach := make(chan *s3c.Resp, 1)
					go func() {
						rq := gf.req(s3c.ObjPath(bucket, key), aBody)
						rq.FreshConn = true
						ach <- cl.Do(rq)
					}()
					h := ctl.WaitHeld(10 * time.Second)
					ctl.SetPolicy(nil)
					if h == nil {
						<-ach
						c.Observe("gated lane: failing upload passed fewer points than its trace run")
						continue
					}
					point := h.Name
					det := map[string]any{"config": strat + "+" + store, "failing_upload": gf.name, "key_before": before,
						"schedule": "A (failing " + gf.name + ") paused at " + point + " | " + between + " | release A"}
					var exp *want
					if before == "older" {
						exp = wantO
					}
					if between == "upload" {
						br := cl.Do(&s3c.Req{Method: "PUT", Path: s3c.ObjPath(bucket, key), Body: bBody, Header: hdrs(bHdr), FreshConn: true, Watchdog: 20 * time.Second})
						det["upload_b"] = br.String()
						if br.Err != nil {
							// B waits for the paused request: serialised, legitimate
							h.Release()
							<-ach
							c.Distinct("G|" + strat + "|" + store + "|" + gf.name + "|" + point + "|b-waits")
							continue
						}
						if !br.OK() {
							h.Release()
							<-ach
							c.Violation("gated:"+gf.name+"@"+point+"|correct-upload-refused"+tag, id, det)
							continue
						}
						exp = wantB
					}
					h.Release()
					ar := <-ach
					det["answer_a"] = ar.String()
					c.Eval(1)
					if ar.OK() {
						c.Violation("gated:"+gf.name+"@"+point+"|failing-upload-acknowledged"+tag, id, det)
						continue
					}
					sig := "gated:" + gf.name + "@" + point + "|" + before + "+" + between
					bad := false
					for pi, rc := range []*s3c.Client{cl, other} {
						g := rc.GetObject(bucket, key)
						hd := rc.HeadObject(bucket, key)
						tg := rc.Sub("GET", bucket, key, "tagging=", nil)
						who := fmt.Sprintf("process %d", pi)
						if exp == nil {
							if g.Status != 404 || hd.Status != 404 {
								det["get"], det["head"] = g.String(), hd.String()
								c.Violation(sig+":key-exists-after-refused-upload"+tag, id, det)
								bad = true
							}
							continue
						}
						var diffs []string
						if !g.OK() || !hd.OK() {
							diffs = append(diffs, fmt.Sprintf("%s: GET %s HEAD %s", who, g, hd))
						} else {
							if !bytes.Equal(g.Body, exp.body) {
								diffs = append(diffs, fmt.Sprintf("%s: body (%d bytes, starts %q) is not that of %s", who, len(g.Body), short(g.Body), exp.name))
							}
							for _, rr := range []*s3c.Resp{g, hd} {
								if et := unq(rr.Header.Get("Etag")); et != s3c.MD5Hex(exp.body) {
									diffs = append(diffs, fmt.Sprintf("%s: ETag %q, %s has %q", who, et, exp.name, s3c.MD5Hex(exp.body)))
								}
								if ct := rr.Header.Get("Content-Type"); ct != exp.ctype {
									diffs = append(diffs, fmt.Sprintf("%s: Content-Type %q, %s has %q", who, ct, exp.name, exp.ctype))
								}
								if w := rr.Header.Get("X-Amz-Meta-Who"); w != exp.who {
									diffs = append(diffs, fmt.Sprintf("%s: metadata who=%q, %s has %q", who, w, exp.name, exp.who))
								}
								if exp == wantB && rr.Header.Get("X-Amz-Meta-Only-B") != "yes" {
									diffs = append(diffs, who+": metadata only-b of B is missing")
								}
								if cl := rr.Header.Get("Content-Length"); cl != fmt.Sprint(len(exp.body)) {
									diffs = append(diffs, fmt.Sprintf("%s: Content-Length %s, %s has %d bytes", who, cl, exp.name, len(exp.body)))
								}
							}
							if !tg.OK() || !strings.Contains(string(tg.Body), "<Value>"+exp.tag+"</Value>") {
								diffs = append(diffs, fmt.Sprintf("%s: tagging %s %s", who, tg, clipB(tg.Body)))
							}
						}
						if len(diffs) > 0 {
							det["differences"] = diffs
							c.Violation(sig+":key-is-not-"+strings.ReplaceAll(exp.name, " ", "-")+tag, id, det)
							bad = true
							break
						}
					}
					if !bad {
						c.Distinct("G|" + strat + "|" + store + "|" + gf.name + "|" + point + "|" + before + "|" + between)
						c.Add("gated_schedules", 1)
					}
				}
			}
		}
	}
}

func hdrs(kv []string) s3c.H {
	var h s3c.H
	for i := 0; i+1 < len(kv); i += 2 {
		h = append(h, [2]string{kv[i], kv[i+1]})
	}
	return h
}

func clipB(b []byte) string {
	if len(b) > 200 {
		b = b[:200]
	}
	return string(b)
}
