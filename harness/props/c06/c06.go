// Package c06: an upload commits only if every integrity assertion holds.
//
// Real gateways (O_TMPFILE and --disableotmp), real PutObject / UploadPart
// requests built by the harness's own SigV4 / aws-chunked encoders. Every case
// has an uncorrupted twin (the control, same encoding and headers, sibling key)
// and a corrupted request in which - where the protocol allows it - exactly one
// integrity assertion is false for the bytes the server receives. The oracle is
// written from the property statement: a corrupted upload must not be answered
// 2xx and must leave the key (or the part list) exactly as it was; an accepted
// upload stores exactly the received bytes, never padded, truncated or extended.
package c06

import (
	"bytes"
	"encoding/xml"
	"fmt"
	"math/rand"
	"os"
	"path/filepath"
	"sort"
	"strconv"
	"strings"
	"sync"
	"time"

	"verif/harness/internal/ev"
	"verif/harness/internal/fx"
	"verif/harness/internal/gw"
	"verif/harness/internal/reg"
	"verif/harness/internal/s3c"
	"verif/harness/props/concup"
)

func init() { reg.Register("C06", "exploration", Run) }

const bucket = "c06bkt"

// ---------------------------------------------------------------- case space

type spec struct {
	strat string // "otmp" | "nootmp"
	op    string // "put" | "part"
	mode  string // "signed" | "unsigned" | "chunked" | "chunked-tr" | "unsigned-tr" | "presigned"
	field string // integrity field under test
	corr  string // corruption (fine grained; part of the case id)
	state string // "new" | "existing" | "twin" (the key / part already holds the very body the corrupted request claims to carry)
	rep   int    // repetition with other sizes / chunk layouts / offsets (thorough)
}

func (s spec) id() string {
	return strings.Join([]string{s.strat, s.op, s.mode, s.field, s.corr, s.state, "r" + strconv.Itoa(s.rep)}, "/")
}
func (s spec) class() string {
	return strings.Join([]string{s.op, s.mode, s.field, s.corr, s.state}, "|")
}

// group collapses operation, key state and checksum algorithm: quick picks one case per group first.
func (s spec) group() string {
	f := s.field
	if strings.HasPrefix(f, "hdr-") {
		f = "hdr"
	}
	if strings.HasPrefix(f, "tr-") {
		f = "tr"
	}
	return s.mode + "|" + f + "|" + s.corr
}

// sigCorr is the corruption name used in violation signatures (variants of one corruption share it).
func (s spec) sigCorr() string {
	switch s.corr {
	case "larger-1", "larger":
		return "larger"
	case "smaller-1", "smaller":
		return "smaller"
	case "trunc-after-first", "trunc-after-mid":
		return "trunc-after-chunk"
	case "short-close-1", "short-close-half", "short-close-chunk":
		return "short-close"
	case "cl-smaller-1", "cl-smaller-half":
		return "cl-smaller"
	case "flip-first", "flip-mid", "flip-last", "flip-bnd-before", "flip-bnd-after":
		return "flip"
	case "badsig-first", "badsig-mid", "badsig-last":
		return "badsig-data-chunk"
	}
	return s.corr
}

func (s spec) sig(outcome string) string {
	return strings.Join([]string{s.op, s.mode, s.field, s.sigCorr(), outcome}, ":")
}

func isStream(mode string) bool { return mode != "signed" && mode != "unsigned" && mode != "presigned" }

// "presigned": query-string authentication, the payload is not covered by the signature; integrity fields travel as
// plain headers and are assertions all the same
var modes = []string{"signed", "unsigned", "chunked", "chunked-tr", "unsigned-tr", "presigned"}

func allSpecs(strat string, reps int) []spec {
	var out []spec
	for rep := 0; rep < reps; rep++ {
		for _, s := range allSpecs1(strat) {
			s.rep = rep
			out = append(out, s)
		}
	}
	return out
}

func allSpecs1(strat string) []spec {
	var out []spec
	flipsPlain := []string{"flip-first", "flip-mid", "flip-last"}
	flipsStream := []string{"flip-first", "flip-mid", "flip-last", "flip-bnd-before", "flip-bnd-after"}
	for _, op := range []string{"put", "part"} {
		for _, state := range []string{"new", "existing", "twin"} {
			for _, mode := range modes {
				add := func(field, corr string) {
					out = append(out, spec{strat, op, mode, field, corr, state, 0})
				}
				flips := flipsPlain
				if isStream(mode) {
					flips = flipsStream
				}
				for _, f := range flips {
					add("md5", f)
				}
				add("md5", "wrong-value")
				add("md5", "wrong-value+company")
				add("md5", "wrong-value+empty-body")
				add("md5", "wrong-value+final-chunk-alone")
				if mode == "signed" || mode == "presigned" {
					for _, f := range flipsPlain {
						add("sha256", f)
					}
					add("sha256", "wrong-value")
					add("sha256", "wrong-value+company")
				}
				if mode == "signed" || mode == "unsigned" || mode == "chunked" || mode == "presigned" {
					for _, a := range s3c.Algos {
						for _, f := range flips {
							add("hdr-"+a, f)
						}
						add("hdr-"+a, "wrong-value")
						add("hdr-"+a, "wrong-value+company")
						add("hdr-"+a, "wrong-value+empty-body")
						add("hdr-"+a, "wrong-value+final-chunk-alone")
					}
				}
				if mode == "chunked-tr" || mode == "unsigned-tr" {
					for _, a := range s3c.Algos {
						for _, f := range flips {
							add("tr-"+a, f)
						}
						add("tr-"+a, "wrong-value")
						add("tr-"+a, "wrong-value+company")
						add("tr-"+a, "wrong-value+empty-body")
						add("tr-"+a, "wrong-value+final-chunk-alone")
					}
				}
				if mode == "chunked" || mode == "chunked-tr" {
					for _, f := range flips {
						add("chunksig", f)
					}
					for _, b := range []string{"badsig-first", "badsig-mid", "badsig-last", "badsig-final", "omit-final+flip-last", "flip-last+close-before-final", "flip-last+cut-after-data"} {
						add("chunksig", b)
					}
				}
				if mode == "chunked-tr" {
					add("trailersig", "badsig")
				}
				if isStream(mode) {
					for _, x := range []string{"larger-1", "larger", "smaller-1", "smaller", "extra-chunk", "trunc-after-first", "trunc-after-mid", "trunc-mid-chunk", "trunc-after-header"} {
						add("declen", x)
					}
					for _, x := range []string{"omit-final", "extra-tail-junk", "extra-tail-chunk"} {
						add("framing", x)
					}
					for _, x := range []string{"short-close-1", "short-close-half", "short-close-chunk", "cl-larger-close", "cl-smaller-1", "cl-smaller-half"} {
						add("contentlen", x)
					}
				} else {
					add("declen", "spurious-larger")
					add("declen", "spurious-smaller")
					for _, x := range []string{"short-close-1", "short-close-half", "cl-larger-close", "cl-smaller-1", "cl-smaller-half"} {
						add("contentlen", x)
					}
				}
			}
		}
	}
	return out
}

// expectation of a corrupted case:
//   - "reject": an integrity assertion is false for the bytes the server receives; 2xx or a changed key is a violation.
//   - "exact":  no listed assertion is false, or the input is arguable: either refused with the key unchanged, or
//     accepted with exactly the received payload stored.
//   - "prefix": UNSIGNED-PAYLOAD with a Content-Length smaller than what the client went on to write: the server
//     legitimately sees a complete request of Content-Length bytes and must store exactly those.
func (s spec) expectation() string {
	switch s.field {
	case "framing":
		return "exact"
	case "declen":
		if strings.HasPrefix(s.corr, "spurious-") {
			return "exact"
		}
	case "contentlen":
		if isStream(s.mode) && (s.corr == "cl-larger-close" || s.corr == "cl-smaller-1" || s.corr == "short-close-1") {
			// the aws-chunked stream is self-delimiting; all payload bytes, signatures and trailers arrive
			return "exact"
		}
		if (s.mode == "unsigned" || s.mode == "presigned") && strings.HasPrefix(s.corr, "cl-smaller") {
			return "prefix"
		}
	}
	return "reject"
}

// ---------------------------------------------------------------- request variants

type variant struct {
	body        []byte
	chunks      []int
	md5         string
	hdrAlgo     string
	hdrVal      string
	payloadHash string
	trAlgo      string
	trVal       string
	badChunkSig int
	badTrSig    bool
	omitFinal   bool
	extraTail   []byte
	decodedLen  *int64
	spuriousDL  string
	mutate      func(enc []byte) []byte
	contentLen  *int64
	// post runs on the signed request just before it is sent
	post func(r *s3c.Req, b *s3c.Built)
}

func (v *variant) req(mode, path, query string) *s3c.Req {
	r := &s3c.Req{Method: "PUT", Path: path, Query: query, Body: v.body, Watchdog: 40 * time.Second}
	if v.md5 != "" {
		r.Header = append(r.Header, [2]string{"Content-MD5", v.md5})
	}
	if v.hdrAlgo != "" {
		r.Header = append(r.Header, [2]string{"x-amz-checksum-" + v.hdrAlgo, v.hdrVal})
	}
	if v.spuriousDL != "" {
		r.Header = append(r.Header, [2]string{"X-Amz-Decoded-Content-Length", v.spuriousDL})
	}
	switch mode {
	case "signed":
		r.PayloadHash = v.payloadHash
	case "unsigned":
		r.PayloadHash = s3c.Unsigned
	case "presigned":
		r.Presign = true
		if v.payloadHash != "" {
			r.Header = append(r.Header, [2]string{"X-Amz-Content-Sha256", v.payloadHash})
		}
	default:
		st := &s3c.Stream{ChunkSizes: v.chunks, BadChunkSig: v.badChunkSig, BadTrailerSig: v.badTrSig,
			OmitFinalChunk: v.omitFinal, ExtraTail: v.extraTail, DecodedLen: v.decodedLen, Mutate: v.mutate}
		switch mode {
		case "chunked":
			st.Mode = s3c.StreamSigned
		case "chunked-tr":
			st.Mode = s3c.StreamSignedTr
		case "unsigned-tr":
			st.Mode = s3c.StreamUnsignTr
		}
		if mode != "chunked" {
			st.TrailerName = "x-amz-checksum-" + v.trAlgo
			st.TrailerVal = v.trVal
		}
		r.Stream = st
	}
	r.ContentLength = v.contentLen
	if v.post != nil {
		r.Tamper = func(b *s3c.Built) { v.post(r, b) }
	}
	return r
}

func flipAt(b []byte, off int) []byte {
	o := append([]byte{}, b...)
	o[off] ^= 0x01
	return o
}

// chunkList replicates the client's chunk splitting (sizes cycled, remainder last).
func chunkList(n int, sizes []int) []int {
	var out []int
	for i := 0; n > 0; i++ {
		c := sizes[i%len(sizes)]
		if c > n {
			c = n
		}
		out = append(out, c)
		n -= c
	}
	return out
}

// walk parses an aws-chunked stream (written from the framing definition: hex size, optional
// ";chunk-signature=..", CRLF, data, CRLF). It returns, per data chunk, the offset of its first data
// byte and its size, and the offset just behind the CRLF that closes the chunk.
type encChunk struct{ dataOff, size, end int }

func walk(enc []byte) []encChunk {
	var out []encChunk
	pos := 0
	for pos < len(enc) {
		i := bytes.Index(enc[pos:], []byte("\r\n"))
		if i < 0 {
			break
		}
		line := string(enc[pos : pos+i])
		if j := strings.IndexByte(line, ';'); j >= 0 {
			line = line[:j]
		}
		sz, err := strconv.ParseInt(strings.TrimSpace(line), 16, 64)
		if err != nil || sz == 0 {
			break
		}
		d := pos + i + 2
		out = append(out, encChunk{d, int(sz), d + int(sz) + 2})
		pos = d + int(sz) + 2
	}
	return out
}

// insideData picks an encoded offset strictly inside the data bytes of a chunk (at least one data byte of
// that chunk before it and one behind it), so that the cut never coincides with a framing boundary.
func insideData(w []encChunk, r *rand.Rand) int {
	for {
		k := w[r.Intn(len(w))]
		if k.size >= 2 {
			return k.dataOff + 1 + r.Intn(k.size-1)
		}
	}
}

// encOff maps a decoded payload offset to its offset in the encoded stream.
func encOff(enc []byte, off int) int {
	for _, c := range walk(enc) {
		if off < c.size {
			return c.dataOff + off
		}
		off -= c.size
	}
	return -1
}

// decodedOf returns the payload bytes contained in a (possibly cut) encoded stream.
func decodedOf(enc []byte) []byte {
	var out []byte
	for _, c := range walk(enc) {
		if c.dataOff >= len(enc) {
			break
		}
		e := c.dataOff + c.size
		if e > len(enc) {
			e = len(enc)
		}
		out = append(out, enc[c.dataOff:e]...)
	}
	return out
}

// plan of one case.
type plan struct {
	payload []byte
	ctl     variant
	bad     variant
	mu      sync.Mutex
	recv    []byte // decoded bytes the server receives in the corrupted request
	skip    string // non-empty: case cannot be built
}

func (p *plan) setRecv(b []byte) {
	p.mu.Lock()
	p.recv = b
	p.mu.Unlock()
}

func i64(v int64) *int64 { return &v }

func build(s spec, r *rand.Rand, thorough bool) *plan {
	// payload size and chunk layout: at least three data chunks, a partial last chunk
	csz := []int{17, 1000, 8192, 65536, 70001}[r.Intn(5)]
	n := 3 + r.Intn(3)
	if thorough && r.Intn(25) == 0 {
		csz, n = 262144, 4 // 1 MiB
	}
	size := csz*(n-1) + 1 + r.Intn(csz-1)
	sizes := []int{csz}
	if r.Intn(3) == 0 && s.corr != "extra-chunk" {
		sizes = []int{csz, 1, 2 * csz}
	}
	if s.corr == "extra-chunk" {
		size = csz * n
	}
	if !isStream(s.mode) && r.Intn(4) == 0 {
		size = 1 + r.Intn(40) // small plain bodies too (>= 3 needed for mid flips; fixed below)
		if size < 3 {
			size = 3
		}
	}
	// shapes in which the end of the body reaches the server in a read of its own (no data, only io.EOF): an empty
	// body, and an aws-chunked stream whose first chunk ends exactly where the server's 8 KiB pre-read ends, so
	// that the final 0-size chunk is decoded separately
	if strings.HasSuffix(s.corr, "+empty-body") {
		size, sizes = 0, []int{1}
	}
	if strings.HasSuffix(s.corr, "+final-chunk-alone") {
		switch s.mode {
		case "chunked", "chunked-tr":
			size = 8192 - 87 // "1fa9;chunk-signature=<64 hex>\r\n" is 87 bytes
		case "unsigned-tr":
			size = 8192 - 6 // "1ffa\r\n"
		default:
			size = 8192
		}
		sizes = []int{size}
	}
	payload := make([]byte, size)
	r.Read(payload)
	// never end on a zero byte: keeps "zero padded" distinguishable from "equal"
	if size > 0 && payload[size-1] == 0 {
		payload[size-1] = 0xA5
	}
	chunks := chunkList(size, sizes)
	p := &plan{payload: payload, recv: payload}
	algo := s3c.Algos[r.Intn(len(s3c.Algos))]
	if strings.HasPrefix(s.field, "hdr-") {
		algo = strings.TrimPrefix(s.field, "hdr-")
	}
	if strings.HasPrefix(s.field, "tr-") {
		algo = strings.TrimPrefix(s.field, "tr-")
	}
	base := variant{body: payload, chunks: sizes, trAlgo: algo}
	switch {
	case s.field == "md5":
		base.md5 = s3c.MD5B64(payload)
	case strings.HasPrefix(s.field, "hdr-"):
		base.hdrAlgo, base.hdrVal = algo, s3c.Checksum(algo, payload)
	case strings.HasPrefix(s.field, "tr-"):
		base.trVal = s3c.Checksum(algo, payload)
	}
	if s.mode == "presigned" && s.field == "sha256" {
		base.payloadHash = s3c.SHA256Hex(payload)
	}
	p.ctl = base
	bad := base

	var other []byte
	if size == 0 {
		other = []byte("other bytes")
	} else {
		other = flipAt(payload, r.Intn(size))
	}
	flipOff := -1
	switch s.corr {
	case "flip-first":
		flipOff = 0
	case "flip-mid":
		flipOff = 1 + r.Intn(size-2)
	case "flip-last":
		flipOff = size - 1
	case "flip-bnd-before":
		flipOff = chunks[0] - 1
	case "flip-bnd-after":
		flipOff = chunks[0]
	}
	junk := func(k int) []byte {
		b := make([]byte, k)
		r.Read(b)
		return b
	}
	many := func() int64 { return int64(2 + r.Intn(size+4096)) }

	switch {
	case flipOff >= 0:
		flipped := flipAt(payload, flipOff)
		p.recv = flipped
		switch {
		case s.field == "md5" || strings.HasPrefix(s.field, "hdr-"):
			bad.body = flipped // the declared value was computed before the flip
		case strings.HasPrefix(s.field, "tr-"):
			bad.body = flipped
			bad.trVal = s3c.Checksum(algo, payload)
		case s.field == "sha256":
			bad.post = func(_ *s3c.Req, b *s3c.Built) { b.Body = flipAt(b.Body, flipOff) }
		case s.field == "chunksig":
			if s.mode == "chunked-tr" {
				bad.trVal = s3c.Checksum(algo, flipped) // trailer stays true for the received bytes
			}
			bad.mutate = func(enc []byte) []byte { return flipAt(enc, encOff(enc, flipOff)) }
		}
	case strings.HasPrefix(s.corr, "wrong-value"):
		if s.corr == "wrong-value+company" {
			// the other integrity assertions the mode admits are sent too, and are TRUE for the body: one false
			// assertion must refuse the upload however many true ones accompany it
			if s.field != "md5" {
				base.md5 = s3c.MD5B64(payload)
			}
			if !strings.HasPrefix(s.field, "hdr-") && (s.mode == "signed" || s.mode == "unsigned" || s.mode == "chunked" || s.mode == "presigned") {
				base.hdrAlgo = []string{"sha256", "crc32", "sha1"}[r.Intn(3)]
				if s.field == "sha256" {
					// the same digest twice: the most inviting shortcut ("already hashed")
					base.hdrAlgo = "sha256"
				}
				base.hdrVal = s3c.Checksum(base.hdrAlgo, payload)
			}
			p.ctl = base
			md5v, ha, hv := bad.md5, bad.hdrAlgo, bad.hdrVal
			bad = base
			if s.field == "md5" {
				bad.md5 = md5v
			}
			if strings.HasPrefix(s.field, "hdr-") {
				bad.hdrAlgo, bad.hdrVal = ha, hv
			}
		}
		switch {
		case s.field == "md5":
			bad.md5 = s3c.MD5B64(other)
		case strings.HasPrefix(s.field, "hdr-"):
			bad.hdrVal = s3c.Checksum(algo, other)
		case strings.HasPrefix(s.field, "tr-"):
			bad.trVal = s3c.Checksum(algo, other)
		case s.field == "sha256":
			bad.payloadHash = s3c.SHA256Hex(other)
		}
	case s.corr == "badsig-first":
		bad.badChunkSig = 1
	case s.corr == "badsig-mid":
		bad.badChunkSig = 2 + r.Intn(len(chunks)-2)
	case s.corr == "badsig-last":
		bad.badChunkSig = len(chunks)
	case s.corr == "badsig-final":
		bad.badChunkSig = -1
	case s.field == "trailersig":
		bad.badTrSig = true
	case s.corr == "omit-final+flip-last":
		off := size - 1 - r.Intn(chunks[len(chunks)-1])
		flipped := flipAt(payload, off)
		p.recv = flipped
		bad.omitFinal = true
		bad.mutate = func(enc []byte) []byte { return flipAt(enc, encOff(enc, off)) }
	case s.corr == "flip-last+close-before-final":
		// the complete stream is declared (Content-Length), the last data chunk is altered after signing and the
		// connection is half-closed where the final 0-chunk would start: the decoded length is as declared
		off := size - 1 - r.Intn(chunks[len(chunks)-1])
		flipped := flipAt(payload, off)
		p.recv = flipped
		if s.mode == "chunked-tr" {
			bad.trVal = s3c.Checksum(algo, flipped)
		}
		bad.mutate = func(enc []byte) []byte { return flipAt(enc, encOff(enc, off)) }
		bad.post = func(req *s3c.Req, b *s3c.Built) {
			w := walk(b.Body)
			req.CloseAfter = w[len(w)-1].end
		}
	case s.corr == "flip-last+cut-after-data":
		// the last data chunk is altered after signing and the stream ends right behind its data bytes (no CRLF,
		// no final chunk; Content-Length describes exactly what is sent): the decoded length is as declared
		off := size - 1 - r.Intn(chunks[len(chunks)-1])
		flipped := flipAt(payload, off)
		p.recv = flipped
		if s.mode == "chunked-tr" {
			bad.trVal = s3c.Checksum(algo, flipped)
		}
		bad.mutate = func(enc []byte) []byte {
			enc = flipAt(enc, encOff(enc, off))
			w := walk(enc)
			l := w[len(w)-1]
			return enc[:l.dataOff+l.size]
		}
	case s.corr == "larger-1":
		bad.decodedLen = i64(int64(size) + 1)
	case s.corr == "larger":
		bad.decodedLen = i64(int64(size) + many())
	case s.corr == "smaller-1":
		bad.decodedLen = i64(int64(size) - 1)
	case s.corr == "smaller":
		bad.decodedLen = i64(int64(r.Intn(size - 1)))
	case s.corr == "extra-chunk":
		ext := append(append([]byte{}, payload...), junk(csz)...)
		ext[len(ext)-1] |= 1
		bad.body = ext
		bad.decodedLen = i64(int64(size))
		if strings.HasPrefix(s.field, "tr-") || bad.trVal != "" {
			bad.trVal = ""
		}
		p.recv = ext
	case s.corr == "trunc-after-first" || s.corr == "trunc-after-mid" || s.corr == "trunc-mid-chunk" || s.corr == "trunc-after-header":
		bad.mutate = func(enc []byte) []byte {
			w := walk(enc)
			cut := w[0].end
			switch s.corr {
			case "trunc-after-mid":
				cut = w[1+r.Intn(len(w)-2)].end
			case "trunc-mid-chunk":
				cut = insideData(w, r)
			case "trunc-after-header":
				cut = w[1+r.Intn(len(w)-1)].dataOff // behind the header line of a later chunk, none of its data
			}
			p.setRecv(decodedOf(enc[:cut]))
			return enc[:cut]
		}
	case s.corr == "omit-final":
		bad.omitFinal = true
	case s.corr == "extra-tail-junk":
		bad.extraTail = junk(1 + r.Intn(300))
	case s.corr == "extra-tail-chunk":
		x := junk(1 + r.Intn(64))
		if s.mode == "unsigned-tr" {
			bad.extraTail = []byte(fmt.Sprintf("%x\r\n%s\r\n0\r\n\r\n", len(x), x))
		} else {
			bad.extraTail = []byte(fmt.Sprintf("%x;chunk-signature=%s\r\n%s\r\n", len(x), strings.Repeat("ab", 32), x))
		}
	case s.corr == "spurious-larger":
		bad.spuriousDL = strconv.FormatInt(int64(size)+many(), 10)
	case s.corr == "spurious-smaller":
		bad.spuriousDL = strconv.Itoa(r.Intn(size))
	case strings.HasPrefix(s.corr, "short-close"):
		bad.post = func(req *s3c.Req, b *s3c.Built) {
			n := len(b.Body) - 1
			switch s.corr {
			case "short-close-half":
				n = 1 + r.Intn(len(b.Body)-1)
				if isStream(s.mode) {
					n = insideData(walk(b.Body), r)
				}
			case "short-close-chunk":
				w := walk(b.Body)
				n = w[r.Intn(len(w)-1)].end
			}
			req.CloseAfter = n
			if isStream(s.mode) {
				p.setRecv(decodedOf(b.Body[:n]))
			} else {
				p.setRecv(append([]byte{}, b.Body[:n]...))
			}
		}
	case s.corr == "cl-larger-close":
		k := 1 + r.Intn(5000)
		bad.post = func(req *s3c.Req, b *s3c.Built) {
			req.CloseAfter = len(b.Body)
			b.Body = append(append([]byte{}, b.Body...), make([]byte, k)...) // declared, never sent
		}
	case strings.HasPrefix(s.corr, "cl-smaller"):
		bad.post = func(req *s3c.Req, b *s3c.Built) {
			n := len(b.Body) - 1
			if s.corr == "cl-smaller-half" {
				n = 1 + r.Intn(len(b.Body)-1)
				if isStream(s.mode) {
					n = insideData(walk(b.Body), r)
				}
			}
			req.ContentLength = i64(int64(n))
			req.FreshConn = true
			if isStream(s.mode) {
				p.setRecv(decodedOf(b.Body[:n]))
			} else {
				p.setRecv(append([]byte{}, b.Body[:n]...))
			}
		}
	default:
		p.skip = "no builder for " + s.corr
	}
	p.bad = bad
	return p
}

// ---------------------------------------------------------------- observation helpers

type partInfo struct {
	N    int
	ETag string
	Size int64
}

func listParts(cl *s3c.Client, key, id string) ([]partInfo, *s3c.Resp) {
	r := cl.Do(&s3c.Req{Method: "GET", Path: s3c.ObjPath(bucket, key), Query: s3c.Q("uploadId", id)})
	if !r.OK() {
		return nil, r
	}
	var o struct {
		Parts []struct {
			PartNumber int
			ETag       string
			Size       int64
		} `xml:"Part"`
	}
	if err := xml.Unmarshal(r.Body, &o); err != nil {
		r.Err = err
		return nil, r
	}
	var out []partInfo
	for _, p := range o.Parts {
		out = append(out, partInfo{p.PartNumber, strings.Trim(p.ETag, `"`), p.Size})
	}
	sort.Slice(out, func(i, j int) bool { return out[i].N < out[j].N })
	return out, r
}

func classify(stored, recv []byte) string {
	switch {
	case bytes.Equal(stored, recv):
		return "accepted"
	case len(stored) > len(recv) && bytes.HasPrefix(stored, recv):
		rest := stored[len(recv):]
		if len(bytes.Trim(rest, "\x00")) == 0 {
			return "padded"
		}
		return "extended"
	case len(stored) < len(recv) && bytes.HasPrefix(recv, stored):
		return "truncated"
	}
	return "garbled"
}

func short(b []byte) string {
	if len(b) > 24 {
		return fmt.Sprintf("%x..(%d bytes)", b[:24], len(b))
	}
	return fmt.Sprintf("%x", b)
}

func unq(s string) string { return strings.Trim(s, `"`) }

// ---------------------------------------------------------------- one case

type runner struct {
	c   *ev.Ctx
	env *fx.Env
	obs *s3c.Client // pooled client for set-up and observation
}

// upload sends the request under test on its own connection pool (a corrupted request can leave
// unread bytes on the connection).
func (rn *runner) upload(r *s3c.Req) *s3c.Resp {
	g := rn.env.GWs[0]
	cl := s3c.New(g.Addr, gw.RootAK, gw.RootSK)
	cl.Log = g
	defer cl.CloseIdle()
	r.FreshConn = true
	return cl.Do(r)
}

var trace = os.Getenv("VERIF_C06_TRACE") != ""

func tracef(f string, a ...any) {
	if trace {
		fmt.Fprintf(os.Stderr, f+"\n", a...)
	}
}

func keyOf(s spec) string {
	return strings.NewReplacer("/", "_", "+", "_").Replace(strings.TrimPrefix(s.id(), s.strat+"/"))
}

func (rn *runner) inconclusive(why string, r *s3c.Resp) {
	if r != nil {
		why += ": " + r.String()
		if r.Err != nil {
			why = strings.SplitN(why, ": ERR", 2)[0] + ": transport error"
		}
	}
	rn.c.Inconclusive(why)
}

func (rn *runner) one(s spec) {
	c := rn.c
	id := s.id()
	p := build(s, c.Rng("case/"+id), c.Thorough())
	if p.skip != "" {
		c.Observe("not built: " + p.skip)
		return
	}
	cl := rn.obs
	key := keyOf(s)
	ckey := key + ".ctl"
	old := make([]byte, 1+c.Rng("old/"+id).Intn(5000))
	c.Rng("old/" + id).Read(old)
	old[len(old)-1] |= 1
	if s.state == "twin" {
		// the previous state is the uncorrupted body itself: what the corrupted request declares (digest, length) is
		// true of what is stored already - the request must be judged by the bytes it carries all the same
		old = append([]byte{}, p.payload...)
	}

	detail := map[string]any{"case": id, "payload_len": len(p.payload), "chunk_sizes": p.ctl.chunks, "expect": s.expectation()}
	viol := func(outcome, why string) {
		detail["why"] = why
		c.Violation(s.sig(outcome), id, detail)
	}
	died := func() bool {
		if _, cr := rn.env.Dead(); cr != nil {
			detail["crash"] = cr.Message
			detail["frame"] = cr.TopFrame
			viol("gateway-died", "gateway process died")
			return true
		}
		return false
	}

	if s.op == "put" {
		// ---- control
		cr := rn.upload(p.ctl.req(s.mode, s3c.ObjPath(bucket, ckey), ""))
		if cr.Err != nil {
			if !died() {
				rn.inconclusive("control transport error", nil)
			}
			return
		}
		if !cr.OK() {
			c.Observe("control refused (" + cr.String() + "): " + s.mode + "/" + s.field)
			tracef("%s control refused %s payload=%d chunks=%v", id, cr, len(p.payload), p.ctl.chunks)
			return
		}
		g := cl.GetObject(bucket, ckey)
		h := cl.HeadObject(bucket, ckey)
		if g.Err != nil || h.Err != nil {
			rn.inconclusive("control read-back transport error", nil)
			return
		}
		c.Eval(1)
		if !g.OK() || !bytes.Equal(g.Body, p.payload) || h.Header.Get("Content-Length") != strconv.Itoa(len(p.payload)) {
			detail["control_status"] = cr.Status
			detail["get_status"] = g.Status
			detail["stored"] = short(g.Body)
			detail["head_content_length"] = h.Header.Get("Content-Length")
			c.Violation(strings.Join([]string{s.op, s.mode, s.field, "control", "stored-" + classify(g.Body, p.payload)}, ":"), id, detail)
			return
		}
		if unq(cr.Header.Get("ETag")) != s3c.MD5Hex(p.payload) {
			c.Observe("control ETag is not the MD5 of the payload: " + s.mode)
		}
		// ---- previous state
		oldETag := ""
		if s.state != "new" {
			pr := cl.PutObject(bucket, key, old)
			if !pr.OK() {
				rn.inconclusive("seed put failed", pr)
				return
			}
			oldETag = pr.Header.Get("ETag")
		}
		// ---- corrupted request
		br := rn.upload(p.bad.req(s.mode, s3c.ObjPath(bucket, key), ""))
		p.mu.Lock()
		recv := p.recv
		p.mu.Unlock()
		detail["status"] = br.String()
		detail["received_len"] = len(recv)
		if br.Err != nil && died() {
			return
		}
		g = cl.GetObject(bucket, key)
		h = cl.HeadObject(bucket, key)
		if g.Err != nil || h.Err != nil {
			if !died() {
				rn.inconclusive("read-back transport error", nil)
			}
			return
		}
		c.Distinct(s.class())
		detail["after_get"] = g.String()
		detail["after_len"] = len(g.Body)
		detail["after_etag"] = g.Header.Get("ETag")
		unchanged := false
		if s.state == "new" {
			unchanged = g.Status == 404 && h.Status == 404
		} else {
			unchanged = g.OK() && bytes.Equal(g.Body, old) && g.Header.Get("ETag") == oldETag &&
				h.OK() && h.Header.Get("Content-Length") == strconv.Itoa(len(old)) && h.Header.Get("ETag") == oldETag
		}
		haveNew := g.OK()
		if s.state == "twin" && br.OK() && unchanged {
			// accepted, and the key holds what it held before - which is also what an exact store of the uncorrupted
			// body looks like: judged as stored content, not as "accepted but not stored"
			unchanged = false
		}
		rn.judge(s, p, recv, br.OK(), unchanged, haveNew, g.Body, unq(g.Header.Get("ETag")), detail, viol)
		return
	}

	// ---- UploadPart
	testN, oldN := 1, 1
	if s.state == "new" {
		oldN = 2
	}
	q := func(n int, id string) string { return s3c.Q("partNumber", strconv.Itoa(n), "uploadId", id) }
	// control: own upload on the sibling key
	cid, r0 := cl.CreateMPU(bucket, ckey)
	if cid == "" {
		rn.inconclusive("create mpu failed", r0)
		return
	}
	cr := rn.upload(p.ctl.req(s.mode, s3c.ObjPath(bucket, ckey), q(testN, cid)))
	if cr.Err != nil {
		if !died() {
			rn.inconclusive("control transport error", nil)
		}
		return
	}
	if !cr.OK() {
		c.Observe("control refused (" + cr.String() + "): " + s.mode + "/" + s.field)
		tracef("%s control refused %s payload=%d chunks=%v", id, cr, len(p.payload), p.ctl.chunks)
		cl.AbortMPU(bucket, ckey, cid)
		return
	}
	cparts, lr := listParts(cl, ckey, cid)
	if lr.Err != nil || !lr.OK() {
		rn.inconclusive("control list parts failed", lr)
		return
	}
	cetag := unq(cr.Header.Get("ETag"))
	comp := cl.CompleteMPU(bucket, ckey, cid, []s3c.Part{{N: testN, ETag: cetag}})
	g := cl.GetObject(bucket, ckey)
	if comp.Err != nil || g.Err != nil {
		rn.inconclusive("control complete/get transport error", nil)
		return
	}
	c.Eval(1)
	if len(cparts) != 1 || cparts[0].N != testN || cparts[0].Size != int64(len(p.payload)) || !comp.OK() || !g.OK() || !bytes.Equal(g.Body, p.payload) {
		detail["control_parts"] = fmt.Sprint(cparts)
		detail["complete"] = comp.String()
		detail["stored"] = short(g.Body)
		c.Violation(strings.Join([]string{s.op, s.mode, s.field, "control", "stored-" + classify(g.Body, p.payload)}, ":"), id, detail)
		return
	}
	if cetag != s3c.MD5Hex(p.payload) {
		c.Observe("control part ETag is not the MD5 of the payload: " + s.mode)
	}
	// previous state: an upload holding one old part
	uid, r1 := cl.CreateMPU(bucket, key)
	if uid == "" {
		rn.inconclusive("create mpu failed", r1)
		return
	}
	or := cl.UploadPart(bucket, key, uid, oldN, old)
	if !or.OK() {
		rn.inconclusive("seed part failed", or)
		return
	}
	oldETag := unq(or.Header.Get("ETag"))
	before, lr := listParts(cl, key, uid)
	if lr.Err != nil || !lr.OK() || len(before) != 1 || before[0] != (partInfo{oldN, oldETag, int64(len(old))}) {
		rn.inconclusive("seed part list unexpected", lr)
		return
	}
	// corrupted request
	br := rn.upload(p.bad.req(s.mode, s3c.ObjPath(bucket, key), q(testN, uid)))
	p.mu.Lock()
	recv := p.recv
	p.mu.Unlock()
	detail["status"] = br.String()
	detail["received_len"] = len(recv)
	if br.Err != nil && died() {
		return
	}
	after, lr := listParts(cl, key, uid)
	if lr.Err != nil || !lr.OK() {
		if !died() {
			rn.inconclusive("list parts after the request failed", lr)
		}
		return
	}
	c.Distinct(s.class())
	detail["parts_before"] = fmt.Sprint(before)
	detail["parts_after"] = fmt.Sprint(after)
	listSame := len(after) == 1 && after[0] == before[0]
	// what does the upload assemble to now?
	var use []s3c.Part
	if listSame {
		use = []s3c.Part{{N: oldN, ETag: oldETag}}
	} else {
		for _, a := range after {
			if a.N == testN {
				use = []s3c.Part{{N: testN, ETag: a.ETag}}
			}
		}
		if use == nil {
			viol("key-changed", "part list changed but the tested part is not listed")
			return
		}
	}
	comp = cl.CompleteMPU(bucket, key, uid, use)
	g = cl.GetObject(bucket, key)
	if comp.Err != nil || g.Err != nil {
		if !died() {
			rn.inconclusive("complete/get after the request: transport error", nil)
		}
		return
	}
	detail["complete"] = comp.String()
	detail["after_len"] = len(g.Body)
	unchanged := listSame && comp.OK() && g.OK() && bytes.Equal(g.Body, old)
	etag := ""
	if !listSame {
		etag = use[0].ETag
	}
	haveNew := !listSame && g.OK()
	if s.state == "twin" && br.OK() && unchanged {
		unchanged, haveNew, etag = false, true, oldETag
	}
	rn.judge(s, p, recv, br.OK(), unchanged, haveNew, g.Body, etag, detail, viol)
}

// judge applies the oracle. accepted: the corrupted request was answered 2xx. unchanged: the key /
// part list is exactly in its previous state. haveNew/stored: content now found under the key when it
// is not the previous state.
func (rn *runner) judge(s spec, p *plan, recv []byte, accepted, unchanged, haveNew bool, stored []byte, etag string,
	detail map[string]any, viol func(outcome, why string)) {
	c := rn.c
	want := recv
	exp := s.expectation()
	tracef("%s status=%v accepted=%v unchanged=%v new=%v stored=%d recv=%d", s.id(), detail["status"], accepted, unchanged, haveNew, len(stored), len(recv))
	if haveNew {
		detail["stored"] = short(stored)
		detail["stored_md5"] = s3c.MD5Hex(stored)
		detail["etag"] = etag
	}
	c.Sample(map[string]any{"case": s.id(), "expect": exp, "payload_len": len(p.payload), "received_len": len(recv),
		"status": detail["status"], "answered_2xx": accepted, "previous_state_intact": unchanged})
	if !accepted {
		if !unchanged {
			viol("key-changed", "the request was refused / aborted but the key is not in its previous state")
			return
		}
		if exp != "reject" {
			c.Observe("refused although no listed assertion is false (" + exp + "): " + s.mode + "/" + s.field + "/" + s.corr)
		}
		return
	}
	// answered 2xx
	if exp == "reject" {
		out := "accepted"
		if unchanged {
			out = "accepted-not-stored"
		} else if haveNew {
			out = classify(stored, want)
		}
		viol(out, "an upload with a false integrity assertion was answered 2xx")
		return
	}
	// exact / prefix: the acceptance is legitimate iff exactly the received bytes are stored
	if unchanged || !haveNew {
		viol("accepted-not-stored", "2xx but the key does not hold the upload")
		return
	}
	if out := classify(stored, want); out != "accepted" {
		viol(out, "an accepted upload does not consist of exactly the received bytes")
		return
	}
	if etag != "" && !strings.Contains(etag, "-") && etag != s3c.MD5Hex(stored) {
		c.Observe("accepted upload: ETag is not the MD5 of the stored bytes: " + s.mode + "/" + s.corr)
	}
	c.Observe("accepted with exactly the received bytes (" + exp + "): " + s.mode + "/" + s.field + "/" + s.corr)
}

// ---------------------------------------------------------------- driver

func selectQuick(c *ev.Ctx, all []spec, perGroup bool, extra int, must func(spec) bool) []spec {
	r := c.Rng("select/" + all[0].strat)
	perm := r.Perm(len(all))
	chosen := map[int]bool{}
	if perGroup {
		seen := map[string]bool{}
		for _, i := range perm {
			if g := all[i].group(); !seen[g] {
				seen[g] = true
				chosen[i] = true
			}
		}
	}
	if must != nil {
		seen := map[string]bool{}
		for _, i := range perm {
			if must(all[i]) {
				if g := all[i].group() + all[i].op; !seen[g] {
					seen[g] = true
					chosen[i] = true
				}
			}
		}
	}
	for _, i := range perm {
		if extra <= 0 {
			break
		}
		if !chosen[i] {
			chosen[i] = true
			extra--
		}
	}
	var out []spec
	for i, s := range all {
		if chosen[i] {
			out = append(out, s)
		}
	}
	return out
}

func runStrat(c *ev.Ctx, strat string, cases []spec) {
	var todo []spec
	for _, s := range cases {
		if c.Want(s.id()) {
			todo = append(todo, s)
		}
	}
	if len(todo) == 0 {
		return
	}
	env, err := fx.New("c06"+strat, gw.Config{NoOTmp: strat == "nootmp"}, 1)
	if err != nil {
		c.Inconclusive("gateway start: " + err.Error())
		return
	}
	defer env.Close()
	cl := env.Client(0)
	if r := cl.CreateBucket(bucket); !r.OK() {
		c.Inconclusive("create bucket: " + r.String())
		return
	}
	rn := &runner{c: c, env: env, obs: cl}
	ch := make(chan spec)
	var wg sync.WaitGroup
	for w := 0; w < 8; w++ {
		wg.Add(1)
		go func() {
			defer wg.Done()
			for s := range ch {
				if _, cr := env.Dead(); cr != nil {
					c.Inconclusive("gateway dead, case skipped")
					continue
				}
				rn.one(s)
			}
		}()
	}
	for _, s := range todo {
		ch <- s
	}
	close(ch)
	wg.Wait()
	c.Add("cases_"+strat, len(todo))
	if _, cr := env.Dead(); cr != nil {
		c.Violation("gateway-died", strat, map[string]any{"crash": cr.Message, "frame": cr.TopFrame})
	}
	// temp files left behind by refused uploads (not part of the property; reported only)
	if ents, err := os.ReadDir(filepath.Join(env.Store.Root, bucket, ".sgwtmp")); err == nil {
		n := 0
		for _, e := range ents {
			if e.Type().IsRegular() {
				n++
			}
		}
		c.Set("tmpfiles_left_"+strat, n)
	}
}

func Run(c *ev.Ctx) int {
	c.Assume("HTTP/1.1 over loopback, posix backend on tmpfs, versioning off, root credentials; payloads 3 B .. 350 KB (1 MiB in some thorough cases), 3..6 chunks")
	c.Assume("UploadPart cases use single-part uploads (the tested part is the last part, so no 5 MiB minimum applies)")
	c.Assume("not judged as must-reject (either refused with the key unchanged, or stored exactly): bytes after the final chunk, a stream without the terminating 0-chunk whose data chunks are all intact, a Content-Length that disagrees only with the transport framing of a complete aws-chunked stream, X-Amz-Decoded-Content-Length on a non-chunked upload")
	c.Assume("UNSIGNED-PAYLOAD with Content-Length smaller than what the client goes on to write is a complete request of Content-Length bytes: acceptance is legitimate iff exactly that prefix is stored")

	reps := c.Pick(1, 10)
	otmp := allSpecs("otmp", reps)
	nootmp := allSpecs("nootmp", reps)
	if !c.Thorough() {
		otmp = selectQuick(c, otmp, true, 200, func(s spec) bool {
			return strings.HasSuffix(s.corr, "+company") || strings.HasSuffix(s.corr, "+empty-body") || strings.HasSuffix(s.corr, "+final-chunk-alone") ||
				s.state == "twin" && strings.HasPrefix(s.corr, "flip-")
		})
		nootmp = selectQuick(c, nootmp, false, 40, func(s spec) bool {
			return s.field == "declen" || s.field == "chunksig" && strings.Contains(s.corr, "+")
		})
	}
	var wg sync.WaitGroup
	for _, x := range []struct {
		strat string
		cases []spec
	}{{"otmp", otmp}, {"nootmp", nootmp}} {
		wg.Add(1)
		go func() {
			defer wg.Done()
			runStrat(c, x.strat, x.cases)
		}()
	}
	wg.Add(1)
	go func() {
		defer wg.Done()
		laneEcdsa(c)
	}()
	wg.Add(1)
	go func() {
		defer wg.Done()
		laneDirObjects(c)
	}()
	// concurrent lane: integrity must not depend on what else the process decodes at the same moment
	rc := c.Rng("concurrent")
	modes := []string{"plain", "fewprocs", "race"}
	for _, strat := range []string{"otmp", "nootmp"} {
		for k, mode := range modes {
			if !c.Thorough() && strat == "nootmp" && mode != "fewprocs" {
				continue
			}
			seed := rc.Int63n(1 << 40)
			wg.Add(1)
			go func() {
				defer wg.Done()
				concup.Run(c, concup.Opt{ID: fmt.Sprintf("concurrent/%s/%d", strat, k), Name: strat, Store: strat,
					GW: gw.Config{NoOTmp: strat == "nootmp"}, Mode: mode, Seed: seed, Corrupt: true, PartsToo: true})
			}()
		}
	}
	for _, strat := range []string{"otmp", "nootmp"} {
		for _, sidecar := range []bool{false, true} {
			wg.Add(1)
			go func() {
				defer wg.Done()
				gatedLane(c, strat, sidecar)
			}()
		}
	}
	wg.Wait()
	return c.Finish("every case = uncorrupted control (same encoding, sibling key; must be 2xx and read back byte-identical with the declared length) + one corrupted PutObject/UploadPart whose status, and the key's GET/HEAD (parts: ListParts + Complete + GET) afterwards, are compared with the previous state; distinct = (operation, mode, integrity field, corruption, key state) whose control succeeded; temp-file strategies O_TMPFILE and --disableotmp", c.Pick(200, 900))
}
