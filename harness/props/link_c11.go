//go:build !solo || solo_c11

package props

import _ "verif/harness/props/c11"
