package c02

import (
	"fmt"
	"strings"

	"verif/harness/internal/ev"
	"verif/harness/internal/fx"
	"verif/harness/internal/gw"
	"verif/harness/internal/s3c"
)

// Region lane: "wrong scope" is judged against the gateway's configuration, not against a constant. The gateway runs
// with --region eu-test-1; requests signed consistently (right key, right secret, own date) for any other region -
// the SDK default us-east-1 among them - carry a proof for another deployment and must be refused without effect,
// header-signed, presigned and streaming alike. The correctly scoped twin of every request is the control.
func regionLane(c *ev.Ctx) {
	if !c.Want("r") {
		return
	}
	const region = "eu-test-1"
	env, err := fx.New("c02r", gw.Config{Versioning: true, ExtraArgs: []string{"--region", region}}, 1)
	if err != nil {
		c.Inconclusive("gateway start (region lane): " + err.Error())
		return
	}
	defer env.Close()
	good := env.Client(0)
	good.Region = region
	const b = "region-lane"
	if r := good.CreateBucket(b); !r.OK() {
		c.Inconclusive("region lane: correctly scoped CreateBucket refused: " + r.String())
		return
	}
	const secret = "REGION-LANE-DATA-77c1"
	good.PutObject(b, "doc", []byte(secret))
	type reqT struct {
		name string
		mk   func() *s3c.Req
		// effect: true if the request, once accepted, changed or disclosed something
		effect func(r *s3c.Resp) string
	}
	still := func() string {
		if g := good.GetObject(b, "doc"); !g.OK() || string(g.Body) != secret {
			return "object changed: " + g.String()
		}
		if g := good.GetObject(b, "planted"); g.Status != 404 {
			good.DeleteObject(b, "planted")
			return "object created"
		}
		if h := good.HeadBucket("region-lane-2"); h.Status != 404 {
			good.DeleteBucket("region-lane-2")
			return "bucket created"
		}
		return ""
	}
	reqs := []reqT{
		{"get-object", func() *s3c.Req { return &s3c.Req{Method: "GET", Path: s3c.ObjPath(b, "doc")} }, nil},
		{"list-objects", func() *s3c.Req { return &s3c.Req{Method: "GET", Path: "/" + b, Query: "list-type=2"} }, nil},
		{"list-buckets", func() *s3c.Req { return &s3c.Req{Method: "GET", Path: "/"} }, nil},
		{"put-object", func() *s3c.Req {
			return &s3c.Req{Method: "PUT", Path: s3c.ObjPath(b, "planted"), Body: []byte("planted")}
		}, nil},
		{"put-object-overwrite", func() *s3c.Req {
			return &s3c.Req{Method: "PUT", Path: s3c.ObjPath(b, "doc"), Body: []byte("overwritten")}
		}, nil},
		{"put-object-chunk-signed", func() *s3c.Req {
			return &s3c.Req{Method: "PUT", Path: s3c.ObjPath(b, "planted"), Body: []byte(strings.Repeat("planted", 2000)), Stream: &s3c.Stream{Mode: s3c.StreamSigned, ChunkSizes: []int{4096}}}
		}, nil},
		{"delete-object", func() *s3c.Req { return &s3c.Req{Method: "DELETE", Path: s3c.ObjPath(b, "doc")} }, nil},
		{"create-bucket", func() *s3c.Req { return &s3c.Req{Method: "PUT", Path: "/region-lane-2"} }, nil},
		{"admin-list-users", func() *s3c.Req { return &s3c.Req{Method: "PATCH", Path: "/list-users"} }, nil},
	}
	for _, rq := range reqs {
		for _, presign := range []bool{false, true} {
			if presign && (rq.name == "put-object-chunk-signed" || rq.name == "admin-list-users") {
				continue
			}
			form := "header"
			if presign {
				form = "presigned"
			}
			// control: the correctly scoped request is served (and its effect undone)
			cr := rq.mk()
			cr.Presign = presign
			ctl := good.Do(cr)
			if !ctl.OK() {
				c.Observe(fmt.Sprintf("region lane: control %s (%s) refused: %s", rq.name, form, ctl.String()))
				continue
			}
			good.PutObject(b, "doc", []byte(secret))
			good.DeleteObject(b, "planted")
			good.DeleteBucket("region-lane-2")
			for _, scope := range []string{"us-east-1", "us-west-2", "eu-test-2", "eu-test-", "EU-TEST-1", "us-east-1,eu-test-1", "*"} {
				id := fmt.Sprintf("r/%s/%s/%s", rq.name, form, scope)
				if !c.Want(id) {
					continue
				}
				r := rq.mk()
				r.Presign = presign
				r.Region = scope
				resp := good.Do(r)
				c.Eval(1)
				if resp.Err != nil {
					c.Observe("region lane: transport error / request refused by the HTTP layer")
					continue
				}
				det := map[string]any{"gateway_region": region, "credential_scope_region": scope, "request": rq.name, "form": form, "answer": resp.String()}
				eff := still()
				switch {
				case resp.Status < 400:
					det["effect"] = eff
					c.Violation(fmt.Sprintf("region:%s:%s:scope-%s:served", rq.name, form, scopeClass(scope)), id, det)
				case eff != "":
					det["effect"] = eff
					c.Violation(fmt.Sprintf("region:%s:%s:scope-%s:refused-with-effect", rq.name, form, scopeClass(scope)), id, det)
				case strings.Contains(string(resp.Body), secret):
					c.Violation(fmt.Sprintf("region:%s:%s:scope-%s:disclosed", rq.name, form, scopeClass(scope)), id, det)
				default:
					c.Distinct(fmt.Sprintf("r|%s|%s|%s", rq.name, form, scopeClass(scope)))
				}
				good.PutObject(b, "doc", []byte(secret))
			}
		}
	}
}

func scopeClass(s string) string {
	switch s {
	case "us-east-1":
		return "sdk-default"
	case "us-west-2", "eu-test-2":
		return "other-region"
	}
	return "near-miss"
}
