package c02

import (
	"crypto/hmac"
	"crypto/sha256"
	"encoding/hex"
	"math/rand"
	"sort"
	"strings"
	"time"

	"verif/harness/internal/s3c"
	"verif/harness/props/catalog"
)

// kit is what a defect may use to spoil a request.
type kit struct {
	cl  *s3c.Client
	st  *catalog.State
	e   *catalog.Entry
	rng *rand.Rand
	now time.Time
	// secret of another existing account
	otherSecret string
	// selfCheckFailed is set when the local re-signer disagrees with s3c on a correct signature
	selfCheckFailed *bool
}

type defKind int

const (
	kHeader defKind = iota
	kPresign
	kStream
)

type defect struct {
	name    string
	kind    defKind
	quick   bool // part of the fixed quick selection
	ambig   bool // legality arguable: generated, never judged
	applies func(e *catalog.Entry, cls class, rq *s3c.Req) bool
	apply   func(r *s3c.Req, k *kit)
}

// Margin of every date defect: hours, so no verdict depends on the speed of the machine.
const skew = 6 * time.Hour

func chain(r *s3c.Req, f func(b *s3c.Built)) {
	prev := r.Tamper
	r.Tamper = func(b *s3c.Built) {
		if prev != nil {
			prev(b)
		}
		f(b)
	}
}

func editAuth(r *s3c.Req, f func(v string) string) {
	chain(r, func(b *s3c.Built) { b.Header.Set("Authorization", f(b.Header.Get("Authorization"))) })
}

func otherHex(c byte) byte {
	if c == '0' {
		return '1'
	}
	return '0'
}

// flipNibble alters the hex digit at position pos (mod length) of the hex run that follows marker.
func flipNibble(s, marker string, pos int) string {
	i := strings.Index(s, marker)
	if i < 0 {
		return s
	}
	i += len(marker)
	j := i
	for j < len(s) && strings.IndexByte("0123456789abcdef", s[j]) >= 0 {
		j++
	}
	if j == i {
		return s
	}
	p := i + pos%(j-i)
	b := []byte(s)
	b[p] = otherHex(b[p])
	return string(b)
}

func dropParam(target, name string) string {
	path, q, _ := strings.Cut(target, "?")
	var keep []string
	for _, p := range strings.Split(q, "&") {
		if k, _, _ := strings.Cut(p, "="); k != name {
			keep = append(keep, p)
		}
	}
	return path + "?" + strings.Join(keep, "&")
}

func addParam(target, kv string) string {
	if strings.Contains(target, "?") {
		return target + "&" + kv
	}
	return target + "?" + kv
}

func hasBodyMethod(m string) bool { return m == "PUT" || m == "POST" || m == "PATCH" }

func hmac256(key []byte, data string) []byte {
	h := hmac.New(sha256.New, key)
	h.Write([]byte(data))
	return h.Sum(nil)
}

// resign recomputes the Authorization header of a built header-auth request with
// the given scope parameters, leaving every other byte (X-Amz-Date included) as is.
func resign(b *s3c.Built, ak, sk, day, region, service string) string {
	auth := b.Header.Get("Authorization")
	_, rest, _ := strings.Cut(auth, "SignedHeaders=")
	sh, _, _ := strings.Cut(rest, ",")
	var ch strings.Builder
	for _, n := range strings.Split(sh, ";") {
		var vals []string
		for _, kv := range b.Header {
			if strings.EqualFold(kv[0], n) {
				vals = append(vals, strings.Join(strings.Fields(kv[1]), " "))
			}
		}
		ch.WriteString(n + ":" + strings.Join(vals, ",") + "\n")
	}
	path, q, _ := strings.Cut(b.Target, "?")
	var parts []string
	for _, p := range strings.Split(q, "&") {
		if p == "" {
			continue
		}
		if !strings.Contains(p, "=") {
			p += "="
		}
		parts = append(parts, p)
	}
	sort.SliceStable(parts, func(i, j int) bool {
		ki, vi, _ := strings.Cut(parts[i], "=")
		kj, vj, _ := strings.Cut(parts[j], "=")
		if ki != kj {
			return ki < kj
		}
		return vi < vj
	})
	creq := b.Method + "\n" + path + "\n" + strings.Join(parts, "&") + "\n" + ch.String() + "\n" + sh + "\n" + b.Header.Get("X-Amz-Content-Sha256")
	amzDate := b.Header.Get("X-Amz-Date")
	scope := day + "/" + region + "/" + service + "/aws4_request"
	sts := "AWS4-HMAC-SHA256\n" + amzDate + "\n" + scope + "\n" + s3c.SHA256Hex([]byte(creq))
	sig := hex.EncodeToString(hmac256(s3c.SigningKey(sk, day, region, service), sts))
	return "AWS4-HMAC-SHA256 Credential=" + ak + "/" + scope + ", SignedHeaders=" + sh + ", Signature=" + sig
}

func always(*catalog.Entry, class, *s3c.Req) bool { return true }

func notStream(_ *catalog.Entry, c class, _ *s3c.Req) bool { return c.stream == "" }

func defects() []*defect {
	hdr := func(name string, quick bool, apply func(r *s3c.Req, k *kit)) *defect {
		return &defect{name: name, kind: kHeader, quick: quick, applies: always, apply: apply}
	}
	pre := func(name string, quick bool, apply func(r *s3c.Req, k *kit)) *defect {
		return &defect{name: name, kind: kPresign, quick: quick, applies: notStream, apply: func(r *s3c.Req, k *kit) {
			r.Presign = true
			apply(r, k)
		}}
	}
	ds := []*defect{
		// ---- authorization absent or not parsable --------------------------------------
		hdr("no-auth", true, func(r *s3c.Req, k *kit) { r.NoSign = true }),
		hdr("empty-auth", false, func(r *s3c.Req, k *kit) {
			r.NoSign = true
			r.Header = append(r.Header, [2]string{"Authorization", ""})
		}),
		hdr("auth-sigv2", false, func(r *s3c.Req, k *kit) {
			r.NoSign = true
			r.Header = append(r.Header, [2]string{"Authorization", "AWS " + k.cl.AK + ":frJIUN8DYpKDtOLCwo//yllqDzg="})
		}),
		hdr("auth-missing-signature", false, func(r *s3c.Req, k *kit) {
			editAuth(r, func(v string) string { s, _, _ := strings.Cut(v, ", Signature="); return s })
		}),
		hdr("auth-missing-credential", false, func(r *s3c.Req, k *kit) {
			editAuth(r, func(v string) string {
				_, rest, _ := strings.Cut(v, ", SignedHeaders=")
				return "AWS4-HMAC-SHA256 SignedHeaders=" + rest
			})
		}),
		hdr("auth-credential-shape", false, func(r *s3c.Req, k *kit) {
			editAuth(r, func(v string) string { return strings.Replace(v, "/s3/aws4_request", "/aws4_request", 1) })
		}),
		hdr("auth-wrong-algorithm", false, func(r *s3c.Req, k *kit) {
			editAuth(r, func(v string) string { return strings.Replace(v, "AWS4-HMAC-SHA256", "AWS4-HMAC-SHA1", 1) })
		}),
		hdr("auth-wrong-terminator", false, func(r *s3c.Req, k *kit) {
			editAuth(r, func(v string) string { return strings.Replace(v, "/aws4_request", "/aws4_requesT", 1) })
		}),
		// ---- well-formed, wrong proof ------------------------------------------------------
		hdr("wrong-service", false, func(r *s3c.Req, k *kit) { r.Service = "ec2" }),
		hdr("wrong-region", false, func(r *s3c.Req, k *kit) { r.Region = "eu-central-7" }),
		hdr("unknown-access-key", false, func(r *s3c.Req, k *kit) { r.AK = "AKIAUNKNOWNKEY0000" }),
		hdr("wrong-secret", true, func(r *s3c.Req, k *kit) { r.SK = k.cl.SK + "x" }),
		hdr("crossed-secret", false, func(r *s3c.Req, k *kit) { r.SK = k.otherSecret }),
		hdr("sig-nibble", true, func(r *s3c.Req, k *kit) {
			pos := k.rng.Intn(64)
			editAuth(r, func(v string) string { return flipNibble(v, "Signature=", pos) })
		}),
		hdr("sig-truncated", false, func(r *s3c.Req, k *kit) {
			editAuth(r, func(v string) string { return v[:len(v)-1] })
		}),
		hdr("signed-header-altered", true, func(r *s3c.Req, k *kit) {
			r.Header = append(r.Header, [2]string{"X-Amz-Meta-C02probe", "value-that-was-signed"})
			chain(r, func(b *s3c.Built) { b.Header.Set("X-Amz-Meta-C02probe", "value-that-was-sent") })
		}),
		// a second line of a header that IS covered by the signature, added after signing: every line of a signed
		// header belongs to the canonical request, so the proof no longer matches (a verifier that looks only at the
		// first line while handlers use the last one would let the unsigned value through)
		hdr("signed-header-line-appended", true, func(r *s3c.Req, k *kit) {
			r.Header = append(r.Header, [2]string{"X-Amz-Meta-C02probe", "value-that-was-signed"})
			chain(r, func(b *s3c.Built) {
				b.Header = append(b.Header, [2]string{"X-Amz-Meta-C02probe", "second-line-that-was-never-signed"})
			})
		}),
		hdr("signed-header-line-prepended", false, func(r *s3c.Req, k *kit) {
			r.Header = append(r.Header, [2]string{"X-Amz-Meta-C02probe", "value-that-was-signed"})
			chain(r, func(b *s3c.Built) {
				b.Header = append(s3c.H{{"X-Amz-Meta-C02probe", "first-line-that-was-never-signed"}}, b.Header...)
			})
		}),
		hdr("query-added", false, func(r *s3c.Req, k *kit) {
			chain(r, func(b *s3c.Built) { b.Target = addParam(b.Target, "c02extra=1") })
		}),
		// a pair added after signing whose text a lenient query parser drops without a word (a raw ';', a broken
		// percent escape): if the verifier parses the query with such a parser while the router and the handlers
		// use a stricter one, the pair is invisible to the proof and effective in the operation. The added name is
		// either inert or a sub-resource selector, which turns the signed request into a different operation.
		hdr("query-added-unparsable-pair", true, func(r *s3c.Req, k *kit) {
			names := []string{"c02extra", "tagging", "acl", "policy", "versions", "uploads", "versionId", "c02extra"}
			vals := []string{";", "%zz", "%", "a;b", "%f", ";"}
			kv := names[k.rng.Intn(len(names))] + "=" + vals[k.rng.Intn(len(vals))]
			chain(r, func(b *s3c.Built) { b.Target = addParam(b.Target, kv) })
		}),
		pre("presign-query-added-unparsable-pair", false, func(r *s3c.Req, k *kit) {
			names := []string{"c02extra", "tagging", "acl", "policy", "versions"}
			vals := []string{";", "%zz", "%", "a;b"}
			kv := names[k.rng.Intn(len(names))] + "=" + vals[k.rng.Intn(len(vals))]
			chain(r, func(b *s3c.Built) { b.Target = addParam(b.Target, kv) })
		}),
		{name: "query-altered", kind: kHeader, applies: func(_ *catalog.Entry, _ class, rq *s3c.Req) bool {
			return valuedParam(rq.Query) >= 0
		}, apply: func(r *s3c.Req, k *kit) {
			chain(r, func(b *s3c.Built) { b.Target = alterParam(b.Target) })
		}},
		{name: "payload-altered", kind: kHeader, quick: true, applies: func(e *catalog.Entry, c class, _ *s3c.Req) bool {
			// (a request that announces no body has no payload the server would read: nothing to alter)
			return c.stream == "" && !c.noLen && hasBodyMethod(e.Method)
		}, apply: func(r *s3c.Req, k *kit) {
			// one blank appended: XML / JSON documents stay valid, object data differs
			chain(r, func(b *s3c.Built) { b.Body = append(append([]byte{}, b.Body...), ' ') })
		}},
		{name: "sha256-altered", kind: kHeader, applies: notStream, apply: func(r *s3c.Req, k *kit) {
			chain(r, func(b *s3c.Built) { b.Header.Set("X-Amz-Content-Sha256", s3c.SHA256Hex([]byte("something else"))) })
		}},
		{name: "sha256-to-unsigned", kind: kHeader, applies: notStream, apply: func(r *s3c.Req, k *kit) {
			chain(r, func(b *s3c.Built) { b.Header.Set("X-Amz-Content-Sha256", s3c.Unsigned) })
		}},
		// ---- dates and scope -------------------------------------------------------------------
		hdr("date-minus", true, func(r *s3c.Req, k *kit) { r.Time = k.now.Add(-skew) }),
		hdr("date-plus", false, func(r *s3c.Req, k *kit) { r.Time = k.now.Add(skew) }),
		hdr("date-missing", false, func(r *s3c.Req, k *kit) {
			chain(r, func(b *s3c.Built) { b.Header.Del("X-Amz-Date") })
		}),
		hdr("scope-day-altered", false, func(r *s3c.Req, k *kit) {
			day := k.now.UTC().Format("20060102")
			other := k.now.UTC().Add(-72 * time.Hour).Format("20060102")
			editAuth(r, func(v string) string { return strings.Replace(v, "/"+day+"/", "/"+other+"/", 1) })
		}),
		hdr("scope-day-consistent", false, func(r *s3c.Req, k *kit) {
			// signed consistently for a credential scope three days old while X-Amz-Date is now
			other := k.now.UTC().Add(-72 * time.Hour).Format("20060102")
			r.Time = k.now
			chain(r, func(b *s3c.Built) {
				day := b.Header.Get("X-Amz-Date")[:8]
				if resign(b, k.cl.AK, k.cl.SK, day, k.cl.Region, "s3") != b.Header.Get("Authorization") {
					*k.selfCheckFailed = true
				}
				b.Header.Set("Authorization", resign(b, k.cl.AK, k.cl.SK, other, k.cl.Region, "s3"))
			})
		}),
		// ---- presigned ---------------------------------------------------------------------------
		pre("presign-expired", true, func(r *s3c.Req, k *kit) { r.Time = k.now.Add(-2 * time.Hour); r.Expires = 60 }),
		// expired minutes ago (inside the window that header-signed requests are granted for clock skew - a presigned
		// URL has no such allowance: its own Expires is the limit)
		pre("presign-expired-9min-ago", true, func(r *s3c.Req, k *kit) { r.Time = k.now.Add(-10 * time.Minute); r.Expires = 60 }),
		pre("presign-expired-3min-ago", true, func(r *s3c.Req, k *kit) { r.Time = k.now.Add(-5 * time.Minute); r.Expires = 120 }),
		pre("presign-expires-over-7d", false, func(r *s3c.Req, k *kit) { r.Expires = 604800 + 86400 }),
		pre("presign-sig-nibble", true, func(r *s3c.Req, k *kit) {
			pos := k.rng.Intn(64)
			chain(r, func(b *s3c.Built) { b.Target = flipNibble(b.Target, "X-Amz-Signature=", pos) })
		}),
		pre("presign-wrong-secret", false, func(r *s3c.Req, k *kit) { r.SK = k.cl.SK + "x" }),
		pre("presign-unknown-access-key", false, func(r *s3c.Req, k *kit) { r.AK = "AKIAUNKNOWNKEY0000" }),
		pre("presign-wrong-region", false, func(r *s3c.Req, k *kit) { r.Region = "eu-central-7" }),
		pre("presign-path-altered", false, func(r *s3c.Req, k *kit) {
			// signed for a sibling path, sent to the real one
			real := r.Path
			signed := strings.TrimSuffix(real, "/") + "-sibling"
			if real == "/" || real == "" {
				real, signed = "/", "/sibling"
			} else if strings.HasSuffix(real, "/") {
				signed += "/"
			}
			r.Path = signed
			chain(r, func(b *s3c.Built) { b.Target = real + strings.TrimPrefix(b.Target, signed) })
		}),
		pre("presign-query-added", false, func(r *s3c.Req, k *kit) {
			chain(r, func(b *s3c.Built) { b.Target = addParam(b.Target, "c02extra=1") })
		}),
		pre("presign-missing-expires", false, func(r *s3c.Req, k *kit) {
			chain(r, func(b *s3c.Built) { b.Target = dropParam(b.Target, "X-Amz-Expires") })
		}),
		pre("presign-missing-date", false, func(r *s3c.Req, k *kit) {
			chain(r, func(b *s3c.Built) { b.Target = dropParam(b.Target, "X-Amz-Date") })
		}),
		pre("presign-missing-credential", false, func(r *s3c.Req, k *kit) {
			chain(r, func(b *s3c.Built) { b.Target = dropParam(b.Target, "X-Amz-Credential") })
		}),
		pre("presign-missing-signedheaders", false, func(r *s3c.Req, k *kit) {
			chain(r, func(b *s3c.Built) { b.Target = dropParam(b.Target, "X-Amz-SignedHeaders") })
		}),
		pre("presign-missing-algorithm", false, func(r *s3c.Req, k *kit) {
			chain(r, func(b *s3c.Built) { b.Target = dropParam(b.Target, "X-Amz-Algorithm") })
		}),
		pre("presign-missing-signature", false, func(r *s3c.Req, k *kit) {
			chain(r, func(b *s3c.Built) { b.Target = dropParam(b.Target, "X-Amz-Signature") })
		}),
		// a URL dated in the future is signed by the key holder; whether it must be refused is arguable
		{name: "presign-future-date", kind: kPresign, ambig: true, applies: notStream, apply: func(r *s3c.Req, k *kit) {
			r.Presign = true
			r.Time = k.now.Add(skew)
		}},
		// ---- streaming -------------------------------------------------------------------------------
		{name: "stream-seed-flipped-consistent", kind: kStream, quick: true, applies: func(_ *catalog.Entry, c class, _ *s3c.Req) bool {
			return c.stream == s3c.StreamSigned || c.stream == s3c.StreamSignedTr
		}, apply: func(r *s3c.Req, k *kit) {
			// the seed signature in the header is wrong, every chunk signature (and the trailer
			// signature) is computed with the right key from that wrong seed
			pos := k.rng.Intn(64)
			payload, stream := r.Body, r.Stream
			chain(r, func(b *s3c.Built) {
				seed := flipNibble("S="+b.Sig, "S=", pos)[2:]
				b.Header.Set("Authorization", strings.Replace(b.Header.Get("Authorization"), "Signature="+b.Sig, "Signature="+seed, 1))
				amz := b.Header.Get("X-Amz-Date")
				day := amz[:8]
				key := s3c.SigningKey(k.cl.SK, day, k.cl.Region, "s3")
				b.Body = stream.Encode(payload, key, amz, day+"/"+k.cl.Region+"/s3/aws4_request", seed)
			})
		}},
	}
	return ds
}

// valuedParam returns the index of the first query parameter with a non-empty value (-1 if none).
func valuedParam(q string) int {
	for i, p := range strings.Split(q, "&") {
		if _, v, ok := strings.Cut(p, "="); ok && v != "" {
			return i
		}
	}
	return -1
}

// alterParam changes the last character of the first valued query parameter.
func alterParam(target string) string {
	path, q, _ := strings.Cut(target, "?")
	parts := strings.Split(q, "&")
	i := valuedParam(q)
	if i < 0 {
		return target
	}
	p := []byte(parts[i])
	if p[len(p)-1] == '1' {
		p[len(p)-1] = '2'
	} else {
		p[len(p)-1] = '1'
	}
	parts[i] = string(p)
	return path + "?" + strings.Join(parts, "&")
}
