package c02

import (
	"fmt"
	"time"

	"verif/harness/internal/ev"
	"verif/harness/internal/fx"
	"verif/harness/internal/gate"
	"verif/harness/internal/gw"
	"verif/harness/internal/s3c"
)

// Gated credential lane: credentials that WERE valid, withdrawn while a request that uses them is being served. The
// first request of an account in a fresh gateway process is paused where the account has been fetched from the store
// and not yet put into the cache; the admin API deletes the account (or changes its secret) and answers; the paused
// request is released. Whatever that request itself is answered, every request signed with the withdrawn credentials
// that is sent AFTERWARDS must be refused without effect.
func gatedCredentialLane(c *ev.Ctx) {
	if !c.Want("g") {
		return
	}
	for _, change := range []string{"delete-user", "update-secret"} {
		id := "g/" + change
		if !c.Want(id) {
			continue
		}
		func() {
			ctl, err := gate.New(gw.Scratch())
			if err != nil {
				c.Inconclusive(err.Error())
				return
			}
			defer ctl.Close()
			env, err := fx.New("c02g", gw.Config{Versioning: true, Env: ctl.Env("iamcache.afterFetch")}, 1)
			if err != nil {
				c.Inconclusive("gateway start (gated credential lane): " + err.Error())
				return
			}
			defer env.Close()
			if r := env.CreateUser("victim", "victim-secret-1", "userplus", 0, 0); r.Status != 201 {
				c.Inconclusive("create user: " + r.String())
				return
			}
			// a fresh process: nothing about the account is cached
			if err := env.Restart(0); err != nil {
				c.Inconclusive("restart: " + err.Error())
				return
			}
			root := env.Client(0)
			old := root.With("victim", "victim-secret-1")
			hp, _ := gate.HoldNth(1)
			ctl.SetPolicy(hp)
			ach := make(chan *s3c.Resp, 1)
			go func() { ach <- old.Do(&s3c.Req{Method: "GET", Path: "/", FreshConn: true}) }()
			h := ctl.WaitHeld(10 * time.Second)
			ctl.SetPolicy(nil)
			if h == nil {
				<-ach
				c.Inconclusive("gated credential lane: the first request of the account passed no cache-fill point")
				return
			}
			var adm *s3c.Resp
			done := make(chan struct{})
			go func() {
				defer close(done)
				if change == "delete-user" {
					adm = root.Do(&s3c.Req{Method: "PATCH", Path: "/delete-user", Query: s3c.Q("access", "victim"), FreshConn: true, Watchdog: 20 * time.Second})
				} else {
					adm = root.Do(&s3c.Req{Method: "PATCH", Path: "/update-user", Query: s3c.Q("access", "victim"), FreshConn: true, Watchdog: 20 * time.Second,
						Body: []byte(`<MutableProps><Secret>victim-secret-2</Secret></MutableProps>`)})
				}
			}()
			select {
			case <-done:
			case <-time.After(3 * time.Second):
				// the change waits for the paused request: serialised, legitimate
			}
			h.Release()
			<-ach
			<-done
			c.Eval(1)
			if adm.Err != nil || !adm.OK() {
				c.Observe("gated credential lane: admin change not acknowledged: " + adm.String())
				return
			}
			det := map[string]any{"schedule": "first request of the account paused at " + h.Name + " | " + change + " acknowledged | release", "admin_answer": adm.String()}
			bad := false
			for i, rq := range []*s3c.Req{{Method: "GET", Path: "/"}, {Method: "PUT", Path: "/made-with-withdrawn-credentials"}, {Method: "GET", Path: "/", Presign: true}} {
				r := old.Do(rq)
				c.Eval(1)
				if r.Err != nil {
					c.Inconclusive("transport error in gated credential lane")
					return
				}
				if r.Status < 400 {
					det["request"], det["answer"] = rq.Method+" "+rq.Path, r.String()
					c.Violation(fmt.Sprintf("gated-credentials:%s:request-%d-signed-with-withdrawn-credentials-served", change, i), id, det)
					bad = true
				}
			}
			if h := root.HeadBucket("made-with-withdrawn-credentials"); h.Status != 404 {
				c.Violation("gated-credentials:"+change+":bucket-created-with-withdrawn-credentials", id, det)
				bad = true
			}
			if !bad {
				c.Distinct("g|" + change + "|" + h.Name)
			}
		}()
	}
}
