package c02

// History-dependent credential defects: a secret that WAS valid for an access key.
//
// Every other defect of the catalogue uses a proof that was never valid. Here the
// gateway first sees correctly signed requests of an account on every verifier path
// (header / presigned, immediate / deferred, the three aws-chunked encodings, the admin
// API), then the account changes through the admin API and requests signed with the
// PREVIOUS secret arrive:
//
//	secret-rotated-old-secret      update-user gave the access key another secret
//	account-deleted-last-secret    delete-user removed the access key
//	account-recreated-old-secret   delete-user, then create-user with the same access key and another secret
//
// (suffix -presigned for query-string authentication, @<encoding> for aws-chunked uploads).
// Oracle and signatures are those of the main lanes; the reference snapshot is the store
// right after the account change (it contains the IAM directory). The positive controls
// are signed with the NEW secret (root for a deleted account) and are sent AFTER the
// hostile cases of a worker, so that no valid request refreshes whatever the verifier
// may have kept. After any restore (gateway restart) the whole prefix is replayed.

import (
	"fmt"
	"math/rand"
	"sync"
	"time"

	"verif/harness/internal/ev"
	"verif/harness/internal/gw"
	"verif/harness/internal/s3c"
	"verif/harness/props/catalog"
)

type histScenario struct{ name, defect string }

var histScenarios = []histScenario{
	{"rotate", "secret-rotated-old-secret"},
	{"delete", "account-deleted-last-secret"},
	{"recreate", "account-recreated-old-secret"},
}

// histAcct: old = the secret that was valid, cur = the secret that is valid now ("" = account deleted)
type histAcct struct{ access, old, cur string }

type histCase struct {
	e    *catalog.Entry
	mode string // header | presigned
	cls  class
}

const histWarmKey = "cnry-hist-warm.txt"

// histSetup replays the prefix of a scenario on a freshly seeded (or restored) store and
// makes the resulting state the reference of the oracle.
func (w *worker) histSetup(sc histScenario, kind string) error {
	x := &histAcct{access: w.st.Admin.Access, old: w.st.Admin.Secret, cur: "CNRYsecretAfterChange77"}
	if kind == "fresh" {
		x.access, x.old = "cnryhist", "CNRYsecretOfHistAcct44"
		if r := w.cl.Admin("/create-user", "", []byte(catalog.AccountXML(x.access, x.old, "admin", 0, 0))); !r.OK() {
			return fmt.Errorf("create fresh account: %s", r.String())
		}
	}
	xc := w.cl.With(x.access, x.old)
	obj := s3c.ObjPath(w.st.Plain, histWarmKey)
	data := []byte("warm-up object written with the secret that is valid at that time")
	warm := []struct {
		what string
		rq   *s3c.Req
	}{
		{"header GET", &s3c.Req{Method: "GET", Path: "/"}},
		{"presigned GET", &s3c.Req{Method: "GET", Path: "/", Presign: true}},
		{"admin PATCH", &s3c.Req{Method: "PATCH", Path: "/list-users"}},
		{"presigned admin PATCH", &s3c.Req{Method: "PATCH", Path: "/list-users", Presign: true}},
		{"header PUT", &s3c.Req{Method: "PUT", Path: obj, Body: data}},
		{"presigned PUT", &s3c.Req{Method: "PUT", Path: obj, Body: data, Presign: true}},
		{"unsigned-payload PUT", &s3c.Req{Method: "PUT", Path: obj, Body: data, PayloadHash: s3c.Unsigned}},
		{"chunk-signed PUT", &s3c.Req{Method: "PUT", Path: obj, Body: data, Stream: &s3c.Stream{Mode: s3c.StreamSigned, ChunkSizes: []int{19}}}},
		{"chunk-signed-trailer PUT", &s3c.Req{Method: "PUT", Path: obj, Body: data, Stream: &s3c.Stream{Mode: s3c.StreamSignedTr, ChunkSizes: []int{23}, TrailerName: "x-amz-checksum-crc32"}}},
		{"chunk-unsigned-trailer PUT", &s3c.Req{Method: "PUT", Path: obj, Body: data, Stream: &s3c.Stream{Mode: s3c.StreamUnsignTr, ChunkSizes: []int{29}, TrailerName: "x-amz-checksum-sha256"}}},
		{"header DELETE", &s3c.Req{Method: "DELETE", Path: obj}},
	}
	for _, wu := range warm {
		if r := xc.Do(wu.rq); !r.OK() {
			return fmt.Errorf("warm-up %s with the valid secret: %s", wu.what, r.String())
		}
	}
	del := func() error {
		if r := w.cl.Admin("/delete-user", s3c.Q("access", x.access), nil); !r.OK() {
			return fmt.Errorf("delete-user: %s", r.String())
		}
		return nil
	}
	switch sc.name {
	case "rotate":
		if r := w.cl.Admin("/update-user", s3c.Q("access", x.access), []byte(`<MutableProps><Secret>`+x.cur+`</Secret></MutableProps>`)); !r.OK() {
			return fmt.Errorf("update-user: %s", r.String())
		}
	case "delete":
		x.cur = ""
		if err := del(); err != nil {
			return err
		}
	case "recreate":
		if err := del(); err != nil {
			return err
		}
		if r := w.cl.Admin("/create-user", "", []byte(catalog.AccountXML(x.access, x.cur, "admin", 0, 0))); !r.OK() {
			return fmt.Errorf("re-create account: %s", r.String())
		}
	}
	w.hist = x
	base, err := w.snapshot()
	if err != nil {
		return err
	}
	w.base = base
	w.c.Add("history_setups", 1)
	return nil
}

// histCases lists the cases of one worker for this tier and seed.
func histCases(c *ev.Ctx, rng *rand.Rand) []histCase {
	var entries []*catalog.Entry
	if c.Thorough() {
		entries = catalog.All()
	} else {
		// a reader, a mutator and an admin call of each flavour, the uploads, three seed-chosen others
		picked := map[string]bool{}
		for _, n := range []string{"list-buckets", "get-object", "admin-list-users", "put-bucket-tagging", "delete-object", "admin-create-user",
			"admin-change-bucket-owner", "put-object", "upload-part", "create-bucket-slash", "put-object-legal-hold-off"} {
			entries = append(entries, catalog.ByName(n))
			picked[n] = true
		}
		all := catalog.All()
		for len(entries) < 14 {
			if e := all[rng.Intn(len(all))]; !picked[e.Name] {
				picked[e.Name] = true
				entries = append(entries, e)
			}
		}
	}
	var out []histCase
	for _, e := range entries {
		out = append(out, histCase{e, "header", clsValid}, histCase{e, "presigned", clsValid})
		if e.Streamable && (c.Thorough() || e.Name == "put-object" || e.Name == "upload-part") {
			for _, cl := range []class{clsSigned, clsSignTr, clsUnsTr} {
				if c.Thorough() || e.Name == "put-object" || cl.stream == s3c.StreamUnsignTr {
					out = append(out, histCase{e, "header", cl})
				}
			}
		}
	}
	return out
}

func (w *worker) history(sc histScenario, kind string) {
	tag := sc.name + "-" + kind
	if !w.c.Want(w.lane + "/" + tag) {
		return
	}
	defer w.close()
	if err := w.start(); err != nil {
		w.c.Inconclusive("worker start: " + err.Error())
		return
	}
	setup := func() bool {
		if err := w.histSetup(sc, kind); err != nil {
			w.c.Inconclusive("history setup (" + tag + "): " + err.Error())
			return false
		}
		return true
	}
	if !setup() {
		return
	}
	if w.hist.cur != "" {
		w.canaries = append(w.canaries, w.hist.cur)
	}
	rng := w.c.Rng("c02/" + w.lane + "/" + tag)
	type judged struct {
		hc    histCase
		dname string
	}
	var done []judged
	for _, hc := range histCases(w.c, rng) {
		crng := rand.New(rand.NewSource(rng.Int63()))
		id := w.lane + "/" + tag + "/" + hc.e.Name + "/" + hc.mode + "/" + hc.cls.name
		if !w.c.Want(id) {
			continue
		}
		a := hc.e.Bind(w.st)
		rq := build(hc.e, a, hc.cls, crng, time.Now())
		rq.AK, rq.SK = w.hist.access, w.hist.old
		dname := sc.defect
		if hc.mode == "presigned" {
			rq.Presign = true
			dname += "-presigned"
		}
		b, resp := w.send(rq, w.cl)
		w.c.Eval(1)
		w.c.Add("hostile_requests", 1)
		w.c.Add("history_requests", 1)
		before := w.restores
		if !w.afterCase(w.judge(hc.e, dname, false, hc.cls, kind, id, true, b, resp), id) {
			return
		}
		done = append(done, judged{hc, dname})
		if w.restores != before && !setup() {
			return
		}
	}
	// positive controls with the credentials that are valid now
	acct := "hist"
	if w.hist.cur == "" {
		acct = "root"
	}
	live := map[string]bool{}
	for _, j := range done {
		k := j.hc.e.Name + "|" + j.hc.cls.name
		if _, seen := live[k]; seen {
			continue
		}
		before := w.restores
		lv, ok := w.control(j.hc.e, j.hc.e.Bind(w.st), j.hc.cls, acct, rng)
		if !ok {
			return
		}
		live[k] = lv
		if w.restores != before && !setup() {
			return
		}
	}
	for _, j := range done {
		w.account(j.hc.e, j.dname, j.hc.cls, kind, live[j.hc.e.Name+"|"+j.hc.cls.name])
	}
}

// historyLane runs every scenario for a seeded and for a fresh IAM account, one worker each.
func historyLane(c *ev.Ctx, name string, cfg gw.Config) {
	cfg.UID, cfg.MemLimitMB = jailUID, 4096
	var wg sync.WaitGroup
	i := 0
	for _, sc := range histScenarios {
		for _, kind := range []string{"seeded", "fresh"} {
			w := &worker{c: c, lane: name, name: fmt.Sprintf("%s%d", name, i), cfg: cfg}
			i++
			sc, kind := sc, kind
			wg.Add(1)
			go func() {
				defer wg.Done()
				w.history(sc, kind)
			}()
		}
	}
	wg.Wait()
}
