// Package c02: no request takes effect without a valid signature.
//
// Workload: endpoint catalogue (props/catalog) x credential-defect catalogue
// (defects.go) x body class / payload encoding x signing account (root, IAM admin), sent to a confined gateway
// (throw-away uid, RLIMIT_AS) that serves a private copy of a seeded store.
//
// Oracle, per hostile request: the answer is 4xx (a transport abort is counted
// separately and is acceptable); the byte-exact snapshot of the whole store
// (gateway root, versioning dir, sidecar dir, IAM dir) equals the snapshot of
// the seed; the response carries none of the seed's canaries (contents, ETags,
// version ids, upload id, tag/metadata values, policy Sid, account secrets,
// names that the request itself did not mention).
//
// Positive control, per endpoint (and per aws-chunked encoding where it
// applies): the same request with a correct signature (plus one unsigned extra
// header = negative control of the defect catalogue) must have its effect -
// tree changed for mutators, seeded data returned for readers. Otherwise the
// entry is dead and its cases are counted trivial.
//
// Whenever a request changed the store the gateway is killed, the store is
// replaced by a fresh copy of the template and a new gateway is started (the
// IAM cache lives in the process, so the IAM dir is never swapped behind a
// running gateway).
package c02

import (
	"bufio"
	"fmt"
	"math/rand"
	"os"
	"regexp"
	"sort"
	"strconv"
	"strings"
	"sync"
	"time"

	"verif/harness/internal/ev"
	"verif/harness/internal/fx"
	"verif/harness/internal/gw"
	"verif/harness/internal/reg"
	"verif/harness/internal/s3c"
	"verif/harness/internal/snap"
	"verif/harness/props/catalog"
)

func init() { reg.Register("C02", "exploration", Run) }

const jailUID = 4242

// class is a body class / payload encoding.
type class struct {
	name   string
	bc     catalog.BodyClass
	stream string // s3c stream mode ("" = plain body)
	cut    bool   // the client stops inside the body and half-closes; X-Amz-Decoded-Content-Length names the bytes really sent
	noLen  bool   // the request announces no body at all: neither Content-Length nor Transfer-Encoding
}

var (
	clsEmpty  = class{"empty", catalog.BodyEmpty, "", false, false}
	clsValid  = class{"valid", catalog.BodyValid, "", false, false}
	clsBig    = class{"big", catalog.BodyBig, "", false, false}
	clsSigned = class{"chunk-signed", catalog.BodyValid, s3c.StreamSigned, false, false}
	clsSignTr = class{"chunk-signed-trailer", catalog.BodyValid, s3c.StreamSignedTr, false, false}
	clsUnsTr  = class{"chunk-unsigned-trailer", catalog.BodyValid, s3c.StreamUnsignTr, false, false}
	clsUnsBig = class{"chunk-unsigned-trailer-big", catalog.BodyBig, s3c.StreamUnsignTr, false, false}
	// abnormal end of the request: the verdict on the signature must not depend on the body arriving completely
	clsCutDL = class{"big-cut+decoded-length", catalog.BodyBig, "", true, false}
	clsNoLen = class{"no-body-length", catalog.BodyEmpty, "", false, true}
)

type plan struct {
	cls class
	d   *defect
}

type worker struct {
	c        *ev.Ctx
	lane     string
	name     string
	cfg      gw.Config
	tmpl     string // frozen copy of the seeded store
	env      *fx.Env
	cl       *s3c.Client
	base     snap.Snap // reference of the oracle (the seed; in the history lane the state after the account change)
	seedBase snap.Snap
	restores int       // number of store restores so far
	hist     *histAcct // history lane: the account whose credentials changed
	st       *catalog.State
	canaries []string
	defs     []*defect
	broken   bool
}

func (w *worker) snapshot() (snap.Snap, error) { return snap.Take(w.env.Store.Base, nil) }

// start seeds a private store through a confined gateway at the store's final path (the sidecar
// layout embeds absolute paths, so a store must never be moved), freezes a copy of it as the
// template for later restores and takes the reference snapshot.
func (w *worker) start() error {
	st, err := gw.NewStore(fx.UniqueDir("c02-" + w.name))
	if err == nil {
		err = st.Chown(jailUID, jailUID)
	}
	if err != nil {
		return err
	}
	env, err := fx.OnStore("c02"+w.name, st, w.cfg, 1)
	if err != nil {
		os.RemoveAll(st.Base)
		return err
	}
	w.env = env
	if err := w.ensureOwnGateway(); err != nil {
		return err
	}
	if w.st, err = catalog.Seed(env); err != nil {
		return err
	}
	w.canaries = w.st.Canaries()
	env.GWs[0].Stop()
	w.tmpl = fx.UniqueDir("c02-" + w.name + "-template")
	if err := snap.CopyTree(st.Base, w.tmpl); err != nil {
		return err
	}
	if err := env.Restart(0); err != nil {
		return err
	}
	if err := w.ensureOwnGateway(); err != nil {
		return err
	}
	w.cl = env.Client(0)
	w.base, err = w.snapshot()
	w.seedBase = w.base
	return err
}

func (w *worker) close() {
	if w.env != nil {
		w.env.Close()
	}
	if w.tmpl != "" {
		os.RemoveAll(w.tmpl)
	}
}

// ownsPort reports whether process pid holds a listening TCP socket on port.
func ownsPort(pid int, addr string) bool {
	_, ps, _ := strings.Cut(addr, ":")
	port, _ := strconv.Atoi(ps)
	// LISTEN sockets are dumped first; stop at the first other state (the rest of the table is
	// tens of thousands of TIME_WAIT entries - every request of this check is a new connection)
	f, err := os.Open("/proc/net/tcp")
	if err != nil {
		return true // cannot tell: do not block the run
	}
	defer f.Close()
	inodes := map[string]bool{}
	sc := bufio.NewScanner(bufio.NewReaderSize(f, 4096))
	sc.Scan() // header
	for sc.Scan() {
		fl := strings.Fields(sc.Text())
		if len(fl) < 10 {
			continue
		}
		if fl[3] != "0A" {
			break
		}
		_, hp, _ := strings.Cut(fl[1], ":")
		if p, err := strconv.ParseInt(hp, 16, 32); err == nil && int(p) == port {
			inodes[fl[9]] = true
		}
	}
	fds, _ := os.ReadDir(fmt.Sprintf("/proc/%d/fd", pid))
	for _, fd := range fds {
		l, err := os.Readlink(fmt.Sprintf("/proc/%d/fd/%s", pid, fd.Name()))
		if err == nil && strings.HasPrefix(l, "socket:[") && inodes[strings.TrimSuffix(strings.TrimPrefix(l, "socket:["), "]")] {
			return true
		}
	}
	return false
}

// ensureOwnGateway works around a race in gw.Start: readiness is a TCP connect, so when two
// gateways of parallel workers were handed the same free port the loser exits ("address in
// use") while its worker would happily talk to the winner's gateway - on another store.
func (w *worker) ensureOwnGateway() error {
	for try := 0; try < 6; try++ {
		g := w.env.GWs[0]
		if g.Alive() && ownsPort(g.Pid(), g.Addr) {
			return nil
		}
		w.c.Add("gateway_port_collisions", 1)
		g.Kill()
		if err := w.env.Restart(0); err != nil {
			return err
		}
	}
	return fmt.Errorf("gateway never owned its port")
}

// restore replaces the working store by a fresh copy of the template and restarts the gateway.
func (w *worker) restore() error {
	w.c.Add("store_restores", 1)
	w.restores++
	w.env.GWs[0].Kill()
	if err := os.RemoveAll(w.env.Store.Base); err != nil {
		return err
	}
	if err := snap.CopyTree(w.tmpl, w.env.Store.Base); err != nil {
		return err
	}
	if err := w.env.Restart(0); err != nil {
		return err
	}
	if err := w.ensureOwnGateway(); err != nil {
		return err
	}
	w.cl = w.env.Client(0)
	s, err := w.snapshot()
	if err != nil {
		return err
	}
	if d := snap.Diff(w.seedBase, s); len(d) > 0 {
		return fmt.Errorf("restored store differs from the template: %s", d[0])
	}
	w.base = w.seedBase
	return nil
}

// diff returns the persistent difference between the seed and the store now. A
// difference is re-read after a short pause so that a temp file of a handler that
// is still unwinding is not mistaken for an effect.
func (w *worker) diff() []string {
	for try := 0; ; try++ {
		s, err := w.snapshot()
		if err != nil {
			return []string{"snapshot error: " + err.Error()}
		}
		d := snap.Diff(w.base, s)
		if len(d) == 0 || try == 2 {
			return d
		}
		time.Sleep(40 * time.Millisecond)
	}
}

func reqText(b *s3c.Built) string {
	var sb strings.Builder
	sb.WriteString(b.Target)
	for _, kv := range b.Header {
		sb.WriteString("\n" + kv[1])
	}
	body := b.Body
	if len(body) > 64<<10 {
		body = body[:64<<10]
	}
	sb.WriteString("\n")
	sb.Write(body)
	return sb.String()
}

func respText(r *s3c.Resp) string {
	var sb strings.Builder
	for k, vs := range r.Header {
		sb.WriteString(k + ": " + strings.Join(vs, ",") + "\n")
	}
	sb.Write(r.Body)
	return sb.String()
}

// disclosed returns the canaries found in the response that the request did not itself contain.
func (w *worker) disclosed(b *s3c.Built, r *s3c.Resp) []string {
	if r.Err != nil {
		return nil
	}
	rt, qt := respText(r), ""
	var out []string
	for _, cn := range w.canaries {
		if strings.Contains(rt, cn) {
			if qt == "" {
				qt = reqText(b)
			}
			if !strings.Contains(qt, cn) {
				out = append(out, cn)
			}
		}
	}
	return out
}

func describe(b *s3c.Built, r *s3c.Resp) map[string]any {
	h := map[string]string{}
	for _, kv := range b.Header {
		h[kv[0]] = kv[1]
	}
	body := b.Body
	if len(body) > 300 {
		body = body[:300]
	}
	m := map[string]any{"method": b.Method, "target": b.Target, "headers": h, "body_len": len(b.Body), "body_head": string(body)}
	if r.Err != nil {
		m["transport_error"] = r.Err.Error()
	} else {
		m["status"] = r.Status
		m["error_code"] = r.ErrCode()
		rb := r.Body
		if len(rb) > 300 {
			rb = rb[:300]
		}
		m["response_head"] = string(rb)
	}
	return m
}

// build prepares the s3c request of (entry, class); chunk sizes come from the case PRNG.
func build(e *catalog.Entry, a catalog.Args, cls class, rng *rand.Rand, now time.Time) *s3c.Req {
	rq := e.Request(a, cls.bc).Req()
	rq.Time = now
	rq.Watchdog = 60 * time.Second
	if cls.stream != "" {
		sizes := []int{1 + rng.Intn(40), 1 + rng.Intn(40)}
		if cls.bc == catalog.BodyBig {
			sizes = []int{64 << 10, 8192 + rng.Intn(60000)}
		}
		rq.Stream = &s3c.Stream{Mode: cls.stream, ChunkSizes: sizes}
		if cls.stream != s3c.StreamSigned {
			rq.Stream.TrailerName = "x-amz-checksum-" + []string{"crc32", "crc32c", "sha1", "sha256", "crc64nvme"}[rng.Intn(5)]
		}
	}
	if cls.noLen {
		rq.Body = nil
		rq.NoContentLength = true
	}
	if cls.cut && len(rq.Body) > 40000 {
		n := 9000 + rng.Intn(30000)
		rq.CloseAfter = n
		rq.Header = append(rq.Header, [2]string{"X-Amz-Decoded-Content-Length", strconv.Itoa(n)})
	}
	return rq
}

// send signs (with the defect's knobs), tampers, sends; returns the request as it went on the wire.
func (w *worker) send(rq *s3c.Req, cl *s3c.Client) (*s3c.Built, *s3c.Resp) {
	b := cl.Build(rq)
	if rq.Tamper != nil {
		rq.Tamper(b)
	}
	return b, cl.Send(b, rq)
}

// accounts whose (spoiled) credentials are used: the root account lives in the process
// environment, the admin account comes from the IAM store through the IAM cache
var accounts = []string{"root", "admin"}

func (w *worker) client(acct string) *s3c.Client {
	if acct == "hist" {
		return w.cl.With(w.hist.access, w.hist.cur)
	}
	if acct == "admin" {
		return w.cl.With(w.st.Admin.Access, w.st.Admin.Secret)
	}
	return w.cl
}

// afterCase handles a dead gateway / changed store; false = the worker cannot go on.
func (w *worker) afterCase(changed bool, what string) bool {
	dead := !w.env.GWs[0].Alive()
	if dead {
		why := fmt.Sprintf("exit: %v", w.env.GWs[0].ExitErr())
		if cr := w.env.GWs[0].ScrapeCrash(); cr != nil {
			why = cr.Message + " @ " + cr.TopFrame
		}
		w.c.Observe("gateway died on " + what + " (" + why + ")")
		w.c.Add("gateway_deaths", 1)
		if os.Getenv("C02_DEBUG") != "" {
			b, _ := os.ReadFile(w.env.GWs[0].LogPath)
			fmt.Fprintf(os.Stderr, "C02_DEBUG gateway died on %s: %s\n%.3000s\n", what, why, b)
		}
	}
	if dead || changed {
		if err := w.restore(); err != nil {
			w.c.Inconclusive("store restore failed: " + err.Error())
			w.broken = true
			return false
		}
	}
	return true
}

// control sends the correctly signed request; reports whether the entry is live for this class.
func (w *worker) control(e *catalog.Entry, a catalog.Args, cls class, acct string, rng *rand.Rand) (live bool, ok bool) {
	rq := build(e, a, cls, rng, time.Now())
	rq.Header = append(rq.Header, [2]string{"X-C02-Unsigned-Extra", "negative control: not a signed header"})
	b, resp := w.send(rq, w.client(acct))
	w.c.Add("controls", 1)
	d := w.diff()
	switch {
	case resp.Err != nil:
		w.c.Inconclusive("positive control: transport error")
	case !resp.OK():
		if os.Getenv("C02_DEBUG") != "" {
			fmt.Fprintf(os.Stderr, "C02_DEBUG control refused %s [%s] %s %.300s\n", e.Name, cls.name, resp.String(), resp.Body)
		}
		if e.Live {
			w.c.Observe(fmt.Sprintf("positive control refused: %s [%s as %s] %s", e.Name, cls.name, acct, resp.String()))
		}
	case e.Kind == catalog.W:
		live = len(d) > 0
		if !live {
			w.c.Observe(fmt.Sprintf("positive control acknowledged without effect: %s [%s]", e.Name, cls.name))
		}
	default:
		proof := e.Proof(w.st, a)
		live = proof == nil
		rt := respText(resp)
		for _, p := range proof {
			if strings.Contains(rt, p) {
				live = true
			}
		}
		if !live {
			w.c.Observe(fmt.Sprintf("positive control returned no seeded data: %s [%s]", e.Name, cls.name))
		}
		if len(d) > 0 {
			w.c.Observe("reader changed the store: " + e.Name)
		}
	}
	if live && !e.Live {
		w.c.Observe("entry expected dead on posix is live: " + e.Name)
	}
	if live {
		w.c.Sample(map[string]any{"kind": "positive control", "endpoint": e.Name, "class": cls.name, "request": describe(b, resp), "tree_changes": len(d)})
	}
	return live, w.afterCase(len(d) > 0, e.Name+":control")
}

// hostile sends one defective request and judges it.
func (w *worker) hostile(e *catalog.Entry, a catalog.Args, p plan, acct, id string, live bool, rng *rand.Rand) bool {
	now := time.Now()
	rq := build(e, a, p.cls, rng, now)
	selfFail := false
	cl := w.client(acct)
	other := w.st.Admin.Secret
	if acct == "admin" {
		other = gw.RootSK
	}
	p.d.apply(rq, &kit{cl: cl, st: w.st, e: e, rng: rng, now: now, otherSecret: other, selfCheckFailed: &selfFail})
	b, resp := w.send(rq, cl)
	w.c.Eval(1)
	w.c.Add("hostile_requests", 1)
	if selfFail {
		w.c.Inconclusive("local re-signer disagrees with s3c on a correct signature")
		return w.afterCase(len(w.diff()) > 0, id)
	}
	if !p.d.ambig {
		w.account(e, p.d.name, p.cls, acct, live)
	}
	return w.afterCase(w.judge(e, p.d.name, p.d.ambig, p.cls, acct, id, live, b, resp), id)
}

// account counts a judged case as distinct non-trivial (control live) or trivial.
func (w *worker) account(e *catalog.Entry, dname string, cls class, acct string, live bool) {
	if live {
		w.c.Distinct(w.lane + "|" + e.Name + "|" + dname + "|" + cls.name + "|" + acct)
	} else {
		w.c.Add("trivial_dead_endpoint", 1)
	}
}

// judge applies the oracle to one answered hostile request: status 4xx, store equal to the
// reference snapshot, no canary in the response. It reports whether the store changed.
func (w *worker) judge(e *catalog.Entry, dname string, ambig bool, cls class, acct, id string, live bool, b *s3c.Built, resp *s3c.Resp) (changed bool) {
	d := w.diff()
	leaked := w.disclosed(b, resp)
	var effects []string
	switch {
	case resp.Err != nil:
		w.c.Add("transport_aborts", 1)
	case resp.Status >= 200 && resp.Status < 400:
		effects = append(effects, "status-2xx")
	case resp.Status >= 500:
		effects = append(effects, "status-5xx")
	case resp.Status < 200:
		effects = append(effects, "status-1xx")
	}
	if len(d) > 0 {
		effects = append(effects, treeEffects(d)...)
	}
	if len(leaked) > 0 {
		effects = append(effects, "data-disclosed")
	}
	if ambig {
		if len(effects) > 0 {
			w.c.Observe(fmt.Sprintf("ambiguous defect %s accepted (%s) - not judged", dname, strings.Join(effects, ",")))
		}
		w.c.Add("ambiguous_not_judged", 1)
		return len(d) > 0
	}
	if len(effects) > 0 {
		det := describe(b, resp)
		det["endpoint"], det["defect"], det["class"], det["account"], det["positive_control_live"] = e.Name, dname, cls.name, acct, live
		if len(d) > 8 {
			det["tree_diff"] = append(append([]string{}, d[:8]...), fmt.Sprintf("... %d more", len(d)-8))
		} else if len(d) > 0 {
			det["tree_diff"] = d
		}
		if len(leaked) > 0 {
			det["disclosed"] = leaked
		}
		// the payload encoding is part of the defect name when it is an aws-chunked one
		// ("unsigned-trailer upload with a bad header signature" is a defect of its own)
		dn := dname
		if cls.stream != "" {
			dn += "@" + strings.TrimSuffix(cls.name, "-big")
		}
		for _, ef := range effects {
			w.c.Violation(e.Name+":"+dn+":"+ef, id, det)
		}
	} else if resp.Err == nil {
		w.c.Add("refused_4xx", 1)
	}
	return len(d) > 0
}

var reTmpName = regexp.MustCompile(`/\.sgwtmp/(multipart/[0-9a-f]{64}/)?[0-9a-f]{64}\.[0-9]+ \[`)

// treeEffect names the kind of change: a left-over upload temp file and a premature copy of
// the current version into the versioning directory are told apart from a change of stored
// objects / buckets / settings / accounts, so that each root cause keeps its own signature.
func treeEffects(d []string) []string {
	seen := map[string]bool{}
	var out []string
	for _, l := range d {
		k := "tree-changed"
		switch {
		case strings.HasPrefix(l, "+ root/") && reTmpName.MatchString(l):
			k = "tree-changed.tmpfile-left"
		case strings.HasPrefix(l, "+ versions/") || strings.HasPrefix(l, "+ sidecar/") && strings.Contains(l, "/versions/"):
			k = "tree-changed.version-copy"
		}
		if !seen[k] {
			seen[k] = true
			out = append(out, k)
		}
	}
	sort.Strings(out)
	return out
}

// plans lists the (class, defect) pairs of an endpoint for this tier and seed.
func plans(c *ev.Ctx, e *catalog.Entry, a catalog.Args, defs []*defect, rng *rand.Rand) (controls []class, out []plan) {
	var classes []class
	body := hasBodyMethod(e.Method)
	if c.Thorough() {
		classes = []class{clsValid}
		if body {
			classes = []class{clsEmpty, clsValid, clsBig}
		}
		if e.Method == "DELETE" {
			classes = []class{clsEmpty}
		}
	} else {
		classes = []class{clsValid}
	}
	var streams []class
	if e.Streamable {
		streams = []class{clsSigned, clsSignTr, clsUnsTr}
		streams = append(streams, clsCutDL, clsNoLen)
		if c.Thorough() {
			// no signed 1 MiB stream: the signed chunk reader of the pinned tree fails (500) on some
			// socket fragmentations of a correct stream - that is C12's subject and would make the
			// status of a hostile request depend on the scheduler
			streams = append(streams, clsUnsBig)
		}
	}
	controls = []class{clsValid}
	for _, cl := range streams {
		if !cl.cut && !cl.noLen {
			controls = append(controls, cl)
		}
	}
	probe := e.Request(a, catalog.BodyEmpty).Req()
	usable := func(d *defect, cl class) bool { return d.applies(e, cl, probe) }
	if c.Thorough() {
		for _, cl := range append(append([]class{}, classes...), streams...) {
			for _, d := range defs {
				if usable(d, cl) {
					out = append(out, plan{cl, d})
				}
			}
		}
		return
	}
	// quick: the fixed discriminating selection, six seed-chosen extra defects, two defects with a 1 MiB body
	var rest []*defect
	for _, d := range defs {
		if !usable(d, clsValid) {
			continue
		}
		if d.quick {
			out = append(out, plan{clsValid, d})
		} else {
			rest = append(rest, d)
		}
	}
	for i := 0; i < 6 && len(rest) > 0; i++ {
		j := rng.Intn(len(rest))
		out = append(out, plan{clsValid, rest[j]})
		rest = append(rest[:j], rest[j+1:]...)
	}
	if body {
		for _, n := range []string{"wrong-secret", "sig-nibble"} {
			for _, d := range defs {
				if d.name == n {
					out = append(out, plan{clsBig, d})
				}
			}
		}
	}
	for _, cl := range streams {
		for _, d := range defs {
			if d.quick && d.kind != kPresign && d.name != "payload-altered" && d.name != "no-auth" && d.name != "date-minus" && usable(d, cl) {
				out = append(out, plan{cl, d})
			}
		}
	}
	return
}

func (w *worker) endpoint(e *catalog.Entry) {
	if w.broken || !w.c.Want(w.lane+"/"+e.Name) {
		return
	}
	a := e.Bind(w.st)
	rng := w.c.Rng("c02/" + w.lane + "/" + e.Name)
	ctl, pl := plans(w.c, e, a, w.defs, rng)
	liveBy := map[string]bool{}
	for _, cl := range ctl {
		lv := true
		for _, acct := range accounts {
			l, ok := w.control(e, a, cl, acct, rng)
			if !ok {
				return
			}
			liveBy[cl.name+"|"+acct] = l
			lv = lv && l
		}
		if cl.stream == "" {
			if lv {
				w.c.Add("endpoints_live", 1)
			} else if e.Live {
				w.c.Add("endpoints_dead_unexpected", 1)
			} else {
				w.c.Add("endpoints_dead_expected", 1)
			}
		}
	}
	liveFor := func(cl class, acct string) bool {
		switch {
		case cl.name == clsUnsBig.name:
			return liveBy[clsUnsTr.name+"|"+acct]
		case cl.cut, cl.noLen:
			return liveBy[clsValid.name+"|"+acct]
		case cl.stream != "":
			return liveBy[cl.name+"|"+acct]
		}
		return liveBy[clsValid.name+"|"+acct]
	}
	for _, p := range pl {
		// the PRNG is advanced identically whether or not a case is wanted
		pick := rng.Intn(len(accounts))
		for i, acct := range accounts {
			crng := rand.New(rand.NewSource(rng.Int63()))
			if !w.c.Thorough() && i != pick {
				continue // quick: one seed-chosen account per case, thorough: both
			}
			id := w.lane + "/" + e.Name + "/" + p.d.name + "/" + p.cls.name + "/" + acct
			if !w.c.Want(id) {
				continue
			}
			if !w.hostile(e, a, p, acct, id, liveFor(p.cls, acct), crng) {
				return
			}
		}
	}
}

// lane runs the whole catalogue against one gateway configuration with n workers.
func lane(c *ev.Ctx, name string, cfg gw.Config, n int, only func(e *catalog.Entry) bool) {
	cfg.UID, cfg.MemLimitMB = jailUID, 4096
	var entries []*catalog.Entry
	for _, e := range catalog.All() {
		if only == nil || only(e) {
			entries = append(entries, e)
		}
	}
	c.Set("endpoints_total", len(catalog.All()))
	defs := defects()
	c.Set("defects_total", len(defs))
	var wg sync.WaitGroup
	for i := 0; i < n; i++ {
		w := &worker{c: c, lane: name, name: fmt.Sprintf("%s%d", name, i), cfg: cfg, defs: defs}
		var mine []*catalog.Entry
		for j, e := range entries {
			if j%n == i && c.Want(name+"/"+e.Name) {
				mine = append(mine, e)
			}
		}
		if len(mine) == 0 {
			continue
		}
		wg.Add(1)
		go func() {
			defer wg.Done()
			defer w.close()
			if err := w.start(); err != nil {
				c.Inconclusive("worker start: " + err.Error())
				return
			}
			for _, e := range mine {
				w.endpoint(e)
			}
		}()
	}
	wg.Wait()
}

func Run(c *ev.Ctx) int {
	c.Assume("HTTP/1.1 over loopback; posix backend with versioning dir; gateway runs as uid 4242 with RLIMIT_AS 4 GiB on a store owned by that uid")
	c.Assume(fmt.Sprintf("date defects are %v away from now, expired presigned URLs are 2 h old with Expires=60, or expired 9 / 3 minutes ago (minutes beyond any clock difference on one machine); a presigned URL dated in the future is generated but not judged", skew))
	c.Assume("bodies <= 1 MiB; every case starts from a store byte-identical to the seeded one (restored by copy + gateway restart after any change)")
	c.Assume("a response that echoes strings the request itself contained is not a disclosure")
	lane(c, "x", gw.Config{Versioning: true}, 14, nil)
	// second storage configuration (sidecar metadata, named temp files): whole catalogue in the
	// thorough tier, the upload endpoints (deferred verification) in the quick tier
	var only func(e *catalog.Entry) bool
	if !c.Thorough() {
		only = func(e *catalog.Entry) bool { return e.Streamable || e.NoDrain }
	}
	lane(c, "s", gw.Config{Versioning: true, Sidecar: true, NoOTmp: true}, 14, only)
	// credentials that WERE valid: rotated / deleted / re-created accounts (history.go)
	historyLane(c, "h", gw.Config{Versioning: true})
	regionLane(c)
	gatedCredentialLane(c)
	var names []string
	for _, d := range defects() {
		names = append(names, d.name)
	}
	sort.Strings(names)
	c.Set("defect_names", strings.Join(names, " "))
	return c.Finish("endpoint catalogue (props/catalog, every route x sub-resource x path shape) x credential defect x body class/encoding; "+
		"oracle: status 4xx, store snapshot (root+versions+sidecar+iam) unchanged, no seed canary in the response; a case is distinct by "+
		"(storage config, endpoint, defect, body class, signing account root|IAM admin) and counts only if the correctly signed control of the endpoint had its effect", c.Pick(800, 20000))
}
