//go:build !solo || solo_c13

package props

import _ "verif/harness/props/c13"
