// Package selftest validates the harness's own protocol encoders against a live gateway.
package selftest

import (
	"bytes"
	"fmt"
	"path/filepath"

	"verif/harness/internal/ev"
	"verif/harness/internal/gw"
	"verif/harness/internal/reg"
	"verif/harness/internal/s3c"
)

func init() { reg.Register("SELFTEST", "other", Run) }

func Run(c *ev.Ctx) int {
	st, err := gw.NewStore(filepath.Join(gw.Scratch(), "selftest"))
	if err != nil {
		fmt.Println(err)
		return 2
	}
	g, err := gw.Start(gw.Config{Name: "st", Store: st, Versioning: true})
	if err != nil {
		fmt.Println(err)
		return 2
	}
	defer g.Stop()
	cl := s3c.New(g.Addr, gw.RootAK, gw.RootSK)
	cl.Log = g
	fail := 0
	chk := func(what string, r *s3c.Resp, want int) {
		if r.Status != want {
			fmt.Printf("FAIL %s: %s %s\n", what, r, r.Body)
			fail++
		} else {
			fmt.Printf("ok   %s: %s\n", what, r)
		}
	}
	chk("create bucket", cl.CreateBucket("bkt"), 200)
	body := bytes.Repeat([]byte("0123456789abcdef"), 5000)
	chk("put signed", cl.PutObject("bkt", "a b+c/é%41", body, "X-Amz-Meta-Foo", "bar"), 200)
	r := cl.GetObject("bkt", "a b+c/é%41")
	chk("get", r, 200)
	if !bytes.Equal(r.Body, body) {
		fmt.Println("FAIL body differs")
		fail++
	}
	chk("put unsigned", cl.Do(&s3c.Req{Method: "PUT", Path: s3c.ObjPath("bkt", "u"), Body: body, PayloadHash: s3c.Unsigned}), 200)
	chk("presigned put", cl.Do(&s3c.Req{Method: "PUT", Path: s3c.ObjPath("bkt", "p"), Body: body, Presign: true}), 200)
	chk("presigned get", cl.Do(&s3c.Req{Method: "GET", Path: s3c.ObjPath("bkt", "p"), Presign: true}), 200)
	for _, mode := range []string{s3c.StreamSigned, s3c.StreamSignedTr, s3c.StreamUnsignTr} {
		for _, algo := range s3c.Algos {
			s := &s3c.Stream{Mode: mode, ChunkSizes: []int{8192, 1, 70000}}
			if mode != s3c.StreamSigned {
				s.TrailerName = "x-amz-checksum-" + algo
			}
			k := "chunk-" + mode + "-" + algo
			chk("put "+k, cl.Do(&s3c.Req{Method: "PUT", Path: s3c.ObjPath("bkt", k), Body: body, Stream: s}), 200)
			r := cl.GetObject("bkt", k, "x-amz-checksum-mode", "ENABLED")
			if !bytes.Equal(r.Body, body) {
				fmt.Printf("FAIL %s body differs (%d vs %d)\n", k, len(r.Body), len(body))
				fail++
			}
			if mode != s3c.StreamSigned && algo == "crc64nvme" {
				if got := r.Header.Get("x-amz-checksum-" + algo); got != s3c.Checksum(algo, body) {
					fmt.Printf("FAIL %s checksum header %q want %q\n", k, got, s3c.Checksum(algo, body))
					fail++
				}
			}
		}
	}
	chk("bad sig", cl.Do(&s3c.Req{Method: "GET", Path: s3c.ObjPath("bkt", "u"), SK: "wrong"}), 403)
	chk("admin create user", cl.Admin("/create-user", "", []byte(`<Account><Access>usr1</Access><Secret>secret1</Secret><Role>user</Role><UserID>0</UserID><GroupID>0</GroupID></Account>`)), 201)
	chk("user list buckets", cl.With("usr1", "secret1").ListBuckets(), 200)
	chk("list v2", cl.ListV2("bkt"), 200)
	if fail > 0 {
		return 1
	}
	fmt.Println("selftest ok")
	return 0
}
