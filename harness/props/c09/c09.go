// Package c09: version history is preserved exactly in versioned buckets.
//
// Model-based programs: every program owns a fresh bucket on a gateway started
// with a versioning directory, optionally writes objects before versioning is
// enabled (they become the "null" version), enables versioning and then runs
// 10..50 random steps (put / copy / multipart complete / delete without id /
// delete by version id / paged ListObjectVersions / suspend / re-enable) on
// 1..3 keys. The harness keeps a reference version stack per key and a ledger of
// every version id the gateway ever returned. After every mutating step it
// re-reads the current view of every key, every ledger entry by id (GET and
// HEAD ?versionId) and the complete version listing and compares them with the
// reference. The reference is written from the property statement (plus the AWS
// rules for the null version in a suspended bucket), not from the code.
package c09

import (
	"bytes"
	"encoding/base64"
	"encoding/binary"
	"encoding/xml"
	"fmt"
	"hash/crc32"
	"io"
	"math/rand"
	"sort"
	"strconv"
	"strings"
	"sync"
	"time"

	"verif/harness/internal/ev"
	"verif/harness/internal/fx"
	"verif/harness/internal/gw"
	"verif/harness/internal/reg"
	"verif/harness/internal/s3c"
	"verif/harness/internal/wid"
)

func init() { reg.Register("C09", "exploration", Run) }

type cfg struct {
	name    string
	sidecar bool
	ngw     int
}

var (
	cfgX1 = cfg{"xattr-1gw", false, 1}
	cfgX2 = cfg{"xattr-2gw", false, 2}
	cfgS1 = cfg{"sidecar-1gw", true, 1}
	cfgS2 = cfg{"sidecar-2gw", true, 2}
)

const nullID = "null"

// entry is one element of the reference version stack.
type entry struct {
	Vid    string
	Marker bool
	Wid    int
}

func (e entry) String() string {
	if e.Marker {
		return e.Vid + "(marker)"
	}
	return fmt.Sprintf("%s(w%d)", e.Vid, e.Wid)
}

type kmodel struct {
	name  string
	stack []entry // oldest first, current version last
	// emptiedMarker: the stack is empty because its last entry, a delete marker, was deleted by id
	emptiedMarker bool
}

func (k *kmodel) top() *entry {
	if len(k.stack) == 0 {
		return nil
	}
	return &k.stack[len(k.stack)-1]
}

func (k *kmodel) find(vid string) int {
	for i := range k.stack {
		if k.stack[i].Vid == vid {
			return i
		}
	}
	return -1
}

func (k *kmodel) remove(i int) {
	k.stack = append(k.stack[:i:i], k.stack[i+1:]...)
}

func (k *kmodel) hasMarker() bool {
	for _, e := range k.stack {
		if e.Marker {
			return true
		}
	}
	return false
}

// litem is a ledger entry: a version id the gateway acknowledged at some time.
type litem struct {
	key    *kmodel
	vid    string
	marker bool
	wid    int
}

type prog struct {
	c    *ev.Ctx
	id   string
	cf   cfg
	r    *rand.Rand
	env  *fx.Env
	cls  []*s3c.Client
	rr   int
	ws   *wid.Set
	b    string
	sb   string
	keys []*kmodel

	state         string // "", "Enabled", "Suspended"
	everVersioned bool
	everSusp      bool
	issued        map[string]bool
	ledger        []*litem
	lidx          map[string]*litem
	nsrc          int

	trace    []string
	stop     bool
	dead     bool
	last     string // kind of the last mutating step
	lastCtx  string // context class of the affected key before that step
	feats    map[string]bool
	reported map[string]bool
	nsteps   int
}

func (p *prog) tr(format string, a ...any) {
	p.trace = append(p.trace, fmt.Sprintf("%d: ", p.nsteps)+fmt.Sprintf(format, a...))
}

// mcl picks the gateway for a mutating request, rcl for verification reads.
func (p *prog) mcl() (*s3c.Client, int) {
	i := p.r.Intn(len(p.cls))
	return p.cls[i], i
}

func (p *prog) rcl() *s3c.Client {
	p.rr++
	return p.cls[p.rr%len(p.cls)]
}

func (p *prog) modelDump() map[string]string {
	m := map[string]string{"(bucket versioning)": p.state}
	for _, k := range p.keys {
		var s []string
		for i := len(k.stack) - 1; i >= 0; i-- {
			s = append(s, k.stack[i].String())
		}
		m[k.name] = "newest first: " + strings.Join(s, " ")
	}
	return m
}

func (p *prog) viol(sig string, fatal bool, why string, extra map[string]any) {
	if fatal {
		p.stop = true
	}
	if p.reported[sig] {
		return
	}
	p.reported[sig] = true
	d := map[string]any{"config": p.cf.name, "why": why, "reference_model": p.modelDump()}
	t := p.trace
	if len(t) > 70 {
		t = t[len(t)-70:]
	}
	d["steps"] = append([]string{}, t...)
	for k, v := range extra {
		d[k] = v
	}
	p.c.Violation(sig, p.id, d)
}

func (p *prog) transport(kind string, r *s3c.Resp) {
	p.stop = true
	if _, cr := p.env.Dead(); cr != nil {
		p.dead = true
		p.viol(kind+":gateway-died", true, "gateway process died: "+cr.Message+" "+cr.TopFrame, nil)
		return
	}
	p.c.Inconclusive("transport error")
}

// ctx is the context class of a key: which special situations are present.
func (p *prog) ctx(k *kmodel, extra ...string) string {
	var f []string
	if k != nil {
		t := k.top()
		switch {
		case t != nil && t.Vid == nullID:
			f = append(f, "nulltop")
		case k.find(nullID) >= 0:
			f = append(f, "null")
		}
		switch {
		case t != nil && t.Marker:
			f = append(f, "markertop")
		case k.hasMarker():
			f = append(f, "marker")
		case t == nil && k.emptiedMarker:
			f = append(f, "emptied-marker")
		}
	}
	f = append(f, extra...)
	if p.state == "Suspended" {
		f = append(f, "susp")
	}
	if p.cf.sidecar {
		f = append(f, "sidecar")
	}
	if len(f) == 0 {
		return "[plain]"
	}
	return "[" + strings.Join(f, "+") + "]"
}

func (p *prog) bucketCtx() string {
	null, marker := false, false
	for _, k := range p.keys {
		if k.find(nullID) >= 0 {
			null = true
		}
		if k.hasMarker() {
			marker = true
		}
	}
	var f []string
	if null {
		f = append(f, "null")
	}
	if marker {
		f = append(f, "marker")
	}
	if p.state == "Suspended" {
		f = append(f, "susp")
	}
	if p.cf.sidecar {
		f = append(f, "sidecar")
	}
	if len(f) == 0 {
		return "[plain]"
	}
	return "[" + strings.Join(f, "+") + "]"
}

func (p *prog) record(k *kmodel, e entry) {
	key := k.name + "\x00" + e.Vid
	if it := p.lidx[key]; it != nil {
		it.marker, it.wid = e.Marker, e.Wid
		return
	}
	it := &litem{key: k, vid: e.Vid, marker: e.Marker, wid: e.Wid}
	p.lidx[key] = it
	p.ledger = append(p.ledger, it)
}

func (p *prog) push(k *kmodel, e entry) {
	k.emptiedMarker = false
	k.stack = append(k.stack, e)
	p.record(k, e)
}

func (p *prog) distinct(step, class string, k *kmodel) {
	p.c.Distinct(fmt.Sprintf("%s|%s|%s|%s|%s", p.cf.name, p.state, step, class, strings.Trim(p.ctx(k), "[]")))
}

// ---------------------------------------------------------------------------------------------
// mutating steps

func (p *prog) newWrite() *wid.Write {
	if p.r.Intn(10) == 0 {
		return p.ws.MkSize(20000 + p.r.Intn(45000))
	}
	return p.ws.Mk(false)
}

// ackWrite applies an acknowledged put / copy / multipart-complete to the reference.
func (p *prog) ackWrite(k *kmodel, kind string, r *s3c.Resp, widID int, pre string) {
	if r.Err != nil {
		p.transport(kind, r)
		return
	}
	p.c.Eval(1)
	if r.Status >= 500 {
		p.c.Observe(kind + ": 5xx answer to a legal request (" + r.ErrCode() + ")")
		return
	}
	if !r.OK() {
		p.c.Observe(kind + " refused: " + r.String())
		return
	}
	vid := r.Header.Get("X-Amz-Version-Id")
	switch p.state {
	case "Enabled":
		if vid == "" || vid == nullID {
			p.viol(kind+":no-fresh-version-id"+pre, true, fmt.Sprintf("write acknowledged in an Enabled bucket with x-amz-version-id %q", vid), nil)
			return
		}
		if p.issued[vid] {
			p.viol(kind+":version-id-reused"+pre, true, "version id "+vid+" was already issued in this bucket", nil)
			return
		}
		p.issued[vid] = true
		p.push(k, entry{Vid: vid, Wid: widID})
	case "Suspended":
		if vid != "" && vid != nullID {
			p.viol(kind+":suspended-write-got-version-id"+pre, true, "write in a Suspended bucket answered x-amz-version-id "+vid, nil)
			return
		}
		if i := k.find(nullID); i >= 0 {
			k.remove(i)
		}
		p.push(k, entry{Vid: nullID, Wid: widID})
	default:
		if vid != "" && vid != nullID {
			p.c.Observe("write in a never-versioned bucket answered a version id")
		}
		k.stack = nil
		p.push(k, entry{Vid: nullID, Wid: widID})
	}
}

func (p *prog) begin(kind string, k *kmodel) string {
	p.last = kind
	p.lastCtx = p.ctx(k)
	if len(p.cls) > 1 {
		// version ids order by millisecond timestamps across processes: keep successive writes apart
		time.Sleep(2 * time.Millisecond)
	}
	return p.lastCtx
}

func prevClass(k *kmodel) string {
	t := k.top()
	switch {
	case t == nil:
		return "onto-nothing"
	case t.Marker:
		return "onto-marker"
	}
	return "onto-object"
}

func (p *prog) stepPut(k *kmodel) {
	pre := p.begin("put", k)
	p.distinct("put", prevClass(k), k)
	w := p.newWrite()
	cl, gi := p.mcl()
	r := cl.PutObject(p.b, k.name, w.Body, w.Hdr()...)
	p.tr("PUT %s (write %d, %d bytes) via gw%d -> %s version-id=%q", k.name, w.ID, len(w.Body), gi, r, r.Header.Get("X-Amz-Version-Id"))
	p.ackWrite(k, "put", r, w.ID, pre)
}

// stepRefusedWrite sends an upload that is refused for a reason the gateway finds only while it handles the request
// (a malformed tag set, a legal hold the bucket cannot give, a wrong Content-MD5). Nothing is recorded in the model.
func (p *prog) stepRefusedWrite(k *kmodel) {
	p.begin("refused-write", k)
	w := p.newWrite()
	cl, gi := p.mcl()
	var hdr []string
	kind := []string{"malformed-tagging", "legal-hold-without-lock", "wrong-content-md5", "complete-with-wrong-checksum"}[p.r.Intn(4)]
	switch kind {
	case "complete-with-wrong-checksum":
		// a multipart upload with a full-object CRC32 whose completion declares another checksum: the refusal comes
		// after the parts have been assembled
		sum := func(b []byte) string {
			var x [4]byte
			binary.BigEndian.PutUint32(x[:], crc32.ChecksumIEEE(b))
			return base64.StdEncoding.EncodeToString(x[:])
		}
		id, r := cl.CreateMPU(p.b, k.name, append(w.Hdr(), "X-Amz-Checksum-Algorithm", "CRC32", "X-Amz-Checksum-Type", "FULL_OBJECT")...)
		if !r.OK() {
			if r.Err != nil {
				p.transport("refused-write", r)
			} else {
				p.c.Observe("create multipart upload with checksum settings refused: " + r.String())
			}
			return
		}
		r1 := cl.UploadPart(p.b, k.name, id, 1, w.Body, "X-Amz-Checksum-Crc32", sum(w.Body))
		if !r1.OK() {
			if r1.Err != nil {
				p.transport("refused-write", r1)
			} else {
				p.c.Observe("upload part with checksum refused: " + r1.String())
			}
			return
		}
		p.ws.AliasETag(s3c.MultipartETag([][]byte{w.Body}), w)
		cx := fmt.Sprintf(`<CompleteMultipartUpload xmlns="http://s3.amazonaws.com/doc/2006-03-01/"><Part><PartNumber>1</PartNumber><ETag>%s</ETag><ChecksumCRC32>%s</ChecksumCRC32></Part></CompleteMultipartUpload>`, strings.Trim(r1.Header.Get("Etag"), `"`), sum(w.Body))
		rc := cl.Do(&s3c.Req{Method: "POST", Path: s3c.ObjPath(p.b, k.name), Query: s3c.Q("uploadId", id), Body: []byte(cx),
			Header: s3c.H{{"X-Amz-Checksum-Crc32", sum([]byte("other bytes"))}, {"X-Amz-Checksum-Type", "FULL_OBJECT"}}})
		p.tr("MPU %s (%s, write %d) via gw%d -> %s", k.name, kind, w.ID, gi, rc)
		if rc.Err != nil {
			p.transport("refused-write", rc)
			return
		}
		p.c.Eval(1)
		if rc.OK() && !bytes.Contains(rc.Body, []byte("<Error>")) {
			p.ackWrite(k, "mpu", rc, w.ID, p.lastCtx)
			return
		}
		cl.AbortMPU(p.b, k.name, id)
		p.distinct("refused-write", kind, k)
		return
	case "malformed-tagging":
		hdr = append(w.Hdr(), "X-Amz-Tagging", "project=a=b")
	case "legal-hold-without-lock":
		hdr = append(w.Hdr(), "X-Amz-Object-Lock-Legal-Hold", "ON")
	default:
		hdr = append(w.Hdr(), "Content-MD5", s3c.MD5B64([]byte("other bytes")))
	}
	r := cl.PutObject(p.b, k.name, w.Body, hdr...)
	p.tr("PUT %s (%s, write %d) via gw%d -> %s", k.name, kind, w.ID, gi, r)
	if r.Err != nil {
		p.transport("refused-write", r)
		return
	}
	p.c.Eval(1)
	if r.OK() {
		// accepted after all (e.g. a bucket with object lock): an ordinary write
		p.ackWrite(k, "put", r, w.ID, p.lastCtx)
		return
	}
	p.distinct("refused-write", kind, k)
}

func (p *prog) stepCopy(k *kmodel) {
	pre := p.begin("copy", k)
	cl, gi := p.mcl()
	// source: a fresh write in the (unversioned) source bucket, or an existing version of a key of this bucket
	type cand struct {
		k *kmodel
		e entry
	}
	var cands []cand
	if p.state == "Enabled" {
		for _, o := range p.keys {
			for i, e := range o.stack {
				if !e.Marker && !(o == k && i == len(o.stack)-1) {
					cands = append(cands, cand{o, e})
				}
			}
		}
	}
	// a source key whose newest entry is a delete marker reads as missing - also to a copy
	var gone []*kmodel
	for _, o := range p.keys {
		if t := o.top(); o != k && t != nil && t.Marker && len(o.stack) > 1 {
			gone = append(gone, o)
		}
	}
	if len(gone) > 0 && p.r.Intn(3) == 0 {
		o := gone[p.r.Intn(len(gone))]
		r := cl.CopyObject(p.b, o.name, p.b, k.name)
		p.tr("COPY %s (newest entry is a delete marker) -> %s via gw%d -> %s", o.name, k.name, gi, r)
		if r.Err != nil {
			p.transport("copy", r)
			return
		}
		p.c.Eval(1)
		if r.OK() && !bytes.Contains(r.Body, []byte("<Error>")) {
			p.viol("copy:source-read-through-its-delete-marker", true, fmt.Sprintf("CopyObject from %s, whose newest entry is a delete marker (the key reads as missing), answered %s and wrote %s", o.name, r, k.name), nil)
			return
		}
		p.distinct("copy-from-deleted-key", statusClass(r), k)
		return
	}
	if len(cands) > 0 && p.r.Intn(4) == 0 {
		s := cands[p.r.Intn(len(cands))]
		p.distinct("copy-from-version", prevClass(k), k)
		src := s3c.URIEncode(p.b+"/"+s.k.name, false) + "?versionId=" + s.e.Vid
		r := cl.Do(&s3c.Req{Method: "PUT", Path: s3c.ObjPath(p.b, k.name), Header: s3c.H{{"X-Amz-Copy-Source", src}}})
		p.tr("COPY %s?versionId=%s (write %d) -> %s via gw%d -> %s version-id=%q", s.k.name, s.e.Vid, s.e.Wid, k.name, gi, r, r.Header.Get("X-Amz-Version-Id"))
		p.ackWrite(k, "copy", r, s.e.Wid, pre)
		return
	}
	p.distinct("copy", prevClass(k), k)
	w := p.newWrite()
	p.nsrc++
	sk := fmt.Sprintf("src%d", p.nsrc)
	if r := cl.PutObject(p.sb, sk, w.Body, w.Hdr()...); !r.OK() {
		if r.Err != nil {
			p.transport("copy", r)
		} else {
			p.c.Observe("copy source put refused: " + r.String())
		}
		return
	}
	r := cl.CopyObject(p.sb, sk, p.b, k.name)
	p.tr("COPY %s/%s (write %d) -> %s via gw%d -> %s version-id=%q", p.sb, sk, w.ID, k.name, gi, r, r.Header.Get("X-Amz-Version-Id"))
	p.ackWrite(k, "copy", r, w.ID, pre)
}

func (p *prog) stepMPU(k *kmodel) {
	pre := p.begin("mpu", k)
	p.distinct("mpu", prevClass(k), k)
	w := p.newWrite()
	cl, gi := p.mcl()
	id, r := cl.CreateMPU(p.b, k.name, w.Hdr()...)
	if !r.OK() {
		if r.Err != nil {
			p.transport("mpu", r)
		} else {
			p.c.Observe("create multipart upload refused: " + r.String())
		}
		return
	}
	r1 := cl.UploadPart(p.b, k.name, id, 1, w.Body)
	if !r1.OK() {
		if r1.Err != nil {
			p.transport("mpu", r1)
		} else {
			p.c.Observe("upload part refused: " + r1.String())
		}
		return
	}
	p.ws.AliasETag(s3c.MultipartETag([][]byte{w.Body}), w)
	cl2, gi2 := p.mcl()
	rc := cl2.CompleteMPU(p.b, k.name, id, []s3c.Part{{N: 1, ETag: strings.Trim(r1.Header.Get("Etag"), `"`)}})
	p.tr("MPU %s (write %d) parts via gw%d, complete via gw%d -> %s version-id=%q", k.name, w.ID, gi, gi2, rc, rc.Header.Get("X-Amz-Version-Id"))
	if rc.OK() && bytes.Contains(rc.Body, []byte("<Error>")) {
		p.c.Observe("complete multipart upload answered 200 with an error body")
		return
	}
	p.ackWrite(k, "mpu", rc, w.ID, pre)
}

// stepBatchDeleteMarkers: ONE DeleteObjects request that names the key n times without a version id. Every entry is
// a delete without id, so every entry adds a delete marker; they are written within the same millisecond, one after
// the other, and the response reports their ids in request order - the order in which they became current.
func (p *prog) stepBatchDeleteMarkers(k *kmodel, n int) {
	pre := p.begin("batch-delete-markers", k)
	p.distinct("batch-delete-markers", prevClass(k), k)
	var sb strings.Builder
	sb.WriteString(`<Delete xmlns="http://s3.amazonaws.com/doc/2006-03-01/">`)
	for i := 0; i < n; i++ {
		sb.WriteString("<Object><Key>" + s3c.XMLEsc(k.name) + "</Key></Object>")
	}
	sb.WriteString("</Delete>")
	body := []byte(sb.String())
	cl, gi := p.mcl()
	r := cl.Do(&s3c.Req{Method: "POST", Path: s3c.BucketPath(p.b), Query: "delete=", Body: body, Header: s3c.H{{"Content-MD5", s3c.MD5B64(body)}}})
	p.tr("POST ?delete naming %s %d times via gw%d -> %s", k.name, n, gi, r)
	if r.Err != nil {
		p.transport("batch-delete-markers", r)
		return
	}
	p.c.Eval(1)
	if !r.OK() {
		p.c.Observe("batch delete naming one key several times refused: " + r.String())
		return
	}
	var res struct {
		Deleted []struct {
			Key                   string
			DeleteMarker          bool
			DeleteMarkerVersionId string
		}
		Error []struct{ Key, Code string }
	}
	if err := xml.Unmarshal(r.Body, &res); err != nil || len(res.Error) > 0 {
		p.c.Observe("batch delete naming one key several times: unparsable result or per-entry errors")
		p.stop = true
		return
	}
	if len(k.stack) == 0 && len(res.Deleted) > 0 && !res.Deleted[0].DeleteMarker {
		p.c.Observe("batch delete of a key that has no versions is acknowledged without creating delete markers")
		return
	}
	for _, d := range res.Deleted {
		vid := d.DeleteMarkerVersionId
		if !d.DeleteMarker || vid == "" || vid == nullID {
			p.viol("batch-delete-markers:entry-acknowledged-without-a-fresh-delete-marker"+pre, true, fmt.Sprintf("entry answered DeleteMarker=%v DeleteMarkerVersionId=%q", d.DeleteMarker, vid), nil)
			return
		}
		if p.issued[vid] {
			p.viol("batch-delete-markers:version-id-reused"+pre, true, "version id "+vid+" was already issued in this bucket", nil)
			return
		}
		p.issued[vid] = true
		p.push(k, entry{Vid: vid, Marker: true})
	}
	if len(res.Deleted) != n {
		p.c.Observe(fmt.Sprintf("batch delete naming one key %d times reported %d deletions", n, len(res.Deleted)))
	}
}

func (p *prog) stepDeleteMarker(k *kmodel) {
	pre := p.begin("delete-marker", k)
	p.distinct("delete-marker", prevClass(k), k)
	cl, gi := p.mcl()
	r := cl.DeleteObject(p.b, k.name)
	dm := r.Header.Get("X-Amz-Delete-Marker") == "true"
	vid := r.Header.Get("X-Amz-Version-Id")
	p.tr("DELETE %s via gw%d -> %s delete-marker=%v version-id=%q", k.name, gi, r, dm, vid)
	if r.Err != nil {
		p.transport("delete-marker", r)
		return
	}
	p.c.Eval(1)
	if r.Status >= 500 {
		p.c.Observe("delete-marker: 5xx answer to a legal request (" + r.ErrCode() + ")")
		return
	}
	if !r.OK() {
		p.c.Observe("delete without id refused: " + r.String())
		return
	}
	if p.state == "" {
		k.stack = nil
		return
	}
	if !dm {
		if len(k.stack) == 0 {
			p.c.Observe("delete without id of a key that has no versions is acknowledged without creating a delete marker")
			return
		}
		p.viol("delete-marker:no-marker-acknowledged"+pre, true, "delete without id on a key with versions was acknowledged without x-amz-delete-marker", nil)
		return
	}
	if p.state == "Enabled" {
		if vid == "" || vid == nullID {
			p.viol("delete-marker:no-fresh-version-id"+pre, true, fmt.Sprintf("delete marker acknowledged with x-amz-version-id %q", vid), nil)
			return
		}
		if p.issued[vid] {
			p.viol("delete-marker:version-id-reused"+pre, true, "version id "+vid+" was already issued in this bucket", nil)
			return
		}
		p.issued[vid] = true
		p.push(k, entry{Vid: vid, Marker: true})
		return
	}
	// Suspended: the null version (if any) is replaced by a null delete marker
	if vid != "" && vid != nullID {
		p.viol("delete-marker:suspended-delete-got-version-id"+pre, true, "delete in a Suspended bucket answered x-amz-version-id "+vid, nil)
		return
	}
	if i := k.find(nullID); i >= 0 {
		k.remove(i)
	}
	p.push(k, entry{Vid: nullID, Marker: true})
}

// stepDeleteVersion deletes one version of k by id. which: index into the stack, or -1 for an id that is gone.
func (p *prog) stepDeleteVersion(k *kmodel, which int, goneVid string) {
	var vid, kind, class string
	var extra []string
	if which < 0 {
		vid, kind, class = goneVid, "delete-version-gone", "gone"
	} else {
		e := k.stack[which]
		vid = e.Vid
		tk := "object"
		if e.Marker {
			tk = "marker"
		}
		if e.Vid == nullID {
			tk = "null-" + tk
		}
		if which == len(k.stack)-1 {
			kind = "delete-version-current"
			prev := "prev-none"
			if which > 0 {
				pe := k.stack[which-1]
				prev = "prev-object"
				if pe.Marker {
					prev = "prev-marker"
				}
				if pe.Vid == nullID {
					prev = "prev-null-" + strings.TrimPrefix(prev, "prev-")
				}
			}
			class = tk + "," + prev
			p.feats["delete-version-current"] = true
		} else {
			kind = "delete-version-noncurrent"
			class = tk
			extra = append(extra, "tgt-"+tk)
		}
		if e.Marker {
			p.feats["marker-removal"] = true
		}
	}
	p.last = kind
	p.lastCtx = p.ctx(k, extra...)
	if len(p.cls) > 1 {
		time.Sleep(2 * time.Millisecond)
	}
	p.distinct(kind, class, k)
	cl, gi := p.mcl()
	r := cl.DeleteObjectV(p.b, k.name, vid)
	p.tr("DELETE %s?versionId=%s (%s: %s) via gw%d -> %s delete-marker=%q", k.name, vid, kind, class, gi, r, r.Header.Get("X-Amz-Delete-Marker"))
	if r.Err != nil {
		p.transport(kind, r)
		return
	}
	p.c.Eval(1)
	if r.Status >= 500 {
		p.c.Observe(kind + ": 5xx answer to a legal request (" + r.ErrCode() + ")")
		return
	}
	if !r.OK() {
		if which >= 0 {
			p.c.Observe("delete by version id of an existing version refused: " + r.String())
		}
		return
	}
	if which >= 0 {
		if k.stack[which].Marker != (r.Header.Get("X-Amz-Delete-Marker") == "true") {
			p.c.Observe("delete by version id: x-amz-delete-marker does not say whether the removed version was a marker")
		}
		k.emptiedMarker = len(k.stack) == 1 && k.stack[which].Marker
		k.remove(which)
	}
}

// ---------------------------------------------------------------------------------------------
// verification

func (p *prog) whoIs(k *kmodel, w int) string {
	for _, e := range k.stack {
		if !e.Marker && e.Wid == w {
			if e.Vid == nullID {
				return "null-version"
			}
			return "older-version"
		}
	}
	for _, it := range p.ledger {
		if it.key == k && !it.marker && it.wid == w {
			return "deleted-version"
		}
	}
	for _, o := range p.keys {
		if o != k {
			for _, e := range o.stack {
				if !e.Marker && e.Wid == w {
					return "other-key"
				}
			}
		}
	}
	return "unknown-write"
}

func statusClass(r *s3c.Resp) string {
	switch {
	case r.Status >= 500:
		return "5xx"
	case r.Status >= 400:
		return strconv.Itoa(r.Status)
	}
	return strconv.Itoa(r.Status)
}

// checkCurrent compares GET key / HEAD key with the top of the reference stack.
func (p *prog) checkCurrent(k *kmodel, affected bool) {
	step, cx := p.last, p.lastCtx
	if !affected {
		step, cx = p.last+":other-key", p.ctx(k)
	}
	top := k.top()
	want := 0
	if top != nil && !top.Marker {
		want = top.Wid
	}
	g := p.rcl().GetObject(p.b, k.name)
	if g.Err != nil && !strings.HasPrefix(g.Err.Error(), "read body") {
		p.transport(step, g)
		return
	}
	p.c.Eval(1)
	o := p.ws.Judge(g, false)
	obs := map[string]any{"key": k.name, "get": g.String(), "observed_write": o.Wid, "torn": o.Torn, "expected_write": want}
	switch {
	case o.Refused:
		p.viol(step+":current-unreadable:"+statusClass(g)+cx, true, "GET key answers neither 200 nor 404", obs)
	case want == 0 && o.Wid == 0:
		if top != nil && top.Marker && g.Header.Get("X-Amz-Delete-Marker") != "true" {
			p.c.Observe("GET of a key whose current version is a delete marker: 404 without x-amz-delete-marker")
		}
	case want == 0:
		what := "key-readable-without-current-object"
		switch {
		case p.last == "delete-marker" && affected:
			what = "key-still-readable"
		case p.last == "delete-version-current" && affected && o.Wid > 0 && p.whoIs(k, o.Wid) == "null-version":
			what = "wrong-version-promoted"
		case p.last == "delete-version-current" && affected && top != nil:
			what = "marker-not-reexposed"
		case p.last == "delete-version-current" && affected:
			what = "last-version-deleted-key-still-readable"
		}
		if o.Wid > 0 {
			what += ":" + p.whoIs(k, o.Wid)
		}
		p.viol(step+":"+what+cx, true, "the key must read as missing (no versions, or a delete marker on top) but GET returns data", obs)
	case o.Wid == 0:
		what := "current-missing"
		if p.last == "delete-version-current" && affected {
			what = "previous-not-reexposed"
			if i := k.find(nullID); i >= 0 && i < len(k.stack)-1 && k.stack[i].Marker {
				// an older null delete marker exists: the same mis-promotion as wrong-version-promoted:null-version
				what = "wrong-version-promoted:null-marker"
			}
		}
		p.viol(step+":"+what+cx, true, "GET key says 404 although the newest version is an object", obs)
	case o.Wid == -1:
		p.viol(step+":current-torn"+cx, true, "GET key returns components of different writes: "+o.Torn, obs)
	case o.Wid != want:
		what := "current-wrong-version"
		if p.last == "delete-version-current" && affected {
			what = "wrong-version-promoted"
		}
		p.viol(step+":"+what+":"+p.whoIs(k, o.Wid)+cx, true, "GET key returns a version that is not the newest one", obs)
	default:
		if hv := g.Header.Get("X-Amz-Version-Id"); hv != "" && hv != top.Vid {
			obs["header"] = hv
			p.viol(step+":current-version-id-header-mismatch"+cx, true, "GET key returns the newest data but under another version id (x-amz-version-id)", obs)
		}
	}
	if p.stop {
		return
	}
	h := p.rcl().HeadObject(p.b, k.name)
	if h.Err != nil {
		p.transport(step, h)
		return
	}
	p.c.Eval(1)
	ho := p.ws.Judge(h, true)
	if ho.Wid != want || ho.Refused {
		p.viol("head-current:disagrees-with-model:"+statusClass(h)+cx, false, "HEAD key does not describe the newest version", map[string]any{"key": k.name, "head": h.String(), "observed_write": ho.Wid, "torn": ho.Torn, "expected_write": want})
	}
}

// sweep re-reads every ledger entry by version id.
func (p *prog) sweep() {
	for _, it := range p.ledger {
		if p.stop {
			return
		}
		k := it.key
		idx := k.find(it.vid)
		live := idx >= 0
		target := "older"
		if live && idx == len(k.stack)-1 {
			target = "top"
		}
		if it.vid == nullID {
			target += "-null"
		}
		cx := p.ctx(k)
		g := p.rcl().GetObjectV(p.b, k.name, it.vid)
		if g.Err != nil && !strings.HasPrefix(g.Err.Error(), "read body") {
			p.transport("get-version", g)
			return
		}
		p.c.Eval(1)
		p.c.Add("version_reads", 1)
		obs := map[string]any{"key": k.name, "version_id": it.vid, "get": g.String()}
		getOK := false
		switch {
		case live && !it.marker:
			o := p.ws.Judge(g, false)
			obs["observed_write"], obs["expected_write"], obs["torn"] = o.Wid, it.wid, o.Torn
			switch {
			case o.Wid == it.wid:
				getOK = true
				if hv := g.Header.Get("X-Amz-Version-Id"); hv != "" && hv != it.vid {
					obs["header"] = hv
					p.viol("get-version:version-id-header-mismatch:"+target+cx, false, "GET ?versionId returns the right data but names another version id", obs)
				}
			case o.Refused || o.Wid == 0:
				if p.last == "delete-marker" {
					p.viol("delete-marker:data-removed:"+target+cx, true, "after a delete without id a version that was never deleted by id is no longer readable under its id", obs)
				} else {
					p.viol("get-version:unreadable:"+target+":"+statusClass(g)+":after-"+p.last+cx, true, "a version that was never deleted by id is not readable under its id", obs)
				}
			default:
				which := "torn"
				if o.Wid > 0 {
					which = p.whoIs(k, o.Wid)
				}
				p.viol("get-version:wrong-bytes:"+target+":"+which+":after-"+p.last+cx, true, "GET ?versionId does not return exactly the write stored under this id", obs)
			}
		case live && it.marker:
			switch {
			case g.Status == 200:
				p.viol("get-version:marker-returns-data:"+target+":after-"+p.last+cx, true, "GET ?versionId of a delete marker returns data", obs)
			case g.Status >= 500:
				p.c.Observe("GET ?versionId of a delete marker answers 5xx")
			default:
				getOK = true
			}
		default:
			switch {
			case g.Status == 200:
				p.viol("get-version:readable-after-delete:after-"+p.last+cx, true, "a version deleted by id (or a replaced null version) is still readable under its id", obs)
			case g.Status >= 500:
				p.c.Observe("GET ?versionId of a deleted version answers 5xx")
			default:
				getOK = true
			}
		}
		if !getOK || p.stop {
			continue
		}
		h := p.rcl().HeadObjectV(p.b, k.name, it.vid)
		if h.Err != nil {
			p.transport("head-version", h)
			return
		}
		p.c.Eval(1)
		hobs := map[string]any{"key": k.name, "version_id": it.vid, "head": h.String(), "get_of_the_same_version": g.String()}
		switch {
		case live && !it.marker:
			o := p.ws.Judge(h, true)
			hobs["observed_write"], hobs["expected_write"], hobs["torn"] = o.Wid, it.wid, o.Torn
			switch {
			case o.Wid == it.wid:
			case o.Refused || o.Wid == 0:
				p.viol("head-version:unreadable:"+target+":"+statusClass(h)+cx, false, "HEAD ?versionId fails for a version that GET ?versionId returns correctly", hobs)
			default:
				p.viol("head-version:wrong-metadata:"+target+cx, false, "HEAD ?versionId describes another write than the one stored under this id", hobs)
			}
		case h.Status == 200:
			p.viol("head-version:deleted-or-marker-answers-200:"+target+cx, false, "HEAD ?versionId answers 200 for a delete marker or a deleted version", hobs)
		}
	}
}

type lentry struct {
	Key    string
	Vid    string
	Marker bool
	Latest bool
	ETag   string
	Size   int64
	page   int
}

func (e lentry) id() string { return e.Key + "\x00" + e.Vid }

func (e lentry) String() string {
	k := "version"
	if e.Marker {
		k = "marker"
	}
	return fmt.Sprintf("%s %s/%s latest=%v", k, e.Key, e.Vid, e.Latest)
}

type lpage struct {
	entries   []lentry
	truncated bool
	nextKey   string
	nextVid   string
}

func parseVersions(body []byte) (*lpage, error) {
	d := xml.NewDecoder(bytes.NewReader(body))
	pg := &lpage{}
	depth := 0
	for {
		t, err := d.Token()
		if err == io.EOF {
			break
		}
		if err != nil {
			return nil, err
		}
		switch se := t.(type) {
		case xml.StartElement:
			depth++
			if depth != 2 {
				continue
			}
			switch se.Name.Local {
			case "Version", "DeleteMarker":
				var v struct {
					Key, VersionId, ETag string
					IsLatest             bool
					Size                 int64
				}
				if err := d.DecodeElement(&v, &se); err != nil {
					return nil, err
				}
				depth--
				pg.entries = append(pg.entries, lentry{Key: v.Key, Vid: v.VersionId, Marker: se.Name.Local == "DeleteMarker", Latest: v.IsLatest, ETag: v.ETag, Size: v.Size})
			case "IsTruncated", "NextKeyMarker", "NextVersionIdMarker":
				var s string
				if err := d.DecodeElement(&s, &se); err != nil {
					return nil, err
				}
				depth--
				switch se.Name.Local {
				case "IsTruncated":
					pg.truncated = s == "true"
				case "NextKeyMarker":
					pg.nextKey = s
				default:
					pg.nextVid = s
				}
			}
		case xml.EndElement:
			depth--
		}
	}
	if depth != 0 {
		return nil, fmt.Errorf("unbalanced document")
	}
	return pg, nil
}

func (p *prog) wantList() []lentry {
	ks := append([]*kmodel{}, p.keys...)
	sort.Slice(ks, func(i, j int) bool { return ks[i].name < ks[j].name })
	var out []lentry
	for _, k := range ks {
		for i := len(k.stack) - 1; i >= 0; i-- {
			e := k.stack[i]
			out = append(out, lentry{Key: k.name, Vid: e.Vid, Marker: e.Marker, Latest: i == len(k.stack)-1})
		}
	}
	return out
}

func (p *prog) entryClass(key, vid string) string {
	for _, k := range p.keys {
		if k.name != key {
			continue
		}
		i := k.find(vid)
		if i < 0 {
			break
		}
		s := "noncurrent"
		if i == len(k.stack)-1 {
			s = "current"
		}
		if k.stack[i].Marker {
			s += "-marker"
		} else {
			s += "-object"
		}
		if vid == nullID {
			s += "-null"
		}
		return s
	}
	for _, it := range p.ledger {
		if it.key.name == key && it.vid == vid {
			if vid == nullID {
				return "deleted-null-version"
			}
			return "deleted-version"
		}
	}
	return "unknown"
}

// redClass reduces an entry class to current / noncurrent (+ -null).
func redClass(c string) string {
	c = strings.Replace(c, "-object", "", 1)
	return strings.Replace(c, "-marker", "", 1)
}

// checkList follows the ListObjectVersions page chain and compares it with the reference.
// full: this is the unpaged listing after a mutation (content mismatches are state divergence).
func (p *prog) checkList(maxKeys int, full bool) {
	want := p.wantList()
	pos := map[string]int{}
	for i, e := range want {
		pos[e.id()] = i
	}
	bcx := p.bucketCtx()
	pfx := "list-versions:"
	suffix := bcx
	if full {
		suffix = ":after-" + p.last + bcx
	} else {
		pfx = "list-versions:page-chain:"
	}
	var got []lentry     // entries in chain order, repetitions removed
	var pages [][]lentry // the same, per page
	keyM, vidM := "", ""
	asked := map[string]bool{}
	seenAt := map[string]bool{}
	repeats := map[string]bool{}
	var repOrder []string
	chainProblem := ""
	nullMarkerUsed := false
	var raw []string
	for pn := 0; ; pn++ {
		if vidM == nullID {
			nullMarkerUsed = true
		}
		q := []string{"versions", "\x00", "max-keys", strconv.Itoa(maxKeys)}
		if keyM != "" || vidM != "" {
			q = append(q, "key-marker", keyM, "version-id-marker", vidM)
		}
		r := p.rcl().Do(&s3c.Req{Method: "GET", Path: s3c.BucketPath(p.b), Query: s3c.Q(q...)})
		if r.Err != nil {
			p.transport("list-versions", r)
			return
		}
		p.c.Eval(1)
		p.c.Add("list_pages", 1)
		if !r.OK() {
			if r.Status >= 500 {
				p.viol(pfx+"server-error"+suffix, false, "ListObjectVersions answers 5xx", map[string]any{"answer": r.String(), "max_keys": maxKeys, "key_marker": keyM, "version_id_marker": vidM})
			} else {
				p.c.Observe("ListObjectVersions refused: " + r.String())
			}
			return
		}
		pg, err := parseVersions(r.Body)
		if err != nil {
			p.viol(pfx+"unparsable"+suffix, false, err.Error(), map[string]any{"body": string(r.Body)})
			return
		}
		var line []string
		var fresh []lentry
		for i := range pg.entries {
			e := pg.entries[i]
			e.page = pn
			line = append(line, e.String())
			if seenAt[e.id()] {
				// an entry that an earlier page (or this page) already returned
				cls := "other:" + redClass(p.entryClass(e.Key, e.Vid))
				switch {
				case full:
					cls = p.entryClass(e.Key, e.Vid)
				case e.Key == keyM && e.Vid == vidM:
					cls = "marker-entry:" + redClass(p.entryClass(e.Key, e.Vid))
				case e.Vid == nullID:
					cls = "null-version:" + redClass(p.entryClass(e.Key, e.Vid))
				}
				if !repeats[cls] {
					repeats[cls] = true
					repOrder = append(repOrder, cls)
				}
				continue
			}
			seenAt[e.id()] = true
			fresh = append(fresh, e)
		}
		raw = append(raw, fmt.Sprintf("page %d (key-marker=%q version-id-marker=%q): %s | truncated=%v next=%q/%q", pn, keyM, vidM, strings.Join(line, "; "), pg.truncated, pg.nextKey, pg.nextVid))
		got = append(got, fresh...)
		pages = append(pages, fresh)
		if len(pg.entries) > maxKeys {
			chainProblem = "over-max-keys"
			break
		}
		if !pg.truncated {
			break
		}
		if pg.nextKey == "" {
			chainProblem = "truncated-without-next-key-marker"
			break
		}
		mk := pg.nextKey + "\x00" + pg.nextVid
		if asked[mk] || pn > len(want)+4 {
			chainProblem = "no-progress"
			if len(fresh) == 0 && len(repeats) > 0 {
				// the chain stalls on a page that only repeats entries: same cause as the repetition itself
				chainProblem = "stalled-on-repetition"
			}
			break
		}
		asked[mk] = true
		keyM, vidM = pg.nextKey, pg.nextVid
	}
	det := map[string]any{"max_keys": maxKeys, "pages": raw}
	var wl []string
	for _, e := range want {
		wl = append(wl, e.String())
	}
	det["expected_in_order"] = wl
	for _, cls := range repOrder {
		if full {
			p.viol(pfx+"duplicate-entry:"+cls+suffix, true, "the listing reports an entry twice", det)
		} else {
			p.viol("list-versions:page-chain:repeated-entry:"+cls, false, "a continuation page repeats an entry that an earlier page already returned (marker-entry: the entry named by key-marker/version-id-marker itself)", det)
		}
	}
	if chainProblem == "stalled-on-repetition" || p.stop {
		return
	}
	if chainProblem != "" {
		cls := ""
		if len(got) > 0 {
			l := got[len(got)-1]
			cls = ":at-" + redClass(p.entryClass(l.Key, l.Vid))
		}
		p.viol("list-versions:page-chain:"+chainProblem+cls+bcx, false, "the page chain of ListObjectVersions is broken", det)
		return
	}
	// content
	seen := map[string]int{}
	for _, e := range got {
		seen[e.id()]++
	}
	for _, e := range got {
		if _, ok := pos[e.id()]; !ok {
			p.viol(pfx+"extra-entry:"+p.entryClass(e.Key, e.Vid)+suffix, full, "the listing reports a version or marker that does not exist in the reference", det)
			return
		}
		if e.Marker != want[pos[e.id()]].Marker {
			p.viol(pfx+"wrong-kind:"+p.entryClass(e.Key, e.Vid)+suffix, full, "a version is listed as delete marker or vice versa", det)
			return
		}
	}
	for _, e := range want {
		if seen[e.id()] == 0 {
			if !full && nullMarkerUsed {
				p.viol(pfx+"missing-entry:after-null-version-id-marker", false, "a continuation with version-id-marker=null omits existing versions or markers", det)
				return
			}
			p.viol(pfx+"missing-entry:"+p.entryClass(e.Key, e.Vid)+suffix, full, "the listing omits an existing version or marker", det)
			return
		}
	}
	// order: inside a page each kind follows the reference order (the two kinds are separate lists in the
	// document); pages are consecutive blocks of the reference order
	lastMax := -1
	for _, pe := range pages {
		lv, lm, mn, mx := -1, -1, len(want), -1
		for _, e := range pe {
			i := pos[e.id()]
			if e.Marker {
				if i < lm {
					p.viol(pfx+"order:markers"+suffix, false, "delete markers are not listed key-ascending / newest first", det)
					return
				}
				lm = i
			} else {
				if i < lv {
					p.viol(pfx+"order:versions"+suffix, false, "versions are not listed key-ascending / newest first", det)
					return
				}
				lv = i
			}
			if i < mn {
				mn = i
			}
			if i > mx {
				mx = i
			}
		}
		if len(pe) > 0 {
			if mn <= lastMax {
				p.viol(pfx+"order:across-pages"+suffix, false, "a later page holds an entry that sorts before an entry of an earlier page", det)
				return
			}
			lastMax = mx
		}
	}
	// IsLatest
	for _, e := range got {
		w := want[pos[e.id()]]
		if e.Latest != w.Latest {
			what := "islatest:not-flagged:"
			if e.Latest {
				what = "islatest:flagged-but-not-newest:"
			}
			p.viol(pfx+what+p.entryClass(e.Key, e.Vid)+suffix, false, "IsLatest must be set on exactly the newest entry of each key", det)
			return
		}
	}
	// sizes and ETags
	for _, e := range got {
		if e.Marker {
			continue
		}
		for _, k := range p.keys {
			if k.name != e.Key {
				continue
			}
			me := k.stack[k.find(e.Vid)]
			w := p.ws.ByID(me.Wid)
			lw := p.ws.ByETag(e.ETag)
			if w == nil || lw == nil || lw.ID != w.ID || e.Size != int64(len(w.Body)) {
				det["entry"] = fmt.Sprintf("%s etag=%s size=%d, reference write %d has %d bytes md5 %s", e, e.ETag, e.Size, me.Wid, len(w.Body), w.MD5)
				p.viol(pfx+"wrong-etag-or-size:"+p.entryClass(e.Key, e.Vid)+suffix, false, "a listed version carries the ETag or size of another write", det)
				return
			}
		}
	}
}

// checkPromotion: after the current version was deleted by id, the entry that the listing flags as latest must be
// the previous entry of the reference (GET key cannot tell two delete markers, or two copies of one write, apart).
func (p *prog) checkPromotion(k *kmodel) {
	r := p.rcl().Do(&s3c.Req{Method: "GET", Path: s3c.BucketPath(p.b), Query: s3c.Q("versions", "\x00", "max-keys", "1000")})
	if r.Err != nil {
		p.transport("list-versions", r)
		return
	}
	if !r.OK() {
		return
	}
	pg, err := parseVersions(r.Body)
	if err != nil {
		return
	}
	p.c.Eval(1)
	var latest []lentry
	var line []string
	for _, e := range pg.entries {
		if e.Key == k.name {
			line = append(line, e.String())
			if e.Latest {
				latest = append(latest, e)
			}
		}
	}
	top := k.top()
	if len(latest) != 1 || top == nil || latest[0].Vid == top.Vid {
		return // none / several / nothing expected: left to the listing check
	}
	l := latest[0]
	who := "unknown-entry"
	if i := k.find(l.Vid); i >= 0 {
		who = "older-version"
		if k.stack[i].Marker {
			who = "older-marker"
		}
		if l.Vid == nullID {
			who = "null-version"
			if k.stack[i].Marker {
				who = "null-marker"
			}
		}
	} else if p.lidx[k.name+"\x00"+l.Vid] != nil {
		who = "deleted-version"
	}
	p.viol("delete-version-current:wrong-version-promoted:"+who+p.lastCtx, true, "after the current version was deleted by id the listing flags another entry than the previous one as latest",
		map[string]any{"key": k.name, "listed_entries_of_key": line, "expected_latest": top.String()})
}

func (p *prog) verify(aff *kmodel) {
	for _, k := range p.keys {
		if p.stop {
			return
		}
		p.checkCurrent(k, k == aff)
	}
	if !p.stop && aff != nil && p.last == "delete-version-current" {
		p.checkPromotion(aff)
	}
	if p.stop || !p.everVersioned {
		return
	}
	p.sweep()
	if p.stop {
		return
	}
	p.checkList(1000, true)
}

// ---------------------------------------------------------------------------------------------
// program

var keyPool = []string{"alpha", "dir/beta", "dir/sub/gamma", "m/k", "zeta.bin"}

func (p *prog) setVersioning(status string) bool {
	cl, gi := p.mcl()
	r := cl.PutBucketVersioning(p.b, status)
	p.tr("PUT ?versioning %s via gw%d -> %s", status, gi, r)
	if r.Err != nil {
		p.transport("versioning", r)
		return false
	}
	if !r.OK() {
		p.c.Observe("PutBucketVersioning " + status + " refused: " + r.String())
		return false
	}
	p.state = status
	p.everVersioned = true
	if status == "Suspended" {
		p.everSusp = true
		p.feats["suspend"] = true
	}
	return true
}

func (p *prog) run() {
	r := p.r
	cl := p.cls[0]
	if resp := cl.CreateBucket(p.b); !resp.OK() {
		p.c.Inconclusive("create bucket: " + resp.String())
		return
	}
	if resp := cl.CreateBucket(p.sb); !resp.OK() {
		p.c.Inconclusive("create bucket: " + resp.String())
		return
	}
	nk := 1 + r.Intn(3)
	perm := r.Perm(len(keyPool))[:nk]
	sort.Ints(perm)
	for _, i := range perm {
		p.keys = append(p.keys, &kmodel{name: keyPool[i]})
	}
	steps := 10 + r.Intn(41)
	wantNull := r.Intn(2) == 0
	allowSusp := r.Intn(100) < 35
	selfCopyEnd := r.Intn(100) < 12
	// half of the sidecar programs do not write onto a key whose newest entry is a delete marker (they remove the
	// marker by id instead): on the pinned tree that write diverges at once (known finding) and would end the program
	avoidOntoMarker := r.Intn(2) == 0 && p.cf.sidecar
	// objects that predate versioning
	if wantNull {
		for _, k := range p.keys {
			if r.Intn(3) == 0 {
				continue
			}
			for n := 1 + r.Intn(2); n > 0 && !p.stop; n-- {
				p.nsteps++
				switch r.Intn(6) {
				case 0:
					p.stepMPU(k)
				case 1:
					p.stepCopy(k)
				default:
					p.stepPut(k)
				}
				if !p.stop {
					p.verify(k)
				}
			}
			if r.Intn(8) == 0 && !p.stop {
				p.nsteps++
				p.stepDeleteMarker(k)
				p.verify(k)
			}
		}
	}
	if p.stop {
		return
	}
	for _, k := range p.keys {
		if len(k.stack) > 0 {
			p.feats["null-version"] = true
		}
	}
	p.nsteps++
	if !p.setVersioning("Enabled") {
		if !p.stop {
			p.c.Inconclusive("versioning could not be enabled")
		}
		return
	}
	p.last, p.lastCtx = "enable", p.ctx(nil)
	p.verify(nil)
	for p.nsteps < steps && !p.stop {
		p.nsteps++
		k := p.keys[r.Intn(len(p.keys))]
		full := len(k.stack) >= 12
		// weights
		wPut, wCopy, wMPU, wDel, wDelV, wList, wTog := 22, 8, 6, 13, 24, 8, 0
		if full {
			wPut, wCopy, wMPU, wDel = 0, 0, 0, 0
		}
		if len(k.stack) == 0 {
			wDelV = 2
		}
		if allowSusp {
			wTog = 4
			if p.state == "Suspended" {
				wTog = 14
			}
		}
		if r.Intn(12) == 0 {
			// a write the gateway refuses: the history must be exactly what it was
			p.stepRefusedWrite(k)
			if p.stop {
				break
			}
			p.verify(k)
			continue
		}
		x := r.Intn(wPut + wCopy + wMPU + wDel + wDelV + wList + wTog)
		if t := k.top(); avoidOntoMarker && x < wPut+wCopy+wMPU && t != nil && t.Marker {
			x = -1
		}
		switch {
		case x < 0:
			p.stepDeleteVersion(k, len(k.stack)-1, "")
		case x < wPut:
			p.stepPut(k)
		case x < wPut+wCopy:
			p.stepCopy(k)
		case x < wPut+wCopy+wMPU:
			p.stepMPU(k)
		case x < wPut+wCopy+wMPU+wDel:
			if p.state == "Enabled" && r.Intn(4) == 0 {
				p.stepBatchDeleteMarkers(k, 3+r.Intn(10))
			} else {
				p.stepDeleteMarker(k)
			}
		case x < wPut+wCopy+wMPU+wDel+wDelV:
			p.pickDeleteVersion(k)
		case x < wPut+wCopy+wMPU+wDel+wDelV+wList:
			mk := []int{1, 2, 3, 1000}[r.Intn(4)]
			p.tr("LIST versions max-keys=%d", mk)
			p.c.Distinct(fmt.Sprintf("%s|%s|list|max-keys=%d|%s", p.cf.name, p.state, mk, strings.Trim(p.bucketCtx(), "[]")))
			p.checkList(mk, false)
			continue
		default:
			ns, verb := "Suspended", "suspend"
			if p.state == "Suspended" {
				ns, verb = "Enabled", "re-enable"
			}
			p.last, p.lastCtx = verb, p.ctx(nil)
			if !p.setVersioning(ns) {
				continue
			}
			k = nil
		}
		if p.stop {
			break
		}
		p.verify(k)
	}
	if !p.stop {
		// every page size once at the end of the program
		for _, mk := range []int{1, 2, 3} {
			if !p.stop {
				p.tr("LIST versions max-keys=%d (final)", mk)
				p.checkList(mk, false)
			}
		}
	}
	if !p.stop && selfCopyEnd && p.state == "Enabled" {
		p.selfCopy()
	}
}

func (p *prog) pickDeleteVersion(k *kmodel) {
	r := p.r
	if len(k.stack) == 0 || r.Intn(20) == 0 {
		// an id that no longer exists (or never existed for this key)
		var gone []string
		for _, it := range p.ledger {
			if it.key == k && k.find(it.vid) < 0 {
				gone = append(gone, it.vid)
			}
		}
		vid := "01ARZ3NDEKTSV4RRFFQ69G5FAV"
		if len(gone) > 0 {
			vid = gone[r.Intn(len(gone))]
		}
		p.stepDeleteVersion(k, -1, vid)
		return
	}
	var markers, nulls []int
	for i, e := range k.stack {
		if e.Marker {
			markers = append(markers, i)
		}
		if e.Vid == nullID {
			nulls = append(nulls, i)
		}
	}
	x := r.Intn(100)
	switch {
	case x < 38:
		p.stepDeleteVersion(k, len(k.stack)-1, "")
	case x < 55 && len(markers) > 0:
		p.stepDeleteVersion(k, markers[r.Intn(len(markers))], "")
	case x < 70 && len(nulls) > 0:
		p.stepDeleteVersion(k, nulls[0], "")
	default:
		p.stepDeleteVersion(k, r.Intn(len(k.stack)), "")
	}
}

// selfCopy: CopyObject of the current version onto itself with replaced metadata is a write like any other
// and must yield a fresh version id. The reference cannot follow the result (same bytes, new metadata), so this
// is always the last step of a program.
func (p *prog) selfCopy() {
	var cand []*kmodel
	for _, k := range p.keys {
		if t := k.top(); t != nil && !t.Marker {
			cand = append(cand, k)
		}
	}
	if len(cand) == 0 {
		return
	}
	k := cand[p.r.Intn(len(cand))]
	top := *k.top()
	p.nsteps++
	pre := p.begin("copy-self", k)
	p.distinct("copy-self", "replace-metadata", k)
	cl, gi := p.mcl()
	r := cl.CopyObject(p.b, k.name, p.b, k.name, "X-Amz-Metadata-Directive", "REPLACE", "X-Amz-Meta-Wid", "selfcopy", "Content-Type", "application/x-selfcopy")
	vid := r.Header.Get("X-Amz-Version-Id")
	p.tr("COPY %s onto itself (REPLACE metadata) via gw%d -> %s version-id=%q", k.name, gi, r, vid)
	if r.Err != nil {
		p.transport("copy-self", r)
		return
	}
	p.c.Eval(1)
	if !r.OK() {
		p.c.Observe("copy onto itself with replaced metadata refused: " + r.String())
		return
	}
	if vid == "" || vid == nullID || p.issued[vid] {
		p.viol("copy-self:no-fresh-version-id"+pre, true, fmt.Sprintf("CopyObject onto the same key (REPLACE) was acknowledged with x-amz-version-id %q, which is not a new id", vid), nil)
		return
	}
	// the previous version must still be there with its own metadata
	g := p.rcl().GetObjectV(p.b, k.name, top.Vid)
	if o := p.ws.Judge(g, false); o.Wid != top.Wid {
		p.viol("copy-self:previous-version-changed"+pre, true, "after a copy onto itself the previous version no longer reads back with its own metadata", map[string]any{"get": g.String(), "torn": o.Torn})
	}
}

// ---------------------------------------------------------------------------------------------

type worker struct {
	c   *ev.Ctx
	cf  cfg
	env *fx.Env
}

func (w *worker) ensure() bool {
	if w.env != nil {
		if _, cr := w.env.Dead(); cr == nil {
			return true
		}
		w.env.Close()
		w.env = nil
	}
	env, err := fx.New("c09"+strings.ReplaceAll(w.cf.name, "-", ""), gw.Config{Versioning: true, Sidecar: w.cf.sidecar}, w.cf.ngw)
	if err != nil {
		w.c.Inconclusive("gateway start: " + err.Error())
		return false
	}
	w.env = env
	return true
}

func (w *worker) runProgram(idx int, id string) {
	if !w.ensure() {
		return
	}
	c := w.c
	p := &prog{c: c, id: id, cf: w.cf, r: c.Rng("prog/" + strconv.Itoa(idx)), env: w.env, ws: wid.NewSet(),
		b: fmt.Sprintf("prg%d", idx), sb: fmt.Sprintf("src%d", idx), issued: map[string]bool{}, lidx: map[string]*litem{},
		feats: map[string]bool{}, reported: map[string]bool{}}
	for i := 0; i < w.cf.ngw; i++ {
		p.cls = append(p.cls, w.env.Client(i))
	}
	p.run()
	c.Add("programs", 1)
	c.Add("steps", p.nsteps)
	c.Add("programs_"+w.cf.name, 1)
	if p.stop {
		c.Add("programs_stopped_at_divergence", 1)
	}
	var fl []string
	for f := range p.feats {
		fl = append(fl, f)
		c.Add("programs_with_"+f, 1)
	}
	sort.Strings(fl)
	if len(fl) > 0 {
		c.Distinct(w.cf.name + "|program-shape|" + strings.Join(fl, "+"))
	}
	if idx < 3 {
		t := p.trace
		if len(t) > 25 {
			t = t[:25]
		}
		c.Sample(map[string]any{"case": id, "config": w.cf.name, "first_steps": t, "final_reference": p.modelDump()})
	}
	for _, cl := range p.cls {
		cl.CloseIdle()
	}
}

func cfgFor(c *ev.Ctx, i int) cfg {
	if c.Thorough() {
		switch i % 6 {
		case 0, 1:
			return cfgX1
		case 2:
			return cfgX2
		case 3, 4:
			return cfgS1
		}
		return cfgS2
	}
	switch m := i % 20; {
	case m < 13:
		return cfgX1
	case m < 16:
		return cfgX2
	case m < 19:
		return cfgS1
	}
	return cfgS2
}

func Run(c *ev.Ctx) int {
	c.Assume("keys without trailing '/' (directory-marker keys are unversioned by design), bodies 1 byte .. 64 KiB, at most 12 versions per key, 1..3 keys per bucket")
	c.Assume("requests of one program are sequential; with two gateway processes successive mutations are at least 2 ms apart (version ids order by millisecond timestamps)")
	c.Assume("Suspended state follows the AWS rules: a write or delete without id replaces the null version, all other versions stay")
	c.Assume("the relative document order of Version and DeleteMarker elements inside one page is not judged (two separate lists); the order inside each list and across pages is")
	n := c.Pick(100, 3000)
	type job struct {
		idx int
		id  string
	}
	cfgs := []cfg{cfgX1, cfgX2, cfgS1, cfgS2}
	nw := map[string]int{cfgX1.name: 4, cfgX2.name: 2, cfgS1.name: 2, cfgS2.name: 1}
	if c.Thorough() {
		nw = map[string]int{cfgX1.name: 5, cfgX2.name: 3, cfgS1.name: 5, cfgS2.name: 3}
	}
	jobs := map[string][]job{}
	for i := 0; i < n; i++ {
		cf := cfgFor(c, i)
		id := fmt.Sprintf("prog/%s/%d", cf.name, i)
		if c.Want(id) {
			jobs[cf.name] = append(jobs[cf.name], job{i, id})
		}
	}
	var wg sync.WaitGroup
	for _, cf := range cfgs {
		js := jobs[cf.name]
		if len(js) == 0 {
			continue
		}
		ch := make(chan job, len(js))
		for _, j := range js {
			ch <- j
		}
		close(ch)
		k := nw[cf.name]
		if k > len(js) {
			k = len(js)
		}
		for i := 0; i < k; i++ {
			wg.Add(1)
			go func(cf cfg) {
				defer wg.Done()
				w := &worker{c: c, cf: cf}
				for j := range ch {
					w.runProgram(j.idx, j.id)
				}
				if w.env != nil {
					w.env.Close()
				}
			}(cf)
		}
	}
	for _, sc := range []bool{false, true} {
		wg.Add(1)
		go func(sc bool) {
			defer wg.Done()
			overtakenLane(c, sc)
		}(sc)
	}
	wg.Wait()
	return c.Finish("model-based programs (10..50 steps; put / copy / copy-from-version / multipart-complete / delete without id / delete by version id of current, non-current, marker, null and vanished ids / paged ListObjectVersions / suspend / re-enable, optionally objects that predate versioning) against a reference version stack per key; after every mutation: GET+HEAD of every key, GET+HEAD ?versionId of every id ever issued, full ListObjectVersions. distinct = (configuration, bucket versioning state, step kind, target/previous-entry class, context class of the key: null / marker on top or in stack, ever suspended, sidecar) plus program shapes by the special features they contain", c.Pick(40, 120))
}
