package c09

import (
	"bytes"
	"fmt"
	"strings"
	"time"

	"verif/harness/internal/ev"
	"verif/harness/internal/fx"
	"verif/harness/internal/gate"
	"verif/harness/internal/gw"
	"verif/harness/internal/s3c"
)

// Overtaken-write lane: a program in which one PUT of a key is still being served while another PUT of the same key
// runs from start to end. PUT A is paused at each instrumentation point it passes, PUT B completes, A is released and
// acknowledged, then PUT C. Whatever order the gateway gave A and B - the read after both tells which of them became
// current last - the history must be exact: V0, A and B stay retrievable byte-exact under their own ids, the listing
// shows C, the later of A/B, the earlier, V0 in this order with C alone flagged latest, and deleting C by id
// re-exposes the version that was current before C was written.
func overtakenLane(c *ev.Ctx, sidecar bool) {
	store := "xattr"
	if sidecar {
		store = "sidecar"
	}
	base := "O/" + store
	if !c.Want(base) {
		return
	}
	tag := "[" + store + "]"
	ctl, err := gate.New(gw.Scratch())
	if err != nil {
		c.Inconclusive(err.Error())
		return
	}
	defer ctl.Close()
	env, err := fx.New("c09o", gw.Config{Versioning: true, Sidecar: sidecar, Env: ctl.Env()}, 1)
	if err != nil {
		c.Inconclusive("gateway start (overtaken-write lane): " + err.Error())
		return
	}
	defer env.Close()
	cl := env.Client(0)
	const bucket = "overtaken"
	if r := cl.CreateBucket(bucket); !r.OK() {
		c.Inconclusive("create bucket: " + r.String())
		return
	}
	if r := cl.PutBucketVersioning(bucket, "Enabled"); !r.OK() {
		c.Inconclusive("enable versioning: " + r.String())
		return
	}
	body := func(who string, j int) []byte {
		return bytes.Repeat([]byte(fmt.Sprintf("%s-of-schedule-%d|", who, j)), 400+37*len(who))
	}
	var trace []string
	for rep := 0; rep < 2; rep++ {
		cl.PutObject(bucket, "trace", body("V0", -rep))
		pol, seen := gate.TraceFirst()
		ctl.SetPolicy(pol)
		cl.PutObject(bucket, "trace", body("A", -rep))
		ctl.SetPolicy(nil)
		trace = seen()
	}
	if len(trace) == 0 {
		c.Inconclusive("PutObject passed no instrumentation point")
		return
	}
	c.Set("overtaken_put_points_"+store, trace)
	for j := 1; j <= len(trace); j++ {
		id := fmt.Sprintf("%s/%d", base, j)
		if !c.Want(id) {
			continue
		}
		key := fmt.Sprintf("k-%d", j)
		type ver struct {
			name string
			vid  string
			body []byte
		}
		v0 := &ver{name: "V0", body: body("V0", j)}
		va := &ver{name: "A", body: body("A", j)}
		vb := &ver{name: "B", body: body("B", j)}
		vc := &ver{name: "C", body: body("C", j)}
		r0 := cl.PutObject(bucket, key, v0.body)
		v0.vid = r0.Header.Get("X-Amz-Version-Id")
		if !r0.OK() || v0.vid == "" {
			c.Inconclusive("seed V0: " + r0.String())
			return
		}
		pol, _ := gate.HoldNth(j)
		ctl.SetPolicy(pol)
		ach := make(chan *s3c.Resp, 1)
		go func() {
			ach <- cl.Do(&s3c.Req{Method: "PUT", Path: s3c.ObjPath(bucket, key), Body: va.body, FreshConn: true})
		}()
		h := ctl.WaitHeld(10 * time.Second)
		ctl.SetPolicy(nil)
		if h == nil {
			<-ach
			c.Observe("overtaken-write lane: PUT passed fewer points than its trace run")
			continue
		}
		point := h.Name
		sig := "overtaken:PUT@" + point + "|PUT:"
		det := map[string]any{"store": store, "schedule": "PUT V0 | PUT A paused at " + point + " | PUT B start to end | release A | PUT C | list versions | DELETE ?versionId=C | GET"}
		rb := cl.Do(&s3c.Req{Method: "PUT", Path: s3c.ObjPath(bucket, key), Body: vb.body, FreshConn: true, Watchdog: 20 * time.Second})
		h.Release()
		ra := <-ach
		c.Eval(1)
		if rb.Err != nil {
			c.Distinct("O|" + store + "|" + point + "|b-waits")
			continue
		}
		va.vid, vb.vid = ra.Header.Get("X-Amz-Version-Id"), rb.Header.Get("X-Amz-Version-Id")
		det["put_a"], det["put_b"] = ra.String()+" version "+va.vid, rb.String()+" version "+vb.vid
		if !ra.OK() || !rb.OK() {
			c.Violation(sig+"correct-upload-refused"+tag, id, det)
			continue
		}
		if va.vid == "" || vb.vid == "" || va.vid == vb.vid || va.vid == v0.vid || vb.vid == v0.vid {
			c.Violation(sig+"version-ids-not-new-and-distinct"+tag, id, det)
			continue
		}
		g := cl.GetObject(bucket, key)
		var last, first *ver
		switch {
		case g.OK() && bytes.Equal(g.Body, va.body):
			last, first = va, vb
		case g.OK() && bytes.Equal(g.Body, vb.body):
			last, first = vb, va
		default:
			det["get"] = g.String()
			c.Violation(sig+"current-object-is-neither-write"+tag, id, det)
			continue
		}
		det["current_after_both"] = last.name
		if cv := g.Header.Get("X-Amz-Version-Id"); cv != last.vid {
			det["current_version_id"] = cv
			c.Violation(sig+"current-object-carries-the-id-of-another-version"+tag, id, det)
			continue
		}
		bad := false
		for _, v := range []*ver{v0, first, last} {
			gv := cl.GetObjectV(bucket, key, v.vid)
			if !gv.OK() || !bytes.Equal(gv.Body, v.body) {
				det["get_version_"+v.name] = gv.String()
				what := "acknowledged-version-lost:" + v.name
				if v == first {
					what = "acknowledged-version-lost:the-write-that-became-current-first"
				}
				if gv.OK() {
					what = "version-id-returns-other-bytes:" + v.name
				}
				c.Violation(sig+what+tag, id, det)
				bad = true
				break
			}
		}
		if bad {
			continue
		}
		rc := cl.PutObject(bucket, key, vc.body)
		vc.vid = rc.Header.Get("X-Amz-Version-Id")
		if !rc.OK() || vc.vid == "" {
			det["put_c"] = rc.String()
			c.Violation(sig+"later-upload-refused"+tag, id, det)
			continue
		}
		lr := cl.Do(&s3c.Req{Method: "GET", Path: "/" + bucket, Query: "versions=&" + s3c.Q("prefix", key)})
		pg, perr := parseVersions(lr.Body)
		if !lr.OK() || perr != nil {
			det["list"] = lr.String()
			c.Violation(sig+"list-versions-failed"+tag, id, det)
			continue
		}
		var got, latest []string
		name := map[string]string{v0.vid: "V0", va.vid: "A", vb.vid: "B", vc.vid: "C"}
		for _, e := range pg.entries {
			if e.Key != key {
				continue
			}
			n := name[e.Vid]
			if n == "" {
				n = "?" + e.Vid
			}
			if e.Marker {
				n += "(marker)"
			}
			got = append(got, n)
			if e.Latest {
				latest = append(latest, n)
			}
		}
		want := []string{"C", last.name, first.name, "V0"}
		det["listed"], det["want_listed"], det["flagged_latest"] = got, want, latest
		if strings.Join(got, ",") != strings.Join(want, ",") {
			what := "list-versions-order-contradicts-the-reads"
			if len(got) != len(want) {
				what = "list-versions-shows-other-entries"
			}
			c.Violation(sig+what+tag, id, det)
			continue
		}
		if strings.Join(latest, ",") != "C" {
			c.Violation(sig+"latest-flag"+tag, id, det)
			continue
		}
		if d := cl.DeleteObjectV(bucket, key, vc.vid); !d.OK() {
			det["delete_c"] = d.String()
			c.Violation(sig+"delete-newest-refused"+tag, id, det)
			continue
		}
		g2 := cl.GetObject(bucket, key)
		if !g2.OK() || !bytes.Equal(g2.Body, last.body) {
			det["get_after_delete"] = g2.String()
			if g2.OK() && bytes.Equal(g2.Body, first.body) {
				det["reexposed"] = first.name
			}
			c.Violation(sig+"deleting-the-newest-reexposes-another-than-the-previous-one"+tag, id, det)
			continue
		}
		c.Distinct("O|" + store + "|" + point + "|last=" + last.name)
		c.Add("overtaken_schedules", 1)
	}
}
