//go:build !solo || solo_c15

package props

import _ "verif/harness/props/c15"
