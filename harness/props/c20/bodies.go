package c20

import (
	"fmt"
	"strings"

	"verif/harness/props/catalog"
)

const ns = ` xmlns="http://s3.amazonaws.com/doc/2006-03-01/"`

// bodiesFor returns the document variants (zero / duplicate / nil elements,
// type-confused members ...) for the operation of a catalogue entry. The
// variants are written from the S3 API reference, not from the gateway's types.
func bodiesFor(x *world, e *catalog.Entry, a catalog.Args) []val {
	st := x.st
	switch e.Op {
	case "PutBucketOwnershipControls":
		return vs(
			"self-closed-root", `<OwnershipControls/>`, "empty-root", `<OwnershipControls`+ns+`></OwnershipControls>`, "empty-rule", `<OwnershipControls`+ns+`><Rule/></OwnershipControls>`,
			"empty-ownership", `<OwnershipControls`+ns+`><Rule><ObjectOwnership/></Rule></OwnershipControls>`, "garbage-ownership", catalog.OwnershipXML("Nobody"),
			"two-rules", `<OwnershipControls`+ns+`><Rule><ObjectOwnership>BucketOwnerEnforced</ObjectOwnership></Rule><Rule><ObjectOwnership>ObjectWriter</ObjectOwnership></Rule></OwnershipControls>`,
			"two-ownerships", `<OwnershipControls`+ns+`><Rule><ObjectOwnership>BucketOwnerEnforced</ObjectOwnership><ObjectOwnership>ObjectWriter</ObjectOwnership></Rule></OwnershipControls>`,
			"object-writer", catalog.OwnershipXML("ObjectWriter"), "preferred", catalog.OwnershipXML("BucketOwnerPreferred"), "lower", catalog.OwnershipXML("bucketownerenforced"),
			"many-rules", `<OwnershipControls`+ns+`>`+strings.Repeat(`<Rule><ObjectOwnership>BucketOwnerEnforced</ObjectOwnership></Rule>`, 2000)+`</OwnershipControls>`,
			"no-namespace", `<OwnershipControls><Rule><ObjectOwnership>BucketOwnerEnforced</ObjectOwnership></Rule></OwnershipControls>`,
			"rule-text", `<OwnershipControls`+ns+`><Rule>BucketOwnerEnforced</Rule></OwnershipControls>`,
		)
	case "DeleteObjects":
		k := st.Obj.Key
		return vs(
			"self-closed-root", `<Delete/>`, "empty-root", `<Delete`+ns+`></Delete>`, "nil-object", `<Delete`+ns+`><Object/></Delete>`, "nil-object-no-ns", `<Delete><Object/></Delete>`,
			"empty-key", `<Delete`+ns+`><Object><Key></Key></Object></Delete>`, "nil-key", `<Delete`+ns+`><Object><Key/></Object></Delete>`,
			"version-only", `<Delete`+ns+`><Object><VersionId>`+st.V1.VersionID+`</VersionId></Object></Delete>`,
			"missing-key", `<Delete`+ns+`><Object><Key>nosuchkey-c20</Key></Object></Delete>`, "two-keys-in-object", `<Delete`+ns+`><Object><Key>a</Key><Key>b</Key></Object></Delete>`,
			"dup-objects", `<Delete`+ns+`><Object><Key>c20-x</Key></Object><Object><Key>c20-x</Key></Object></Delete>`, "quiet-only", `<Delete`+ns+`><Quiet>true</Quiet></Delete>`,
			"quiet-garbage", `<Delete`+ns+`><Quiet>maybe</Quiet><Object><Key>c20-x</Key></Object></Delete>`, "quiet-empty", `<Delete`+ns+`><Quiet/><Object><Key>c20-x</Key></Object></Delete>`,
			"garbage-version", `<Delete`+ns+`><Object><Key>`+k+`</Key><VersionId>garbage</VersionId></Object></Delete>`, "empty-version", `<Delete`+ns+`><Object><Key>c20-x</Key><VersionId></VersionId></Object></Delete>`,
			"traversal-key", `<Delete`+ns+`><Object><Key>../../x</Key></Object></Delete>`, "slash-key", `<Delete`+ns+`><Object><Key>/</Key></Object></Delete>`, "dot-key", `<Delete`+ns+`><Object><Key>.</Key></Object></Delete>`,
			"dotdot-key", `<Delete`+ns+`><Object><Key>..</Key></Object></Delete>`, "tmpdir-key", `<Delete`+ns+`><Object><Key>.sgwtmp</Key></Object></Delete>`,
			"long-key", `<Delete`+ns+`><Object><Key>`+strings.Repeat("k", 5000)+`</Key></Object></Delete>`, "1001-objects", `<Delete`+ns+`>`+strings.Repeat(`<Object><Key>c20-x</Key></Object>`, 1001)+`</Delete>`,
			"20000-objects", `<Delete`+ns+`>`+strings.Repeat(`<Object><Key>c20-x</Key></Object>`, 20000)+`</Delete>`, "nul-entity-key", `<Delete`+ns+`><Object><Key>a&#0;b</Key></Object></Delete>`,
			"etag-member", `<Delete`+ns+`><Object><Key>c20-x</Key><ETag>x</ETag><Size>abc</Size><LastModifiedTime>abc</LastModifiedTime></Object></Delete>`,
			"object-text", `<Delete`+ns+`><Object>c20-x</Object></Delete>`, "dir-key", `<Delete`+ns+`><Object><Key>c20-nosuchdir/</Key></Object></Delete>`,
			"invalid-utf8-key", "<Delete"+ns+"><Object><Key>\xff\xfe</Key></Object></Delete>",
		)
	case "CompleteMultipartUpload":
		et := a.PartETag
		part := func(n, etag string) string {
			return `<Part><PartNumber>` + n + `</PartNumber><ETag>` + etag + `</ETag></Part>`
		}
		w := func(parts string) string {
			return `<CompleteMultipartUpload` + ns + `>` + parts + `</CompleteMultipartUpload>`
		}
		return vs(
			"self-closed-root", `<CompleteMultipartUpload/>`, "no-parts", w(""), "nil-part", w(`<Part/>`), "part-number-0", w(part("0", et)), "part-number-neg", w(part("-1", et)),
			"part-number-10001", w(part("10001", et)), "part-number-2^31-1", w(part("2147483647", et)), "part-number-2^31", w(part("2147483648", et)), "part-number-2^63", w(part("9223372036854775808", et)),
			"part-number-abc", w(part("abc", et)), "part-number-empty", w(part("", et)), "part-number-blank", w(part(" 1", et)), "missing-etag", w(`<Part><PartNumber>1</PartNumber></Part>`),
			"missing-number", w(`<Part><ETag>`+et+`</ETag></Part>`), "empty-etag", w(part("1", "")), "wrong-etag", w(part("1", "00000000000000000000000000000000")), "quoted-etag", w(part("1", "&quot;"+strings.Trim(et, `"`)+"&quot;")),
			"missing-part-2", w(part("2", et)), "dup-part", w(part("1", et)+part("1", et)), "descending", w(part("2", et)+part("1", et)), "unknown-high", w(part("1", et)+part("9999", et)),
			"11000-parts", w(strings.Repeat(part("1", et), 11000)), "two-numbers", w(`<Part><PartNumber>1</PartNumber><PartNumber>2</PartNumber><ETag>`+et+`</ETag></Part>`),
			"checksums-garbage", w(`<Part><PartNumber>1</PartNumber><ETag>`+et+`</ETag><ChecksumCRC32>zz</ChecksumCRC32><ChecksumSHA256>zz</ChecksumSHA256></Part>`),
			"checksum-crc64", w(`<Part><PartNumber>1</PartNumber><ETag>`+et+`</ETag><ChecksumCRC64NVME>AAAAAAAAAAA=</ChecksumCRC64NVME></Part>`),
			"no-namespace", `<CompleteMultipartUpload>`+part("1", et)+`</CompleteMultipartUpload>`, "long-etag", w(part("1", strings.Repeat("e", 5000))), "part-text", w(`<Part>1</Part>`),
		)
	case "PutBucketTagging", "PutObjectTagging":
		tag := func(k, v string) string { return `<Tag><Key>` + k + `</Key><Value>` + v + `</Value></Tag>` }
		w := func(tags string) string { return `<Tagging` + ns + `><TagSet>` + tags + `</TagSet></Tagging>` }
		return vs(
			"self-closed-root", `<Tagging/>`, "empty-root", `<Tagging`+ns+`></Tagging>`, "nil-tagset", `<Tagging`+ns+`><TagSet/></Tagging>`, "nil-tag", w(`<Tag/>`), "empty-key", w(tag("", "v")),
			"empty-value", w(tag("k", "")), "missing-value", w(`<Tag><Key>k</Key></Tag>`), "missing-key", w(`<Tag><Value>v</Value></Tag>`), "dup-keys", w(tag("k", "1")+tag("k", "2")),
			"key-129", w(tag(strings.Repeat("k", 129), "v")), "value-257", w(tag("k", strings.Repeat("v", 257))), "11-tags", w(strings.Repeat(tag("k", "v"), 11)), "51-tags", w(tagSeq(51)),
			"5000-tags", w(tagSeq(5000)), "two-tagsets", `<Tagging`+ns+`><TagSet>`+tag("a", "1")+`</TagSet><TagSet>`+tag("b", "2")+`</TagSet></Tagging>`,
			"aws-prefix", w(tag("aws:x", "y")), "invalid-utf8", w(tag("\xff", "\xfe")), "nul-entity", w(tag("a&#0;", "b")), "no-namespace", `<Tagging><TagSet>`+tag("a", "1")+`</TagSet></Tagging>`,
			"two-keys-in-tag", w(`<Tag><Key>a</Key><Key>b</Key><Value>v</Value></Tag>`), "tag-text", w(`<Tag>a=b</Tag>`), "special-chars", w(tag("a&amp;b&lt;", "&gt;&quot;")),
		)
	case "PutBucketVersioning":
		return vs(
			"self-closed-root", `<VersioningConfiguration/>`, "empty-root", `<VersioningConfiguration`+ns+`></VersioningConfiguration>`, "nil-status", `<VersioningConfiguration`+ns+`><Status/></VersioningConfiguration>`,
			"suspended", catalog.VersioningXML("Suspended"), "enabled", catalog.VersioningXML("Enabled"), "garbage-status", catalog.VersioningXML("Maybe"), "lower", catalog.VersioningXML("enabled"),
			"two-statuses", `<VersioningConfiguration`+ns+`><Status>Enabled</Status><Status>Suspended</Status></VersioningConfiguration>`,
			"mfa-only", `<VersioningConfiguration`+ns+`><MfaDelete>Enabled</MfaDelete></VersioningConfiguration>`, "mfa-and-status", `<VersioningConfiguration`+ns+`><Status>Enabled</Status><MfaDelete>Enabled</MfaDelete></VersioningConfiguration>`,
			"mfa-garbage", `<VersioningConfiguration`+ns+`><Status>Enabled</Status><MfaDelete>zz</MfaDelete></VersioningConfiguration>`, "long-status", catalog.VersioningXML(strings.Repeat("E", 5000)),
			"no-namespace", `<VersioningConfiguration><Status>Enabled</Status></VersioningConfiguration>`,
		)
	case "PutObjectLockConfiguration":
		w := func(in string) string {
			return `<ObjectLockConfiguration` + ns + `>` + in + `</ObjectLockConfiguration>`
		}
		dr := func(in string) string { return `<Rule><DefaultRetention>` + in + `</DefaultRetention></Rule>` }
		en := `<ObjectLockEnabled>Enabled</ObjectLockEnabled>`
		return vs(
			"self-closed-root", `<ObjectLockConfiguration/>`, "empty-root", w(""), "enabled-only", w(en), "nil-enabled", w(`<ObjectLockEnabled/>`), "garbage-enabled", w(`<ObjectLockEnabled>zz</ObjectLockEnabled>`),
			"disabled", w(`<ObjectLockEnabled>Disabled</ObjectLockEnabled>`), "nil-rule", w(en+`<Rule/>`), "rule-without-enabled", w(dr(`<Mode>GOVERNANCE</Mode><Days>1</Days>`)),
			"nil-default-retention", w(en+`<Rule><DefaultRetention/></Rule>`), "mode-only", w(en+dr(`<Mode>GOVERNANCE</Mode>`)), "days-only", w(en+dr(`<Days>1</Days>`)), "years-only", w(en+dr(`<Years>1</Years>`)),
			"days-and-years", w(en+dr(`<Mode>GOVERNANCE</Mode><Days>1</Days><Years>1</Years>`)), "days-0", w(en+dr(`<Mode>GOVERNANCE</Mode><Days>0</Days>`)), "days-neg", w(en+dr(`<Mode>GOVERNANCE</Mode><Days>-1</Days>`)),
			"days-2^31", w(en+dr(`<Mode>GOVERNANCE</Mode><Days>2147483648</Days>`)), "days-2^31-1", w(en+dr(`<Mode>GOVERNANCE</Mode><Days>2147483647</Days>`)), "years-2^31-1", w(en+dr(`<Mode>COMPLIANCE</Mode><Years>2147483647</Years>`)),
			"years-huge", w(en+dr(`<Mode>COMPLIANCE</Mode><Years>292277026596</Years>`)), "days-abc", w(en+dr(`<Mode>GOVERNANCE</Mode><Days>abc</Days>`)), "days-empty", w(en+dr(`<Mode>GOVERNANCE</Mode><Days/>`)),
			"days-1e9999", w(en+dr(`<Mode>GOVERNANCE</Mode><Days>1e9999</Days>`)), "mode-garbage", w(en+dr(`<Mode>zz</Mode><Days>1</Days>`)), "mode-empty", w(en+dr(`<Mode/><Days>1</Days>`)),
			"two-rules", w(en+dr(`<Mode>GOVERNANCE</Mode><Days>1</Days>`)+dr(`<Mode>COMPLIANCE</Mode><Days>2</Days>`)), "two-days", w(en+dr(`<Mode>GOVERNANCE</Mode><Days>1</Days><Days>2</Days>`)),
			"no-namespace", `<ObjectLockConfiguration>`+en+dr(`<Mode>GOVERNANCE</Mode><Days>1</Days>`)+`</ObjectLockConfiguration>`,
		)
	case "PutObjectLegalHold":
		return vs(
			"self-closed-root", `<LegalHold/>`, "empty-root", `<LegalHold`+ns+`></LegalHold>`, "nil-status", `<LegalHold`+ns+`><Status/></LegalHold>`, "on", catalog.LegalHoldXML("ON"), "off", catalog.LegalHoldXML("OFF"),
			"lower", catalog.LegalHoldXML("on"), "garbage", catalog.LegalHoldXML("MAYBE"), "bool", catalog.LegalHoldXML("true"), "two-statuses", `<LegalHold`+ns+`><Status>ON</Status><Status>OFF</Status></LegalHold>`,
			"long", catalog.LegalHoldXML(strings.Repeat("O", 5000)), "no-namespace", `<LegalHold><Status>ON</Status></LegalHold>`, "blank-padded", catalog.LegalHoldXML(" ON "),
		)
	case "PutObjectRetention":
		w := func(in string) string { return `<Retention` + ns + `>` + in + `</Retention>` }
		var out []val
		out = append(out, vs(
			"self-closed-root", `<Retention/>`, "empty-root", w(""), "mode-only", w(`<Mode>GOVERNANCE</Mode>`), "date-only", w(`<RetainUntilDate>`+catalog.FarFuture+`</RetainUntilDate>`),
			"nil-mode", w(`<Mode/><RetainUntilDate>`+catalog.FarFuture+`</RetainUntilDate>`), "nil-date", w(`<Mode>GOVERNANCE</Mode><RetainUntilDate/>`), "mode-garbage", catalog.RetentionXML("zz", catalog.FarFuture),
			"mode-lower", catalog.RetentionXML("governance", catalog.FarFuture), "compliance", catalog.RetentionXML("COMPLIANCE", catalog.FarFuture),
			"two-modes", w(`<Mode>GOVERNANCE</Mode><Mode>COMPLIANCE</Mode><RetainUntilDate>`+catalog.FarFuture+`</RetainUntilDate>`),
			"two-dates", w(`<Mode>GOVERNANCE</Mode><RetainUntilDate>`+catalog.FarFuture+`</RetainUntilDate><RetainUntilDate>2098-01-01T00:00:00Z</RetainUntilDate>`),
			"no-namespace", `<Retention><Mode>GOVERNANCE</Mode><RetainUntilDate>`+catalog.FarFuture+`</RetainUntilDate></Retention>`,
		)...)
		for _, d := range dateVals {
			out = append(out, val{class: "date-" + d.class, v: catalog.RetentionXML("GOVERNANCE", xmlText(d.v))})
		}
		return out
	case "PutBucketAcl", "PutObjectAcl":
		owner, grantee := a.Owner, a.Grantee
		if owner == "" {
			owner, grantee = rootAK, st.User.Access
		}
		w := func(in string) string { return `<AccessControlPolicy` + ns + `>` + in + `</AccessControlPolicy>` }
		own := `<Owner><ID>` + owner + `</ID></Owner>`
		gr := func(typ, id, perm string) string {
			return `<Grant><Grantee xmlns:xsi="http://www.w3.org/2001/XMLSchema-instance" xsi:type="` + typ + `"><ID>` + id + `</ID></Grantee><Permission>` + perm + `</Permission></Grant>`
		}
		acl := func(in string) string { return `<AccessControlList>` + in + `</AccessControlList>` }
		return vs(
			"self-closed-root", `<AccessControlPolicy/>`, "empty-root", w(""), "owner-only", w(own), "acl-only", w(acl(gr("CanonicalUser", grantee, "READ"))), "nil-owner", w(`<Owner/>`+acl(gr("CanonicalUser", grantee, "READ"))),
			"nil-owner-id", w(`<Owner><ID/></Owner>`+acl(gr("CanonicalUser", grantee, "READ"))), "wrong-owner", w(`<Owner><ID>nosuchaccount-c20</ID></Owner>`+acl(gr("CanonicalUser", grantee, "READ"))),
			"nil-acl", w(own+`<AccessControlList/>`), "nil-grant", w(own+acl(`<Grant/>`)), "missing-grantee", w(own+acl(`<Grant><Permission>READ</Permission></Grant>`)),
			"nil-grantee", w(own+acl(`<Grant><Grantee/><Permission>READ</Permission></Grant>`)), "missing-permission", w(own+acl(`<Grant><Grantee xmlns:xsi="http://www.w3.org/2001/XMLSchema-instance" xsi:type="CanonicalUser"><ID>`+grantee+`</ID></Grantee></Grant>`)),
			"grantee-without-type", w(own+acl(`<Grant><Grantee><ID>`+grantee+`</ID></Grantee><Permission>READ</Permission></Grant>`)), "garbage-type", w(own+acl(gr("Martian", grantee, "READ"))),
			"group-type", w(own+acl(`<Grant><Grantee xmlns:xsi="http://www.w3.org/2001/XMLSchema-instance" xsi:type="Group"><URI>http://acs.amazonaws.com/groups/global/AllUsers</URI></Grantee><Permission>READ</Permission></Grant>`)),
			"email-type", w(own+acl(`<Grant><Grantee xmlns:xsi="http://www.w3.org/2001/XMLSchema-instance" xsi:type="AmazonCustomerByEmail"><EmailAddress>a@b.c</EmailAddress></Grantee><Permission>READ</Permission></Grant>`)),
			"garbage-permission", w(own+acl(gr("CanonicalUser", grantee, "EVERYTHING"))), "empty-permission", w(own+acl(gr("CanonicalUser", grantee, ""))), "missing-grantee-account", w(own+acl(gr("CanonicalUser", "nosuchaccount-c20", "READ"))),
			"empty-grantee-id", w(own+acl(gr("CanonicalUser", "", "READ"))), "dup-grants", w(own+acl(gr("CanonicalUser", grantee, "READ")+gr("CanonicalUser", grantee, "READ"))),
			"all-permissions", w(own+acl(gr("CanonicalUser", grantee, "READ")+gr("CanonicalUser", grantee, "WRITE")+gr("CanonicalUser", grantee, "READ_ACP")+gr("CanonicalUser", grantee, "WRITE_ACP")+gr("CanonicalUser", grantee, "FULL_CONTROL"))),
			"3000-grants", w(own+acl(strings.Repeat(gr("CanonicalUser", grantee, "READ"), 3000))), "two-owners", w(own+own+acl(gr("CanonicalUser", grantee, "READ"))), "two-acls", w(own+acl(gr("CanonicalUser", grantee, "READ"))+acl(gr("CanonicalUser", grantee, "WRITE"))),
			"no-namespace", `<AccessControlPolicy>`+own+acl(gr("CanonicalUser", grantee, "READ"))+`</AccessControlPolicy>`, "valid", catalog.ACLXML(owner, grantee, "READ"),
		)
	case "PutBucketPolicy":
		b := a.Bucket
		p := st.User.Access
		stmt := func(in string) string { return `{"Version":"2012-10-17","Statement":[` + in + `]}` }
		one := func(principal, action, resource string) string {
			return `{"Effect":"Allow","Principal":` + principal + `,"Action":` + action + `,"Resource":` + resource + `}`
		}
		res := `"arn:aws:s3:::` + b + `/*"`
		return vs(
			"empty-object", `{}`, "null", `null`, "array", `[]`, "string", `"policy"`, "number", `1`, "true", `true`, "empty-statement-list", stmt(""), "statement-null", `{"Version":"2012-10-17","Statement":null}`,
			"statement-object", `{"Version":"2012-10-17","Statement":`+one(`"*"`, `"s3:GetObject"`, res)+`}`, "statement-string", `{"Statement":"x"}`, "statement-number", `{"Statement":1}`, "null-statement-member", stmt(`null`),
			"empty-statement", stmt(`{}`), "principal-null", stmt(one(`null`, `"s3:GetObject"`, res)), "principal-number", stmt(one(`1`, `"s3:GetObject"`, res)), "principal-empty-object", stmt(one(`{}`, `"s3:GetObject"`, res)),
			"principal-aws-null", stmt(one(`{"AWS":null}`, `"s3:GetObject"`, res)), "principal-aws-number", stmt(one(`{"AWS":1}`, `"s3:GetObject"`, res)), "principal-aws-empty-list", stmt(one(`{"AWS":[]}`, `"s3:GetObject"`, res)),
			"principal-aws-nested", stmt(one(`{"AWS":[["`+p+`"]]}`, `"s3:GetObject"`, res)), "principal-empty-list", stmt(one(`[]`, `"s3:GetObject"`, res)), "principal-star", stmt(one(`"*"`, `"s3:GetObject"`, res)),
			"principal-missing-account", stmt(one(`{"AWS":["nosuchaccount-c20"]}`, `"s3:GetObject"`, res)), "action-null", stmt(one(`"*"`, `null`, res)), "action-number", stmt(one(`"*"`, `1`, res)),
			"action-empty-list", stmt(one(`"*"`, `[]`, res)), "action-empty", stmt(one(`"*"`, `""`, res)), "action-garbage", stmt(one(`"*"`, `"s3:Fly"`, res)), "action-star", stmt(one(`"*"`, `"*"`, res)), "action-s3-star", stmt(one(`"*"`, `"s3:*"`, res)),
			"action-object", stmt(one(`"*"`, `{"a":1}`, res)), "action-nested-list", stmt(one(`"*"`, `[["s3:GetObject"]]`, res)), "resource-null", stmt(one(`"*"`, `"s3:GetObject"`, `null`)), "resource-number", stmt(one(`"*"`, `"s3:GetObject"`, `1`)),
			"resource-empty", stmt(one(`"*"`, `"s3:GetObject"`, `""`)), "resource-empty-list", stmt(one(`"*"`, `"s3:GetObject"`, `[]`)), "resource-no-arn", stmt(one(`"*"`, `"s3:GetObject"`, `"`+b+`/*"`)),
			"resource-arn-prefix-only", stmt(one(`"*"`, `"s3:GetObject"`, `"arn:aws:s3:::"`)), "resource-short-arn", stmt(one(`"*"`, `"s3:GetObject"`, `"arn:aws:s3"`)), "resource-star", stmt(one(`"*"`, `"s3:GetObject"`, `"*"`)),
			"resource-other-bucket", stmt(one(`"*"`, `"s3:GetObject"`, `"arn:aws:s3:::`+st.Vers+`x/*"`)), "resource-bucket-for-object-action", stmt(one(`"*"`, `"s3:GetObject"`, `"arn:aws:s3:::`+b+`"`)),
			"resource-slash-only", stmt(one(`"*"`, `"s3:GetObject"`, `"arn:aws:s3:::/"`)), "effect-missing", stmt(`{"Principal":"*","Action":"s3:GetObject","Resource":`+res+`}`), "effect-garbage", stmt(`{"Effect":"Maybe","Principal":"*","Action":"s3:GetObject","Resource":`+res+`}`),
			"effect-number", stmt(`{"Effect":1,"Principal":"*","Action":"s3:GetObject","Resource":`+res+`}`), "deny", stmt(`{"Effect":"Deny","Principal":"*","Action":"s3:GetObject","Resource":`+res+`}`),
			"condition", stmt(`{"Effect":"Allow","Principal":"*","Action":"s3:GetObject","Resource":`+res+`,"Condition":{"StringEquals":{"a":"b"}}}`), "not-principal", stmt(`{"Effect":"Allow","NotPrincipal":"*","Action":"s3:GetObject","Resource":`+res+`}`),
			"dup-members", stmt(`{"Effect":"Allow","Effect":"Deny","Principal":"*","Principal":null,"Action":"s3:GetObject","Resource":`+res+`}`), "5000-statements", stmt(strings.TrimSuffix(strings.Repeat(one(`"*"`, `"s3:GetObject"`, res)+",", 5000), ",")),
			"deep-nesting", strings.Repeat("[", 20000)+strings.Repeat("]", 20000), "deep-objects", strings.Repeat(`{"a":`, 20000)+"1"+strings.Repeat("}", 20000), "trailing-comma", `{"Version":"2012-10-17","Statement":[],}`,
			"truncated", `{"Version":"2012-10-17","Statement":[{"Effect":"Allow"`, "invalid-utf8", "{\"Version\":\"\xff\xfe\",\"Statement\":[]}", "bom", "\xef\xbb\xbf"+catalog.PolicyJSON("x", p, b), "nul", "{\"Statement\":[\x00]}",
			"huge-number", `{"Statement":[{"Effect":1e9999}]}`, "xml-instead", `<Policy/>`, "unicode-escapes", `{"Statement":[{"Effect":"\ud800","Principal":"\u0000","Action":"s3:GetObject","Resource":`+res+`}]}`,
			"version-only", `{"Version":"2012-10-17"}`, "id-and-sid-types", `{"Id":1,"Version":2,"Statement":[{"Sid":[],"Effect":"Allow","Principal":"*","Action":"s3:GetObject","Resource":`+res+`}]}`,
		)
	case "PutBucketCors":
		return vs("self-closed-root", `<CORSConfiguration/>`, "nil-rule", `<CORSConfiguration`+ns+`><CORSRule/></CORSConfiguration>`, "garbage-method", `<CORSConfiguration`+ns+`><CORSRule><AllowedMethod>FLY</AllowedMethod><AllowedOrigin>*</AllowedOrigin></CORSRule></CORSConfiguration>`,
			"max-age-abc", `<CORSConfiguration`+ns+`><CORSRule><AllowedMethod>GET</AllowedMethod><AllowedOrigin>*</AllowedOrigin><MaxAgeSeconds>abc</MaxAgeSeconds></CORSRule></CORSConfiguration>`)
	case "RestoreObject":
		return vs("self-closed-root", `<RestoreRequest/>`, "days-abc", `<RestoreRequest`+ns+`><Days>abc</Days></RestoreRequest>`, "days-neg", `<RestoreRequest`+ns+`><Days>-1</Days></RestoreRequest>`, "days-2^31", `<RestoreRequest`+ns+`><Days>2147483648</Days></RestoreRequest>`,
			"nil-members", `<RestoreRequest`+ns+`><Days/><GlacierJobParameters/><Type/><Tier/><OutputLocation/><SelectParameters/></RestoreRequest>`,
			"output-location", `<RestoreRequest`+ns+`><OutputLocation><S3><BucketName>x</BucketName><Prefix>y</Prefix></S3></OutputLocation></RestoreRequest>`)
	case "SelectObjectContent":
		w := func(in string) string {
			return `<SelectObjectContentRequest` + ns + `>` + in + `</SelectObjectContentRequest>`
		}
		return vs("self-closed-root", `<SelectObjectContentRequest/>`, "empty-root", w(""), "expression-only", w(`<Expression>select 1</Expression>`), "nil-members", w(`<Expression/><ExpressionType/><InputSerialization/><OutputSerialization/><RequestProgress/><ScanRange/>`),
			"scan-range-garbage", w(`<Expression>select * from s3object</Expression><ExpressionType>SQL</ExpressionType><InputSerialization><CSV/></InputSerialization><OutputSerialization><CSV/></OutputSerialization><ScanRange><Start>abc</Start><End>-1</End></ScanRange>`),
			"progress-garbage", w(`<Expression>select * from s3object</Expression><ExpressionType>SQL</ExpressionType><RequestProgress><Enabled>zz</Enabled></RequestProgress>`),
			"no-serialization", w(`<Expression>select * from s3object</Expression><ExpressionType>SQL</ExpressionType>`), "json-io", w(`<Expression>select * from s3object</Expression><ExpressionType>SQL</ExpressionType><InputSerialization><JSON><Type>zz</Type></JSON></InputSerialization><OutputSerialization><JSON/></OutputSerialization>`))
	case "CreateBucket":
		return vs("self-closed-root", `<CreateBucketConfiguration/>`, "location", `<CreateBucketConfiguration`+ns+`><LocationConstraint>mars-1</LocationConstraint></CreateBucketConfiguration>`,
			"nil-members", `<CreateBucketConfiguration`+ns+`><LocationConstraint/><Location/><Bucket/></CreateBucketConfiguration>`, "garbage", `not xml`)
	case "CreateUser":
		acc := func(in string) string { return `<Account>` + in + `</Account>` }
		full := func(access, secret, role, uid, gid string) string {
			return acc(`<Access>` + access + `</Access><Secret>` + secret + `</Secret><Role>` + role + `</Role><UserID>` + uid + `</UserID><GroupID>` + gid + `</GroupID>`)
		}
		return vs("self-closed-root", `<Account/>`, "empty-root", acc(""), "nil-members", acc(`<Access/><Secret/><Role/><UserID/><GroupID/>`), "access-only", acc(`<Access>c20-acc-only</Access>`),
			"no-role", acc(`<Access>c20-norole</Access><Secret>c20secret</Secret>`), "role-garbage", full("c20-rolegarbage", "s", "king", "0", "0"), "role-empty", full("c20-roleempty", "s", "", "0", "0"), "role-admin", full("c20-newadmin", "c20secret", "admin", "0", "0"),
			"uid-abc", full("c20-uidabc", "s", "user", "abc", "0"), "uid-neg", full("c20-uidneg", "s", "user", "-1", "-1"), "uid-2^31", full("c20-uid31", "s", "user", "2147483648", "2147483648"), "uid-2^63", full("c20-uid63", "s", "user", "9223372036854775808", "0"),
			"uid-empty", full("c20-uidempty", "s", "user", "", ""), "uid-float", full("c20-uidfloat", "s", "user", "1.5", "1e3"), "existing-access", full(st.User.Access, "other", "user", "0", "0"), "root-access", full(rootAK, "other", "admin", "0", "0"),
			"empty-access", full("", "s", "user", "0", "0"), "empty-secret", full("c20-emptysecret", "", "user", "0", "0"), "slash-access", full("c20/../x", "s", "user", "0", "0"), "long-access", full(strings.Repeat("a", 5000), "s", "user", "0", "0"),
			"invalid-utf8", full("\xff\xfe", "\xfd", "user", "0", "0"), "two-access", acc(`<Access>c20-a</Access><Access>c20-b</Access><Secret>s</Secret><Role>user</Role>`), "json-instead", `{"access":"c20-json","secret":"s","role":"user"}`,
			"wrong-root", `<User><Access>c20-wrongroot</Access><Secret>s</Secret><Role>user</Role></User>`, "valid", full("c20-valid-user", "c20validsecret", "user", "1000", "1000"), "newline-access", full("c20\nnl", "s", "user", "0", "0"),
		)
	case "UpdateUser":
		w := func(in string) string { return `<MutableProps>` + in + `</MutableProps>` }
		return vs("self-closed-root", `<MutableProps/>`, "empty-root", w(""), "nil-members", w(`<Secret/><UserID/><GroupID/><Role/>`), "secret-only", w(`<Secret>c20newsecret</Secret>`), "uid-abc", w(`<UserID>abc</UserID>`), "uid-neg", w(`<UserID>-1</UserID><GroupID>-1</GroupID>`),
			"uid-2^31", w(`<UserID>2147483648</UserID>`), "uid-2^63", w(`<GroupID>9223372036854775808</GroupID>`), "role-garbage", w(`<Role>king</Role>`), "role-empty", w(`<Role></Role>`), "role-admin", w(`<Role>admin</Role>`),
			"empty-secret", w(`<Secret></Secret>`), "two-secrets", w(`<Secret>a</Secret><Secret>b</Secret>`), "wrong-root", `<Account><Secret>x</Secret></Account>`, "json-instead", `{"secret":"x"}`, "long-secret", w(`<Secret>`+strings.Repeat("s", 100000)+`</Secret>`),
		)
	}
	return nil
}

func tagSeq(n int) string {
	var sb strings.Builder
	for i := 0; i < n; i++ {
		fmt.Fprintf(&sb, "<Tag><Key>k%d</Key><Value>v%d</Value></Tag>", i, i)
	}
	return sb.String()
}

func xmlText(s string) string {
	r := strings.NewReplacer("&", "&amp;", "<", "&lt;", ">", "&gt;")
	return r.Replace(s)
}

// genericBodies are document-independent malformations; `valid` is the
// well-formed body of the endpoint (may be empty).
var genericStatic []val

func genericBodies(valid []byte) []val {
	v := string(valid)
	if genericStatic == nil {
		genericStatic = genericStaticBodies()
	}
	out := append([]val{}, genericStatic...)
	out = append(out, val{class: "utf8-bom", v: "\xef\xbb\xbf" + v})
	if len(valid) > 0 {
		out = append(out, val{class: "valid-twice", v: v + v}, val{class: "valid-with-trailing-garbage", v: v + "garbage"}, val{class: "valid-with-leading-garbage", v: "garbage" + v}, val{class: "valid-wrong-root", v: swapRoot(v)},
			val{class: "valid-upper", v: strings.ToUpper(v)}, val{class: "valid-1MiB-padded", lazy: func() string { return v + strings.Repeat(" ", 1<<20) }})
		// cut anywhere
		for _, f := range []int{1, 2, 3, 4, 5, 6, 7} {
			n := len(v) * f / 8
			out = append(out, val{class: fmt.Sprintf("valid-cut-%d/8", f), v: v[:n]})
		}
		out = append(out, val{class: "valid-cut-last-byte", v: v[:len(v)-1]})
	}
	return out
}

func genericStaticBodies() []val {
	out := vs(
		"empty", "", "blank", " \n\t ", "lt", "<", "open-tag", "<a>", "close-tag", "</a>", "self-closed-unknown", "<Unknown/>", "text-only", "just text", "comment-only", "<!-- x -->", "pi-only", `<?xml version="1.0"?>`,
		"decl-latin1", `<?xml version="1.0" encoding="ISO-8859-1"?><a>é</a>`, "decl-utf16", `<?xml version="1.0" encoding="UTF-16"?><a/>`, "decl-version-9", `<?xml version="9.9"?><a/>`, "utf16-bom", "\xff\xfe<\x00a\x00/\x00>\x00",
		"doctype-entities", `<?xml version="1.0"?><!DOCTYPE l [<!ENTITY a "aaaaaaaaaa"><!ENTITY b "&a;&a;&a;&a;&a;&a;&a;&a;"><!ENTITY c "&b;&b;&b;&b;&b;&b;&b;&b;">]><l>&c;&c;&c;</l>`,
		"external-entity", `<?xml version="1.0"?><!DOCTYPE a [<!ENTITY x SYSTEM "file:///etc/passwd">]><a>&x;</a>`, "unknown-entity", `<a>&nosuch;</a>`, "cdata", `<a><![CDATA[<b>]]></a>`, "unclosed-cdata", `<a><![CDATA[`,
		"nul-bytes", "<a>\x00\x00</a>", "invalid-utf8", "<a>\xff\xfe\xfd</a>", "invalid-utf8-in-tag", "<\xff\xfe/>", "control-chars", "<a>\x01\x02\x1f</a>", "char-ref-huge", "<a>&#99999999999999999999;</a>", "char-ref-surrogate", "<a>&#xD800;</a>",
		"dup-attributes", `<a x="1" x="2"/>`, "ns-undeclared", `<x:a><x:b/></x:a>`, "ns-garbage", `<a xmlns=""><b xmlns:="x"/></a>`, "attr-unquoted", `<a x=1/>`, "mismatched-close", `<a><b></a></b>`,
		"two-roots", `<a/><b/>`, "deep-10000", strings.Repeat("<a>", 10000)+strings.Repeat("</a>", 10000), "deep-100000-unclosed", strings.Repeat("<a>", 100000), "wide-100000", "<r>"+strings.Repeat("<a/>", 100000)+"</r>",
		"long-text-1MiB", "<a>"+strings.Repeat("t", 1<<20)+"</a>", "long-tag-100k", "<"+strings.Repeat("a", 100000)+"/>", "long-attr-100k", `<a x="`+strings.Repeat("v", 100000)+`"/>`, "json-object", `{"a":1}`, "json-array", `[1,2]`,
		"binary", "\x00\x01\x02\x03\xfc\xfd\xfe\xff\x7f\x80", "form-encoded", "a=b&c=d", "newlines", "\r\n\r\n", "gt-only", ">", "amp-only", "&", "html", "<html><body>x</body></html>", "zip-magic", "PK\x03\x04", "1MiB-zero", strings.Repeat("\x00", 1<<20),
	)
	return out
}

func swapRoot(v string) string {
	if !strings.HasPrefix(v, "<") {
		return `<Other>` + v + `</Other>`
	}
	i := strings.IndexAny(v, " >/")
	if i < 0 {
		return v
	}
	name := v[1:i]
	return strings.ReplaceAll(v, name, "Other"+name)
}
