package c20

import (
	"strings"
)

// A val is one replacement value for a field together with its class name (the
// class name is part of the case class and of mem/wedge signatures, never of a
// panic signature).
type val struct {
	class string
	v     string
	lazy  func() string // big values are produced when the case is built
}

func (v val) get() string {
	if v.lazy != nil {
		return v.lazy()
	}
	return v.v
}

func vs(kv ...string) []val {
	var out []val
	for i := 0; i+1 < len(kv); i += 2 {
		out = append(out, val{class: kv[i], v: kv[i+1]})
	}
	return out
}

// numeric parameters: the list of DESIGN.md C20 plus a few neighbours
var numVals = vs(
	"-1", "-1", "0", "0", "1", "1", "2", "2", "2^31-1", "2147483647", "2^31", "2147483648", "2^32", "4294967296",
	"2^63-1", "9223372036854775807", "2^63", "9223372036854775808", "2^64", "18446744073709551616", "1e9999", "1e9999",
	"empty", "", "abc", "abc", "lead-blank", " 1", "trail-blank", "1 ", "plus", "+1", "hex", "0x10", "float", "1.5",
	"neg-zero", "-0", "1000", "1000", "1001", "1001", "10000", "10000", "10001", "10001", "arabic-digit", "١",
	"fullwidth", "１", "40-digits", strings.Repeat("9", 40), "neg-huge", "-9223372036854775809", "nan", "NaN",
	"nul", "1\x00", "leading-zeros", "0000000000000000000000000000001", "comma", "1,2", "underscore", "1_000",
)

func strVals(x *world) []val {
	return vs(
		"empty", "", "blank", " ", "slash", "/", "two-slashes", "//", "dot", ".", "dotdot", "..", "dotdot-path", "../../../etc/passwd",
		"seed-prefix", "cnry", "seed-key", x.st.Obj.Key, "seed-nested", x.st.Nested.Key, "seed-dir", x.st.Dir.Key, "nested-prefix", "d/e/", "nested-half", "d/e",
		"before-first", "!", "after-last", "zzzz", "upper-bound", "\U0010ffff", "invalid-utf8", "\xff\xfe\xfd", "lone-continuation", "a\x80b",
		"percent", "%", "percent-zz", "%zz", "nul", "a\x00b", "newline", "a\nb", "crlf", "a\r\nb", "amp", "a&b=c", "eq", "=", "question", "?", "hash", "#",
		"plus", "a+b", "unicode", "é中\U0001f600", "long-300", strings.Repeat("k", 300), "long-1100", strings.Repeat("m", 1100),
		"long-3000", strings.Repeat("n", 3000), "segment-256", strings.Repeat("s", 256), "deep-path", strings.Repeat("a/", 200), "tmpdir", ".sgwtmp", "tmpdir-slash", ".sgwtmp/",
		"xml-meta", "<a>&amp;]]>", "quote", "\"'", "backslash", "\\", "tab", "\t", "one-char", "a",
	)
}

func versionIDVals(x *world) []val {
	v1, v2 := x.st.V1.VersionID, x.st.V2.VersionID
	return vs(
		"empty", "", "null", "null", "valid-v1", v1, "valid-v2", v2, "delete-marker", x.st.MarkerVersionID, "truncated", v1[:len(v1)-1],
		"extended", v1+"x", "zero", "0", "minus-one", "-1", "dot", ".", "dotdot", "..", "traversal", "../../"+x.st.Plain+"/"+x.st.Obj.Key, "slash", "a/b", "abs-path", "/etc/passwd",
		"long-300", strings.Repeat("v", 300), "long-3000", strings.Repeat("w", 3000), "invalid-utf8", "\xff\xfe", "nul", "a\x00", "blank", " ",
		"ulid-like", "01ARZ3NDEKTSV4RRFFQ69G5FAV", "uuid-like", "123e4567-e89b-12d3-a456-426614174000", "upper", strings.ToUpper(v1), "lower", strings.ToLower(v1),
		"percent", "%", "question", "?versionId=x", "tmpdir", ".sgwtmp", "newline", "a\nb",
	)
}

func uploadIDVals(x *world) []val {
	u := x.st.UploadID
	return vs(
		"empty", "", "valid", u, "other-key-upload", x.ext.UploadA1, "same-key-second-upload", x.ext.UploadA2, "truncated", u[:len(u)-1], "extended", u+"x",
		"zero", "0", "minus-one", "-1", "dot", ".", "dotdot", "..", "traversal", "../../../"+x.st.Plain, "slash", "a/b", "abs-path", "/etc/passwd",
		"long-300", strings.Repeat("u", 300), "long-3000", strings.Repeat("x", 3000), "invalid-utf8", "\xff\xfe", "nul", "a\x00", "blank", " ",
		"uuid-like", "123e4567-e89b-12d3-a456-426614174000", "upper", strings.ToUpper(u), "percent", "%", "null", "null", "newline", "a\nb", "tmpdir", ".sgwtmp",
	)
}

var boolVals = vs("true", "true", "false", "false", "TRUE", "TRUE", "True", "True", "one", "1", "zero", "0", "empty", "", "yes", "yes", "two", "2", "blank", " ", "long", strings.Repeat("t", 2000))

var dateVals = vs(
	"empty", "", "zero", "0", "minus-one", "-1", "far-future", "2099-01-01T00:00:00Z", "epoch", "1970-01-01T00:00:00Z", "year-0", "0000-01-01T00:00:00Z",
	"all-zero", "0000-00-00T00:00:00Z", "year-9999", "9999-12-31T23:59:59Z", "year-99999", "99999-01-01T00:00:00Z", "rfc1123", "Mon, 02 Jan 2006 15:04:05 GMT",
	"rfc1123-future", "Thu, 01 Jan 2099 00:00:00 GMT", "abc", "abc", "bad-fields", "2099-13-45T99:99:99Z", "1e9999", "1e9999", "true", "true", "unix", "4070908800",
	"no-zone", "2099-01-01T00:00:00", "offset", "2099-01-01T00:00:00+14:00", "nanos", "2099-01-01T00:00:00.999999999Z", "date-only", "2099-01-01",
	"amz-basic", "20990101T000000Z", "neg-year", "-2099-01-01T00:00:00Z", "long", strings.Repeat("2", 3000), "past", "2001-01-01T00:00:00Z",
)

// Range junk (the list of C13 plus oversize values)
var rangeVals = vs(
	"empty", "", "blank", " ", "abc", "abc", "dash", "-", "bytes", "bytes", "bytes-eq", "bytes=", "bytes-dash", "bytes=-", "suffix-0", "bytes=-0", "suffix-1", "bytes=-1",
	"first-only", "bytes=0-", "0-0", "bytes=0-0", "reversed", "bytes=5-2", "beyond", "bytes=100000-", "beyond-closed", "bytes=100000-100001", "multi", "bytes=0-1,2-3",
	"double-dash", "bytes=1--2", "three", "bytes=1-2-3", "two-eq", "bytes==1-2", "other-unit", "bits=0-1", "upper", "BYTES=0-1", "lead-blank", " bytes=0-1",
	"inner-blank", "bytes= 0 - 1", "plus", "bytes=+0-+1", "2^63-1-open", "bytes=9223372036854775807-", "2^63-open", "bytes=9223372036854775808-",
	"to-2^63-1", "bytes=0-9223372036854775807", "to-2^63", "bytes=0-9223372036854775808", "huge-first", "bytes=99999999999999999999-", "huge-suffix", "bytes=-99999999999999999999",
	"neg-suffix", "bytes=--9223372036854775808", "2^64", "bytes=18446744073709551615-18446744073709551616", "float", "bytes=1.0-2", "letters", "bytes=a-b",
	"arabic", "bytes=١-٢", "comma-only", "bytes=,", "long", "bytes=0-"+strings.Repeat("9", 3000), "nul", "bytes=0-1\x00", "1e9", "bytes=0-1e9",
)

func copySourceVals(x *world) []val {
	b, k := x.st.Plain, x.st.Obj.Key
	vb, vk, v1 := x.st.Vers, x.st.V1.Key, x.st.V1.VersionID
	return vs(
		"slash-only", "/", "two-slashes", "//", "three-slashes", "///", "bucket-only", b, "bucket-slash", b+"/", "slash-bucket", "/"+b, "slash-bucket-slash", "/"+b+"/",
		"valid", b+"/"+k, "valid-leading-slash", "/"+b+"/"+k, "encoded-slash", b+"%2F"+k, "fully-encoded", "%2F"+b+"%2F"+k,
		"version-empty", b+"/"+k+"?versionId=", "version-garbage", b+"/"+k+"?versionId=garbage", "version-traversal", b+"/"+k+"?versionId=../../x",
		"version-null", b+"/"+k+"?versionId=null", "version-valid", vb+"/"+vk+"?versionId="+v1, "version-twice", vb+"/"+vk+"?versionId="+v1+"?versionId=zz",
		"version-marker", vb+"/"+x.st.Gone.Key+"?versionId="+x.st.MarkerVersionID, "version-only", "?versionId=x", "bucket-version", b+"?versionId=x",
		"version-long", b+"/"+k+"?versionId="+strings.Repeat("v", 3000), "other-query", b+"/"+k+"?foo=bar", "question-only", b+"/"+k+"?",
		"percent", "%", "percent-zz", "%zz", "percent-trunc", b+"/"+k+"%2", "encoded-nul", b+"/"+k+"%00", "plus", b+"/a+b", "missing-bucket", "nosuchbucket-c20/"+k,
		"missing-key", b+"/nosuchkey-c20", "dir-object", b+"/"+x.st.Dir.Key, "nested", b+"/"+x.st.Nested.Key, "dotdot", b+"/../"+vb+"/"+vk, "dotdot-lead", "../"+b+"/"+k,
		"dot", b+"/.", "bucket-dotdot", b+"/..", "key-slash-slash", b+"//", "tmpdir", b+"/.sgwtmp", "long-key", b+"/"+strings.Repeat("k", 3000), "long-bucket", strings.Repeat("b", 3000)+"/k",
		"invalid-utf8", b+"/\xff\xfe", "blank", " ", "blank-inside", b+"/ "+k, "arn", "arn:aws:s3:::"+b+"/"+k, "url", "http://127.0.0.1/"+b+"/"+k, "self-mpu", b+"/"+x.st.MPUKey,
		"one-char", "a", "short-bucket", "a/b", "upper-bucket", strings.ToUpper(b)+"/"+k, "backslash", b+"\\"+k, "semicolon", b+"/"+k+";versionId=x",
	)
}

var taggingVals = vs(
	"empty", "", "key-only", "a", "dup-key", "a=b&a=c", "eq", "=", "amp", "&", "two-eq", "a=b=c", "key-129", strings.Repeat("k", 129)+"=v", "value-257", "k="+strings.Repeat("v", 257),
	"eleven", "a=1&b=2&c=3&d=4&e=5&f=6&g=7&h=8&i=9&j=10&k=11", "bad-escape-key", "%zz=1", "bad-escape-value", "a=%", "invalid-utf8", "\xff=\xfe", "trailing-amp", "a=b&",
	"leading-amp", "&a=b", "semicolon", "a=b;c=d", "plus", "a+b=c+d", "encoded", "a%20b=c%26d", "long", strings.Repeat("a=b&", 700), "aws-prefix", "aws:x=y", "blank", " ", "xml", "<a>=<b>",
)

func grantVals(x *world) []val {
	return vs(
		"empty", "", "id-empty", "id=", "id-missing-account", "id=nosuchaccount-c20", "id-user", "id="+x.st.User.Access, "id-quoted", "id=\""+x.st.User.Access+"\"",
		"all-users-uri", "uri=http://acs.amazonaws.com/groups/global/AllUsers", "email", "emailAddress=a@b.c", "garbage", "garbage", "two-ids", "id="+x.st.User.Access+",id="+x.st.UserPlus.Access,
		"comma", ",", "id-no-eq", "id", "two-eq", "id=a=b", "trailing-comma", "id="+x.st.User.Access+",", "blank", " ", "long", "id="+strings.Repeat("u", 3000), "many", strings.Repeat("id=a,", 600),
	)
}

var aclVals = vs("private", "private", "public-read", "public-read", "public-read-write", "public-read-write", "authenticated-read", "authenticated-read",
	"bucket-owner-full-control", "bucket-owner-full-control", "empty", "", "garbage", "garbage", "upper", "PRIVATE", "blank", " ", "long", strings.Repeat("p", 3000), "list", "private,public-read")

func enumVals(valid ...string) []val {
	out := vs("empty", "", "garbage", "garbage-c20", "blank", " ", "long", strings.Repeat("e", 3000), "number", "1", "bool", "true", "nul", "a\x00b", "comma-list", strings.Join(valid, ","))
	for _, v := range valid {
		out = append(out, val{class: "valid-" + v, v: v}, val{class: "lower-" + v, v: strings.ToLower(v)})
	}
	if len(valid) > 0 {
		out = append(out, val{class: "upper", v: strings.ToUpper(valid[0])}, val{class: "padded", v: " " + valid[0] + " "})
	}
	return out
}

var md5Vals = vs("empty", "", "abc", "abc", "not-base64", "!!!!", "wrong-digest", "AAAAAAAAAAAAAAAAAAAAAA==", "empty-body-digest", "1B2M2Y8AsgTpgAmY7PhCfg==", "hex", "d41d8cd98f00b204e9800998ecf8427e",
	"short", "AAAA", "long", strings.Repeat("A", 3000), "no-padding", "AAAAAAAAAAAAAAAAAAAAAA", "blank", " ")

var shaVals = vs("empty", "", "unsigned", "UNSIGNED-PAYLOAD", "stream-signed", "STREAMING-AWS4-HMAC-SHA256-PAYLOAD", "stream-signed-trailer", "STREAMING-AWS4-HMAC-SHA256-PAYLOAD-TRAILER",
	"stream-unsigned-trailer", "STREAMING-UNSIGNED-PAYLOAD-TRAILER", "stream-ecdsa", "STREAMING-AWS4-ECDSA-P256-SHA256-PAYLOAD", "stream-unsigned-no-trailer", "STREAMING-UNSIGNED-PAYLOAD",
	"zz", "zz", "zeros", strings.Repeat("0", 64), "empty-hash", "e3b0c44298fc1c149afbf4c8996fb92427ae41e4649b934ca495991b7852b855", "upper-hex", strings.Repeat("A", 64),
	"short-hex", "abcd", "long", strings.Repeat("a", 3000), "lower-unsigned", "unsigned-payload", "blank", " ")

var checksumValueVals = vs("empty", "", "abc", "abc", "not-base64", "!!!!", "wrong-crc32", "AAAAAA==", "wrong-sha256", "AAAAAAAAAAAAAAAAAAAAAAAAAAAAAAAAAAAAAAAAAAA=", "wrong-sha1", "AAAAAAAAAAAAAAAAAAAAAAAAAAA=",
	"wrong-crc64", "AAAAAAAAAAA=", "long", strings.Repeat("A", 3000), "blank", " ", "composite", "AAAAAA==-2")

var etagVals = vs("empty", "", "star", "*", "quoted-garbage", "\"garbage\"", "unquoted", "d41d8cd98f00b204e9800998ecf8427e", "quoted-md5", "\"d41d8cd98f00b204e9800998ecf8427e\"", "weak", "W/\"x\"",
	"list", "\"a\", \"b\"", "lone-quote", "\"", "long", strings.Repeat("e", 3000), "blank", " ")

var attrVals = vs("empty", "", "etag", "ETag", "all", "ETag,Checksum,ObjectParts,StorageClass,ObjectSize", "garbage", "garbage", "lower", "etag", "comma", ",", "dup", "ETag,ETag", "blank", " ",
	"trailing-comma", "ETag,", "parts-only", "ObjectParts", "long", strings.Repeat("ETag,", 600), "spaces", "ETag, ObjectSize",
	"empty-element", "ETag,,ObjectSize", "leading-comma", ",ETag", "blank-element", "ETag, ,ObjectSize", "commas-only", ",,,", "tab-element", "ETag,\t,ObjectSize", "semicolon-list", "ETag;ObjectSize")

// sizes for "oversized" values of any header / query parameter
var oversize = []int{1000, 3000, 4000, 5000, 8192, 65536}

// chunk size tokens (hex field of an aws-chunked chunk header)
var chunkSizeVals = vs("-1", "-1", "0", "0", "7fffffff", "7fffffff", "2^63-1", "7fffffffffffffff", "zz", "zz", "empty", "", "80000000", "80000000", "ffffffff", "ffffffff",
	"2^32", "100000000", "2^40", "10000000000", "2^63", "8000000000000000", "2^64-1", "ffffffffffffffff", "2^64", "10000000000000000", "-0", "-0", "neg-2^63", "-8000000000000000",
	"plus", "+5", "0x", "0x5", "lead-blank", " 5", "trail-blank", "5 ", "leading-zeros", "0000000000000000000000000000005", "upper", "A", "one-more", "@+1", "dot", "5.0",
	"40-f", strings.Repeat("f", 40), "long", strings.Repeat("1", 5000), "bigger-than-rest", "400", "one-less", "@-1")

// malformed Authorization header values (pre-authentication surface)
func authHeaderVals(x *world) []val {
	good := "AWS4-HMAC-SHA256 Credential=" + rootAK + "/20990101/us-east-1/s3/aws4_request, SignedHeaders=host;x-amz-content-sha256;x-amz-date, Signature=" + strings.Repeat("0", 64)
	return vs(
		"algo-only", "AWS4-HMAC-SHA256", "algo-blank", "AWS4-HMAC-SHA256 ", "blank", " ", "cred-empty", "AWS4-HMAC-SHA256 Credential=, SignedHeaders=host, Signature=00",
		"cred-4-parts", "AWS4-HMAC-SHA256 Credential="+rootAK+"/20990101/us-east-1/s3, SignedHeaders=host, Signature=00",
		"cred-6-parts", "AWS4-HMAC-SHA256 Credential="+rootAK+"/20990101/us-east-1/s3/aws4_request/x, SignedHeaders=host, Signature=00",
		"cred-slashes", "AWS4-HMAC-SHA256 Credential=////, SignedHeaders=host, Signature=00", "cred-short-date", "AWS4-HMAC-SHA256 Credential="+rootAK+"/2099/us-east-1/s3/aws4_request, SignedHeaders=host, Signature=00",
		"cred-bad-date", "AWS4-HMAC-SHA256 Credential="+rootAK+"/99999999/us-east-1/s3/aws4_request, SignedHeaders=host, Signature=00",
		"cred-empty-region", "AWS4-HMAC-SHA256 Credential="+rootAK+"/20990101//s3/aws4_request, SignedHeaders=host, Signature=00",
		"cred-empty-access", "AWS4-HMAC-SHA256 Credential=/20990101/us-east-1/s3/aws4_request, SignedHeaders=host, Signature=00",
		"no-signed-headers", "AWS4-HMAC-SHA256 Credential="+rootAK+"/20990101/us-east-1/s3/aws4_request, Signature=00",
		"no-signature", "AWS4-HMAC-SHA256 Credential="+rootAK+"/20990101/us-east-1/s3/aws4_request, SignedHeaders=host",
		"empty-signed-headers", "AWS4-HMAC-SHA256 Credential="+rootAK+"/20990101/us-east-1/s3/aws4_request, SignedHeaders=, Signature=00",
		"empty-signature", "AWS4-HMAC-SHA256 Credential="+rootAK+"/20990101/us-east-1/s3/aws4_request, SignedHeaders=host, Signature=",
		"three-commas", "AWS4-HMAC-SHA256 ,,,", "three-pairs-no-eq", "AWS4-HMAC-SHA256 a,b,c", "eq-only", "AWS4-HMAC-SHA256 =,=,=", "dup-keys", "AWS4-HMAC-SHA256 Credential=a,Credential=b,Credential=c",
		"v2", "AWS "+rootAK+":c2lnbmF0dXJl", "bearer", "Bearer x", "basic", "Basic cm9vdDpyb290", "other-algo", strings.Replace(good, "AWS4-HMAC-SHA256", "AWS4-ECDSA-P256-SHA256", 1),
		"well-formed-zero-sig", good, "signed-header-missing-from-request", strings.Replace(good, "host;", "host;x-not-there;", 1), "signed-headers-semicolons", strings.Replace(good, "host;x-amz-content-sha256;x-amz-date", ";;;", 1),
		"no-blank-after-algo", strings.Replace(good, "AWS4-HMAC-SHA256 ", "AWS4-HMAC-SHA256", 1), "tabs", strings.ReplaceAll(good, " ", "\t"), "many-blanks", strings.ReplaceAll(good, " ", "     "),
		"long-64k", "AWS4-HMAC-SHA256 Credential="+strings.Repeat("a", 65536), "long-3000", "AWS4-HMAC-SHA256 Credential="+strings.Repeat("a", 3000)+"/20990101/us-east-1/s3/aws4_request, SignedHeaders=host, Signature=00",
		"many-pairs", "AWS4-HMAC-SHA256 "+strings.Repeat("a=b,", 900), "invalid-utf8", "AWS4-HMAC-SHA256 Credential=\xff\xfe/20990101/us-east-1/s3/aws4_request, SignedHeaders=host, Signature=00",
		"wrong-service", strings.Replace(good, "/s3/", "/ec2/", 1), "wrong-terminator", strings.Replace(good, "aws4_request", "aws4", 1), "wrong-region", strings.Replace(good, "us-east-1", "mars-1", 1),
	)
}

var amzDateVals = vs("empty", "", "abc", "abc", "old", "20060102T150405Z", "bad-digits", "99999999T999999Z", "short", "2099", "far-future", "20990101T000000Z", "rfc1123", "Mon, 02 Jan 2006 15:04:05 GMT",
	"iso-extended", "2099-01-01T00:00:00Z", "seven-chars", "2099010", "eight-chars", "20990101", "blank", " ", "long", strings.Repeat("2", 3000), "nul", "20990101T000000Z\x00", "lower-z", "20990101t000000z")
