package c20

import (
	"bufio"
	"bytes"
	"crypto/sha256"
	"encoding/hex"
	"errors"
	"fmt"
	"io"
	"net"
	"net/http"
	"strconv"
	"strings"
	"time"

	"verif/harness/internal/gw"
	"verif/harness/internal/s3c"
	"verif/harness/props/catalog"
)

const rootAK = gw.RootAK

// credential modes
const (
	credValid         = "valid"          // root, correct signature: the handler is reached
	credBadSig        = "badsig"         // existing access key, wrong secret
	credNoAuth        = "noauth"         // no Authorization at all
	credUnknownAK     = "unknownak"      // access key that does not exist
	credPresign       = "presign"        // valid query-string authentication
	credPresignBadSig = "presign-badsig" // query-string authentication, wrong secret
	credUser          = "user"           // valid signature of the seeded low-privilege account
)

func credIsValid(c string) bool { return c == credValid || c == credPresign || c == credUser }

type qkv struct {
	k, v    string
	keyOnly bool
	raw     bool // k and v go on the wire verbatim (no percent-encoding)
}

// model is a request before signing; mutations edit it.
type model struct {
	entry  *catalog.Entry
	args   catalog.Args
	method string
	path   string // wire path
	query  []qkv
	header s3c.H
	body   []byte

	stream      *s3c.Stream
	payloadHash string
	cred        string

	closeAfter      int
	contentLength   *int64
	noContentLength bool
	fragments       []int
	tampers         []func(b *s3c.Built)
	rawWire         []byte // when set the bytes are sent verbatim instead of a built request
}

func parseQuery(q string) []qkv {
	var out []qkv
	if q == "" {
		return nil
	}
	for _, p := range strings.Split(q, "&") {
		k, v, has := strings.Cut(p, "=")
		out = append(out, qkv{k: pctDecode(k), v: pctDecode(v), keyOnly: !has})
	}
	return out
}

func pctDecode(s string) string {
	var sb strings.Builder
	for i := 0; i < len(s); i++ {
		if s[i] == '%' && i+3 <= len(s) {
			if v, err := strconv.ParseUint(s[i+1:i+3], 16, 8); err == nil {
				sb.WriteByte(byte(v))
				i += 2
				continue
			}
		}
		sb.WriteByte(s[i])
	}
	return sb.String()
}

func (m *model) wireQuery() string {
	var parts []string
	for _, e := range m.query {
		switch {
		case e.raw && e.keyOnly:
			parts = append(parts, e.k)
		case e.raw:
			parts = append(parts, e.k+"="+e.v)
		case e.keyOnly:
			parts = append(parts, s3c.URIEncode(e.k, true))
		default:
			parts = append(parts, s3c.URIEncode(e.k, true)+"="+s3c.URIEncode(e.v, true))
		}
	}
	return strings.Join(parts, "&")
}

func (m *model) setQuery(k, v string) {
	for i := range m.query {
		if m.query[i].k == k {
			m.query[i].v, m.query[i].keyOnly, m.query[i].raw = v, false, false
			return
		}
	}
	m.query = append(m.query, qkv{k: k, v: v})
}

func (m *model) delQuery(k string) {
	out := m.query[:0]
	for _, e := range m.query {
		if e.k != k {
			out = append(out, e)
		}
	}
	m.query = out
}

func (m *model) hasQuery(k string) bool {
	for _, e := range m.query {
		if e.k == k {
			return true
		}
	}
	return false
}

const wrongSecret = "c20-this-is-not-the-secret-0000"

// req turns the model into an s3c request.
func (m *model) req(x *world, wd time.Duration) *s3c.Req {
	r := &s3c.Req{Method: m.method, Path: m.path, Query: m.wireQuery(), Header: append(s3c.H{}, m.header...), Body: m.body,
		Stream: m.stream, PayloadHash: m.payloadHash, CloseAfter: m.closeAfter, ContentLength: m.contentLength, NoContentLength: m.noContentLength,
		Fragments: m.fragments, Watchdog: wd}
	switch m.cred {
	case credBadSig:
		r.SK = wrongSecret
	case credNoAuth:
		r.NoSign = true
	case credUnknownAK:
		r.AK, r.SK = "c20nosuchaccesskey", wrongSecret
	case credPresign:
		r.Presign = true
	case credPresignBadSig:
		r.Presign, r.SK = true, wrongSecret
	case credUser:
		r.AK, r.SK = x.st.User.Access, x.st.User.Secret
	}
	if len(m.tampers) > 0 {
		ts := m.tampers
		r.Tamper = func(b *s3c.Built) {
			for _, t := range ts {
				t(b)
			}
		}
	}
	return r
}

// wire is the exact byte sequence of a case for one gateway address.
type wire struct {
	method     string
	bytes      []byte
	bodyLen    int
	closeAfter int // bytes of the whole message after which the write side is closed (0 = after everything)
	fragments  []int
	headLen    int
	line       string // request line + header summary (request log)
}

func (m *model) wire(x *world, cl *s3c.Client, wd time.Duration) *wire {
	if m.rawWire != nil {
		raw := bytes.ReplaceAll(m.rawWire, []byte("{HOST}"), []byte(cl.Addr))
		first, _, _ := strings.Cut(string(raw[:min(len(raw), 200)]), "\r\n")
		meth, _, _ := strings.Cut(first, " ")
		return &wire{method: meth, bytes: raw, line: fmt.Sprintf("RAW %q len=%d", first, len(raw)), headLen: len(raw)}
	}
	r := m.req(x, wd)
	b := cl.Build(r)
	if r.Tamper != nil {
		r.Tamper(b)
	}
	if b.Header.Get("X-C20-No-Content-Length") != "" {
		b.Header.Del("X-C20-No-Content-Length")
		r.NoContentLength = true
	}
	head := b.Wire(r)
	body := b.Body
	w := &wire{method: b.Method, bodyLen: len(body), fragments: r.Fragments, headLen: len(head)}
	if r.CloseAfter > 0 && r.CloseAfter < len(body) {
		body = body[:r.CloseAfter]
	}
	w.bytes = append(append(make([]byte, 0, len(head)+len(body)), head...), body...)
	first, _, _ := strings.Cut(string(head), "\r\n")
	var hs []string
	for _, kv := range b.Header {
		n := strings.ToLower(kv[0])
		if n == "authorization" || n == "x-amz-date" || n == "host" {
			continue
		}
		v := kv[1]
		if len(v) > 80 {
			v = v[:80] + "..."
		}
		hs = append(hs, kv[0]+"="+v)
	}
	w.line = fmt.Sprintf("%s body=%d %q", first, len(b.Body), strings.Join(hs, "; "))
	return w
}

// result of one exchange
type result struct {
	status   int
	header   http.Header
	body     []byte
	err      error
	timeout  bool // the watchdog fired
	gotBytes int  // bytes received before a parse failure
	gotHead  string
	interim  int // number of 1xx responses skipped
	dur      time.Duration
}

type countConn struct {
	net.Conn
	n    int
	head []byte
}

func (c *countConn) Read(p []byte) (int, error) {
	n, err := c.Conn.Read(p)
	if n > 0 {
		c.n += n
		if len(c.head) < 300 {
			c.head = append(c.head, p[:min(n, 300-len(c.head))]...)
		}
	}
	return n, err
}

// exchange writes the bytes (optionally in fragments), half-closes the write side and reads one response.
// Half-closing after every request guarantees that a request whose framing promises more bytes than were
// sent terminates at the server with EOF instead of blocking until the watchdog.
func exchange(addr string, w *wire, wd time.Duration) *result {
	t0 := time.Now()
	res := &result{}
	nc, err := net.DialTimeout("tcp", addr, 5*time.Second)
	if err != nil {
		res.err = fmt.Errorf("dial: %w", err)
		return res
	}
	defer nc.Close()
	if tc, ok := nc.(*net.TCPConn); ok {
		tc.SetNoDelay(true)
	}
	nc.SetDeadline(time.Now().Add(wd))
	cc := &countConn{Conn: nc}
	done := make(chan struct{})
	go func() {
		defer close(done)
		data := w.bytes
		if w.fragments == nil {
			nc.Write(data)
		} else {
			if _, err := nc.Write(data[:min(w.headLen, len(data))]); err == nil {
				rest := data[min(w.headLen, len(data)):]
				for i := 0; len(rest) > 0; i++ {
					n := w.fragments[i%len(w.fragments)]
					if n <= 0 {
						n = 1
					}
					n = min(n, len(rest))
					if _, err := nc.Write(rest[:n]); err != nil {
						break
					}
					rest = rest[n:]
					time.Sleep(200 * time.Microsecond)
				}
			}
		}
		if tc, ok := nc.(*net.TCPConn); ok {
			tc.CloseWrite()
		}
	}()
	br := bufio.NewReaderSize(cc, 64<<10)
	for {
		hr, err := http.ReadResponse(br, &http.Request{Method: w.method})
		if err != nil {
			res.err = err
			break
		}
		if hr.StatusCode >= 100 && hr.StatusCode < 200 && res.interim < 3 {
			res.interim++
			continue
		}
		data, rerr := io.ReadAll(io.LimitReader(hr.Body, 96<<20))
		hr.Body.Close()
		res.status, res.header, res.body = hr.StatusCode, hr.Header, data
		if rerr != nil {
			res.err = fmt.Errorf("read body (status %d, %d bytes): %w", hr.StatusCode, len(data), rerr)
		}
		break
	}
	res.gotBytes, res.gotHead = cc.n, string(cc.head)
	var ne net.Error
	if res.err != nil && errors.As(res.err, &ne) && ne.Timeout() {
		res.timeout = true
	}
	nc.Close()
	<-done
	res.dur = time.Since(t0)
	return res
}

func (r *result) errCode() string {
	i := bytes.Index(r.body, []byte("<Code>"))
	if i < 0 {
		return ""
	}
	j := bytes.Index(r.body[i:], []byte("</Code>"))
	if j < 0 {
		return ""
	}
	return string(r.body[i+6 : i+j])
}

func (r *result) String() string {
	if r.err != nil {
		return "ERR " + r.err.Error()
	}
	if c := r.errCode(); c != "" {
		return fmt.Sprintf("%d %s", r.status, c)
	}
	return fmt.Sprint(r.status)
}

func shortHash(b []byte) string {
	h := sha256.Sum256(b)
	return hex.EncodeToString(h[:6])
}

// printable renders request bytes for the evidence / replay detail.
func printable(b []byte, limit int) string {
	cut := false
	if len(b) > limit {
		b, cut = b[:limit], true
	}
	s := fmt.Sprintf("%q", b)
	s = s[1 : len(s)-1]
	s = strings.ReplaceAll(s, `\r\n`, "\\r\\n\n")
	if cut {
		s += "...[cut]"
	}
	return s
}
