package c20

import (
	"fmt"
	"net"
	"strings"
	"sync/atomic"
	"time"

	"verif/harness/internal/ev"
	"verif/harness/internal/fx"
	"verif/harness/internal/gw"
	"verif/harness/internal/s3c"
)

// Receiver lane: "the gateway process keeps running ... and keeps serving other clients" - also when the request is an
// ordinary one and what misbehaves is the event receiver the gateway was started with (--event-webhook-url). The
// receiver answers the start-up test event properly and then, mode by mode, resets connections, answers garbage,
// answers 500, sends an endless header, never answers, or stops listening altogether. In every mode ordinary
// event-producing requests are sent; each must be answered, and afterwards the process must be alive and serving.
func receiverLane(c *ev.Ctx) {
	if !c.Want("receiver") {
		return
	}
	ln, err := net.Listen("tcp", "127.0.0.1:0")
	if err != nil {
		c.Inconclusive("receiver lane: listen: " + err.Error())
		return
	}
	var mode atomic.Value
	mode.Store("ok")
	var hits atomic.Int64
	go func() {
		for {
			cn, err := ln.Accept()
			if err != nil {
				return
			}
			hits.Add(1)
			go func(cn net.Conn) {
				defer cn.Close()
				cn.SetDeadline(time.Now().Add(8 * time.Second))
				buf := make([]byte, 64<<10)
				switch mode.Load().(string) {
				case "reset":
					if tc, ok := cn.(*net.TCPConn); ok {
						tc.SetLinger(0)
					}
					return
				case "garbage":
					cn.Read(buf)
					cn.Write([]byte("\x00\xff this is no HTTP response \r\n\r\n"))
				case "500":
					cn.Read(buf)
					cn.Write([]byte("HTTP/1.1 500 Internal Server Error\r\nContent-Length: 3\r\nConnection: close\r\n\r\nno\n"))
				case "endless-header":
					cn.Read(buf)
					cn.Write([]byte("HTTP/1.1 200 OK\r\n"))
					for i := 0; i < 2000; i++ {
						if _, err := cn.Write([]byte("X-Filler: " + strings.Repeat("f", 1000) + "\r\n")); err != nil {
							return
						}
					}
				case "half-response":
					cn.Read(buf)
					cn.Write([]byte("HTTP/1.1 200 OK\r\nContent-Length: 1000\r\n\r\nonly this"))
				case "hang":
					cn.Read(buf)
					time.Sleep(6 * time.Second)
				default:
					cn.Read(buf)
					cn.Write([]byte("HTTP/1.1 200 OK\r\nContent-Length: 0\r\n\r\n"))
				}
			}(cn)
		}
	}()
	defer ln.Close()
	env, err := fx.New("c20r", gw.Config{Versioning: true, Webhook: "http://" + ln.Addr().String()}, 1)
	if err != nil {
		c.Inconclusive("gateway start (receiver lane): " + err.Error())
		return
	}
	defer env.Close()
	cl := env.Client(0)
	const b = "receiver-lane"
	if r := cl.CreateBucket(b); !r.OK() {
		c.Inconclusive("receiver lane: create bucket: " + r.String())
		return
	}
	alive := func(id, when string) bool {
		if i, cr := env.Dead(); cr != nil {
			c.Violation("receiver:"+when+":gateway-died:"+cr.TopFrame, id, map[string]any{"gateway": i, "crash": cr.Message, "receiver_mode": when})
			return false
		}
		if r := cl.Do(&s3c.Req{Method: "GET", Path: "/", FreshConn: true, Watchdog: 20 * time.Second}); r.Err != nil || r.Status != 200 {
			c.Violation("receiver:"+when+":gateway-stops-serving", id, map[string]any{"list_buckets": r.String(), "receiver_mode": when})
			return false
		}
		return true
	}
	n := 0
	for _, m := range []string{"ok", "reset", "garbage", "500", "endless-header", "half-response", "hang", "refuse"} {
		id := "receiver/" + m
		if !c.Want(id) {
			continue
		}
		if m == "refuse" {
			ln.Close() // nothing listens any more: connection refused
		}
		mode.Store(m)
		before := hits.Load()
		type step struct {
			name string
			run  func() *s3c.Resp
		}
		key := fmt.Sprintf("obj-%s", m)
		var up string
		var part *s3c.Resp
		steps := []step{
			{"PutObject", func() *s3c.Resp { return cl.PutObject(b, key, []byte("data under receiver mode "+m)) }},
			{"PutObjectTagging", func() *s3c.Resp {
				tb := s3c.TaggingXML(map[string]string{"m": m})
				return cl.Sub("PUT", b, key, "tagging=", tb, "Content-MD5", s3c.MD5B64(tb))
			}},
			{"CopyObject", func() *s3c.Resp { return cl.CopyObject(b, key, b, key+"-copy") }},
			{"CreateMultipartUpload", func() *s3c.Resp { var r *s3c.Resp; up, r = cl.CreateMPU(b, key+"-mpu"); return r }},
			{"UploadPart", func() *s3c.Resp { part = cl.UploadPart(b, key+"-mpu", up, 1, []byte("part")); return part }},
			{"CompleteMultipartUpload", func() *s3c.Resp {
				return cl.CompleteMPU(b, key+"-mpu", up, []s3c.Part{{N: 1, ETag: part.Header.Get("Etag")}})
			}},
			{"DeleteObjects", func() *s3c.Resp {
				body := []byte(`<Delete xmlns="http://s3.amazonaws.com/doc/2006-03-01/"><Object><Key>` + key + `-copy</Key></Object><Object><Key>` + key + `-mpu</Key></Object></Delete>`)
				return cl.Do(&s3c.Req{Method: "POST", Path: "/" + b, Query: "delete=", Body: body, Header: s3c.H{{"Content-MD5", s3c.MD5B64(body)}}})
			}},
			{"DeleteObject", func() *s3c.Resp { return cl.DeleteObject(b, key) }},
		}
		ok := true
		for _, st := range steps {
			r := st.run()
			c.Eval(1)
			n++
			if r.Err != nil {
				if alive(id, m) {
					c.Violation("receiver:"+m+":"+st.name+":unanswered", id, map[string]any{"error": r.Err.Error(), "receiver_mode": m})
				}
				ok = false
				break
			}
			if !r.OK() {
				c.Observe(fmt.Sprintf("receiver lane: %s answered %s in receiver mode %s", st.name, r.String(), m))
			}
		}
		if !ok {
			return
		}
		// deliveries are made by goroutines of their own: give them the sender's timeout before judging
		time.Sleep(4 * time.Second)
		if !alive(id, m) {
			return
		}
		if m != "refuse" && hits.Load() == before {
			c.Observe("receiver lane: no delivery attempt reached the receiver in mode " + m)
		} else {
			c.Distinct("receiver|" + m)
		}
	}
	c.Add("receiver_lane_requests", n)
}

// Logging lane: the same promise with the gateway's own logging switched on (--access-log, --admin-access-log): the
// loggers run for every request, also for those that are refused before any middleware has learnt who is asking.
// A fixed set of requests that are refused early (broken percent escapes, dot segments, no authorization, unknown
// key, wrong signature) and a few ordinary ones are sent; after each the process must be alive and serving.
func loggingLane(c *ev.Ctx) {
	if !c.Want("logging") {
		return
	}
	dir := fx.UniqueDir("c20-logs")
	env, err := fx.New("c20l", gw.Config{Versioning: true, ExtraArgs: []string{"--access-log", dir + "/access.log", "--admin-access-log", dir + "/admin.log"}}, 1)
	if err != nil {
		c.Inconclusive("gateway start (logging lane): " + err.Error())
		return
	}
	defer env.Close()
	cl := env.Client(0)
	cl.CreateBucket("logged")
	cl.PutObject("logged", "doc", []byte("x"))
	raw := func(target string, hdr ...string) string {
		return "GET " + target + " HTTP/1.1\r\nHost: " + env.GWs[0].Addr + "\r\n" + strings.Join(hdr, "") + "Connection: close\r\n\r\n"
	}
	type probeT struct {
		name string
		wire string
		req  *s3c.Req
	}
	probes := []probeT{
		{"bad-percent-escape", raw("/%zz"), nil},
		{"bad-percent-escape-in-key", raw("/logged/%"), nil},
		{"encoded-dot-segment", raw("/..%2fx"), nil},
		{"dot-segments", raw("/logged/../logged/doc"), nil},
		{"no-authorization", raw("/logged/doc"), nil},
		{"empty-authorization", raw("/logged/doc", "Authorization: \r\n"), nil},
		{"garbage-authorization", raw("/logged/doc", "Authorization: AWS4-HMAC-SHA256 garbage\r\n"), nil},
		{"admin-no-authorization", "PATCH /list-users HTTP/1.1\r\nHost: " + env.GWs[0].Addr + "\r\nConnection: close\r\n\r\n", nil},
		{"options", "OPTIONS /logged HTTP/1.1\r\nHost: " + env.GWs[0].Addr + "\r\nConnection: close\r\n\r\n", nil},
		{"unknown-access-key", "", &s3c.Req{Method: "GET", Path: "/logged/doc", AK: "AKIAUNKNOWNKEY0000"}},
		{"wrong-secret", "", &s3c.Req{Method: "GET", Path: "/logged/doc", SK: "wrong-secret-1"}},
		{"valid-get", "", &s3c.Req{Method: "GET", Path: "/logged/doc"}},
		{"valid-admin", "", &s3c.Req{Method: "PATCH", Path: "/list-users"}},
		{"missing-key", "", &s3c.Req{Method: "GET", Path: "/logged/nothing-here"}},
	}
	for _, p := range probes {
		id := "logging/" + p.name
		if !c.Want(id) {
			continue
		}
		answer := ""
		if p.req != nil {
			r := cl.Do(p.req)
			answer = r.String()
		} else {
			cn, err := net.DialTimeout("tcp", env.GWs[0].Addr, 5*time.Second)
			if err != nil {
				answer = "dial: " + err.Error()
			} else {
				cn.SetDeadline(time.Now().Add(10 * time.Second))
				cn.Write([]byte(p.wire))
				buf := make([]byte, 512)
				n, _ := cn.Read(buf)
				cn.Close()
				answer, _, _ = strings.Cut(string(buf[:n]), "\r\n")
			}
		}
		c.Eval(1)
		time.Sleep(50 * time.Millisecond)
		if i, cr := env.Dead(); cr != nil {
			c.Violation("logging:"+p.name+":gateway-died:"+cr.TopFrame, id, map[string]any{"gateway": i, "crash": cr.Message, "request": p.name, "answer": answer, "flags": "--access-log --admin-access-log"})
			return
		}
		if r := cl.Do(&s3c.Req{Method: "GET", Path: "/", FreshConn: true, Watchdog: 20 * time.Second}); r.Err != nil || r.Status != 200 {
			c.Violation("logging:"+p.name+":gateway-stops-serving", id, map[string]any{"list_buckets": r.String(), "request": p.name, "answer": answer})
			return
		}
		c.Distinct("logging|" + p.name)
	}
}
