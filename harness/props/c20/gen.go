package c20

import (
	"bytes"
	"fmt"
	"math/rand"
	"sort"
	"strconv"
	"strings"

	"verif/harness/internal/s3c"
	"verif/harness/props/catalog"
)

// A field is one mutable position of a request together with its replacement values.
type field struct {
	name string
	vals []val
	set  func(m *model, v string)
}

// A mut is one applied replacement.
type mut struct {
	field string
	class string
	apply func(m *model)
}

type fcase struct {
	id    string
	lane  string // "anticipated" | "sys" | "cred" | "combo" | "chunk" | "http"
	entry *catalog.Entry
	big   bool
	muts  []mut
	cred  string
}

func (fc *fcase) fieldName() string {
	var f []string
	for _, m := range fc.muts {
		f = append(f, m.field)
	}
	if len(f) == 0 {
		return "none"
	}
	return strings.Join(f, "+")
}

func (fc *fcase) className() string {
	var f []string
	for _, m := range fc.muts {
		f = append(f, m.class)
	}
	if len(f) == 0 {
		return "well-formed"
	}
	return strings.Join(f, "+")
}

// classKey is the distinct-case class: (operation, field, value class, credential validity).
func (fc *fcase) classKey() string {
	v := "valid-cred"
	if !credIsValid(fc.cred) {
		v = "invalid-cred:" + fc.cred
	}
	return fc.entry.Op + "|" + fc.fieldName() + "|" + fc.className() + "|" + v
}

// site is the request part of wedge / memory / response signatures.
func (fc *fcase) site() string {
	return fc.entry.Op + ":" + fc.fieldName() + ":" + fc.className()
}

func (fc *fcase) build(x *world) *model {
	e := fc.entry
	a := e.Bind(x.st)
	bc := catalog.BodyValid
	if fc.big {
		bc = catalog.BodyBig
	}
	r := e.Request(a, bc)
	m := &model{entry: e, args: a, method: r.Method, path: r.Path, query: parseQuery(r.Query), header: append(s3c.H{}, r.Header...), body: r.Body, cred: fc.cred}
	for _, mu := range fc.muts {
		mu.apply(m)
	}
	return m
}

func group(e *catalog.Entry) string {
	switch e.Level {
	case catalog.LvlService:
		return e.Method + " /"
	case catalog.LvlBucket:
		return e.Method + " /b"
	case catalog.LvlObject:
		return e.Method + " /b/k"
	}
	return "PATCH /admin"
}

func qf(name string, vals []val) field {
	return field{name: "q:" + name, vals: vals, set: func(m *model, v string) { m.setQuery(name, v) }}
}

func hf(name string, vals []val) field {
	return field{name: "h:" + name, vals: vals, set: func(m *model, v string) { m.header.Set(name, v) }}
}

var flagVals = vs("key-only", "\x00", "empty", "", "x", "x", "true", "true", "twice", "\x01")

func flagf(name string) field {
	return field{name: "q:" + name, vals: flagVals, set: func(m *model, v string) {
		m.delQuery(name)
		switch v {
		case "\x00":
			m.query = append(m.query, qkv{k: name, keyOnly: true})
		case "\x01":
			m.query = append(m.query, qkv{k: name, keyOnly: true}, qkv{k: name, v: "2"})
		default:
			m.query = append(m.query, qkv{k: name, v: v})
		}
	}}
}

// raw (not percent-encoded) query material; most of it is refused by the signature check or the HTTP parser
var rawQueryVals = vs("percent", "%", "percent-zz", "%zz", "percent-trunc", "a%2", "encoded-nul", "%00", "encoded-ff", "%ff%fe", "raw-ff", "\xff\xfe", "encoded-slash", "%2F", "double-encoded", "%252F",
	"plus", "a+b", "semicolon", "a;b=c", "hash", "a#b", "question", "a?b", "eq-eq", "a==b", "raw-nul", "a\x00b", "raw-tab", "a\tb", "encoded-crlf", "%0d%0a", "utf8", "é", "long", strings.Repeat("r", 3000))

func fieldsFor(x *world, e *catalog.Entry) []field {
	st := x.st
	var fs []field
	a := e.Bind(st)
	base := e.Request(a, catalog.BodyValid)
	g := group(e)
	str := strVals(x)

	// ---- method and path -------------------------------------------------------------------
	fs = append(fs, field{name: "method", vals: vs("GET", "GET", "HEAD", "HEAD", "PUT", "PUT", "POST", "POST", "DELETE", "DELETE", "PATCH", "PATCH", "OPTIONS", "OPTIONS", "TRACE", "TRACE",
		"CONNECT", "CONNECT", "unknown", "FOO", "lower", strings.ToLower(e.Method), "long", strings.Repeat("M", 3000), "propfind", "PROPFIND"),
		set: func(m *model, v string) { m.method = v }})
	if e.Level != catalog.LvlAdmin && e.Level != catalog.LvlService {
		b := s3c.BucketPath(a.Bucket)
		pv := vs("root", "/", "double-root", "//", "bucket-slash-slash", b+"//", "bucket-encoded-slash", b+"/%2F", "bucket-two-encoded-slashes", b+"/%2F%2F", "bucket-slash-slash-key", b+"//k", "bucket-dot", b+"/.", "bucket-dotdot", b+"/..",
			"bucket-dotdot-other", b+"/../"+st.Vers+"/"+st.V1.Key, "encoded-dotdot", b+"/%2e%2e/%2e%2e/etc/passwd", "bucket-encoded-nul", b+"/k%00", "bucket-nul-key", b+"/%00", "dot-bucket", "/.", "dotdot-bucket", "/..",
			"encoded-slash-bucket", "/%2F", "encoded-bucket-slash-key", "/"+a.Bucket+"%2Fk", "short-bucket", "/a", "short-bucket-key", "/a/k", "upper-bucket", "/"+strings.ToUpper(a.Bucket), "tmpdir-bucket", "/.sgwtmp", "tmpdir-key", b+"/.sgwtmp",
			"tmpdir-multipart", b+"/.sgwtmp/multipart", "long-bucket-300", "/"+strings.Repeat("b", 300), "long-key-1100", b+"/"+strings.Repeat("k", 1100), "long-key-3000", b+"/"+strings.Repeat("k", 3000), "segment-256", b+"/"+strings.Repeat("s", 256),
			"deep-key", b+"/"+strings.Repeat("a/", 500), "many-slashes", b+strings.Repeat("/", 500), "invalid-utf8-key", b+"/%FF%FE", "raw-ff-key", b+"/\xff\xfe", "invalid-utf8-bucket", "/%FF%FE%FD", "blank-key", b+"/%20", "blank-bucket", "/%20%20%20",
			"plus-key", b+"/a+b", "percent-key", b+"/%", "percent-zz-key", b+"/%zz", "percent-25", b+"/%25", "question-key", b+"/%3F", "hash-key", b+"/%23", "backslash-key", b+"/a%5Cb", "newline-key", b+"/a%0Ab", "crlf-key", b+"/a%0D%0Ab",
			"no-leading-slash", a.Bucket, "star", "*", "absolute-uri", "http://c20.invalid"+b, "semicolon-params", b+";a=b", "dir-of-file", b+"/"+st.Obj.Key+"/", "below-file", b+"/"+st.Obj.Key+"/x", "file-as-dir-deep", b+"/"+st.Obj.Key+"/x/y/z",
			"dir-without-slash", b+"/"+strings.TrimSuffix(st.Dir.Key, "/"), "nested-parent", b+"/d/e", "nested-parent-slash", b+"/d/e/", "health", "/health", "health-slash", "/health/", "admin-path", "/list-buckets", "unicode-key", b+"/%C3%A9%E4%B8%AD",
			"missing-bucket", "/nosuchbucket-c20", "missing-bucket-key", "/nosuchbucket-c20/k", "missing-key", b+"/nosuchkey-c20", "missing-nested", b+"/no/such/key",
			"plain-bucket", "/"+st.Plain, "lock-bucket", "/"+st.Lock, "vers-bucket", "/"+st.Vers, "empty-bucket", "/"+st.Empty, "susp-bucket", "/"+x.ext.Susp, "plain-obj", s3c.ObjPath(st.Plain, st.Obj.Key), "vers-obj", s3c.ObjPath(st.Vers, st.V1.Key),
			"deleted-obj", s3c.ObjPath(st.Vers, st.Gone.Key), "locked-obj", s3c.ObjPath(st.Lock, st.Locked.Key), "free-obj", s3c.ObjPath(st.Lock, st.Free.Key), "susp-obj", s3c.ObjPath(x.ext.Susp, x.ext.SuspKey), "multipart-obj", s3c.ObjPath(st.Plain, x.ext.MPObj),
			"dir-obj", s3c.ObjPath(st.Plain, st.Dir.Key), "upload-key", s3c.ObjPath(st.Plain, st.MPUKey), "zero-obj", s3c.ObjPath(st.Plain, "zero"), "checksum-obj", s3c.ObjPath(st.Plain, "cnry-sum.txt"))
		fs = append(fs, field{name: "path", vals: pv, set: func(m *model, v string) { m.path = v }})
	} else {
		pv := vs("double-root", "//", "dot", "/.", "star", "*", "no-leading-slash", "create-user", "admin-slash", "/list-users/", "admin-nested", "/list-users/x", "admin-upper", "/LIST-USERS", "update-user-slash", "/update-user",
			"health", "/health", "long", "/"+strings.Repeat("p", 3000), "encoded-nul", "/%00", "absolute-uri", "http://c20.invalid/")
		fs = append(fs, field{name: "path", vals: pv, set: func(m *model, v string) { m.path = v }})
	}

	// ---- query parameters -------------------------------------------------------------------
	seen := map[string]bool{}
	addQ := func(f field) {
		if !seen[f.name] {
			seen[f.name] = true
			fs = append(fs, f)
		}
	}
	switch g {
	case "GET /":
		addQ(qf("max-buckets", numVals))
		addQ(qf("continuation-token", append(str, val{class: "seed-bucket", v: st.Plain}, val{class: "last-bucket", v: st.Vers})))
		addQ(qf("prefix", str))
	case "GET /b":
		for _, n := range []string{"max-keys", "max-uploads", "list-type"} {
			addQ(qf(n, numVals))
		}
		mk := append(append([]val{}, str...), val{class: "upload-key-a", v: x.ext.KeyA}, val{class: "upload-key-b", v: x.ext.KeyB}, val{class: "upload-key-c", v: x.ext.KeyC}, val{class: "upload-key-seed", v: st.MPUKey},
			val{class: "upload-key-e", v: x.ext.MoreUploadKeys[0]}, val{class: "upload-key-f", v: x.ext.MoreUploadKeys[1]}, val{class: "upload-key-g", v: x.ext.MoreUploadKeys[2]}, val{class: "upload-key-h", v: x.ext.MoreUploadKeys[3]},
			val{class: "upload-key-i", v: x.ext.MoreUploadKeys[4]}, val{class: "upload-key-j", v: x.ext.MoreUploadKeys[5]}, val{class: "list-first", v: "a.txt"}, val{class: "list-prefix-dir", v: "b/"}, val{class: "list-last", v: "zero"}, val{class: "versioned-key", v: st.V1.Key})
		for _, n := range []string{"prefix", "delimiter", "marker", "start-after", "continuation-token", "key-marker"} {
			addQ(qf(n, mk))
		}
		addQ(qf("upload-id-marker", uploadIDVals(x)))
		addQ(qf("version-id-marker", versionIDVals(x)))
		addQ(qf("fetch-owner", boolVals))
		addQ(qf("encoding-type", enumVals("url")))
		for _, n := range []string{"tagging", "ownershipControls", "versioning", "policy", "cors", "object-lock", "versions", "acl", "uploads", "location", "lifecycle", "delete"} {
			addQ(flagf(n))
		}
	case "PUT /b", "DELETE /b", "HEAD /b", "POST /b":
		for _, n := range []string{"tagging", "ownershipControls", "versioning", "policy", "cors", "object-lock", "acl", "delete", "uploads"} {
			addQ(flagf(n))
		}
	case "GET /b/k", "HEAD /b/k":
		addQ(qf("versionId", versionIDVals(x)))
		addQ(qf("partNumber", numVals))
		if g == "GET /b/k" {
			addQ(qf("uploadId", uploadIDVals(x)))
			addQ(qf("max-parts", numVals))
			addQ(qf("part-number-marker", numVals))
			for _, n := range []string{"tagging", "retention", "legal-hold", "acl", "attributes", "uploads", "torrent"} {
				addQ(flagf(n))
			}
			addQ(qf("response-content-type", str))
			addQ(qf("response-expires", dateVals))
		}
	case "PUT /b/k":
		addQ(qf("uploadId", uploadIDVals(x)))
		addQ(qf("partNumber", numVals))
		addQ(qf("versionId", versionIDVals(x)))
		for _, n := range []string{"tagging", "retention", "legal-hold", "acl"} {
			addQ(flagf(n))
		}
	case "DELETE /b/k":
		addQ(qf("uploadId", uploadIDVals(x)))
		addQ(qf("versionId", versionIDVals(x)))
		addQ(flagf("tagging"))
	case "POST /b/k":
		addQ(qf("uploadId", uploadIDVals(x)))
		addQ(qf("select-type", numVals))
		for _, n := range []string{"uploads", "restore", "select"} {
			addQ(flagf(n))
		}
		addQ(qf("versionId", versionIDVals(x)))
	case "PATCH /admin":
		acc := append(append([]val{}, str...), val{class: "seed-user", v: st.User.Access}, val{class: "seed-admin", v: st.Admin.Access}, val{class: "root", v: rootAK}, val{class: "missing-account", v: "nosuchaccount-c20"})
		addQ(qf("access", acc))
		addQ(qf("owner", acc))
		addQ(qf("bucket", append(append([]val{}, str...), val{class: "seed-bucket", v: st.Plain}, val{class: "missing-bucket", v: "nosuchbucket-c20"})))
	}
	// every parameter of the well-formed request: drop it, double it, raw values
	for _, kv := range parseQuery(base.Query) {
		name := kv.k
		fs = append(fs, field{name: "q:" + name + ":shape", vals: vs("dropped", "drop", "doubled", "dup", "doubled-conflicting", "dup2", "key-only", "keyonly", "empty-value", "emptyv"),
			set: func(m *model, v string) {
				var cur qkv
				for _, e := range m.query {
					if e.k == name {
						cur = e
					}
				}
				switch v {
				case "drop":
					m.delQuery(name)
				case "dup":
					m.query = append(m.query, cur)
				case "dup2":
					m.query = append(m.query, qkv{k: name, v: "c20-other"})
				case "keyonly":
					m.delQuery(name)
					m.query = append(m.query, qkv{k: name, keyOnly: true})
				case "emptyv":
					m.setQuery(name, "")
				}
			}})
		if !kv.keyOnly {
			fs = append(fs, field{name: "q:" + name + ":raw", vals: rawQueryVals, set: func(m *model, v string) {
				m.delQuery(name)
				m.query = append(m.query, qkv{k: name, v: v, raw: true})
			}})
		}
	}
	fs = append(fs, field{name: "q:*", vals: vs("300-params", "300", "2000-params", "2000", "8000-params", "8000", "unknown-param", "u", "empty-names", "e", "only-ampersands", "a", "only-eq", "q", "raw-garbage", "g", "long-name", "l", "question-marks", "?"),
		set: func(m *model, v string) {
			switch v {
			case "300", "2000", "8000":
				n, _ := strconv.Atoi(v)
				for i := 0; i < n; i++ {
					m.query = append(m.query, qkv{k: "p" + strconv.Itoa(i), v: "1"})
				}
			case "u":
				m.query = append(m.query, qkv{k: "c20-unknown", v: "1"})
			case "e":
				m.query = append(m.query, qkv{k: "", v: "1", raw: true}, qkv{k: "", v: "", raw: true})
			case "a":
				m.query = append(m.query, qkv{k: "&&&&", keyOnly: true, raw: true})
			case "q":
				m.query = append(m.query, qkv{k: "===", keyOnly: true, raw: true})
			case "g":
				m.query = append(m.query, qkv{k: "%%%&\xff=\xfe&%00", keyOnly: true, raw: true})
			case "l":
				m.query = append(m.query, qkv{k: strings.Repeat("n", 3000), v: "1"})
			case "?":
				m.query = append(m.query, qkv{k: "??a", v: "?b?", raw: true})
			}
		}})

	// ---- headers ---------------------------------------------------------------------------
	hs := map[string]bool{}
	addH := func(f field) {
		if !hs[f.name] {
			hs[f.name] = true
			fs = append(fs, f)
		}
	}
	addH(hf("Content-MD5", md5Vals))
	addH(hf("X-Amz-Expected-Bucket-Owner", append(vs("root", rootAK, "seed-user", st.User.Access, "missing-account", "nosuchaccount-c20"), str[:6]...)))
	addH(hf("Content-Type", vs("empty", "", "xml", "application/xml", "json", "application/json", "form", "application/x-www-form-urlencoded", "multipart", "multipart/form-data; boundary=x", "garbage", "garbage", "directory", "application/x-directory", "long", strings.Repeat("c", 3000), "charset", "text/xml; charset=utf-16")))
	grantNames := []string{"X-Amz-Grant-Full-Control", "X-Amz-Grant-Read", "X-Amz-Grant-Read-Acp", "X-Amz-Grant-Write", "X-Amz-Grant-Write-Acp"}
	lockHeaders := func() {
		addH(hf("X-Amz-Object-Lock-Mode", enumVals("GOVERNANCE", "COMPLIANCE")))
		addH(hf("X-Amz-Object-Lock-Retain-Until-Date", dateVals))
		addH(hf("X-Amz-Object-Lock-Legal-Hold", enumVals("ON", "OFF")))
	}
	checksumHeaders := func() {
		addH(hf("X-Amz-Checksum-Algorithm", enumVals("CRC32", "CRC32C", "SHA1", "SHA256", "CRC64NVME")))
		addH(hf("X-Amz-Sdk-Checksum-Algorithm", enumVals("CRC32", "SHA256")))
		addH(hf("X-Amz-Checksum-Type", enumVals("COMPOSITE", "FULL_OBJECT")))
		for _, al := range []string{"Crc32", "Crc32c", "Sha1", "Sha256", "Crc64nvme"} {
			addH(hf("X-Amz-Checksum-"+al, checksumValueVals))
		}
		addH(hf("X-Amz-Trailer", enumVals("x-amz-checksum-crc32", "x-amz-checksum-sha256")))
	}
	switch g {
	case "PUT /b":
		addH(hf("X-Amz-Acl", aclVals))
		for _, n := range grantNames {
			addH(hf(n, grantVals(x)))
		}
		addH(hf("X-Amz-Object-Ownership", enumVals("BucketOwnerEnforced", "BucketOwnerPreferred", "ObjectWriter")))
		addH(hf("X-Amz-Bucket-Object-Lock-Enabled", boolVals))
		addH(hf("X-Amz-Mfa", str[:8]))
		addH(hf("X-Amz-Copy-Source", copySourceVals(x)))
		checksumHeaders()
	case "PUT /b/k":
		for _, n := range []string{"Content-Encoding", "Content-Disposition", "Content-Language", "Cache-Control"} {
			addH(hf(n, vs("empty", "", "aws-chunked", "aws-chunked", "gzip", "gzip", "aws-chunked-gzip", "aws-chunked,gzip", "garbage", "garbage", "invalid-utf8", "\xff\xfe", "long", strings.Repeat("x", 3000), "quoted", `attachment; filename="a\"b"`)))
		}
		addH(hf("Expires", dateVals))
		addH(hf("X-Amz-Tagging", taggingVals))
		addH(hf("X-Amz-Copy-Source", copySourceVals(x)))
		addH(hf("X-Amz-Copy-Source-If-Match", etagVals))
		addH(hf("X-Amz-Copy-Source-If-None-Match", etagVals))
		addH(hf("X-Amz-Copy-Source-If-Modified-Since", dateVals))
		addH(hf("X-Amz-Copy-Source-If-Unmodified-Since", dateVals))
		addH(hf("X-Amz-Copy-Source-Range", rangeVals))
		addH(hf("X-Amz-Metadata-Directive", enumVals("COPY", "REPLACE")))
		addH(hf("X-Amz-Tagging-Directive", enumVals("COPY", "REPLACE")))
		addH(hf("X-Amz-Acl", aclVals))
		for _, n := range grantNames {
			addH(hf(n, grantVals(x)))
		}
		addH(hf("X-Amz-Decoded-Content-Length", numVals))
		addH(hf("X-Amz-Storage-Class", enumVals("STANDARD", "GLACIER")))
		addH(hf("X-Amz-Bypass-Governance-Retention", boolVals))
		addH(hf("X-Amz-Meta-C20", append(str[:10], val{class: "long-3000", v: strings.Repeat("m", 3000)})))
		addH(hf("X-Amz-Website-Redirect-Location", str[:6]))
		addH(hf("If-Match", etagVals))
		addH(hf("If-None-Match", etagVals))
		lockHeaders()
		checksumHeaders()
	case "GET /b/k", "HEAD /b/k":
		addH(hf("Range", rangeVals))
		addH(hf("X-Amz-Checksum-Mode", enumVals("ENABLED")))
		addH(hf("X-Amz-Max-Parts", numVals))
		addH(hf("X-Amz-Part-Number-Marker", numVals))
		addH(hf("X-Amz-Object-Attributes", attrVals))
		addH(hf("If-Match", etagVals))
		addH(hf("If-None-Match", etagVals))
		addH(hf("If-Modified-Since", dateVals))
		addH(hf("If-Unmodified-Since", dateVals))
	case "DELETE /b/k", "POST /b", "DELETE /b":
		addH(hf("X-Amz-Bypass-Governance-Retention", boolVals))
		addH(hf("X-Amz-Mfa", str[:8]))
		if g == "POST /b" {
			checksumHeaders()
		}
	case "POST /b/k":
		addH(hf("X-Amz-Tagging", taggingVals))
		addH(hf("X-Amz-Mp-Object-Size", numVals))
		addH(hf("X-Amz-Acl", aclVals))
		addH(hf("X-Amz-Storage-Class", enumVals("STANDARD")))
		addH(hf("X-Amz-Meta-C20", str[:10]))
		addH(hf("Content-Encoding", vs("empty", "", "aws-chunked", "aws-chunked", "gzip", "gzip")))
		addH(hf("If-Match", etagVals))
		addH(hf("If-None-Match", etagVals))
		lockHeaders()
		checksumHeaders()
	case "GET /", "GET /b", "HEAD /b", "PATCH /admin":
		addH(hf("Range", rangeVals[:8]))
	}
	// headers of the well-formed request: drop / double
	for _, kv := range base.Header {
		name := kv[0]
		fs = append(fs, field{name: "h:" + name + ":shape", vals: vs("dropped", "drop", "doubled", "dup", "doubled-conflicting", "dup2", "empty", "empty", "blank-padded", "pad"),
			set: func(m *model, v string) {
				cur := m.header.Get(name)
				switch v {
				case "drop":
					m.header.Del(name)
				case "dup":
					m.header = append(m.header, [2]string{name, cur})
				case "dup2":
					m.header = append(m.header, [2]string{name, "c20-other"})
				case "empty":
					m.header.Set(name, "")
				case "pad":
					m.header.Set(name, "  "+cur+"  ")
				}
			}})
	}
	// oversized value of an arbitrary x-amz header and very many headers
	fs = append(fs, field{name: "h:*", vals: vs("value-1000", "1000", "value-3000", "3000", "value-4000", "4000", "value-5000", "5000", "value-8192", "8192", "value-64KiB", "65536", "200-headers", "n200", "2000-headers", "n2000",
		"long-name", "ln", "empty-name", "en", "name-with-blank", "nb", "nul-value", "nul", "bare-lf-value", "lf", "crlf-injection", "crlf", "obs-fold", "fold", "invalid-utf8-value", "utf8", "invalid-utf8-name", "utf8n", "colon-only", "colon"),
		set: func(m *model, v string) {
			if n, err := strconv.Atoi(v); err == nil {
				m.header = append(m.header, [2]string{"X-Amz-Meta-Big", strings.Repeat("h", n)})
				return
			}
			switch v {
			case "n200", "n2000":
				n, _ := strconv.Atoi(v[1:])
				for i := 0; i < n; i++ {
					m.header = append(m.header, [2]string{"X-C20-H" + strconv.Itoa(i), "v"})
				}
			case "ln":
				m.header = append(m.header, [2]string{"X-" + strings.Repeat("N", 3000), "v"})
			case "en":
				m.header = append(m.header, [2]string{"", "v"})
			case "nb":
				m.header = append(m.header, [2]string{"X Amz Meta", "v"})
			case "nul":
				m.header = append(m.header, [2]string{"X-C20", "a\x00b"})
			case "lf":
				m.header = append(m.header, [2]string{"X-C20", "a\nb"})
			case "crlf":
				m.header = append(m.header, [2]string{"X-C20", "a\r\nX-Amz-Copy-Source: /"})
			case "fold":
				m.header = append(m.header, [2]string{"X-C20", "a\r\n b"})
			case "utf8":
				m.header = append(m.header, [2]string{"X-Amz-Meta-U", "\xff\xfe"})
			case "utf8n":
				m.header = append(m.header, [2]string{"X-Amz-Meta-\xff", "v"})
			case "colon":
				m.header = append(m.header, [2]string{":", ":"})
			}
		}})

	// ---- body -------------------------------------------------------------------------------
	if bv := bodiesFor(x, e, a); len(bv) > 0 {
		fs = append(fs, field{name: "body:doc", vals: bv, set: func(m *model, v string) { m.body = []byte(v); m.header.Del("Content-MD5") }})
	}
	if e.HasBody && !e.Streamable {
		fs = append(fs, field{name: "body:generic", vals: genericBodies(base.Body), set: func(m *model, v string) { m.body = []byte(v); m.header.Del("Content-MD5") }})
	} else if !e.Streamable {
		// endpoints that expect no body get one
		fs = append(fs, field{name: "body:unexpected", vals: vs("xml", "<a/>", "text", "unexpected body", "1MiB", strings.Repeat("u", 1<<20), "binary", "\x00\xff\x00\xff"), set: func(m *model, v string) { m.body = []byte(v) }})
	}

	// ---- HTTP framing ---------------------------------------------------------------------------
	fs = append(fs, httpFields(e)...)

	// ---- payload declaration ---------------------------------------------------------------------
	fs = append(fs, field{name: "h:X-Amz-Content-Sha256", vals: shaVals, set: func(m *model, v string) {
		if v == "" {
			m.tampers = append(m.tampers, func(b *s3c.Built) { b.Header.Del("X-Amz-Content-Sha256") })
			return
		}
		m.payloadHash = v
	}})
	if e.Streamable {
		fs = append(fs, chunkFields(x, e)...)
	}
	return fs
}

func httpFields(e *catalog.Entry) []field {
	tamperHeader := func(name, v string) func(m *model) {
		return func(m *model) {
			m.tampers = append(m.tampers, func(b *s3c.Built) { b.Header = append(b.Header, [2]string{name, v}) })
		}
	}
	var fs []field
	fs = append(fs, field{name: "http:Content-Length", vals: vs("minus-one", "-1", "zero", "0", "one", "1", "plus-1000", "+1000", "abc", "abc", "empty", "", "2^31", "2147483648", "2^63-1", "9223372036854775807", "2^63", "9223372036854775808", "2^64", "18446744073709551616",
		"hex", "0x10", "blank-padded", " 5 ", "two-values", "5, 5", "conflicting", "5, 6", "float", "1.0", "e-notation", "1e3", "shorter-than-body", "@-1", "longer-than-body", "@+7", "absent", "@absent", "absent-and-no-body", "@absent-empty"),
		set: func(m *model, v string) {
			m.tampers = append(m.tampers, func(b *s3c.Built) {
				val := v
				switch v {
				case "@absent", "@absent-empty":
					// neither Content-Length nor Transfer-Encoding
					if v == "@absent-empty" {
						b.Body = nil
					}
					b.Header.Del("Content-Length")
					b.Header = append(b.Header, [2]string{"X-C20-No-Content-Length", "1"})
					return
				case "@-1":
					val = strconv.Itoa(max(len(b.Body)-1, 0))
				case "@+7":
					val = strconv.Itoa(len(b.Body) + 7)
				}
				b.Header.Del("Content-Length")
				b.Header = append(b.Header, [2]string{"Content-Length", val})
			})
		}})
	fs = append(fs, field{name: "http:Transfer-Encoding", vals: vs("chunked-good", "good", "chunked-bad-size", "zz", "chunked-huge-size", "huge", "chunked-neg-size", "neg", "chunked-truncated", "trunc", "chunked-with-length", "both", "gzip", "gzip", "identity", "identity", "chunked-twice", "twice", "chunked-ext", "ext"),
		set: func(m *model, v string) {
			m.tampers = append(m.tampers, func(b *s3c.Built) {
				body := b.Body
				enc := func(sz string) []byte {
					var w bytes.Buffer
					fmt.Fprintf(&w, "%s\r\n", sz)
					w.Write(body)
					w.WriteString("\r\n0\r\n\r\n")
					return w.Bytes()
				}
				te := "chunked"
				keepCL := false
				switch v {
				case "good":
					b.Body = enc(fmt.Sprintf("%x", len(body)))
				case "zz":
					b.Body = enc("zz")
				case "huge":
					b.Body = enc("7fffffffffffffff")
				case "neg":
					b.Body = enc("-1")
				case "trunc":
					b.Body = []byte(fmt.Sprintf("%x\r\n", len(body)+10))
					b.Body = append(b.Body, body...)
				case "both":
					b.Body = enc(fmt.Sprintf("%x", len(body)))
					keepCL = true
				case "gzip", "identity":
					te = v
					keepCL = true
				case "twice":
					te = "chunked, chunked"
					b.Body = enc(fmt.Sprintf("%x", len(body)))
				case "ext":
					b.Body = enc(fmt.Sprintf("%x;a=b;c=\"d\"", len(body)))
				}
				b.Header.Del("Transfer-Encoding")
				b.Header = append(b.Header, [2]string{"Transfer-Encoding", te})
				if !keepCL {
					// a Content-Length line is suppressed by an explicit empty marker understood by wireFix
					b.Header = append(b.Header, [2]string{"X-C20-No-Content-Length", "1"})
				}
			})
		}})
	fs = append(fs, field{name: "http:Expect", vals: vs("100-continue", "100-continue", "garbage", "garbage", "empty", ""), set: func(m *model, v string) { tamperHeader("Expect", v)(m) }})
	fs = append(fs, field{name: "http:Host", vals: vs("empty", "", "other", "c20.invalid", "two", "@dup", "long", strings.Repeat("h", 3000), "with-path", "a/b", "virtual-host-style", "cnry-plain.s3.localhost", "ipv6", "[::1]:80", "invalid-utf8", "\xff\xfe"),
		set: func(m *model, v string) {
			if v == "@dup" {
				tamperHeader("Host", "c20.invalid")(m)
				return
			}
			// signed: the gateway must verify against what it received
			m.header.Set("Host", v)
		}})
	fs = append(fs, field{name: "http:Connection", vals: vs("keep-alive", "keep-alive", "upgrade", "Upgrade", "close", "close", "garbage", "garbage"), set: func(m *model, v string) {
		tamperHeader("Connection", v)(m)
		if v == "Upgrade" {
			tamperHeader("Upgrade", "websocket")(m)
		}
	}})
	fs = append(fs, field{name: "http:target", vals: vs("fragment", "#frag", "two-question-marks", "??", "trailing-question", "?", "trailing-amp", "&", "blank-inside", " x", "tab-inside", "\tx", "nul-inside", "\x00", "8KiB", strings.Repeat("t", 8192), "64KiB", strings.Repeat("t", 65536), "backslash", "\\..\\"),
		set: func(m *model, v string) {
			m.tampers = append(m.tampers, func(b *s3c.Built) {
				switch v {
				case "?", "??", "&":
					b.Target += v
				default:
					if strings.Contains(b.Target, "?") {
						b.Target += "&c20=" + v
					} else {
						b.Target += "?c20=" + v
					}
				}
			})
		}})
	return fs
}

// ---- aws-chunked framing ----------------------------------------------------------------------

var streamModes = []struct{ name, mode, trailer string }{
	{"signed", s3c.StreamSigned, ""},
	{"signed-trailer", s3c.StreamSignedTr, "x-amz-checksum-crc32"},
	{"unsigned-trailer", s3c.StreamUnsignTr, "x-amz-checksum-crc32"},
}

var chunkPayload = []byte("c20 aws-chunked payload: 0123456789 abcdefghij")

// chunkHeaders returns [start,end) of the size token of every chunk header line in a well-formed aws-chunked stream.
func chunkHeaders(enc []byte) (toks [][2]int, sizes []int) {
	i := 0
	for i < len(enc) {
		j := bytes.Index(enc[i:], []byte("\r\n"))
		if j < 0 {
			break
		}
		line := enc[i : i+j]
		k := bytes.IndexByte(line, ';')
		if k < 0 {
			k = len(line)
		}
		n, err := strconv.ParseInt(string(line[:k]), 16, 32)
		if err != nil {
			break
		}
		toks = append(toks, [2]int{i, i + k})
		sizes = append(sizes, int(n))
		if n == 0 {
			break
		}
		i += j + 2 + int(n) + 2
	}
	return
}

func newStream(mode, trailer string) *s3c.Stream {
	return &s3c.Stream{Mode: mode, TrailerName: trailer, ChunkSizes: []int{16, 16}}
}

func encodedLen(mode, trailer string) int {
	st := newStream(mode, trailer)
	key := s3c.SigningKey("k", "20990101", "us-east-1", "s3")
	return len(st.Encode(chunkPayload, key, "20990101T000000Z", "20990101/us-east-1/s3/aws4_request", strings.Repeat("0", 64)))
}

func chunkFields(x *world, e *catalog.Entry) []field {
	var fs []field
	for _, sm := range streamModes {
		sm := sm
		setStream := func(m *model) *s3c.Stream {
			m.body = chunkPayload
			m.stream = newStream(sm.mode, sm.trailer)
			m.header.Del("Content-MD5")
			return m.stream
		}
		for pi, pos := range []string{"first", "middle", "final"} {
			pi := pi
			fs = append(fs, field{name: "chunk-size:" + sm.name + ":" + pos, vals: chunkSizeVals, set: func(m *model, v string) {
				s := setStream(m)
				s.Mutate = func(enc []byte) []byte {
					toks, sizes := chunkHeaders(enc)
					if len(toks) < 3 {
						return enc
					}
					idx := []int{0, 1, len(toks) - 1}[pi]
					t := v
					switch v {
					case "@+1":
						t = fmt.Sprintf("%x", sizes[idx]+1)
					case "@-1":
						t = fmt.Sprintf("%x", max(sizes[idx]-1, 0))
					}
					out := append([]byte{}, enc[:toks[idx][0]]...)
					out = append(out, t...)
					return append(out, enc[toks[idx][1]:]...)
				}
			}})
		}
		n := encodedLen(sm.mode, sm.trailer)
		var cuts []val
		for k := 1; k < n; k++ {
			cuts = append(cuts, val{class: "at-" + strconv.Itoa(k), v: strconv.Itoa(k)})
		}
		fs = append(fs, field{name: "chunk-cut:" + sm.name, vals: cuts, set: func(m *model, v string) {
			k, _ := strconv.Atoi(v)
			setStream(m).TruncateAt = k
		}})
		fs = append(fs, field{name: "chunk-eof:" + sm.name, vals: cuts, set: func(m *model, v string) {
			k, _ := strconv.Atoi(v)
			setStream(m)
			m.closeAfter = k
		}})
		misc := vs("well-formed", "ok", "no-final-chunk", "nofinal", "extra-tail", "tail", "data-without-crlf", "nocrlf", "lf-only", "lf", "no-chunk-signature", "nosig", "short-chunk-signature", "shortsig", "long-chunk-signature", "longsig",
			"garbage-chunk-signature", "zzsig", "wrong-chunk-signature", "badsig", "wrong-final-signature", "badfinal", "unknown-extension", "ext", "empty-extension", "emptyext", "upper-hex", "upper", "trailer-missing", "notrailer",
			"trailer-unknown-name", "trname", "trailer-no-colon", "trnocolon", "trailer-empty-value", "trempty", "trailer-wrong-value", "trwrong", "trailer-garbage-value", "trzz", "trailer-two", "trtwo", "trailer-70000", "trlong", "trailer-no-end", "trnoend",
			"trailer-signature-wrong", "trsig", "trailer-header-mismatch", "trhdr", "trailer-header-missing", "trnohdr", "decoded-length-minus-one", "dl-1", "decoded-length-zero", "dl0", "decoded-length-short", "dlshort", "decoded-length-long", "dllong",
			"decoded-length-2^63-1", "dlhuge", "decoded-length-abc", "dlabc", "decoded-length-missing", "dlnone", "content-encoding-missing", "cenone", "content-encoding-gzip", "cegzip", "single-chunk", "one", "one-byte-chunks", "ones", "empty-payload", "empty",
			"zero-chunk-first", "zerofirst", "fragmented-1-byte", "frag1", "fragmented-7-bytes", "frag7", "1MiB-payload", "big", "only-crlf", "crlf", "binary-garbage", "bin", "chunk-of-other-mode", "othermode")
		fs = append(fs, field{name: "chunk-misc:" + sm.name, vals: misc, set: func(m *model, v string) {
			s := setStream(m)
			repl := func(old, new string, n int) {
				s.Mutate = func(enc []byte) []byte { return bytes.Replace(enc, []byte(old), []byte(new), n) }
			}
			hdr := func(name, val string) {
				m.tampers = append(m.tampers, func(b *s3c.Built) {
					b.Header.Del(name)
					if val != "\x00" {
						b.Header = append(b.Header, [2]string{name, val})
					}
				})
			}
			dl := func(n int64) { s.DecodedLen = &n }
			switch v {
			case "nofinal":
				s.OmitFinalChunk = true
			case "tail":
				s.ExtraTail = []byte("5\r\nextra\r\n0\r\n\r\n")
			case "nocrlf":
				s.Mutate = func(enc []byte) []byte {
					toks, sizes := chunkHeaders(enc)
					if len(toks) < 2 {
						return enc
					}
					// drop the CRLF that follows the data of the first chunk
					p := bytes.Index(enc[toks[0][0]:], []byte("\r\n")) + 2 + sizes[0]
					return append(append([]byte{}, enc[:p]...), enc[p+2:]...)
				}
			case "lf":
				repl("\r\n", "\n", -1)
			case "nosig":
				s.Mutate = func(enc []byte) []byte {
					i := bytes.Index(enc, []byte(";chunk-signature="))
					if i < 0 {
						return enc
					}
					j := bytes.Index(enc[i:], []byte("\r\n"))
					return append(append([]byte{}, enc[:i]...), enc[i+j:]...)
				}
			case "shortsig", "longsig", "zzsig":
				s.Mutate = func(enc []byte) []byte {
					i := bytes.Index(enc, []byte(";chunk-signature="))
					if i < 0 {
						return enc
					}
					i += len(";chunk-signature=")
					j := bytes.Index(enc[i:], []byte("\r\n"))
					sig := map[string]string{"shortsig": "abc", "longsig": strings.Repeat("a", 5000), "zzsig": strings.Repeat("z", 64)}[v]
					return append(append(append([]byte{}, enc[:i]...), sig...), enc[i+j:]...)
				}
			case "badsig":
				s.BadChunkSig = 2
			case "badfinal":
				s.BadChunkSig = -1
			case "ext":
				repl("\r\n", ";c20=1\r\n", 1)
			case "emptyext":
				repl("\r\n", ";\r\n", 1)
			case "upper":
				s.UpperHex = true
			case "notrailer":
				s.TrailerName = ""
				hdr("X-Amz-Trailer", "x-amz-checksum-crc32")
			case "trname":
				repl("x-amz-checksum-crc32:", "x-amz-checksum-c20:", 1)
			case "trnocolon":
				repl("x-amz-checksum-crc32:", "x-amz-checksum-crc32", 1)
			case "trempty":
				s.TrailerVal = " "
			case "trwrong":
				s.TrailerVal = "AAAAAA=="
			case "trzz":
				s.TrailerVal = "!!!not base64!!!"
			case "trtwo":
				repl("x-amz-checksum-crc32:", "x-amz-checksum-sha1:AAAAAAAAAAAAAAAAAAAAAAAAAAA=\r\nx-amz-checksum-crc32:", 1)
			case "trlong":
				s.TrailerVal = strings.Repeat("A", 70000)
			case "trnoend":
				s.Mutate = func(enc []byte) []byte { return bytes.TrimSuffix(enc, []byte("\r\n\r\n")) }
			case "trsig":
				s.BadTrailerSig = true
			case "trhdr":
				hdr("X-Amz-Trailer", "x-amz-checksum-sha256")
			case "trnohdr":
				hdr("X-Amz-Trailer", "\x00")
			case "dl-1":
				dl(-1)
			case "dl0":
				dl(0)
			case "dlshort":
				dl(int64(len(chunkPayload) - 5))
			case "dllong":
				dl(int64(len(chunkPayload) + 5))
			case "dlhuge":
				dl(1<<63 - 1)
			case "dlabc":
				hdr("X-Amz-Decoded-Content-Length", "abc")
			case "dlnone":
				hdr("X-Amz-Decoded-Content-Length", "\x00")
			case "cenone":
				hdr("Content-Encoding", "\x00")
			case "cegzip":
				m.header.Set("Content-Encoding", "gzip")
			case "one":
				s.ChunkSizes = nil
			case "ones":
				s.ChunkSizes = []int{1}
			case "empty":
				m.body = nil
			case "zerofirst":
				s.Mutate = func(enc []byte) []byte { return append([]byte("0\r\n\r\n"), enc...) }
			case "frag1":
				m.fragments = []int{1}
			case "frag7":
				m.fragments = []int{7, 1, 13}
			case "big":
				m.body = bytes.Repeat([]byte("c20-big-"), 1<<17)
				s.ChunkSizes = []int{65536}
			case "crlf":
				s.Mutate = func(enc []byte) []byte { return []byte("\r\n\r\n\r\n") }
			case "bin":
				s.Mutate = func(enc []byte) []byte { return []byte("\x00\xff\x00\xff;\r\n\r\n\x00") }
			case "othermode":
				s.Mutate = func(enc []byte) []byte {
					if sm.mode == s3c.StreamUnsignTr {
						return []byte("10;chunk-signature=" + strings.Repeat("0", 64) + "\r\n0123456789abcdef\r\n0;chunk-signature=" + strings.Repeat("0", 64) + "\r\n\r\n")
					}
					return []byte("10\r\n0123456789abcdef\r\n0\r\nx-amz-checksum-crc32:AAAAAA==\r\n\r\n")
				}
			}
		}})
	}
	return fs
}

// ---- credentials / pre-authentication surface ----------------------------------------------------

func authFields(x *world) []field {
	var fs []field
	post := func(name string, vals []val) field {
		return field{name: "auth:" + name, vals: vals, set: func(m *model, v string) {
			m.tampers = append(m.tampers, func(b *s3c.Built) {
				b.Header.Del(name)
				if v != "\x00" {
					b.Header = append(b.Header, [2]string{name, v})
				}
			})
		}}
	}
	fs = append(fs, post("Authorization", append(authHeaderVals(x), val{class: "dropped", v: "\x00"}, val{class: "empty", v: ""})))
	fs = append(fs, post("X-Amz-Date", append(append([]val{}, amzDateVals...), val{class: "dropped", v: "\x00"})))
	fs = append(fs, post("X-Amz-Content-Sha256", append(append([]val{}, shaVals...), val{class: "dropped", v: "\x00"})))
	fs = append(fs, post("X-Amz-Security-Token", vs("garbage", "garbage", "long", strings.Repeat("t", 3000))))
	fs = append(fs, field{name: "auth:Authorization:dup", vals: vs("same-twice", "same", "second-garbage", "garbage", "v2-then-v4", "v2"), set: func(m *model, v string) {
		m.tampers = append(m.tampers, func(b *s3c.Built) {
			cur := b.Header.Get("Authorization")
			switch v {
			case "same":
				b.Header = append(b.Header, [2]string{"Authorization", cur})
			case "garbage":
				b.Header = append(b.Header, [2]string{"Authorization", "garbage"})
			case "v2":
				b.Header = append(s3c.H{{"Authorization", "AWS " + rootAK + ":c2ln"}}, b.Header...)
			}
		})
	}})
	// presigned URL parameters (the case runs with cred = presign)
	for _, p := range []struct {
		name string
		vals []val
	}{
		{"X-Amz-Algorithm", vs("empty", "", "garbage", "garbage", "v2", "AWS", "ecdsa", "AWS4-ECDSA-P256-SHA256", "dropped", "\x00", "long", strings.Repeat("a", 3000))},
		{"X-Amz-Credential", vs("empty", "", "no-slashes", rootAK, "4-parts", rootAK+"/20990101/us-east-1/s3", "6-parts", rootAK+"/20990101/us-east-1/s3/aws4_request/x", "slashes", "////", "short-date", rootAK+"/2099/us-east-1/s3/aws4_request",
			"bad-date", rootAK+"/99999999/us-east-1/s3/aws4_request", "unknown-access", "c20nosuch/20990101/us-east-1/s3/aws4_request", "wrong-service", rootAK+"/20990101/us-east-1/ec2/aws4_request", "dropped", "\x00", "long", strings.Repeat("c", 3000), "invalid-utf8", "\xff\xfe/20990101/us-east-1/s3/aws4_request")},
		{"X-Amz-Date", append(append([]val{}, amzDateVals...), val{class: "dropped", v: "\x00"})},
		{"X-Amz-Expires", append(append([]val{}, numVals...), val{class: "dropped", v: "\x00"}, val{class: "week-plus-one", v: "604801"})},
		{"X-Amz-SignedHeaders", vs("empty", "", "semicolons", ";;;", "missing-header", "host;x-not-there", "no-host", "x-amz-date", "upper", "HOST", "dropped", "\x00", "long", strings.Repeat("h;", 1500))},
		{"X-Amz-Signature", vs("empty", "", "short", "abc", "zeros", strings.Repeat("0", 64), "non-hex", strings.Repeat("z", 64), "long", strings.Repeat("0", 3000), "dropped", "\x00", "upper", strings.Repeat("A", 64))},
	} {
		p := p
		fs = append(fs, field{name: "presign:" + p.name, vals: p.vals, set: func(m *model, v string) {
			m.tampers = append(m.tampers, func(b *s3c.Built) {
				path, q, _ := strings.Cut(b.Target, "?")
				var parts []string
				for _, kv := range strings.Split(q, "&") {
					k, _, _ := strings.Cut(kv, "=")
					if k == p.name {
						if v == "\x00" {
							continue
						}
						kv = k + "=" + s3c.URIEncode(v, true)
					}
					parts = append(parts, kv)
				}
				b.Target = path + "?" + strings.Join(parts, "&")
			})
		}})
	}
	fs = append(fs, field{name: "presign:+Authorization", vals: vs("both-mechanisms", "1"), set: func(m *model, v string) {
		m.tampers = append(m.tampers, func(b *s3c.Built) {
			b.Header = append(b.Header, [2]string{"Authorization", "AWS4-HMAC-SHA256 Credential=" + rootAK + "/20990101/us-east-1/s3/aws4_request, SignedHeaders=host, Signature=" + strings.Repeat("0", 64)})
		})
	}})
	return fs
}

// raw request lines / byte-level hostile requests (no signature can be valid for them)
func rawCases() []val {
	req := func(line string, hdr ...string) string {
		return line + "\r\nHost: {HOST}\r\n" + strings.Join(hdr, "") + "\r\n"
	}
	return []val{
		{class: "http-0.9", v: "GET /\r\n"}, {class: "http-1.0", v: "GET / HTTP/1.0\r\n\r\n"}, {class: "http-1.0-host", v: "GET / HTTP/1.0\r\nHost: {HOST}\r\n\r\n"}, {class: "http-9.9", v: req("GET / HTTP/9.9")},
		{class: "http-2-preface", v: "PRI * HTTP/2.0\r\n\r\nSM\r\n\r\n"}, {class: "version-garbage", v: req("GET / JUNK/1.1")}, {class: "version-missing", v: req("GET /")}, {class: "lower-http", v: req("GET / http/1.1")},
		{class: "empty", v: ""}, {class: "crlf-only", v: "\r\n\r\n"}, {class: "method-only", v: "GET"}, {class: "method-blank", v: "GET \r\n\r\n"}, {class: "no-host", v: "GET / HTTP/1.1\r\n\r\n"},
		{class: "garbage-line", v: "GARBAGE\r\n\r\n"}, {class: "binary", v: "\x00\x01\x02\x03\xff\xfe\xfd\r\n\r\n"}, {class: "tls-client-hello", v: "\x16\x03\x01\x02\x00\x01\x00\x01\xfc\x03\x03" + strings.Repeat("\x11", 200)},
		{class: "1MiB-of-A", lazy: func() string { return strings.Repeat("A", 1<<20) }}, {class: "1MiB-request-line", lazy: func() string { return "GET /" + strings.Repeat("a", 1<<20) + " HTTP/1.1\r\nHost: {HOST}\r\n\r\n" }},
		{class: "absolute-uri", v: req("GET http://{HOST}/ HTTP/1.1")}, {class: "absolute-uri-other-host", v: req("GET http://c20.invalid/cnry-plain HTTP/1.1")}, {class: "asterisk", v: req("OPTIONS * HTTP/1.1")},
		{class: "connect", v: req("CONNECT {HOST} HTTP/1.1")}, {class: "two-blanks", v: req("GET  /  HTTP/1.1")}, {class: "tab-separated", v: req("GET\t/\tHTTP/1.1")}, {class: "blank-in-path", v: req("GET /a b HTTP/1.1")},
		{class: "nul-in-path", v: req("GET /a\x00b HTTP/1.1")}, {class: "lf-only-lines", v: "GET / HTTP/1.1\nHost: {HOST}\n\n"}, {class: "cr-only-lines", v: "GET / HTTP/1.1\rHost: {HOST}\r\r"},
		{class: "leading-crlf", v: "\r\n\r\n" + req("GET / HTTP/1.1")}, {class: "header-no-colon", v: req("GET / HTTP/1.1", "NoColonHere\r\n")}, {class: "header-blank-before-colon", v: req("GET / HTTP/1.1", "X-A : b\r\n")},
		{class: "header-leading-blank", v: req("GET / HTTP/1.1", " X-A: b\r\n")}, {class: "header-64KiB", lazy: func() string { return req("GET / HTTP/1.1", "X-A: "+strings.Repeat("v", 65536)+"\r\n") }},
		{class: "headers-never-end", lazy: func() string { return "GET / HTTP/1.1\r\nHost: {HOST}\r\n" + strings.Repeat("X-A: b\r\n", 20000) }}, {class: "health-post", v: req("POST /health HTTP/1.1", "Content-Length: 0\r\n")},
		{class: "health-head", v: req("HEAD /health HTTP/1.1")}, {class: "health-with-body", v: req("GET /health HTTP/1.1", "Content-Length: 5\r\n") + "hello"}, {class: "health-query", v: req("GET /health?acl&uploads&versionId=x HTTP/1.1")},
		{class: "pipelined-two", v: req("GET /health HTTP/1.1") + req("GET /health HTTP/1.1")}, {class: "pipelined-garbage-second", v: req("GET /health HTTP/1.1") + "GARBAGE\r\n\r\n"},
		{class: "put-no-auth-chunked-te-huge", v: req("PUT /cnry-plain/c20-raw HTTP/1.1", "Transfer-Encoding: chunked\r\n") + "7fffffffffffffff\r\nabc"}, {class: "put-no-auth-negative-cl", v: req("PUT /cnry-plain/c20-raw HTTP/1.1", "Content-Length: -5\r\n")},
		{class: "put-two-content-lengths", v: req("PUT /cnry-plain/c20-raw HTTP/1.1", "Content-Length: 3\r\n", "Content-Length: 5\r\n") + "abcde"}, {class: "te-and-cl", v: req("POST /cnry-plain?delete HTTP/1.1", "Content-Length: 3\r\n", "Transfer-Encoding: chunked\r\n") + "0\r\n\r\n"},
		{class: "query-8000-noauth", lazy: func() string {
			var sb strings.Builder
			sb.WriteString("GET /?")
			for i := 0; i < 8000; i++ {
				fmt.Fprintf(&sb, "p%d=1&", i)
			}
			sb.WriteString(" HTTP/1.1\r\nHost: {HOST}\r\n\r\n")
			return sb.String()
		}},
		{class: "unsigned-trailer-neg-chunk-noauth", v: req("PUT /cnry-plain/c20-raw HTTP/1.1", "X-Amz-Content-Sha256: STREAMING-UNSIGNED-PAYLOAD-TRAILER\r\n", "X-Amz-Trailer: x-amz-checksum-crc32\r\n", "X-Amz-Decoded-Content-Length: 3\r\n", "Content-Encoding: aws-chunked\r\n", "Content-Length: 9\r\n") + "-1\r\nabc\r\n"},
	}
}

// ---- case list ------------------------------------------------------------------------------------

type univ struct {
	entry *catalog.Entry
	f     field
}

func sanitizeID(s string) string {
	var sb strings.Builder
	for _, r := range s {
		if r >= 'a' && r <= 'z' || r >= 'A' && r <= 'Z' || r >= '0' && r <= '9' || r == '-' || r == '.' || r == ':' || r == '^' || r == '+' {
			sb.WriteRune(r)
		} else {
			sb.WriteByte('_')
		}
	}
	return sb.String()
}

func mk(f field, v val) mut {
	return mut{field: f.name, class: v.class, apply: func(m *model) { f.set(m, v.get()) }}
}

var invalidCreds = []string{credBadSig, credBadSig, credNoAuth, credUnknownAK, credPresignBadSig}

// generate builds the deterministic case list of the run: the anticipated corpus, a stratified
// sample (quick) or the whole (thorough) of the single-field universe with valid credentials,
// the same with invalid credentials, the pre-authentication surface, and random multi-field combinations.
func generate(x *world, rng *rand.Rand, thorough bool, total int) (cases []*fcase, universe int) {
	add := func(lane string, e *catalog.Entry, cred string, muts ...mut) *fcase {
		fc := &fcase{lane: lane, entry: e, muts: muts, cred: cred}
		fc.id = fmt.Sprintf("%s/%d/%s/%s/%s/%s", lane, len(cases), e.Name, sanitizeID(fc.fieldName()), sanitizeID(fc.className()), cred)
		if len(fc.id) > 200 {
			fc.id = fc.id[:200]
		}
		cases = append(cases, fc)
		return fc
	}
	cases = append(cases, anticipated(x)...)

	// well-formed positive controls (every entry, valid credentials): the store answers as seeded
	for _, e := range catalog.All() {
		add("control", e, credValid)
	}

	entries := catalog.All()
	byOp := map[string][]*catalog.Entry{}
	var ops []string
	for _, e := range entries {
		if byOp[e.Op] == nil {
			ops = append(ops, e.Op)
		}
		byOp[e.Op] = append(byOp[e.Op], e)
	}
	fieldsOf := map[string][]field{}
	for _, e := range entries {
		fieldsOf[e.Name] = fieldsFor(x, e)
		for _, f := range fieldsOf[e.Name] {
			universe += len(f.vals)
		}
	}
	af := authFields(x)
	raws := rawCases()
	authEntries := []string{"list-buckets", "get-object", "put-object", "put-bucket-tagging", "delete-objects", "upload-part", "copy-object", "admin-list-users", "head-object", "list-objects-v2", "complete-multipart-upload", "delete-object"}
	for _, f := range af {
		universe += len(f.vals) * len(authEntries)
	}
	universe += len(raws)
	lb := catalog.ByName("list-buckets")

	rawMut := func(v val) mut {
		return mut{field: "raw", class: v.class, apply: func(m *model) { m.rawWire = []byte(v.get()) }}
	}
	authCase := func(e *catalog.Entry, f field, v val) {
		cred := credValid
		if strings.HasPrefix(f.name, "presign:") {
			cred = credPresign
		}
		add("auth", e, cred, mk(f, v))
	}

	if thorough {
		for _, e := range entries {
			for _, f := range fieldsOf[e.Name] {
				for _, v := range f.vals {
					add("sys", e, credValid, mk(f, v))
				}
			}
		}
		for _, n := range authEntries {
			for _, f := range af {
				for _, v := range f.vals {
					authCase(catalog.ByName(n), f, v)
				}
			}
		}
		for _, v := range raws {
			add("raw", lb, credNoAuth, rawMut(v))
		}
	} else {
		// stratified: one value per (operation, field); the entry (path shape) is drawn among the entries of the operation
		for _, op := range ops {
			es := byOp[op]
			names := map[string]bool{}
			var order []string
			for _, e := range es {
				for _, f := range fieldsOf[e.Name] {
					if !names[f.name] {
						names[f.name] = true
						order = append(order, f.name)
					}
				}
			}
			for _, fname := range order {
				var cands []univ
				for _, e := range es {
					for _, f := range fieldsOf[e.Name] {
						if f.name == fname {
							cands = append(cands, univ{e, f})
						}
					}
				}
				for k := 0; k <= len(cands[0].f.vals)/70; k++ {
					u := cands[rng.Intn(len(cands))]
					add("sys", u.entry, credValid, mk(u.f, u.f.vals[rng.Intn(len(u.f.vals))]))
				}
			}
		}
		// every document variant of the operations that store a document as a bucket or object setting: an accepted
		// one is stored state that every later request of the bucket meets (see aftermath)
		for _, op := range ops {
			e := byOp[op][0]
			if e.Kind != catalog.W || e.Level == catalog.LvlAdmin {
				continue
			}
			for _, f := range fieldsOf[e.Name] {
				if f.name != "body:doc" {
					continue
				}
				for _, v := range f.vals {
					add("sys", e, credValid, mk(f, v))
				}
			}
		}
		for _, f := range af {
			for k := 0; k < 3; k++ {
				authCase(catalog.ByName(authEntries[rng.Intn(len(authEntries))]), f, f.vals[rng.Intn(len(f.vals))])
			}
		}
		for _, i := range rng.Perm(len(raws))[:20] {
			add("raw", lb, credNoAuth, rawMut(raws[i]))
		}
	}

	// random part: single fields with invalid credentials, and 2-3 field combinations
	pick := func() (*catalog.Entry, field, val) {
		e := entries[rng.Intn(len(entries))]
		fs := fieldsOf[e.Name]
		f := fs[rng.Intn(len(fs))]
		return e, f, f.vals[rng.Intn(len(f.vals))]
	}
	remaining := total - len(cases)
	nInvalid := remaining * 45 / 100
	for i := 0; i < nInvalid; i++ {
		e, f, v := pick()
		add("cred", e, invalidCreds[rng.Intn(len(invalidCreds))], mk(f, v))
	}
	for len(cases) < total {
		e := entries[rng.Intn(len(entries))]
		fs := fieldsOf[e.Name]
		n := 2 + rng.Intn(2)
		var muts []mut
		used := map[string]bool{}
		for len(muts) < n {
			f := fs[rng.Intn(len(fs))]
			kind, _, _ := strings.Cut(f.name, ":")
			if used[f.name] || (kind == "body" && used["k:body"]) || (strings.HasPrefix(kind, "chunk") && used["k:chunk"]) {
				continue
			}
			used[f.name] = true
			if kind == "body" {
				used["k:body"] = true
			}
			if strings.HasPrefix(kind, "chunk") {
				used["k:chunk"] = true
			}
			muts = append(muts, mk(f, f.vals[rng.Intn(len(f.vals))]))
		}
		sort.SliceStable(muts, func(i, j int) bool {
			return strings.HasPrefix(muts[i].field, "chunk") && !strings.HasPrefix(muts[j].field, "chunk")
		})
		cred := credValid
		switch r := rng.Intn(10); {
		case r == 0:
			cred = credBadSig
		case r == 1:
			cred = credPresign
		case r == 2:
			cred = credUser
		}
		fc := add("combo", e, cred, muts...)
		fc.big = rng.Intn(40) == 0
	}
	return cases, universe
}
