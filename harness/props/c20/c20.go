// Package c20: no request can crash or wedge the gateway.
//
// A grammar-based request fuzzer over the shared endpoint catalogue: every
// field of every catalogue request (method, path, each query parameter and
// header the controllers read, XML / JSON documents, aws-chunked framing,
// HTTP framing, credentials) is replaced by boundary / malformed / oversized /
// empty / type-confused values, with valid credentials (the handler is
// reached) and with invalid ones (pre-authentication surface). Several
// confined gateways (own uid, RLIMIT_AS) run on private copies of one seeded
// store. After every case a second client probes `GET /health` and a signed
// `GET /`; the liveness monitor decides:
//
//   - the process is alive; a death is attributed to the last request, the
//     gateway is restarted and the request is replayed alone against the fresh
//     process: confirmed -> `panic:<top versitygw frame>:<message class>` /
//     `alloc:...` / `fatal:...`; not reproduced -> `death-not-reproduced:...`
//   - the response parses, status 200..599, error statuses carry an S3 <Error><Code>
//   - completion under a watchdog; expiry is re-run in isolation and is a wedge
//     only if it expires again while the health probe is starved
//   - peak resident memory must not grow by more than 256 MiB for a request < 1 MiB
//
// Thorough tier adds a race lane: 16 concurrent fuzz clients against a -race gateway.
package c20

import (
	"bytes"
	"encoding/xml"
	"fmt"
	"io"
	"os"
	"regexp"
	"sort"
	"strconv"
	"strings"
	"sync"
	"time"
	"verif/harness/props/catalog"

	"verif/harness/internal/ev"
	"verif/harness/internal/gw"
	"verif/harness/internal/reg"
	"verif/harness/internal/s3c"
)

func init() { reg.Register("C20", "exploration", Run) }

const (
	watchdog     = 20 * time.Second
	probeTimeout = 8 * time.Second
	memLimitKiB  = 256 << 10
	virtLimitKiB = 1 << 20 // address-space growth (VmPeak) of 1 GiB for a request < 1 MiB
)

var debug = os.Getenv("C20_DEBUG") != ""

// ---- crash scraping ----------------------------------------------------------------------------

type crash struct {
	kind    string // panic | alloc | fatal | exit
	message string
	frame   string // top versitygw frame function (or first non-runtime frame)
	frames  []string
	sig     string
}

var (
	reCrashLine = regexp.MustCompile(`(?m)^(panic: .*|fatal error: .*)$`)
	reDigits    = regexp.MustCompile(`[0-9]+`)
	reFuncN     = regexp.MustCompile(`\.func[0-9]+(\.[0-9]+)*`)
)

func scrape(g *gw.GW) *crash {
	b, _ := os.ReadFile(g.LogPath)
	loc := reCrashLine.FindIndex(b)
	cr := &crash{}
	if loc == nil {
		cr.kind = "exit"
		cr.message = fmt.Sprintf("process exited without panic text: %v", g.ExitErr())
		if s := g.ExitSignal(); s != 0 {
			cr.message = fmt.Sprintf("process killed by signal %d", int(s))
			cr.sig = fmt.Sprintf("signal-%d", int(s))
		} else {
			cr.sig = "exit-without-panic"
		}
		if t := strings.TrimSpace(string(tailBytes(b, 300))); t != "" {
			cr.message += ": " + t
		}
		return cr
	}
	cr.message = string(b[loc[0]:loc[1]])
	rest := string(b[loc[1]:])
	if len(rest) > 20000 {
		rest = rest[:20000]
	}
	// frames of the first goroutine after the message
	if i := strings.Index(rest, "goroutine "); i >= 0 {
		lines := strings.Split(rest[i:], "\n")
		for _, l := range lines[1:] {
			if l == "" {
				break
			}
			if strings.HasPrefix(l, "\t") || strings.HasPrefix(l, " ") || strings.HasPrefix(l, "created by") {
				continue
			}
			if j := strings.LastIndex(l, "("); j > 0 {
				cr.frames = append(cr.frames, l[:j])
			}
		}
	}
	for _, f := range cr.frames {
		if strings.HasPrefix(f, "github.com/versity/versitygw/") {
			cr.frame = strings.TrimPrefix(f, "github.com/versity/versitygw/")
			break
		}
	}
	if cr.frame == "" {
		for _, f := range cr.frames {
			if !strings.HasPrefix(f, "runtime.") && !strings.HasPrefix(f, "panic") {
				cr.frame = "(dependency)" + f
				break
			}
		}
	}
	if cr.frame == "" {
		cr.frame = "(no-frame)"
	}
	msg := cr.message
	switch {
	case strings.HasPrefix(msg, "panic: "):
		cr.kind = "panic"
		msg = strings.TrimPrefix(msg, "panic: ")
	default:
		msg = strings.TrimPrefix(msg, "fatal error: ")
		cr.kind = "fatal"
		if strings.Contains(msg, "out of memory") || strings.Contains(msg, "cannot allocate memory") {
			cr.kind = "alloc"
			msg = "out of memory"
			if i := bytes.LastIndex(b[:loc[0]], []byte("runtime: out of memory")); i >= 0 {
				cr.message += " / " + strings.TrimSpace(string(b[i:loc[0]]))
			}
		}
	}
	cr.sig = cr.kind + ":" + reFuncN.ReplaceAllString(cr.frame, ".func") + ":" + msgClass(msg)
	return cr
}

func tailBytes(b []byte, n int) []byte {
	if len(b) > n {
		return b[len(b)-n:]
	}
	return b
}

// msgClass strips everything that varies between runs or inputs from a panic message.
func msgClass(msg string) string {
	msg = strings.TrimPrefix(msg, "runtime error: ")
	msg = strings.TrimSuffix(msg, " [recovered]")
	if i := strings.Index(msg, " ["); i > 0 {
		msg = msg[:i]
	}
	if strings.HasPrefix(msg, "interface conversion") {
		msg = strings.ReplaceAll(msg, "interface {}", "any")
	}
	msg = reDigits.ReplaceAllString(msg, "")
	var sb strings.Builder
	for _, r := range msg {
		switch {
		case r >= 'a' && r <= 'z' || r >= 'A' && r <= 'Z' || r == '.' || r == '_' || r == ':':
			sb.WriteRune(r)
		default:
			sb.WriteByte('-')
		}
	}
	out := strings.Trim(sb.String(), "-")
	for strings.Contains(out, "--") {
		out = strings.ReplaceAll(out, "--", "-")
	}
	if len(out) > 70 {
		out = out[:70]
	}
	return out
}

// cpuTicks returns utime+stime of a process (clock ticks), -1 if unknown.
func cpuTicks(pid int) int64 {
	b, err := os.ReadFile(fmt.Sprintf("/proc/%d/stat", pid))
	if err != nil {
		return -1
	}
	i := bytes.LastIndexByte(b, ')')
	f := strings.Fields(string(b[i+1:]))
	if len(f) < 14 {
		return -1
	}
	u, _ := strconv.ParseInt(f[11], 10, 64)
	st, _ := strconv.ParseInt(f[12], 10, 64)
	return u + st
}

func vmPeak(pid int) int64 {
	b, err := os.ReadFile(fmt.Sprintf("/proc/%d/status", pid))
	if err != nil {
		return 0
	}
	i := bytes.Index(b, []byte("VmPeak:"))
	if i < 0 {
		return 0
	}
	var kb int64
	fmt.Sscanf(strings.TrimSpace(string(b[i+7:min(len(b), i+40)])), "%d", &kb)
	return kb
}

// ---- health probe -----------------------------------------------------------------------------

type health struct {
	ok     bool
	detail string
}

func probe(cl *s3c.Client) health {
	w := &wire{method: "GET", bytes: []byte("GET /health HTTP/1.1\r\nHost: " + cl.Addr + "\r\n\r\n")}
	r := exchange(cl.Addr, w, probeTimeout)
	if r.err != nil || r.status != 200 {
		return health{false, "GET /health: " + r.String()}
	}
	req := &s3c.Req{Method: "GET", Path: "/"}
	b := cl.Build(req)
	head := b.Wire(req)
	r = exchange(cl.Addr, &wire{method: "GET", bytes: head}, probeTimeout)
	if r.err != nil || r.status != 200 || !bytes.Contains(r.body, []byte("ListAllMyBucketsResult")) {
		return health{false, "signed GET /: " + r.String()}
	}
	return health{true, ""}
}

// slowProbe probes `GET /health` and a signed `GET /` while a case is in flight for more than a second.
// /health is answered ahead of every middleware, so only the signed probe shows whether the gateway
// still serves other S3 clients.
type slowProbe struct {
	okN, failN         int // GET /health
	okSigned, failSign int // signed GET /
	wg                 sync.WaitGroup
}

func (s *slowProbe) starved() bool { return s.okSigned == 0 && s.failSign >= 2 }

func (s *slowProbe) start(cl *s3c.Client, stop <-chan struct{}) {
	s.wg.Add(1)
	go func() {
		defer s.wg.Done()
		select {
		case <-stop:
			return
		case <-time.After(time.Second):
		}
		for {
			w := &wire{method: "GET", bytes: []byte("GET /health HTTP/1.1\r\nHost: " + cl.Addr + "\r\n\r\n")}
			r := exchange(cl.Addr, w, 3*time.Second)
			if r.err == nil && r.status == 200 {
				s.okN++
			} else {
				s.failN++
			}
			req := &s3c.Req{Method: "GET", Path: "/"}
			b := cl.Build(req)
			r = exchange(cl.Addr, &wire{method: "GET", bytes: b.Wire(req)}, 3*time.Second)
			if r.err == nil && r.status == 200 {
				s.okSigned++
			} else {
				s.failSign++
			}
			select {
			case <-stop:
				return
			case <-time.After(400 * time.Millisecond):
			}
		}
	}()
}

// ---- worker ------------------------------------------------------------------------------------

type worker struct {
	c     *ev.Ctx
	x     *world
	name  string
	cfg   gw.Config
	store *gw.Store
	g     *gw.GW
	cl    *s3c.Client
	ring  []*fcase
	n     int
	logAt int64           // bytes of the gateway log already inspected
	dead  map[string]bool // case classes that killed a gateway (shared, for the race lane)
	mu    *sync.Mutex
	fatal error
}

func (w *worker) startGW() error {
	cfg := w.cfg
	cfg.Store = w.store
	cfg.Name = w.name
	g, err := gw.Start(cfg)
	if err != nil {
		return err
	}
	w.g = g
	w.cl = s3c.New(g.Addr, gw.RootAK, gw.RootSK)
	w.ring = nil
	w.logAt = 0
	return nil
}

func (w *worker) restart() error {
	if w.g != nil {
		w.g.Kill()
	}
	w.c.Add("gateway_restarts", 1)
	return w.startGW()
}

func (w *worker) restore() error {
	if w.g != nil {
		w.g.Kill()
	}
	w.c.Add("store_restores", 1)
	st, err := w.x.resetStore(w.store.Base)
	if err != nil {
		return err
	}
	w.store = st
	return w.startGW()
}

func (w *worker) close() {
	if w.g != nil {
		w.g.Kill()
	}
	if w.store != nil && os.Getenv("VERIF_KEEP") == "" {
		os.RemoveAll(w.store.Base)
	}
}

func newWorker(c *ev.Ctx, x *world, name string, cfg gw.Config) (*worker, error) {
	w := &worker{c: c, x: x, name: name, cfg: cfg}
	st, err := x.newStore("c20-" + name)
	if err != nil {
		return nil, err
	}
	w.store = st
	if err := w.startGW(); err != nil {
		os.RemoveAll(st.Base)
		return nil, err
	}
	// the copied store must answer as seeded
	r := w.cl.GetObject(x.st.Plain, x.st.Obj.Key)
	if !r.OK() || string(r.Body) != x.st.Obj.Content {
		w.close()
		return nil, fmt.Errorf("copied store does not serve the seeded object: %s", r.String())
	}
	return w, nil
}

type outcome struct {
	res  *result
	wr   *wire
	died bool
	cr   *crash
	hung bool // watchdog expired
	slow slowProbe
}

// send runs one case against the worker's current gateway and reports death / hang.
func (w *worker) send(fc *fcase, log bool) *outcome {
	m := fc.build(w.x)
	wr := m.wire(w.x, w.cl, watchdog)
	o := &outcome{wr: wr}
	if log {
		w.g.LogReq(fc.id + " " + wr.line)
	}
	stop := make(chan struct{})
	o.slow.start(w.cl, stop)
	o.res = exchange(w.g.Addr, wr, watchdog)
	close(stop)
	o.slow.wg.Wait()
	if o.res.timeout {
		o.hung = true
		return o
	}
	if o.res.err != nil && !w.g.Alive() || !w.g.Alive() {
		o.died = true
	} else {
		h := probe(w.cl)
		if !h.ok {
			if w.g.WaitExit(3 * time.Second) {
				o.died = true
			} else {
				time.Sleep(300 * time.Millisecond)
				if h = probe(w.cl); !h.ok {
					if w.g.WaitExit(time.Second) {
						o.died = true
					} else {
						o.hung = true
						o.res.err = fmt.Errorf("gateway alive but health probe fails after the case: %s", h.detail)
					}
				}
			}
		}
	}
	if o.died {
		w.g.WaitExit(3 * time.Second)
		o.cr = scrape(w.g)
	}
	return o
}

func (w *worker) detail(fc *fcase, o *outcome, extra map[string]any) map[string]any {
	d := map[string]any{"case": fc.id, "endpoint": fc.entry.Name, "operation": fc.entry.Op, "field": fc.fieldName(), "value_class": fc.className(), "credentials": fc.cred,
		"request": printable(o.wr.bytes, 3000), "request_len": len(o.wr.bytes), "request_sha": shortHash(o.wr.bytes)}
	if o.res != nil {
		d["response"] = o.res.String()
	}
	if o.cr != nil {
		d["crash_message"] = o.cr.message
		fr := o.cr.frames
		if len(fr) > 12 {
			fr = fr[:12]
		}
		d["crash_frames"] = fr
	}
	for k, v := range extra {
		d[k] = v
	}
	return d
}

func (w *worker) markDead(fc *fcase) {
	w.mu.Lock()
	w.dead[fc.entry.Op+"|"+fc.fieldName()+"|"+fc.className()] = true
	w.dead["id:"+fc.id] = true
	w.mu.Unlock()
}

// run executes one case with the full oracle.
func (w *worker) run(fc *fcase) {
	c := w.c
	if w.fatal != nil {
		// try once more before giving the case up
		if err := w.restore(); err != nil {
			c.Inconclusive("gateway could not be (re)started")
			return
		}
		w.fatal = nil
	}
	w.n++
	pre := w.g.VmHWM()
	prePeak := vmPeak(w.g.Pid())
	o := w.send(fc, true)
	c.Eval(1)
	prev := append([]*fcase{}, w.ring...)
	w.ring = append(w.ring, fc)
	if len(w.ring) > 5 {
		w.ring = w.ring[1:]
	}
	switch {
	case o.died:
		w.onDeath(fc, o, prev)
		return
	case o.hung:
		w.onHang(fc, o)
		return
	}
	post, postPeak := w.g.VmHWM(), vmPeak(w.g.Pid())
	small := len(o.wr.bytes) < 1<<20
	memGrew := small && pre > 0 && post-pre > memLimitKiB
	virtGrew := small && prePeak > 0 && postPeak-prePeak > virtLimitKiB
	if memGrew || virtGrew {
		// blame one field of a multi-field case: each mutation alone against a fresh process
		blamed := fc
		if len(fc.muts) > 1 {
			for _, mu := range fc.muts {
				single := &fcase{id: fc.id, lane: fc.lane, entry: fc.entry, muts: []mut{mu}, cred: fc.cred, big: fc.big}
				if w.restart() != nil {
					break
				}
				h0, p0 := w.g.VmHWM(), vmPeak(w.g.Pid())
				os := w.send(single, true)
				if os.died || os.hung {
					continue
				}
				if h1, p1 := w.g.VmHWM(), vmPeak(w.g.Pid()); (memGrew && h1-h0 > memLimitKiB) || (virtGrew && p1-p0 > virtLimitKiB) {
					blamed = single
					break
				}
			}
		}
		d := w.detail(fc, o, map[string]any{"vmhwm_before_kib": pre, "vmhwm_after_kib": post, "vmpeak_before_kib": prePeak, "vmpeak_after_kib": postPeak, "blamed_field": blamed.fieldName(), "blamed_value_class": blamed.className()})
		if memGrew {
			c.Violation("mem:"+fc.entry.Op+":"+blamed.fieldName(), fc.id, d)
		}
		if virtGrew {
			c.Violation("alloc-growth:"+fc.entry.Op+":"+blamed.fieldName(), fc.id, d)
		}
		// an allocation sized by the request that happened to fit below RLIMIT_AS leaves the address space
		// fragmented: restart so that later cases do not depend on this one
		if err := w.restart(); err != nil {
			w.fatal = err
			return
		}
	}
	w.recovered(fc, o)
	w.judge(fc, o)
	w.aftermath(fc, o)
	// keep the store usable for the cases that follow
	meth := o.wr.method
	if (o.res.err != nil || o.res.status < 300) && meth != "GET" && meth != "HEAD" || w.n%64 == 0 {
		if !w.x.usable(w.store.Base) {
			if err := w.restore(); err != nil {
				w.fatal = err
			}
		}
	}
	if w.n%1500 == 0 {
		// bound the growth of the store (objects created by accepted requests)
		if err := w.restore(); err != nil {
			w.fatal = err
		}
	}
}

func (w *worker) onDeath(fc *fcase, o *outcome, prev []*fcase) {
	c := w.c
	c.Add("gateway_deaths", 1)
	w.markDead(fc)
	first := o.cr
	if err := w.restart(); err != nil {
		w.fatal = err
		c.Inconclusive("restart after death failed")
		return
	}
	// replay in isolation against the fresh process
	o2 := w.send(fc, true)
	switch {
	case o2.died:
		c.Add("deaths_confirmed_in_isolation", 1)
		sig := o2.cr.sig
		extra := map[string]any{"confirmed_in_isolation": true, "first_death_signature": first.sig}
		c.Violation(sig, fc.id, w.detail(fc, o2, extra))
		c.Distinct("death|" + sig)
	default:
		// not reproduced alone: try the recent history of this gateway in order
		reproduced := false
		if len(prev) > 0 {
			if o2.hung {
				w.restart()
			}
			seq := append(append([]*fcase{}, prev...), fc)
			for _, p := range seq {
				if w.fatal != nil {
					break
				}
				op := w.send(p, true)
				if op.died {
					reproduced = true
					var ids []string
					for _, q := range seq {
						ids = append(ids, q.id)
					}
					c.Add("deaths_confirmed_by_sequence", 1)
					c.Violation(op.cr.sig, p.id, w.detail(p, op, map[string]any{"confirmed_in_isolation": false, "confirmed_by_replaying_sequence": ids, "first_death_signature": first.sig, "first_death_attributed_to": fc.id}))
					w.markDead(p)
					break
				}
				if op.hung {
					break
				}
			}
		}
		if !reproduced {
			c.Add("deaths_not_reproduced", 1)
			c.Violation("death-not-reproduced:"+first.sig, fc.id, w.detail(fc, o, map[string]any{"confirmed_in_isolation": false, "isolated_rerun": o2.res.String()}))
		}
	}
	if err := w.restart(); err != nil {
		w.fatal = err
		return
	}
	if !w.x.usable(w.store.Base) {
		if err := w.restore(); err != nil {
			w.fatal = err
		}
	}
}

func (w *worker) onHang(fc *fcase, o *outcome) {
	c := w.c
	c.Add("watchdog_expiries", 1)
	starved1 := o.slow.starved()
	if err := w.restart(); err != nil {
		w.fatal = err
		c.Inconclusive("restart after watchdog expiry failed")
		return
	}
	cpu0 := cpuTicks(w.g.Pid())
	o2 := w.send(fc, true)
	cpu1 := cpuTicks(w.g.Pid())
	switch {
	case o2.died:
		// the isolated re-run killed the gateway: that is a death, handled as such
		w.onDeath(fc, o2, nil)
		return
	case o2.hung && o2.res != nil && o2.res.timeout && o2.slow.okSigned >= 5 && o2.slow.failSign == 0 && o2.slow.failN == 0:
		// Alone on a fresh gateway the request (completely sent, connection half-closed, so the server cannot be
		// waiting for input) got no answer for the whole watchdog, twice, while the same process answered every
		// one of the signed requests and health probes sent to it in the meantime: machine and gateway are
		// responsive, this request is never answered. The CPU time the process used meanwhile tells a spinning
		// handler from a blocked one.
		kind := "blocked"
		if cpu1-cpu0 > int64(watchdog/time.Second)*50 { // more than half a core for the whole time (100 ticks/s)
			kind = "spinning"
		}
		c.Violation("unanswered:"+fc.site(), fc.id, w.detail(fc, o2, map[string]any{"watchdog_s": int(watchdog / time.Second), "handler": kind,
			"gateway_cpu_ticks_during_isolated_run": cpu1 - cpu0, "signed_probes_answered_meanwhile": o2.slow.okSigned, "health_probes_answered_meanwhile": o2.slow.okN, "first_run_health_starved": starved1}))
	case o2.hung && o2.slow.starved():
		c.Violation("wedge:"+fc.site(), fc.id, w.detail(fc, o2, map[string]any{"first_run_health_starved": starved1, "isolated_health_probes_ok": o2.slow.okN, "isolated_health_probes_failed": o2.slow.failN, "isolated_signed_probes_ok": o2.slow.okSigned, "isolated_signed_probes_failed": o2.slow.failSign}))
	case o2.hung:
		c.Inconclusive("watchdog expired twice but the health probe was served: " + fc.entry.Op + ":" + fc.fieldName())
	default:
		c.Inconclusive("watchdog expired once, isolated re-run completed: " + fc.entry.Op + ":" + fc.fieldName())
	}
	if err := w.restart(); err != nil {
		w.fatal = err
	}
}

// recovered looks at what the (still running) gateway wrote to its log during the case: a panic that
// a recover handler swallowed leaves the process alive but is still a panic triggered by input.
func (w *worker) recovered(fc *fcase, o *outcome) {
	fi, err := os.Stat(w.g.LogPath)
	if err != nil || fi.Size() <= w.logAt {
		return
	}
	f, err := os.Open(w.g.LogPath)
	if err != nil {
		return
	}
	defer f.Close()
	buf := make([]byte, min(fi.Size()-w.logAt, 1<<20))
	n, _ := f.ReadAt(buf, w.logAt)
	w.logAt = fi.Size()
	txt := string(buf[:n])
	i := strings.Index(strings.ToLower(txt), "panic")
	if i < 0 {
		return
	}
	if !strings.Contains(txt[i:], ".go:") {
		w.c.Observe("gateway log mentions a panic without a stack trace")
		return
	}
	line, _, _ := strings.Cut(txt[i:], "\n")
	frame := "(no-frame)"
	rest := txt[i:]
	if j := strings.Index(rest, "\npanic("); j >= 0 {
		rest = rest[j+1:]
	}
	for _, l := range strings.Split(rest, "\n") {
		if strings.HasPrefix(l, "github.com/versity/versitygw/") {
			if k := strings.LastIndex(l, "("); k > 0 {
				l = l[:k]
			}
			frame = reFuncN.ReplaceAllString(strings.TrimPrefix(l, "github.com/versity/versitygw/"), ".func")
			break
		}
	}
	if k := strings.Index(strings.ToLower(line), "panic"); k >= 0 {
		line = strings.TrimLeft(line[k+5:], ": ")
	}
	w.c.Violation("recovered-panic:"+frame+":"+msgClass(line), fc.id, w.detail(fc, o, map[string]any{"log_excerpt": printable([]byte(txt[i:min(len(txt), i+1500)]), 1500)}))
}

// aftermath: a hostile document that the gateway ACCEPTED as a bucket setting is stored state, and every ordinary
// request that reads it later is served by code that may not expect it. After each accepted bucket-level write with
// a mutated body the ordinary operations are run on that bucket: none may panic (recovered or not), kill
// or wedge the gateway (a 5xx answer as such is an observation). The store is restored afterwards so that the cases that follow do not meet the setting.
// adminAftermath: after every answered admin request (accepted or refused) the account store must still answer: a
// request signed with an access key nobody knows, and the account listing, are answered within 8 s.
func (w *worker) adminAftermath(fc *fcase, o *outcome) {
	if fc.entry.Level != catalog.LvlAdmin || o.res == nil || o.res.err != nil || o.res.status == 0 || o.wr.method != "PATCH" {
		return
	}
	c := w.c
	c.Add("admin_aftermath_runs", 1)
	unknown := w.cl.With("AKIAC20NOBODYKNOWS", "no-such-secret-1")
	for _, pr := range []struct {
		name string
		run  func() *s3c.Resp
	}{
		{"request-with-unknown-access-key", func() *s3c.Resp {
			return unknown.Do(&s3c.Req{Method: "GET", Path: "/", FreshConn: true, Watchdog: 8 * time.Second})
		}},
		{"list-users", func() *s3c.Resp {
			return w.cl.Do(&s3c.Req{Method: "PATCH", Path: "/list-users", FreshConn: true, Watchdog: 8 * time.Second})
		}},
	} {
		r := pr.run()
		c.Eval(1)
		if r.Err == nil {
			continue
		}
		if !w.g.Alive() || w.g.WaitExit(2*time.Second) {
			d := w.detail(fc, o, map[string]any{"followup": pr.name})
			if cr := scrape(w.g); cr != nil {
				d["crash"] = cr
			}
			c.Violation("aftermath:admin:"+fc.entry.Op+":gateway-died", fc.id, d)
			w.fatal = fmt.Errorf("gateway died in admin aftermath")
			return
		}
		c.Violation(fmt.Sprintf("aftermath:admin:%s:answered-%d:%s-unanswered-within-8s", fc.entry.Op, o.res.status/100*100, pr.name), fc.id,
			w.detail(fc, o, map[string]any{"followup": pr.name, "error": r.Err.Error(), "admin_answer": o.res.status}))
		if err := w.restore(); err != nil {
			w.fatal = err
		}
		return
	}
	c.Distinct(fmt.Sprintf("admin-aftermath|%s|%dxx", fc.entry.Op, o.res.status/100))
}

func (w *worker) aftermath(fc *fcase, o *outcome) {
	w.adminAftermath(fc, o)
	if w.fatal != nil {
		return
	}
	if o.res == nil || o.res.err != nil || o.res.status < 200 || o.res.status > 299 || o.wr.method == "GET" || o.wr.method == "HEAD" {
		return
	}
	bodyMut := ""
	for _, m := range fc.muts {
		if strings.HasPrefix(m.field, "body:") {
			bodyMut = m.class
		}
	}
	if bodyMut == "" {
		return
	}
	// request line: METHOD /bucket[?query] HTTP/1.1 - bucket level only
	f := strings.Fields(o.wr.line)
	if len(f) < 2 {
		return
	}
	path, _, _ := strings.Cut(f[1], "?")
	bucket := strings.Trim(path, "/")
	if bucket == "" || strings.Contains(bucket, "/") || strings.ContainsAny(bucket, "%") {
		return
	}
	if h := w.cl.HeadBucket(bucket); !h.OK() {
		return
	}
	c := w.c
	c.Add("aftermath_runs", 1)
	type step struct {
		name string
		run  func() *s3c.Resp
	}
	key := "aftermath-object"
	var up string
	var part *s3c.Resp
	steps := []step{
		{"PutObject", func() *s3c.Resp { return w.cl.PutObject(bucket, key, []byte("ordinary data")) }},
		{"GetObject", func() *s3c.Resp { return w.cl.GetObject(bucket, key) }},
		{"HeadObject", func() *s3c.Resp { return w.cl.HeadObject(bucket, key) }},
		{"CopyObject", func() *s3c.Resp { return w.cl.CopyObject(bucket, key, bucket, key+"-copy") }},
		{"ListObjectsV2", func() *s3c.Resp { return w.cl.ListV2(bucket) }},
		{"ListObjectVersions", func() *s3c.Resp { return w.cl.Sub("GET", bucket, "", "versions=", nil) }},
		{"CreateMultipartUpload", func() *s3c.Resp { var r *s3c.Resp; up, r = w.cl.CreateMPU(bucket, key+"-mpu"); return r }},
		{"UploadPart", func() *s3c.Resp { part = w.cl.UploadPart(bucket, key+"-mpu", up, 1, []byte("part data")); return part }},
		{"CompleteMultipartUpload", func() *s3c.Resp {
			return w.cl.CompleteMPU(bucket, key+"-mpu", up, []s3c.Part{{N: 1, ETag: part.Header.Get("Etag")}})
		}},
		{"PutObjectTagging", func() *s3c.Resp {
			tb := s3c.TaggingXML(map[string]string{"a": "b"})
			return w.cl.Sub("PUT", bucket, key, "tagging=", tb, "Content-MD5", s3c.MD5B64(tb))
		}},
		{"DeleteObject", func() *s3c.Resp { return w.cl.DeleteObject(bucket, key) }},
		{"HeadBucket", func() *s3c.Resp { return w.cl.HeadBucket(bucket) }},
	}
	bad := false
	for _, st := range steps {
		if (st.name == "UploadPart" || st.name == "CompleteMultipartUpload") && (up == "" || (st.name == "CompleteMultipartUpload" && (part == nil || !part.OK()))) {
			continue
		}
		r := st.run()
		c.Eval(1)
		what := fmt.Sprintf("aftermath:%s:after-accepted:%s:%s", st.name, fc.entry.Op, bodyMut)
		if r.Err != nil {
			if !w.g.Alive() || w.g.WaitExit(2*time.Second) {
				cr := scrape(w.g)
				d := w.detail(fc, o, map[string]any{"followup": st.name, "bucket": bucket})
				if cr != nil {
					d["crash"] = cr
				}
				c.Violation(what+":gateway-died", fc.id, d)
				w.fatal = fmt.Errorf("gateway died in aftermath")
				return
			}
			c.Violation(what+":unanswered", fc.id, w.detail(fc, o, map[string]any{"followup": st.name, "bucket": bucket, "error": r.Err.Error()}))
			bad = true
			break
		}
		if r.Status >= 500 {
			// a well-formed InternalError document is an answer the property admits; what it rules out (a panic behind
			// it) is read from the gateway log below
			c.Observe(fmt.Sprintf("aftermath: %s answered %s after an accepted %s (%s)", st.name, r.String(), fc.entry.Op, bodyMut))
		}
	}
	w.recovered(fc, o)
	if !bad {
		c.Distinct("aftermath|" + fc.entry.Op + "|" + bodyMut)
	}
	if err := w.restore(); err != nil {
		w.fatal = err
	}
}

// ---- response oracle -----------------------------------------------------------------------------

func wellFormedXML(b []byte) error {
	d := xml.NewDecoder(bytes.NewReader(b))
	d.Strict = true
	n := 0
	for {
		t, err := d.Token()
		if err == io.EOF {
			if n == 0 {
				return fmt.Errorf("no element")
			}
			return nil
		}
		if err != nil {
			return err
		}
		if _, ok := t.(xml.StartElement); ok {
			n++
		}
	}
}

func isS3Error(b []byte) bool {
	var e struct {
		XMLName xml.Name
		Code    string
	}
	if err := xml.Unmarshal(b, &e); err != nil {
		return false
	}
	return e.XMLName.Local == "Error" && e.Code != ""
}

func fieldKind(fc *fcase) string {
	k, _, _ := strings.Cut(fc.fieldName(), ":")
	return k
}

var respHist = struct {
	sync.Mutex
	m map[string]int
}{m: map[string]int{}}

func (w *worker) judge(fc *fcase, o *outcome) {
	c := w.c
	r := o.res
	if r.err != nil {
		if r.gotBytes > 0 && !strings.Contains(r.err.Error(), "read body") {
			c.Violation("malformed-response:"+fc.entry.Op+":"+fc.fieldName(), fc.id, w.detail(fc, o, map[string]any{"received": printable([]byte(r.gotHead), 300)}))
			return
		}
		if r.gotBytes > 0 {
			c.Inconclusive("response body cut short (gateway alive): " + fieldKind(fc))
			return
		}
		c.Inconclusive("connection closed without a response (gateway alive): " + fieldKind(fc))
		return
	}
	if debug {
		ct := r.header.Get("Content-Type")
		pre := string(r.body[:min(len(r.body), 40)])
		if isS3Error(r.body) {
			pre = "<Error>" + r.errCode()
		} else if r.status < 300 {
			pre = "(success)"
		}
		respHist.Lock()
		respHist.m[fmt.Sprintf("%d|%s|%q", r.status, ct, pre)]++
		respHist.Unlock()
	}
	if r.status < 200 || r.status > 599 {
		c.Violation(fmt.Sprintf("bad-status:%d:%s", r.status, fc.entry.Op), fc.id, w.detail(fc, o, nil))
		return
	}
	head := strings.EqualFold(o.wr.method, "HEAD")
	ct := strings.ToLower(r.header.Get("Content-Type"))
	switch {
	case r.status >= 400 && !head:
		if !isS3Error(r.body) {
			if layer := httpLayer(r); layer != "" {
				c.Observe("refused below the S3 layer without an S3 error document: " + layer)
			} else {
				body := string(r.body[:min(len(r.body), 60)])
				c.Violation(fmt.Sprintf("error-without-s3-document:%d:%s", r.status, msgClass(body)), fc.id, w.detail(fc, o, map[string]any{"content_type": ct, "body": printable(r.body, 300)}))
				return
			}
		}
	case r.status < 400 && !head && len(r.body) > 0 && strings.Contains(ct, "xml"):
		if err := wellFormedXML(r.body); err != nil {
			c.Violation("malformed-xml-body:"+fc.entry.Op, fc.id, w.detail(fc, o, map[string]any{"xml_error": err.Error(), "body": printable(r.body, 300)}))
			return
		}
	}
	if debug && fc.lane == "anticipated" {
		fmt.Printf("ANT %-110s %s\n", fc.id, r.String())
	}
	c.Distinct(fc.classKey())
	if fc.lane == "control" && r.status < 300 {
		c.Add("endpoints_live", 1)
	}
	c.Add("answered_"+fmt.Sprint(r.status/100)+"xx", 1)
	if credIsValid(fc.cred) && r.status != 403 {
		c.Add("reached_handler", 1)
	}
}

// httpLayer recognises refusals produced by the HTTP server / router before any S3 code ran
// (request line or header parse errors, header block larger than the read buffer, unrouted
// method). Their plain-text body is not judged against the S3 error format.
func httpLayer(r *result) string {
	body := strings.TrimSpace(string(r.body[:min(len(r.body), 200)]))
	switch {
	case r.status == 431:
		return "431 request header fields too large"
	case r.status == 413:
		return "413 request entity too large"
	case r.status == 400 && (strings.HasPrefix(body, "error when reading request headers") || strings.HasPrefix(body, "Error when parsing request") || body == "Bad Request" || body == "Invalid http method"):
		return "400 request line / header parse error"
	case r.status == 400 && (body == "unexpected EOF" || strings.HasPrefix(body, "cannot read multipart/form-data body") || strings.HasPrefix(body, "error when reading request body") || strings.HasPrefix(body, "cannot read request body")):
		return "400 request body framing error"
	case r.status == 405 && (body == "Method Not Allowed" || body == ""):
		return "405 unrouted method"
	case r.status == 404 && strings.HasPrefix(body, "Cannot "):
		return "404 unrouted path"
	case r.status == 501 && (body == "Not Implemented" || body == ""):
		return "501 unknown method"
	case r.status == 417:
		return "417 expectation failed"
	case r.status == 408:
		return "408 request timeout"
	}
	return ""
}

// ---- lanes ---------------------------------------------------------------------------------------

func mainLane(c *ev.Ctx, x *world, cases []*fcase, nWorkers int, dead map[string]bool) {
	mu := &sync.Mutex{}
	cfg := gw.Config{Versioning: true, MemLimitMB: 4096, UID: jailUID}
	var wg sync.WaitGroup
	for i := 0; i < nWorkers; i++ {
		i := i
		wg.Add(1)
		go func() {
			defer wg.Done()
			w, err := newWorker(c, x, fmt.Sprintf("w%d", i), cfg)
			for try := 0; err != nil && try < 3; try++ {
				w, err = newWorker(c, x, fmt.Sprintf("w%d", i), cfg)
			}
			if err != nil {
				c.Inconclusive("worker start: " + err.Error())
				return
			}
			w.dead, w.mu = dead, mu
			defer w.close()
			for k := i; k < len(cases); k += nWorkers {
				fc := cases[k]
				if !c.Want(fc.id) {
					continue
				}
				w.run(fc)
				if k < 3*nWorkers && len(fc.muts) > 0 {
					c.Sample(map[string]any{"case": fc.id, "operation": fc.entry.Op, "field": fc.fieldName(), "value_class": fc.className(), "credentials": fc.cred})
				}
			}
		}()
	}
	wg.Wait()
}

func raceLane(c *ev.Ctx, x *world, cases []*fcase, dead map[string]bool, clients int) {
	w, err := newWorker(c, x, "race", gw.Config{Versioning: true, Race: true})
	if err != nil {
		c.Inconclusive("race gateway start: " + err.Error())
		return
	}
	defer w.close()
	var mu sync.Mutex // guards restarts
	seen := map[string]bool{}
	collect := func(g *gw.GW) {
		for _, rep := range g.RaceReports() {
			sig, inV := gw.RaceSig(rep)
			if seen[sig] {
				continue
			}
			seen[sig] = true
			c.Add("race_reports", 1)
			if inV {
				if len(rep) > 4000 {
					rep = rep[:4000]
				}
				c.Violation("race:"+strings.ReplaceAll(sig, " ", ""), "race", map[string]any{"report": rep})
			} else {
				c.Observe("race report entirely inside dependencies: " + sig)
			}
		}
	}
	var todo []*fcase
	for _, fc := range cases {
		if dead["id:"+fc.id] || dead[fc.entry.Op+"|"+fc.fieldName()+"|"+fc.className()] || fc.lane == "anticipated" {
			continue
		}
		todo = append(todo, fc)
	}
	gen := 0
	restarts := 0
	var wg sync.WaitGroup
	for i := 0; i < clients; i++ {
		i := i
		wg.Add(1)
		go func() {
			defer wg.Done()
			for k := i; k < len(todo); k += clients {
				fc := todo[k]
				mu.Lock()
				g, cl, myGen := w.g, w.cl, gen
				mu.Unlock()
				if restarts > 300 {
					return
				}
				m := fc.build(x)
				wr := m.wire(x, cl, watchdog)
				g.LogReq(fc.id + " " + wr.line)
				r := exchange(g.Addr, wr, watchdog)
				c.Eval(1)
				c.Add("race_lane_requests", 1)
				if r.err != nil && !g.Alive() || !g.Alive() {
					mu.Lock()
					if gen == myGen {
						g.WaitExit(3 * time.Second)
						collect(g)
						cr := scrape(g)
						c.Observe("race lane: gateway died under concurrent load (not attributed): " + cr.sig)
						restarts++
						gen++
						if err := w.restart(); err != nil {
							restarts = 1000
						}
						if !x.usable(w.store.Base) {
							w.restore()
						}
					}
					mu.Unlock()
				}
			}
		}()
	}
	wg.Wait()
	w.g.Stop()
	collect(w.g)
	c.Set("race_lane_gateway_restarts", restarts)
}

func Run(c *ev.Ctx) int {
	c.Assume("HTTP/1.1 over loopback, posix backend with xattr metadata and a versioning directory, internal IAM; gateways run as uid 4242 with RLIMIT_AS 4 GiB on private copies of one seeded store")
	c.Assume("every request is half-closed after its last byte, so a request whose framing promises more bytes than were sent ends with EOF at the server instead of blocking")
	c.Assume("plain-text refusals produced by the HTTP server/router below the S3 layer (request parse errors, 431, unrouted method or path) are observations, not judged against the S3 error format")
	c.Assume("a transport error or a connection closed without response while the gateway stays alive is inconclusive, never a violation")
	x, err := seedWorld()
	if err != nil {
		c.Inconclusive("seed: " + err.Error())
		return c.Finish("nothing ran", 1)
	}
	defer x.close()
	total := c.Pick(8000, 150000)
	cases, universe := generate(x, c.Rng("cases"), c.Thorough(), total)
	if debug {
		for _, fc := range cases {
			fmt.Println("CASE", fc.id)
		}
	}
	c.Set("cases_generated", len(cases))
	c.Set("single_field_universe", universe)
	lanes := map[string]int{}
	for _, fc := range cases {
		lanes[fc.lane]++
	}
	c.Set("cases_per_lane", lanes)
	dead := map[string]bool{}
	nWorkers := c.Pick(6, 8)
	if c.Only != "" {
		nWorkers = 1
	}
	wedgeDone := make(chan struct{})
	go func() { defer close(wedgeDone); wedgeLane(c); policyCostLane(c) }()
	recvDone := make(chan struct{})
	go func() { defer close(recvDone); receiverLane(c); loggingLane(c) }()
	mainLane(c, x, cases, nWorkers, dead)
	<-wedgeDone
	<-recvDone
	if c.Thorough() && (c.Only == "" || c.Only == "race") {
		rng := c.Rng("race")
		var sample []*fcase
		for _, i := range rng.Perm(len(cases))[:min(len(cases), 12000)] {
			sample = append(sample, cases[i])
		}
		raceLane(c, x, sample, dead, 16)
	}
	if debug {
		var keys []string
		for k := range respHist.m {
			keys = append(keys, k)
		}
		sort.Strings(keys)
		for _, k := range keys {
			fmt.Printf("RESP %6d %s\n", respHist.m[k], k)
		}
	}
	return c.Finish("grammar fuzz over the endpoint catalogue: every field (method, path, query parameter, header, XML/JSON document, aws-chunked framing, HTTP framing, credentials) of every catalogue request replaced by boundary/malformed/oversized/empty/type-confused values, valid and invalid credentials, 2-3 field combinations; liveness monitor after every case (process alive, /health and signed GET / served, response well formed, watchdog, VmHWM growth); deaths replayed in isolation; distinct = (operation, field, value class, credential validity) answered with a well-formed response",
		c.Pick(2000, 20000))
}
