package c20

import (
	"fmt"
	"sort"
	"strings"
	"time"

	"verif/harness/internal/ev"
	"verif/harness/internal/fx"
	"verif/harness/internal/gate"
	"verif/harness/internal/gw"
	"verif/harness/internal/s3c"
)

// Wedge lane: "keeps serving other clients" under interleavings. One request P is paused at each of the
// instrumentation points it passes (gate scheduler); while it is paused a fixed set of other clients sends
// ordinary requests (object reads and writes on the same and on other keys, bucket listing, a first request of an
// account that is not cached yet, account administration); then P is released. While P is paused the others may
// legitimately wait; once it is released EVERY request must be answered. A request that is still unanswered after
// two 30 s confirmations, with the process alive and answering /health in between, is a wedge.
//
// Nothing here judges status codes: only that every request gets an answer and the process stays alive.

type wedgeWorld struct {
	c    *ev.Ctx
	env  *fx.Env
	ctl  *gate.Ctl
	root *s3c.Client
	n    int
	cold int // next unused account of the pool (accounts the running process has not looked up yet)
}

const coldPool = 600

// nextCold returns an account that exists in the store but was never looked up by the running process.
func (w *wedgeWorld) nextCold() string {
	w.cold++
	return fmt.Sprintf("cold-%04d", w.cold%coldPool)
}

const (
	wPlain = "wedge-plain"
	wVers  = "wedge-versioned"
	wSK    = "wedgesecret0001"
)

func acctBody(ak, sk string) []byte {
	return []byte(fmt.Sprintf(`<Account><Access>%s</Access><Secret>%s</Secret><Role>user</Role><UserID>0</UserID><GroupID>0</GroupID></Account>`, ak, sk))
}

type wedgeOp struct {
	name string
	// prep runs unpaused before the schedule and returns the paused request
	prep func(w *wedgeWorld, k string) func() *s3c.Resp
	cold bool // restart the gateway after prep (cold account cache)
}

func mpuPrep(bucket string) func(w *wedgeWorld, k string) func() *s3c.Resp {
	return func(w *wedgeWorld, k string) func() *s3c.Resp {
		id, _ := w.root.CreateMPU(bucket, k)
		r := w.root.UploadPart(bucket, k, id, 1, []byte("part-one-"+k))
		et := r.Header.Get("Etag")
		return func() *s3c.Resp { return w.root.CompleteMPU(bucket, k, id, []s3c.Part{{N: 1, ETag: et}}) }
	}
}

func wedgeOps() []wedgeOp {
	put := func(b string) func(w *wedgeWorld, k string) func() *s3c.Resp {
		return func(w *wedgeWorld, k string) func() *s3c.Resp {
			return func() *s3c.Resp {
				return w.root.PutObject(b, k, []byte("new-"+k), "X-Amz-Tagging", "a=b", "X-Amz-Meta-M", "1")
			}
		}
	}
	over := func(b string) func(w *wedgeWorld, k string) func() *s3c.Resp {
		return func(w *wedgeWorld, k string) func() *s3c.Resp {
			w.root.PutObject(b, k, []byte("old-"+k))
			return func() *s3c.Resp { return w.root.PutObject(b, k, []byte("new-"+k)) }
		}
	}
	del := func(b string) func(w *wedgeWorld, k string) func() *s3c.Resp {
		return func(w *wedgeWorld, k string) func() *s3c.Resp {
			w.root.PutObject(b, k, []byte("old-"+k))
			return func() *s3c.Resp { return w.root.DeleteObject(b, k) }
		}
	}
	return []wedgeOp{
		{name: "first-request-of-uncached-account", prep: func(w *wedgeWorld, k string) func() *s3c.Resp {
			ak := w.nextCold()
			return func() *s3c.Resp { return w.root.With(ak, wSK).Do(&s3c.Req{Method: "GET", Path: "/"}) }
		}},
		{name: "create-user", prep: func(w *wedgeWorld, k string) func() *s3c.Resp {
			return func() *s3c.Resp { return w.root.Admin("/create-user", "", acctBody("new-"+k, wSK)) }
		}},
		{name: "update-user", prep: func(w *wedgeWorld, k string) func() *s3c.Resp {
			w.root.Admin("/create-user", "", acctBody("upd-"+k, wSK))
			return func() *s3c.Resp {
				return w.root.Admin("/update-user", s3c.Q("access", "upd-"+k), []byte("<MutableProps><GroupID>7</GroupID></MutableProps>"))
			}
		}},
		{name: "delete-user", prep: func(w *wedgeWorld, k string) func() *s3c.Resp {
			w.root.Admin("/create-user", "", acctBody("del-"+k, wSK))
			return func() *s3c.Resp { return w.root.Admin("/delete-user", s3c.Q("access", "del-"+k), nil) }
		}},
		{name: "put", prep: put(wPlain)},
		{name: "put-versioned", prep: put(wVers)},
		{name: "overwrite", prep: over(wPlain)},
		{name: "overwrite-versioned", prep: over(wVers)},
		{name: "put-dir-object", prep: func(w *wedgeWorld, k string) func() *s3c.Resp {
			return func() *s3c.Resp { return w.root.PutObject(wPlain, "dir-"+k+"/sub/", nil) }
		}},
		{name: "delete", prep: del(wPlain)},
		{name: "delete-versioned", prep: del(wVers)},
		{name: "delete-version", prep: func(w *wedgeWorld, k string) func() *s3c.Resp {
			r1 := w.root.PutObject(wVers, k, []byte("v1-"+k))
			w.root.PutObject(wVers, k, []byte("v2-"+k))
			vid := r1.Header.Get("X-Amz-Version-Id")
			return func() *s3c.Resp {
				return w.root.Do(&s3c.Req{Method: "DELETE", Path: s3c.ObjPath(wVers, k), Query: s3c.Q("versionId", vid)})
			}
		}},
		{name: "delete-latest-version", prep: func(w *wedgeWorld, k string) func() *s3c.Resp {
			w.root.PutObject(wVers, k, []byte("v1-"+k))
			r2 := w.root.PutObject(wVers, k, []byte("v2-"+k))
			vid := r2.Header.Get("X-Amz-Version-Id")
			return func() *s3c.Resp {
				return w.root.Do(&s3c.Req{Method: "DELETE", Path: s3c.ObjPath(wVers, k), Query: s3c.Q("versionId", vid)})
			}
		}},
		{name: "get", prep: func(w *wedgeWorld, k string) func() *s3c.Resp {
			w.root.PutObject(wPlain, k, []byte("old-"+k))
			return func() *s3c.Resp { return w.root.GetObject(wPlain, k) }
		}},
		{name: "head", prep: func(w *wedgeWorld, k string) func() *s3c.Resp {
			w.root.PutObject(wPlain, k, []byte("old-"+k))
			return func() *s3c.Resp { return w.root.Do(&s3c.Req{Method: "HEAD", Path: s3c.ObjPath(wPlain, k)}) }
		}},
		{name: "copy", prep: func(w *wedgeWorld, k string) func() *s3c.Resp {
			w.root.PutObject(wPlain, k, []byte("old-"+k))
			return func() *s3c.Resp {
				return w.root.Do(&s3c.Req{Method: "PUT", Path: s3c.ObjPath(wVers, k+"-copy"), Header: s3c.H{{"X-Amz-Copy-Source", wPlain + "/" + k}}})
			}
		}},
		{name: "upload-part", prep: func(w *wedgeWorld, k string) func() *s3c.Resp {
			id, _ := w.root.CreateMPU(wPlain, k)
			return func() *s3c.Resp { return w.root.UploadPart(wPlain, k, id, 1, []byte("part-"+k)) }
		}},
		{name: "complete-upload", prep: mpuPrep(wPlain)},
		{name: "complete-upload-versioned", prep: mpuPrep(wVers)},
		{name: "create-bucket", prep: func(w *wedgeWorld, k string) func() *s3c.Resp {
			return func() *s3c.Resp { return w.root.CreateBucket("wedge-b-" + k) }
		}},
		{name: "delete-bucket", prep: func(w *wedgeWorld, k string) func() *s3c.Resp {
			w.root.CreateBucket("wedge-d-" + k)
			return func() *s3c.Resp { return w.root.Do(&s3c.Req{Method: "DELETE", Path: "/wedge-d-" + k}) }
		}},
	}
}

type named struct {
	name string
	resp *s3c.Resp
}

// observers are the "other clients"; k is the key the paused request works on.
func (w *wedgeWorld) observers(op, k string) map[string]func() *s3c.Resp {
	warm := w.root.With("warm", wSK)
	fresh := fmt.Sprintf("obs-%d", w.n)
	cold := w.nextCold()
	o := map[string]func() *s3c.Resp{
		"root-list-buckets":   func() *s3c.Resp { return w.root.Do(&s3c.Req{Method: "GET", Path: "/", FreshConn: true}) },
		"cached-user-request": func() *s3c.Resp { return warm.Do(&s3c.Req{Method: "GET", Path: "/", FreshConn: true}) },
		"uncached-user-request": func() *s3c.Resp {
			return w.root.With(cold, wSK).Do(&s3c.Req{Method: "GET", Path: "/", FreshConn: true})
		},
		"unknown-access-key": func() *s3c.Resp {
			return w.root.With("nobody-"+fresh, wSK).Do(&s3c.Req{Method: "GET", Path: "/", FreshConn: true})
		},
		"admin-create-user": func() *s3c.Resp {
			return w.root.Do(&s3c.Req{Method: "PATCH", Path: "/create-user", Body: acctBody(fresh, wSK), FreshConn: true})
		},
		"admin-update-user": func() *s3c.Resp {
			return w.root.Do(&s3c.Req{Method: "PATCH", Path: "/update-user", Query: s3c.Q("access", "warm"), Body: []byte("<MutableProps><GroupID>9</GroupID></MutableProps>"), FreshConn: true})
		},
		"admin-list-users": func() *s3c.Resp {
			return w.root.Do(&s3c.Req{Method: "PATCH", Path: "/list-users", FreshConn: true})
		},
		"list-objects": func() *s3c.Resp {
			return w.root.Do(&s3c.Req{Method: "GET", Path: "/" + wPlain, Query: "list-type=2", FreshConn: true})
		},
		"list-versions": func() *s3c.Resp {
			return w.root.Do(&s3c.Req{Method: "GET", Path: "/" + wVers, Query: "versions=", FreshConn: true})
		},
		"put-other-key": func() *s3c.Resp {
			return w.root.Do(&s3c.Req{Method: "PUT", Path: s3c.ObjPath(wPlain, "other-"+fresh), Body: []byte("x"), FreshConn: true})
		},
	}
	for _, b := range []string{wPlain, wVers} {
		b := b
		o["put-same-key:"+b] = func() *s3c.Resp {
			return w.root.Do(&s3c.Req{Method: "PUT", Path: s3c.ObjPath(b, k), Body: []byte("observer-" + k), FreshConn: true})
		}
		o["get-same-key:"+b] = func() *s3c.Resp {
			return w.root.Do(&s3c.Req{Method: "GET", Path: s3c.ObjPath(b, k), FreshConn: true})
		}
		o["delete-same-key:"+b] = func() *s3c.Resp {
			return w.root.Do(&s3c.Req{Method: "DELETE", Path: s3c.ObjPath(b, k), FreshConn: true})
		}
	}
	if strings.HasPrefix(op, "update-user") || strings.HasPrefix(op, "delete-user") {
		ak := map[bool]string{true: "upd-" + k, false: "del-" + k}[strings.HasPrefix(op, "update")]
		o["request-of-the-account-being-changed"] = func() *s3c.Resp {
			return w.root.With(ak, wSK).Do(&s3c.Req{Method: "GET", Path: "/", FreshConn: true})
		}
	}
	return o
}

func (w *wedgeWorld) health() bool {
	r := w.root.Do(&s3c.Req{Method: "GET", Path: "/health", NoSign: true, FreshConn: true, Watchdog: 20 * time.Second})
	return r.Err == nil
}

// schedule pauses op's request at its j-th point. Returns the point name ("" = fewer than j points), wedged = stop.
func (w *wedgeWorld) schedule(op wedgeOp, j int) (point string, wedged bool) {
	c := w.c
	w.n++
	k := fmt.Sprintf("k%04d", w.n)
	id := fmt.Sprintf("wedge/%s/%d", op.name, j)
	w.ctl.SetPolicy(nil)
	fire := op.prep(w, k)
	if op.cold {
		if err := w.env.Restart(0); err != nil {
			c.Inconclusive("restart: " + err.Error())
			return "", true
		}
		w.root = w.env.Client(0)
		w.root.DefaultWatchdog = 150 * time.Second
	}
	obs := w.observers(op.name, k)
	pol, seen := gate.HoldNth(j)
	w.ctl.SetPolicy(pol)
	done := make(chan named, len(obs)+1)
	go func() { done <- named{"paused-request", fire()} }()
	var h *gate.Hit
	var early *named
	for t := 0; t < 400 && h == nil && early == nil; t++ {
		h = w.ctl.WaitHeld(25 * time.Millisecond)
		if h == nil {
			select {
			case r := <-done:
				early = &r
			default:
			}
		}
	}
	if early != nil {
		// answered after passing fewer than j points
		w.ctl.SetPolicy(nil)
		return "", false
	}
	if h == nil {
		// the request passed fewer than j points (or none): it must simply have completed
		w.ctl.SetPolicy(nil)
		select {
		case <-done:
			return "", false
		case <-time.After(60 * time.Second):
			if !w.health() {
				c.Inconclusive("gateway unresponsive (no point reached)")
				return "", true
			}
			c.Eval(1)
			c.Violation("wedge:"+op.name+":request-never-answered", id, map[string]any{"points_passed": seen()})
			return "", true
		}
	}
	point = h.Name
	w.ctl.SetPolicy(nil) // observers run freely
	var names []string
	for n, f := range obs {
		names = append(names, n)
		go func(n string, f func() *s3c.Resp) { done <- named{n, f()} }(n, f)
	}
	sort.Strings(names)
	// let the observers reach whatever they may have to wait for
	time.Sleep(150 * time.Millisecond)
	h.Release()
	pending := map[string]bool{"paused-request": true}
	for _, n := range names {
		pending[n] = true
	}
	answers := map[string]string{}
	stuck := 0
	for len(pending) > 0 {
		select {
		case r := <-done:
			delete(pending, r.name)
			answers[r.name] = r.resp.String()
		case <-time.After(30 * time.Second):
			alive := w.health()
			if i, cr := w.env.Dead(); cr != nil {
				c.Eval(1)
				c.Violation("wedge:"+op.name+"@"+point+":gateway-died:"+strings.TrimPrefix(cr.TopFrame, "github.com/versity/versitygw/"), id,
					map[string]any{"gateway": i, "crash": cr.Message})
				return point, true
			}
			if !alive {
				c.Inconclusive("gateway alive but /health unanswered during wedge schedule " + id)
				w.env.GWs[0].Kill()
				return point, true
			}
			stuck++
			if stuck >= 2 {
				var left []string
				for n := range pending {
					left = append(left, n)
				}
				sort.Strings(left)
				c.Eval(1)
				c.Violation("wedge:"+op.name+"@"+point+":requests-never-answered", id, map[string]any{
					"schedule":             "pause " + op.name + " at " + point + " | other clients send " + strings.Join(names, ", ") + " | release",
					"unanswered_after_60s": left, "answered": answers, "health_probe_answered": true})
				w.env.GWs[0].Kill()
				return point, true
			}
		}
	}
	c.Eval(1)
	if i, cr := w.env.Dead(); cr != nil {
		c.Violation("wedge:"+op.name+"@"+point+":gateway-died:"+strings.TrimPrefix(cr.TopFrame, "github.com/versity/versitygw/"), id,
			map[string]any{"gateway": i, "crash": cr.Message, "answers": answers})
		return point, true
	}
	c.Distinct("wedge|" + op.name + "@" + point)
	c.Add("wedge_schedules", 1)
	c.Add("wedge_requests_answered", len(answers))
	return point, false
}

func wedgeLane(c *ev.Ctx) {
	if !c.Want("wedge") {
		return
	}
	ctl, err := gate.New(gw.Scratch())
	if err != nil {
		c.Inconclusive(err.Error())
		return
	}
	defer ctl.Close()
	env, err := fx.New("c20w", gw.Config{Versioning: true, Env: ctl.Env()}, 1)
	if err != nil {
		c.Inconclusive("gateway start (wedge lane): " + err.Error())
		return
	}
	defer env.Close()
	w := &wedgeWorld{c: c, env: env, ctl: ctl, root: env.Client(0)}
	w.root.DefaultWatchdog = 150 * time.Second
	w.root.CreateBucket(wPlain)
	w.root.CreateBucket(wVers)
	w.root.PutBucketVersioning(wVers, "Enabled")
	w.root.Admin("/create-user", "", acctBody("warm", wSK))
	for i := 0; i < coldPool; i++ {
		if r := w.root.Admin("/create-user", "", acctBody(fmt.Sprintf("cold-%04d", i), wSK)); r.Status != 201 {
			c.Inconclusive("wedge lane setup: create-user " + r.String())
			return
		}
	}
	// creating an account caches it: start a new process so that the pool is known to the store only
	if err := env.Restart(0); err != nil {
		c.Inconclusive("restart: " + err.Error())
		return
	}
	w.root = env.Client(0)
	w.root.DefaultWatchdog = 150 * time.Second
	w.root.With("warm", wSK).Do(&s3c.Req{Method: "GET", Path: "/"})
	if r := w.root.GetObject(wPlain, "absent"); r.Status != 404 {
		c.Inconclusive("wedge lane control: " + r.String())
		return
	}
	var paused []string
	defer func() { c.Set("wedge_paused_at", paused) }()
	for _, op := range wedgeOps() {
		maxJ := 12
		if !c.Thorough() {
			maxJ = 8
		}
		for j := 1; j <= maxJ; j++ {
			if !c.Want(fmt.Sprintf("wedge/%s/%d", op.name, j)) {
				continue
			}
			point, wedged := w.schedule(op, j)
			if wedged {
				return
			}
			if point == "" {
				break
			}
			paused = append(paused, op.name+"@"+point)
		}
	}
}

// Policy-cost lane: every request of a non-admin account is matched against the bucket policy, so a legal policy
// (many wildcards) together with a legal key (long, almost matching) must still be answered. A request that a fresh
// gateway leaves unanswered for the whole watchdog, twice, while it answers root's signed requests, is a violation.
func policyCostLane(c *ev.Ctx) {
	id := "wedge/policy-cost"
	if !c.Want(id) {
		return
	}
	env, err := fx.New("c20p", gw.Config{}, 1)
	if err != nil {
		c.Inconclusive("gateway start (policy-cost lane): " + err.Error())
		return
	}
	defer env.Close()
	root := env.Client(0)
	root.Admin("/create-user", "", acctBody("alice", wSK))
	const b = "logbucket"
	if r := root.CreateBucket(b); !r.OK() {
		c.Inconclusive("create bucket: " + r.String())
		return
	}
	for _, shape := range []struct {
		name, res, key string
	}{
		{"17-wildcards-slash", b + "/logs/" + strings.Repeat("*/", 17) + "*.gz", "logs/" + strings.Repeat("d/", 480) + "app.txt"},
		{"30-wildcards-letter", b + "/" + strings.Repeat("*a", 30) + "*.gz", strings.Repeat("da", 480) + "app.txt"},
		{"24-adjacent-wildcards", b + "/" + strings.Repeat("*", 24) + "x", strings.Repeat("a", 900)},
	} {
		pol := fmt.Sprintf(`{"Version":"2012-10-17","Statement":[{"Effect":"Allow","Principal":{"AWS":["alice"]},"Action":"s3:GetObject","Resource":"arn:aws:s3:::%s"}]}`, shape.res)
		if r := root.Sub("PUT", b, "", "policy=", []byte(pol)); !r.OK() {
			c.Observe("policy-cost lane: policy refused (" + shape.name + "): " + r.String())
			continue
		}
		unanswered := 0
		for attempt := 0; attempt < 2; attempt++ {
			alice := env.Client(0).With("alice", wSK)
			r := alice.Do(&s3c.Req{Method: "HEAD", Path: s3c.ObjPath(b, shape.key), FreshConn: true, Watchdog: 20 * time.Second})
			c.Eval(1)
			if r.Err == nil {
				break
			}
			probe := env.Client(0).Do(&s3c.Req{Method: "GET", Path: "/", FreshConn: true, Watchdog: 10 * time.Second})
			if i, cr := env.Dead(); cr != nil {
				c.Violation("wedge:policy-evaluation:gateway-died:"+strings.TrimPrefix(cr.TopFrame, "github.com/versity/versitygw/"), id, map[string]any{"gateway": i, "crash": cr.Message, "policy_resource": shape.res})
				return
			}
			if probe.Err != nil {
				c.Inconclusive("policy-cost lane: request unanswered and the signed probe too (machine or gateway overloaded)")
				return
			}
			unanswered++
			if err := env.Restart(0); err != nil {
				c.Inconclusive("restart: " + err.Error())
				return
			}
		}
		if unanswered == 2 {
			c.Violation("unanswered:policy-evaluation:"+shape.name, id, map[string]any{"policy_resource": shape.res, "key_len": len(shape.key), "key_head": shape.key[:40] + "...",
				"caller": "alice (role user)", "watchdog_s": 20, "attempts": 2, "root_probe_answered_meanwhile": true})
			continue
		}
		c.Distinct("wedge|policy-cost|" + shape.name)
	}
}
