package c20

import (
	"fmt"
	"os"
	"path/filepath"
	"strings"

	"verif/harness/internal/fx"
	"verif/harness/internal/gw"
	"verif/harness/internal/s3c"
	"verif/harness/internal/snap"
	"verif/harness/props/catalog"
)

const jailUID = 4242

// ext is what this check adds to the catalogue seed: enough multipart uploads,
// parts, keys and versions for markers and ids to be "present in the listing".
type ext struct {
	UploadA1, UploadA2, UploadB, UploadC string // a (two uploads on one key), b, d/c
	KeyA, KeyB, KeyC                     string
	MoreUploadKeys                       []string
	MPObj                                string // object assembled from a multipart upload
	Susp                                 string // bucket with versioning Suspended
	SuspKey                              string
	ListKeys                             []string
}

// world is the seeded store template shared (by copy) by all gateways of the run.
type world struct {
	st   *catalog.State
	ext  ext
	tmpl string   // template store directory (owned by jailUID)
	must []string // paths (relative to the store base) that must exist for the store to be usable
}

func seedWorld() (*world, error) {
	env, err := fx.New("c20seed", gw.Config{Versioning: true}, 1)
	if err != nil {
		return nil, err
	}
	x := &world{}
	fail := func(err error) (*world, error) {
		env.Close()
		return nil, err
	}
	if x.st, err = catalog.Seed(env); err != nil {
		return fail(err)
	}
	cl := env.Client(0)
	st := x.st
	var firstErr error
	ok := func(what string, r *s3c.Resp) *s3c.Resp {
		if firstErr == nil && !r.OK() {
			firstErr = fmt.Errorf("seed extension: %s: %s", what, r.String())
		}
		return r
	}
	e := &x.ext
	e.KeyA, e.KeyB, e.KeyC = "cnry-mpu-a.bin", "cnry-mpu-b.bin", "d/cnry-mpu-c.bin"
	e.MoreUploadKeys = []string{"cnry-mpu-e.bin", "cnry-mpu-f.bin", "cnry-mpu-g.bin", "d/cnry-mpu-h.bin", "cnry-mpu-i.bin", "cnry-mpu-j.bin"}
	mpu := func(key string, parts int) string {
		id, r := cl.CreateMPU(st.Plain, key)
		ok("create mpu "+key, r)
		for n := 1; n <= parts; n++ {
			ok("upload part", cl.UploadPart(st.Plain, key, id, n, []byte(fmt.Sprintf("c20 part %d of %s", n, key))))
		}
		return id
	}
	e.UploadA1 = mpu(e.KeyA, 3)
	e.UploadA2 = mpu(e.KeyA, 1)
	e.UploadB = mpu(e.KeyB, 2)
	e.UploadC = mpu(e.KeyC, 0)
	for _, k := range e.MoreUploadKeys {
		mpu(k, 1)
	}
	// an object assembled from one part
	e.MPObj = "cnry-mpobj.bin"
	id, r := cl.CreateMPU(st.Plain, e.MPObj)
	ok("create mpu obj", r)
	pr := ok("upload part", cl.UploadPart(st.Plain, e.MPObj, id, 1, []byte("c20 single part object content")))
	if pr.Header != nil {
		ok("complete", cl.CompleteMPU(st.Plain, e.MPObj, id, []s3c.Part{{N: 1, ETag: pr.Header.Get("ETag")}}))
	}
	// listing material
	e.ListKeys = []string{"a.txt", "b/1", "b/2", "b/c/3", "m.txt", "z.txt", "zero"}
	for _, k := range e.ListKeys {
		body := []byte("c20 " + k)
		if k == "zero" {
			body = nil
		}
		ok("put "+k, cl.PutObject(st.Plain, k, body))
	}
	ok("put checksum object", cl.PutObject(st.Plain, "cnry-sum.txt", []byte("c20 checksum"), "X-Amz-Checksum-Crc32", s3c.Checksum("crc32", []byte("c20 checksum"))))
	// suspended versioning
	e.Susp, e.SuspKey = "cnry-susp", "cnry-s.txt"
	ok("create susp", cl.CreateBucket(e.Susp))
	ok("enable versioning", cl.PutBucketVersioning(e.Susp, "Enabled"))
	ok("put v", cl.PutObject(e.Susp, e.SuspKey, []byte("c20 first")))
	ok("suspend", cl.PutBucketVersioning(e.Susp, "Suspended"))
	ok("put null", cl.PutObject(e.Susp, e.SuspKey, []byte("c20 null version")))
	if firstErr != nil {
		return fail(firstErr)
	}
	env.GWs[0].Stop()
	if err := env.Store.Chown(jailUID, jailUID); err != nil {
		return fail(err)
	}
	x.tmpl = env.Store.Base
	// presence list: every directory / file of the seeded gateway root and versioning dir
	filepath.Walk(x.tmpl, func(p string, fi os.FileInfo, err error) error {
		if err != nil {
			return nil
		}
		rel, _ := filepath.Rel(x.tmpl, p)
		if rel == "." || strings.Contains(rel, ".sgwtmp/") && !strings.Contains(rel, "multipart") {
			return nil
		}
		x.must = append(x.must, rel)
		return nil
	})
	return x, nil
}

func (x *world) close() {
	if x.tmpl != "" && os.Getenv("VERIF_KEEP") == "" {
		os.RemoveAll(x.tmpl)
	}
}

// newStore copies the template to a fresh directory.
func (x *world) newStore(name string) (*gw.Store, error) {
	dir := fx.UniqueDir(name)
	return x.resetStore(dir)
}

func (x *world) resetStore(dir string) (*gw.Store, error) {
	if err := os.RemoveAll(dir); err != nil {
		return nil, err
	}
	if err := snap.CopyTree(x.tmpl, dir); err != nil {
		return nil, err
	}
	os.Chmod(dir, 0o755)
	os.Lchown(dir, jailUID, jailUID)
	return gw.NewStore(dir)
}

// usable reports whether everything the cases refer to still exists in the store.
func (x *world) usable(base string) bool {
	for _, rel := range x.must {
		if _, err := os.Lstat(filepath.Join(base, rel)); err != nil {
			return false
		}
	}
	b, err := os.ReadFile(filepath.Join(base, "iam", "users.json"))
	if err == nil {
		for _, a := range []string{x.st.Admin.Access, x.st.UserPlus.Access, x.st.User.Access} {
			if !strings.Contains(string(b), a) {
				return false
			}
		}
	}
	return true
}
