package c20

import (
	"fmt"
	"strings"

	"verif/harness/props/catalog"
)

// anticipated is the fixed corpus of requests aimed at the dereference / index /
// allocation sites named in the property record (found by reading /repo and by
// earlier probes). It runs in every tier and for every seed, so that a crash
// site that is reachable at all is met on every run, not only when the PRNG
// happens to draw it.
func anticipated(x *world) []*fcase {
	var out []*fcase
	cache := map[string][]field{}
	add := func(entry, fieldName, class, cred string, more ...string) {
		e := catalog.ByName(entry)
		if e == nil {
			panic("c20: no catalogue entry " + entry)
		}
		if cache[entry] == nil {
			cache[entry] = fieldsFor(x, e)
		}
		find := func(fn, cl string) mut {
			for _, f := range cache[entry] {
				if f.name != fn {
					continue
				}
				for _, v := range f.vals {
					if v.class == cl {
						return mk(f, v)
					}
				}
			}
			panic(fmt.Sprintf("c20: no field/class %s / %s for %s", fn, cl, entry))
		}
		muts := []mut{find(fieldName, class)}
		for i := 0; i+1 < len(more); i += 2 {
			muts = append(muts, find(more[i], more[i+1]))
		}
		fc := &fcase{lane: "anticipated", entry: e, muts: muts, cred: cred}
		fc.id = fmt.Sprintf("anticipated/%d/%s/%s/%s/%s", len(out), e.Name, sanitizeID(fc.fieldName()), sanitizeID(fc.className()), cred)
		out = append(out, fc)
	}
	// OwnershipControls without a rule: Rules[0]
	add("put-bucket-ownership", "body:doc", "self-closed-root", credValid)
	add("put-bucket-ownership", "body:doc", "empty-root", credValid)
	add("put-bucket-ownership-slash", "body:doc", "self-closed-root", credValid)
	add("put-bucket-ownership", "body:doc", "self-closed-root", credBadSig)
	// chunk size sizes an allocation (before the signature is known)
	for _, cred := range []string{credValid, credBadSig, credNoAuth, credUnknownAK} {
		add("put-object", "chunk-size:unsigned-trailer:first", "-1", cred)
	}
	add("put-object", "chunk-size:unsigned-trailer:first", "2^63-1", credBadSig)
	add("put-object", "chunk-size:unsigned-trailer:first", "2^32", credBadSig)
	add("put-object", "chunk-size:unsigned-trailer:first", "7fffffff", credBadSig)
	add("put-object", "chunk-size:unsigned-trailer:middle", "-1", credValid)
	add("put-object", "chunk-size:unsigned-trailer:final", "-1", credValid)
	add("upload-part", "chunk-size:unsigned-trailer:first", "-1", credBadSig)
	add("put-object", "chunk-size:signed:first", "-1", credValid)
	add("put-object", "chunk-size:signed:first", "-1", credBadSig)
	add("put-object", "chunk-size:signed:first", "2^63-1", credValid)
	add("put-object", "chunk-size:signed:first", "2^32", credValid)
	add("put-object", "chunk-size:signed-trailer:first", "-1", credValid)
	add("put-object", "chunk-size:signed-trailer:first", "2^63-1", credBadSig)
	// aws-chunked decoders: every structural variation and every truncation point of a small stream, correctly
	// signed (the decoders run before / while the signature is checked, and a decoder that never returns is a
	// wedge just like a panic is a crash). All three stream modes, PutObject and UploadPart.
	for _, entry := range []string{"put-object", "upload-part"} {
		e := catalog.ByName(entry)
		if cache[entry] == nil {
			cache[entry] = fieldsFor(x, e)
		}
		for _, f := range cache[entry] {
			switch {
			case strings.HasPrefix(f.name, "chunk-misc:"):
				for _, v := range f.vals {
					add(entry, f.name, v.class, credValid)
				}
			case strings.HasPrefix(f.name, "chunk-cut:"), strings.HasPrefix(f.name, "chunk-eof:") && entry == "put-object":
				for _, v := range f.vals {
					add(entry, f.name, v.class, credValid)
				}
			}
		}
	}
	// list-valued headers are split by hand-written code: every value class of the catalogue, in every run
	for _, v := range attrVals {
		add("get-object-attributes", "h:X-Amz-Object-Attributes", v.class, credValid)
	}
	// requests that announce no body length at all
	for _, entry := range []string{"put-object", "upload-part", "put-bucket-tagging", "delete-objects", "complete-multipart-upload", "create-bucket"} {
		for _, cl := range []string{"absent", "absent-and-no-body"} {
			add(entry, "http:Content-Length", cl, credValid)
			add(entry, "http:Content-Length", cl, credBadSig)
		}
	}
	// ListBuckets: buckets[len-1] with max-buckets=0
	add("list-buckets", "q:max-buckets", "0", credValid)
	add("list-buckets", "q:max-buckets", "0", credUser)
	add("list-buckets", "q:max-buckets", "1", credValid, "q:continuation-token", "seed-bucket")
	add("list-buckets", "q:max-buckets", "-1", credValid)
	// ListMultipartUploads marker arithmetic
	add("list-multipart-uploads", "q:max-uploads", "1", credValid, "q:key-marker", "upload-key-a")
	add("list-multipart-uploads", "q:max-uploads", "1", credValid, "q:key-marker", "upload-key-b")
	add("list-multipart-uploads", "q:max-uploads", "2", credValid, "q:key-marker", "upload-key-a")
	for _, k := range []string{"upload-key-seed", "upload-key-c", "upload-key-e", "upload-key-f", "upload-key-g", "upload-key-h", "upload-key-i", "upload-key-j"} {
		add("list-multipart-uploads", "q:max-uploads", "1", credValid, "q:key-marker", k)
	}
	add("list-multipart-uploads", "q:max-uploads", "1", credValid)
	add("list-multipart-uploads", "q:max-uploads", "0", credValid)
	add("list-multipart-uploads", "q:max-uploads", "1", credValid, "q:key-marker", "upload-key-a", "q:upload-id-marker", "other-key-upload")
	add("list-multipart-uploads", "q:key-marker", "after-last", credValid)
	add("list-multipart-uploads", "q:upload-id-marker", "valid", credValid)
	// DeleteObjects with a nil key
	add("delete-objects", "body:doc", "nil-object", credValid)
	add("delete-objects", "body:doc", "nil-object-no-ns", credValid)
	add("delete-objects", "body:doc", "version-only", credValid)
	add("delete-objects", "body:doc", "self-closed-root", credValid)
	// listings without / with odd markers
	add("list-objects-v2", "q:start-after", "empty", credValid)
	add("list-objects-v2", "q:max-keys", "0", credValid)
	add("list-objects-v2", "q:max-keys", "-1", credValid)
	add("list-objects-v1", "q:max-keys", "0", credValid, "q:marker", "list-first")
	add("list-object-versions", "q:max-keys", "0", credValid)
	add("list-object-versions", "q:version-id-marker", "valid-v1", credValid, "q:key-marker", "versioned-key")
	add("list-object-versions", "q:version-id-marker", "valid-v1", credValid)
	// copy sources
	for _, cl := range []string{"slash-only", "two-slashes", "bucket-only", "slash-bucket", "bucket-slash", "version-only", "version-empty", "version-garbage", "percent", "percent-zz", "blank", "one-char"} {
		add("copy-object", "h:X-Amz-Copy-Source", cl, credValid)
	}
	add("upload-part-copy", "h:X-Amz-Copy-Source", "slash-only", credValid)
	add("upload-part-copy", "h:X-Amz-Copy-Source", "bucket-only", credValid)
	add("upload-part-copy", "h:X-Amz-Copy-Source-Range", "bytes-eq", credValid)
	add("put-bucket-acl", "h:X-Amz-Copy-Source", "slash-only", credValid)
	// empty key forms
	for _, e := range []string{"get-object", "head-object", "put-object", "delete-object", "create-multipart-upload"} {
		add(e, "path", "bucket-slash-slash", credValid)
		add(e, "path", "bucket-encoded-slash", credValid)
		add(e, "path", "bucket-two-encoded-slashes", credValid)
	}
	// attribute reads on objects / buckets that never had the attribute
	add("get-bucket-versioning", "path", "missing-bucket", credValid)
	add("get-object-legal-hold", "path", "dir-of-file", credValid)
	add("get-object-retention", "path", "missing-key", credValid)
	// sites found by the generated part of this check (kept here so that every seed meets them)
	add("list-buckets", "path", "star", credValid)
	add("get-object", "path", "no-leading-slash", credValid)
	add("put-bucket-acl", "body:doc", "missing-grantee", credValid)
	add("put-bucket-acl", "body:doc", "nil-grant", credValid)
	add("select-object-content", "body:doc", "nil-members", credValid)
	// part numbers
	add("upload-part", "q:partNumber", "0", credValid)
	add("upload-part", "q:partNumber", "2^31", credValid)
	add("upload-part", "q:partNumber", "abc", credValid)
	add("get-object", "q:partNumber", "0", credValid)
	add("head-object", "q:partNumber", "-1", credValid)
	add("list-parts", "q:part-number-marker", "2^63", credValid)
	add("list-parts", "q:max-parts", "0", credValid)
	add("complete-multipart-upload", "body:doc", "no-parts", credValid)
	add("complete-multipart-upload", "body:doc", "nil-part", credValid)
	add("complete-multipart-upload", "body:doc", "missing-etag", credValid)
	add("complete-multipart-upload", "body:doc", "part-number-2^31", credValid)
	// ranges at the edges of the object (every run): from the first byte on, one byte, the last byte, past the end,
	// the whole 63-bit range
	for _, cls := range []string{"first-only", "0-0", "suffix-1", "suffix-0", "beyond", "to-2^63-1", "2^63-1-open", "1e9", "multi"} {
		add("get-object", "h:Range", cls, credValid)
	}
	add("head-object", "h:Range", "first-only", credValid)
	add("upload-part-copy", "h:X-Amz-Copy-Source-Range", "first-only", credValid)
	add("upload-part-copy", "h:X-Amz-Copy-Source-Range", "to-2^63-1", credValid)
	return out
}
