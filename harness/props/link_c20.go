//go:build !solo || solo_c20

package props

import _ "verif/harness/props/c20"
