// Package c15: read-only mode admits no mutation.
//
// Per gateway configuration and per caller (root, an admin account, a user that
// owns the buckets, a user that is granted access by bucket policies) one worker:
//
//  1. seeds a private store through a normal gateway (catalog.Seed), adjusts
//     ownership / policies so that the worker's caller is authorised for as much
//     of the catalogue as the access rules allow, and freezes a copy (template);
//  2. "twin" phase on a normal (read-write) gateway of the same configuration:
//     every R entry of the catalogue is sent as the caller and its normalised
//     answer is recorded; every W entry is sent as the caller and it is noted
//     whether it had an effect on the tree (the store is restored from the
//     template after every change);
//  3. stops that gateway, restores the store, starts a gateway with --readonly on
//     the SAME store and sends the whole catalogue as the caller, every request
//     with a valid signature and a valid body.
//
// Oracle in phase 3 (written from the property statement): after every request
// the byte-exact snapshot of root / versioning dir / sidecar dir is unchanged;
// every W entry is answered non-2xx; every R entry that returned seeded data on
// the read-write twin returns the same normalised answer. A (entry, caller) pair
// counts as non-trivial only if its twin was live (W: acknowledged and changed
// the tree; R: answered 2xx with the seeded data). The admin API is outside the
// property ("S3 API request"): it is exercised and reported as an observation.
//
// Signatures: <entry name>:<caller>:<accepted|tree-changed|read-broken>.
package c15

import (
	"fmt"
	"os"
	"path/filepath"
	"regexp"
	"sort"
	"strings"
	"sync"
	"time"

	"verif/harness/internal/ev"
	"verif/harness/internal/fx"
	"verif/harness/internal/gw"
	"verif/harness/internal/reg"
	"verif/harness/internal/s3c"
	"verif/harness/internal/snap"
	"verif/harness/props/catalog"
)

func init() { reg.Register("C15", "exploration", Run) }

type config struct {
	name string
	seed gw.Config // configuration of the seeding gateway (always with a versioning dir)
	run  gw.Config // configuration of the twin and of the read-only gateway (Readonly added for the latter)
}

var callers = []string{"root", "admin", "owner", "granted"}

type worker struct {
	c      *ev.Ctx
	cfg    config
	caller string
	lane   string // cfg/caller

	store *gw.Store
	tmpl  string
	env   *fx.Env // the gateway currently serving the store
	st    *catalog.State
	owner map[string]string // bucket -> owner account

	ak, sk  string
	cl      *s3c.Client // caller's client on the current gateway
	base    snap.Snap   // S3 scope (iam excluded)
	baseAll snap.Snap   // whole store

	rec  map[string]string // R entry -> normalised answer of the read-write twin ("" = twin not live)
	live map[string]bool   // entry -> twin live

	expKey   string    // object of the lock bucket whose retention runs out during the run ("" = none)
	expUntil time.Time // its retain-until date
}

func skipIAM(rel string) bool { return rel == "iam" }

func (w *worker) takeBase() error {
	var err error
	if w.base, err = snap.Take(w.store.Base, skipIAM); err != nil {
		return err
	}
	w.baseAll, err = snap.Take(w.store.Base, nil)
	return err
}

// diff returns the persistent difference to the base snapshot (S3 scope or whole store).
func (w *worker) diff(all bool) []string {
	for try := 0; ; try++ {
		var s snap.Snap
		var err error
		base := w.base
		if all {
			base = w.baseAll
			s, err = snap.Take(w.store.Base, nil)
		} else {
			s, err = snap.Take(w.store.Base, skipIAM)
		}
		if err != nil {
			return []string{"snapshot error: " + err.Error()}
		}
		d := snap.Diff(base, s)
		if len(d) == 0 || try == 2 {
			return d
		}
		// a handler that is still unwinding may own a temp file: look again
		time.Sleep(40 * time.Millisecond)
	}
}

func okOr(what string, r *s3c.Resp, also ...int) error {
	if r.OK() {
		return nil
	}
	for _, s := range also {
		if r.Err == nil && r.Status == s {
			return nil
		}
	}
	b := r.Body
	if len(b) > 200 {
		b = b[:200]
	}
	return fmt.Errorf("%s: %s %s", what, r.String(), b)
}

func grantAllPolicy(st *catalog.State, bucket, who string) string {
	var stm []string
	if bucket == st.Plain {
		// keep the seeded statement (its Sid is what GetBucketPolicy must keep returning)
		stm = append(stm, fmt.Sprintf(`{"Sid":%q,"Effect":"Allow","Principal":{"AWS":[%q]},"Action":"s3:GetObject","Resource":"arn:aws:s3:::%s/*"}`,
			st.PolicySid, st.UserPlus.Access, bucket))
	}
	stm = append(stm, fmt.Sprintf(`{"Sid":"c15-grant","Effect":"Allow","Principal":{"AWS":[%q]},"Action":"s3:*","Resource":["arn:aws:s3:::%s","arn:aws:s3:::%s/*"]}`,
		who, bucket, bucket))
	return `{"Version":"2012-10-17","Statement":[` + strings.Join(stm, ",") + `]}`
}

// prepare adjusts the seeded store for the worker's caller (through the seeding gateway, as root).
func (w *worker) prepare(root *s3c.Client) error {
	st := w.st
	w.owner = map[string]string{st.Plain: gw.RootAK, st.Lock: gw.RootAK, st.Vers: st.UserPlus.Access, st.Empty: st.User.Access}
	switch w.caller {
	case "root":
		w.ak, w.sk = gw.RootAK, gw.RootSK
	case "admin":
		w.ak, w.sk = st.Admin.Access, st.Admin.Secret
	case "owner":
		// the userplus account owns every bucket; no policy anywhere, so that the owner's
		// grants (bucket ACL) decide. GetBucketPolicy / DeleteBucketPolicy are dead for this caller.
		w.ak, w.sk = st.UserPlus.Access, st.UserPlus.Secret
		for _, b := range []string{st.Plain, st.Lock, st.Empty} {
			if err := okOr("chown "+b, root.Admin("/change-bucket-owner", s3c.Q("bucket", b, "owner", w.ak), nil)); err != nil {
				return err
			}
			w.owner[b] = w.ak
		}
		if err := okOr("delete policy", root.Sub("DELETE", st.Plain, "", "policy", nil)); err != nil {
			return err
		}
		// the seeded READ grant for the user account (changing the owner reset the grants)
		if err := okOr("re-grant", root.Do(&s3c.Req{Method: "PUT", Path: s3c.BucketPath(st.Plain), Query: "acl",
			Header: s3c.H{{"X-Amz-Grant-Read", st.User.Access}}})); err != nil {
			return err
		}
	case "granted":
		// the user account owns nothing it needs: every bucket carries a policy that allows it everything
		w.ak, w.sk = st.User.Access, st.User.Secret
		for _, b := range []string{st.Plain, st.Vers, st.Lock, st.Empty} {
			if err := okOr("policy "+b, root.Sub("PUT", b, "", "policy", []byte(grantAllPolicy(st, b, w.ak)))); err != nil {
				return err
			}
		}
	}
	return nil
}

func (w *worker) start() error {
	st, err := gw.NewStore(fx.UniqueDir("c15-" + strings.ReplaceAll(w.lane, "/", "-")))
	if err != nil {
		return err
	}
	w.store = st
	name := "c15" + strings.ReplaceAll(w.lane, "/", "")
	env, err := fx.OnStore(name+"seed", st, w.cfg.seed, 1)
	if err != nil {
		os.RemoveAll(st.Base)
		return err
	}
	w.env = env
	if w.st, err = catalog.Seed(env); err != nil {
		return err
	}
	if err = w.prepare(env.Client(0)); err != nil {
		return err
	}
	// an object whose retention runs out during the run (part of the template store): reads of it must stay reads
	w.expUntil = time.Now().Add(2 * time.Second).UTC().Truncate(time.Second).Add(time.Second)
	if r := env.Client(0).PutObject(w.st.Lock, "c15-expiring-retention", []byte("retention expires while the gateway is read-only"),
		"X-Amz-Object-Lock-Mode", "GOVERNANCE", "X-Amz-Object-Lock-Retain-Until-Date", w.expUntil.Format(time.RFC3339)); r.OK() {
		w.expKey = "c15-expiring-retention"
	} else {
		w.c.Observe("object with a short retention refused while seeding: " + r.String())
	}
	env.GWs[0].Stop()
	// what a CreateBucket killed between its mkdir and its attribute writes leaves behind
	os.Mkdir(filepath.Join(st.Root, "c15-half-created-bucket"), 0o755)
	w.tmpl = fx.UniqueDir("c15-" + strings.ReplaceAll(w.lane, "/", "-") + "-template")
	return snap.CopyTree(st.Base, w.tmpl)
}

// serve (re)starts a gateway with cfg on the pristine store and takes the base snapshots.
func (w *worker) serve(cfg gw.Config, tag string) error {
	if w.env != nil {
		for _, g := range w.env.GWs {
			g.Kill()
		}
	}
	if err := os.RemoveAll(w.store.Base); err != nil {
		return err
	}
	if err := snap.CopyTree(w.tmpl, w.store.Base); err != nil {
		return err
	}
	env, err := fx.OnStore("c15"+strings.ReplaceAll(w.lane, "/", "")+tag, w.store, cfg, 1)
	if err != nil {
		return err
	}
	w.env = env
	w.cl = env.Client(0).With(w.ak, w.sk)
	return w.takeBase()
}

func (w *worker) restore() error {
	w.c.Add("store_restores", 1)
	cfg := w.env.GWs[0].Cfg
	tag := "rw"
	if cfg.Readonly {
		tag = "ro"
	}
	old := w.base
	if err := w.serve(cfg, tag); err != nil {
		return err
	}
	if d := snap.Diff(old, w.base); len(d) > 0 {
		return fmt.Errorf("restored store differs from the template: %s", d[0])
	}
	return nil
}

func (w *worker) close() {
	if w.env != nil {
		w.env.Close()
	}
	if w.store != nil {
		os.RemoveAll(w.store.Base)
	}
	if w.tmpl != "" {
		os.RemoveAll(w.tmpl)
	}
}

// args binds the entry to the seeded state of this worker's world.
func (w *worker) args(e *catalog.Entry) catalog.Args {
	a := e.Bind(w.st)
	if e.Op == "PutBucketAcl" {
		a.Owner = w.owner[a.Bucket] // the ACL document must name the bucket's owner to be valid
	}
	return a
}

func (w *worker) send(e *catalog.Entry) (*s3c.Built, *s3c.Resp) {
	rq := e.Request(w.args(e), catalog.BodyValid).Req()
	rq.Watchdog = 60 * time.Second
	b := w.cl.Build(rq)
	return b, w.cl.Send(b, rq)
}

var (
	volatileHdr = map[string]bool{"Date": true, "Last-Modified": true, "X-Amz-Request-Id": true, "X-Amz-Id-2": true, "Server": true, "Connection": true, "Keep-Alive": true}
	reVolatile  = regexp.MustCompile(`<(LastModified|CreationDate|Initiated|RequestId|HostId|RequestID)>[^<]*</(LastModified|CreationDate|Initiated|RequestId|HostId|RequestID)>`)
)

// normalise renders a response without dates and request ids.
func normalise(r *s3c.Resp) string {
	var hs []string
	for k, vs := range r.Header {
		if !volatileHdr[k] {
			hs = append(hs, k+": "+strings.Join(vs, ","))
		}
	}
	sort.Strings(hs)
	return fmt.Sprintf("%d\n%s\n\n%s", r.Status, strings.Join(hs, "\n"), reVolatile.ReplaceAllString(string(r.Body), "<$1/>"))
}

func describe(b *s3c.Built, r *s3c.Resp) map[string]any {
	h := map[string]string{}
	for _, kv := range b.Header {
		h[kv[0]] = kv[1]
	}
	body := b.Body
	if len(body) > 300 {
		body = body[:300]
	}
	m := map[string]any{"method": b.Method, "target": b.Target, "headers": h, "body_len": len(b.Body), "body_head": string(body)}
	if r.Err != nil {
		m["transport_error"] = r.Err.Error()
	} else {
		m["status"] = r.Status
		m["error_code"] = r.ErrCode()
		rb := r.Body
		if len(rb) > 300 {
			rb = rb[:300]
		}
		m["response_head"] = string(rb)
	}
	return m
}

func short(d []string) []string {
	if len(d) > 8 {
		return append(append([]string{}, d[:8]...), fmt.Sprintf("... %d more", len(d)-8))
	}
	return d
}

// gatewayGone handles a transport error: inconclusive, gateway restarted on a pristine store.
func (w *worker) gatewayGone(what string, r *s3c.Resp) bool {
	why := "transport error"
	if _, cr := w.env.Dead(); cr != nil {
		why = "gateway died (" + cr.Message + " @ " + cr.TopFrame + ")"
		w.c.Observe("gateway died on " + what + ": " + cr.Message + " @ " + cr.TopFrame)
	}
	w.c.Inconclusive(why)
	if err := w.restore(); err != nil {
		w.c.Inconclusive("store restore failed: " + err.Error())
		return false
	}
	return true
}

// twin runs the catalogue on the read-write gateway.
func (w *worker) twin(entries []*catalog.Entry) bool {
	w.rec, w.live = map[string]string{}, map[string]bool{}
	// readers first, on the pristine store
	for pass := 0; pass < 2; pass++ {
		for _, e := range entries {
			if (pass == 0) != (e.Kind == catalog.R) || !w.c.Want(w.lane+"/"+e.Name) {
				continue
			}
			_, resp := w.send(e)
			w.c.Add("twin_requests", 1)
			if resp.Err != nil {
				if !w.gatewayGone("twin "+e.Name, resp) {
					return false
				}
				continue
			}
			d := w.diff(true)
			if e.Kind == catalog.R {
				if resp.OK() {
					ok := true
					if proof := e.Proof(w.st, w.args(e)); proof != nil {
						ok = false
						txt := normalise(resp)
						for _, p := range proof {
							if strings.Contains(txt, p) {
								ok = true
							}
						}
					}
					if ok {
						w.live[e.Name] = true
						w.rec[e.Name] = normalise(resp)
					} else {
						w.c.Observe(fmt.Sprintf("twin reader returned no seeded data: %s as %s", e.Name, w.caller))
					}
				}
				if len(d) > 0 {
					w.c.Observe("reader changed the store on the read-write gateway: " + e.Name)
				}
			} else {
				w.live[e.Name] = resp.OK() && len(d) > 0
				if resp.OK() && len(d) == 0 {
					w.c.Observe(fmt.Sprintf("twin mutator acknowledged without effect: %s as %s", e.Name, w.caller))
				}
			}
			if w.caller == "root" {
				switch {
				case w.live[e.Name] && e.Level != catalog.LvlAdmin:
					w.c.Add("endpoints_live", 1)
				case e.Live && e.Level != catalog.LvlAdmin:
					w.c.Observe(fmt.Sprintf("entry expected live is dead for root on the read-write gateway [%s]: %s (%s)", w.cfg.name, e.Name, resp.String()))
				}
			}
			if len(d) > 0 {
				if err := w.restore(); err != nil {
					w.c.Inconclusive("store restore failed: " + err.Error())
					return false
				}
			}
		}
	}
	return true
}

// readonly sends the catalogue to the read-only gateway and judges every answer.
func (w *worker) readonly(entries []*catalog.Entry) {
	for _, e := range entries {
		id := w.lane + "/" + e.Name
		if !w.c.Want(id) {
			continue
		}
		b, resp := w.send(e)
		w.c.Add("readonly_requests", 1)
		if resp.Err != nil {
			if !w.gatewayGone(id, resp) {
				return
			}
			continue
		}
		admin := e.Level == catalog.LvlAdmin
		d := w.diff(admin)
		if admin {
			// outside the property's scope: observation only
			switch {
			case len(d) > 0:
				w.c.Observe(fmt.Sprintf("admin API changes the store in read-only mode: %s as %s (%s)", e.Name, w.caller, resp.String()))
			case e.Kind == catalog.W && resp.OK():
				w.c.Observe(fmt.Sprintf("admin API mutator acknowledged in read-only mode: %s as %s", e.Name, w.caller))
			}
			w.c.Add("admin_requests_observed", 1)
			if len(d) > 0 {
				if err := w.restore(); err != nil {
					w.c.Inconclusive("store restore failed: " + err.Error())
					return
				}
			}
			continue
		}
		w.c.Eval(1)
		live := w.live[e.Name]
		if live {
			w.c.Distinct(w.cfg.name + "|" + e.Name + "|" + w.caller)
		} else {
			w.c.Add("trivial_twin_not_live", 1)
		}
		det := func() map[string]any {
			m := describe(b, resp)
			m["endpoint"], m["caller"], m["config"], m["kind"], m["twin_live"] = e.Name, w.caller, w.cfg.name, e.Kind.String(), live
			if len(d) > 0 {
				m["tree_diff"] = short(d)
			}
			return m
		}
		if len(d) > 0 {
			w.c.Violation(e.Name+":"+w.caller+":tree-changed", id, det())
		}
		if e.Kind == catalog.W {
			if resp.OK() {
				w.c.Violation(e.Name+":"+w.caller+":accepted", id, det())
			} else {
				w.c.Add("mutators_refused", 1)
			}
		} else if want, ok := w.rec[e.Name]; ok {
			got := normalise(resp)
			if got != want {
				m := det()
				m["twin_answer"], m["readonly_answer"] = clip(want), clip(got)
				w.c.Violation(e.Name+":"+w.caller+":read-broken", id, m)
			} else {
				w.c.Add("readers_identical", 1)
			}
		}
		if live && len(d) == 0 {
			w.c.Sample(map[string]any{"case": id, "request": describe(b, resp), "twin_live": live})
		}
		if len(d) > 0 {
			if err := w.restore(); err != nil {
				w.c.Inconclusive("store restore failed: " + err.Error())
				return
			}
		}
	}
}

// decorations are extra query parameters that select other operations elsewhere in the API. Added to a mutating
// request they must not open a way around the read-only refusal: whatever the gateway makes of the request, the
// store stays as it is.
var decorations = []string{"select=", "select=&select-type=2", "list-type=2", "versions=", "x-id=GetObject", "location=", "attributes="}

// ... and request headers that change what a handler asks for (another permission, another owner check, another
// method), written as "Name: value"
var headerDecorations = []string{"X-Amz-Bypass-Governance-Retention: true", "X-Amz-Expected-Bucket-Owner: " + gw.RootAK, "X-Amz-Acl: public-read-write",
	"X-Amz-Grant-Full-Control: " + gw.RootAK, "X-Http-Method-Override: GET", "X-Amz-Request-Payer: requester", "X-Amz-Mfa: 123456 654321", "X-Amz-Object-Ownership: BucketOwnerEnforced"}

// decorated sends every live mutating S3 request once more per decoration and judges the store only.
func (w *worker) decorated(entries []*catalog.Entry) {
	for _, e := range entries {
		if e.Kind != catalog.W || e.Level == catalog.LvlAdmin || !w.live[e.Name] {
			continue
		}
		all := append(append([]string{}, decorations...), headerDecorations...)
		for _, deco := range all {
			id := w.lane + "/" + e.Name + "/+" + deco
			if !w.c.Want(id) {
				continue
			}
			rq := e.Request(w.args(e), catalog.BodyValid).Req()
			rq.Watchdog = 60 * time.Second
			if hn, hv, isHdr := strings.Cut(deco, ": "); isHdr {
				if rq.Header.Get(hn) != "" {
					continue
				}
				rq.Header = append(rq.Header, [2]string{hn, hv})
			} else {
				if strings.Contains("&"+rq.Query+"&", "&"+strings.SplitN(deco, "=", 2)[0]+"=") {
					continue // the request already carries that parameter
				}
				if rq.Query == "" {
					rq.Query = deco
				} else {
					rq.Query += "&" + deco
				}
			}
			b := w.cl.Build(rq)
			resp := w.cl.Send(b, rq)
			w.c.Add("readonly_decorated_requests", 1)
			if resp.Err != nil {
				if !w.gatewayGone(id, resp) {
					return
				}
				continue
			}
			w.c.Eval(1)
			d := w.diff(false)
			if len(d) > 0 {
				m := describe(b, resp)
				m["endpoint"], m["caller"], m["config"], m["extra_query_or_header"], m["tree_diff"] = e.Name, w.caller, w.cfg.name, deco, short(d)
				kind := "with-extra-query-" + strings.SplitN(deco, "=", 2)[0]
				if hn, _, isHdr := strings.Cut(deco, ": "); isHdr {
					kind = "with-extra-header-" + strings.ToLower(hn)
				}
				w.c.Violation(e.Name+":"+w.caller+":tree-changed:"+kind, id, m)
				if err := w.restore(); err != nil {
					w.c.Inconclusive("store restore failed: " + err.Error())
					return
				}
				continue
			}
			w.c.Distinct(w.cfg.name + "|" + e.Name + "|" + w.caller + "|+" + strings.SplitN(strings.SplitN(deco, "=", 2)[0], ": ", 2)[0])
		}
	}
}

// readsOfExpired: every way of reading an object whose retention date has passed, in read-only mode; the store
// (data, attributes) must be exactly as it was.
func (w *worker) readsOfExpired(key string) {
	b := w.st.Lock
	reads := []struct {
		name string
		rq   *s3c.Req
	}{
		{"head-object", &s3c.Req{Method: "HEAD", Path: s3c.ObjPath(b, key)}},
		{"get-object", &s3c.Req{Method: "GET", Path: s3c.ObjPath(b, key)}},
		{"get-object-attributes", &s3c.Req{Method: "GET", Path: s3c.ObjPath(b, key), Query: "attributes=", Header: s3c.H{{"X-Amz-Object-Attributes", "ETag,ObjectSize,StorageClass"}}}},
		{"get-object-retention", &s3c.Req{Method: "GET", Path: s3c.ObjPath(b, key), Query: "retention="}},
		{"get-object-legal-hold", &s3c.Req{Method: "GET", Path: s3c.ObjPath(b, key), Query: "legal-hold="}},
		{"get-object-tagging", &s3c.Req{Method: "GET", Path: s3c.ObjPath(b, key), Query: "tagging="}},
		{"list-objects-v2", &s3c.Req{Method: "GET", Path: s3c.BucketPath(b), Query: "list-type=2"}},
		{"list-object-versions", &s3c.Req{Method: "GET", Path: s3c.BucketPath(b), Query: "versions="}},
	}
	for _, rd := range reads {
		id := w.lane + "/expired-retention/" + rd.name
		if !w.c.Want(id) {
			continue
		}
		rd.rq.Watchdog = 60 * time.Second
		bl := w.cl.Build(rd.rq)
		resp := w.cl.Send(bl, rd.rq)
		if resp.Err != nil {
			if !w.gatewayGone(id, resp) {
				return
			}
			continue
		}
		w.c.Eval(1)
		if d := w.diff(false); len(d) > 0 {
			m := describe(bl, resp)
			m["object"], m["tree_diff"], m["config"] = "an object whose GOVERNANCE retention date passed while the gateway was read-only", short(d), w.cfg.name
			w.c.Violation(rd.name+":"+w.caller+":tree-changed:object-with-expired-retention", id, m)
			if err := w.restore(); err != nil {
				w.c.Inconclusive("store restore failed: " + err.Error())
				return
			}
			continue
		}
		w.c.Distinct(w.cfg.name + "|expired-retention|" + rd.name)
	}
}

func clip(s string) string {
	if len(s) > 1200 {
		return s[:1200] + "..."
	}
	return s
}

func (w *worker) runAll() {
	defer w.close()
	if err := w.start(); err != nil {
		w.c.Inconclusive("seed: " + err.Error())
		return
	}
	// S3 entries first, admin API last (it changes accounts / owners)
	var entries []*catalog.Entry
	for _, e := range catalog.All() {
		if e.Level != catalog.LvlAdmin {
			entries = append(entries, e)
		}
	}
	for _, e := range catalog.All() {
		if e.Level == catalog.LvlAdmin {
			entries = append(entries, e)
		}
	}
	if err := w.serve(w.cfg.run, "rw"); err != nil {
		w.c.Inconclusive("read-write gateway: " + err.Error())
		return
	}
	// the store as it was seeded, before any gateway of this phase touched it
	tmplSnap, err := snap.Take(w.tmpl, skipIAM)
	if err != nil {
		w.c.Inconclusive("snapshot of the template: " + err.Error())
		return
	}
	if !w.twin(entries) {
		return
	}
	ro := w.cfg.run
	ro.Readonly = true
	if err := w.serve(ro, "ro"); err != nil {
		w.c.Inconclusive("read-only gateway: " + err.Error())
		return
	}
	// starting in read-only mode is no licence to tidy up: the store must be served as it was found
	w.c.Eval(1)
	if d := snap.Diff(tmplSnap, w.base); len(d) > 0 {
		w.c.Violation("startup:"+w.caller+":read-only-gateway-changed-the-store", w.lane+"/startup", map[string]any{"config": w.cfg.name, "tree_diff": short(d),
			"store": "seeded store plus an empty directory without bucket attributes (what a CreateBucket killed after its mkdir leaves) and an object whose retention runs out"})
		if err := w.takeBase(); err != nil {
			return
		}
	} else {
		w.c.Distinct(w.cfg.name + "|startup-leaves-the-store-alone|" + w.caller)
	}
	w.readonly(entries)
	w.decorated(entries)
	if w.expKey != "" {
		if d := time.Until(w.expUntil.Add(500 * time.Millisecond)); d > 0 {
			time.Sleep(d)
		}
		w.readsOfExpired(w.expKey)
	}
	if _, cr := w.env.Dead(); cr != nil {
		w.c.Observe("read-only gateway died: " + cr.Message + " @ " + cr.TopFrame)
		w.c.Inconclusive("gateway died")
	}
}

func Run(c *ev.Ctx) int {
	c.Assume("HTTP/1.1 over loopback; posix backend; the read-only gateway serves the very directories the seeding gateway wrote")
	c.Assume("snapshots ignore times; the IAM directory is outside the scope for S3 requests; the admin API is observed, not judged")
	c.Assume("reader answers are compared after removing Date / Last-Modified / request-id headers and LastModified / CreationDate / Initiated / RequestId elements")
	c.Assume("callers: root, admin account, userplus account owning every bucket (no bucket policy in its world), user account allowed s3:* by a policy on every bucket")
	cfgs := []config{{"xattr", gw.Config{Versioning: true}, gw.Config{Versioning: true}}}
	if c.Thorough() {
		cfgs = append(cfgs,
			config{"sidecar", gw.Config{Versioning: true, Sidecar: true}, gw.Config{Versioning: true, Sidecar: true}},
			config{"nootmp", gw.Config{Versioning: true, NoOTmp: true}, gw.Config{Versioning: true, NoOTmp: true}},
			config{"nover", gw.Config{Versioning: true}, gw.Config{}},
		)
	}
	c.Set("endpoints_total", len(catalog.All()))
	c.Set("configurations", len(cfgs))
	var wg sync.WaitGroup
	for _, cf := range cfgs {
		for _, who := range callers {
			w := &worker{c: c, cfg: cf, caller: who, lane: cf.name + "/" + who}
			if !c.Want(w.lane) {
				continue
			}
			wg.Add(1)
			go func() {
				defer wg.Done()
				w.runAll()
			}()
		}
	}
	wg.Wait()
	return c.Finish("whole endpoint catalogue (props/catalog) x caller {root, admin, owner user, policy-granted user} x gateway configuration, valid signature and valid body, "+
		"sent to a --readonly gateway on a seeded store; oracle: snapshot of root+versions+sidecar unchanged after every request, mutators answered non-2xx, "+
		"readers answer exactly as on the read-write twin; a case is distinct by (configuration, endpoint, caller) and counts only if its twin on a read-write gateway "+
		"was live (mutator acknowledged with a tree change / reader returned the seeded data)", c.Pick(250, 900))
}
