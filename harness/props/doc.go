// Package props links the property checks into vcheck: one link_<id>.go file per
// property, each guarded by `!solo || solo_<id>` so that a single check can be
// built alone (VERIF_SOLO=c07 ./check C07 quick) while others are being edited.
package props
