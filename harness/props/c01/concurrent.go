package c01

import (
	"bytes"
	"fmt"
	"math/rand"
	"strings"
	"sync"

	"verif/harness/internal/ev"
	"verif/harness/internal/fx"
	"verif/harness/internal/s3c"
)

// Concurrent lane: many clients upload DIFFERENT keys at the same time through the same gateway process, in all
// payload encodings with chunk sizes around and above the gateway's read buffer; afterwards every acknowledged
// object is read back through the other process. Fidelity must not depend on what other requests a process is
// serving at the same moment (shared buffers, pooled readers).
func runConcurrent(c *ev.Ctx, cf cfgT, round int, seed int64) {
	id := fmt.Sprintf("%s/concurrent/%d", cf.name, round)
	if !c.Want(id) {
		return
	}
	env, err := fx.New("c01c-"+cf.name, cf.gw, 2)
	if err != nil {
		c.Inconclusive("gateway start (concurrent lane): " + firstLine(err.Error()))
		return
	}
	defer env.Close()
	root := env.Client(0)
	const bucket = "concurrent"
	if r := root.CreateBucket(bucket); !r.OK() {
		c.Inconclusive("create bucket: " + r.String())
		return
	}
	type up struct {
		key, enc string
		body     []byte
		chunks   []int
		acked    bool
		status   string
	}
	// the decoders of the streaming encodings keep per-request state across reads: weight them
	encs := []string{"signed", "unsigned", "chunked", "chunked-tr", "chunked-tr", "unsigned-tr", "unsigned-tr", "unsigned-tr", "unsigned-tr", "chunked"}
	chunkChoices := [][]int{{1024}, {32768}, {33000}, {70000}, {100003}, {8192, 1, 65537}, {40000, 5}}
	workers := 16
	per := 4
	ups := make([][]*up, workers)
	var wg sync.WaitGroup
	for w := 0; w < workers; w++ {
		wg.Add(1)
		go func(w int) {
			defer wg.Done()
			r := rand.New(rand.NewSource(seed*1009 + int64(w)))
			cl := env.Client(0) // all through the same process
			for n := 0; n < per; n++ {
				u := &up{key: fmt.Sprintf("w%02d/obj-%d", w, n), enc: encs[r.Intn(len(encs))]}
				u.body = make([]byte, 300000+r.Intn(1700000))
				r.Read(u.body)
				// make every object recognisable in a mixed-up result
				copy(u.body, []byte(fmt.Sprintf("<<%s>>", u.key)))
				req := &s3c.Req{Method: "PUT", Path: s3c.ObjPath(bucket, u.key), Body: u.body}
				switch u.enc {
				case "unsigned":
					req.PayloadHash = s3c.Unsigned
				case "chunked", "chunked-tr", "unsigned-tr":
					u.chunks = chunkChoices[r.Intn(len(chunkChoices))]
					st := &s3c.Stream{ChunkSizes: u.chunks}
					switch u.enc {
					case "chunked":
						st.Mode = s3c.StreamSigned
					case "chunked-tr":
						st.Mode = s3c.StreamSignedTr
						st.TrailerName = "x-amz-checksum-" + s3c.Algos[r.Intn(len(s3c.Algos))]
					default:
						st.Mode = s3c.StreamUnsignTr
						st.TrailerName = "x-amz-checksum-" + s3c.Algos[r.Intn(len(s3c.Algos))]
					}
					req.Stream = st
				}
				resp := cl.Do(req)
				u.acked = resp.OK()
				u.status = resp.String()
				ups[w] = append(ups[w], u)
			}
		}(w)
	}
	wg.Wait()
	if i, cr := env.Dead(); cr != nil {
		c.Violation("gateway-died:"+frameOf(cr), id, map[string]any{"gateway": i, "crash": cr.Message, "lane": "concurrent"})
		return
	}
	other := env.Client(1)
	acked := 0
	for w := range ups {
		for _, u := range ups[w] {
			c.Eval(1)
			if !u.acked {
				c.Observe("concurrent lane: upload refused: " + u.enc + " " + u.status)
				continue
			}
			acked++
			g := other.GetObject(bucket, u.key)
			det := map[string]any{"lane": "concurrent", "config": cf.name, "key": u.key, "encoding": u.enc, "chunk_sizes": u.chunks, "size": len(u.body), "get": g.String()}
			if !g.OK() {
				c.Violation("concurrent:"+u.enc+":unreadable:"+cf.store, id, det)
				continue
			}
			if !bytes.Equal(g.Body, u.body) {
				// whose bytes are these?
				at := -1
				for i := range g.Body {
					if i >= len(u.body) || g.Body[i] != u.body[i] {
						at = i
						break
					}
				}
				det["first_difference_at"] = at
				det["got_len"] = len(g.Body)
				if i := bytes.Index(g.Body, []byte("<<w")); i > 0 {
					det["foreign_marker"] = string(g.Body[i:min(len(g.Body), i+20)])
				}
				c.Violation("concurrent:"+u.enc+":body:"+cf.store, id, det)
				continue
			}
			if et := strings.Trim(g.Header.Get("Etag"), `"`); et != s3c.MD5Hex(u.body) {
				det["etag"] = et
				c.Violation("concurrent:"+u.enc+":etag:"+cf.store, id, det)
				continue
			}
			c.Distinct(fmt.Sprintf("concurrent|%s|%s|chunks=%v", cf.name, u.enc, u.chunks))
		}
	}
	c.Add("concurrent_uploads_acked", acked)
}
