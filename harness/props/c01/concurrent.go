package c01

import (
	"fmt"

	"verif/harness/internal/ev"
	"verif/harness/props/concup"
)

// Concurrent lane (shared with C06, see props/concup): many clients upload DIFFERENT keys at the same time through
// the same gateway process, in all payload encodings with chunk sizes around and above the gateway's read buffer;
// afterwards every acknowledged object is read back through the other process. Fidelity must not depend on what
// other requests a process is serving at the same moment (shared buffers, pooled readers).
func runConcurrent(c *ev.Ctx, cf cfgT, round int, seed int64, mode string) {
	concup.Run(c, concup.Opt{
		ID: fmt.Sprintf("%s/concurrent/%d", cf.name, round), Name: cf.name, Store: cf.store, GW: cf.gw,
		Mode: mode, Seed: seed, PartsToo: true,
	})
}
