package c01

import (
	"bytes"
	"encoding/xml"
	"fmt"
	"net/http"
	"sort"
	"strconv"
	"strings"

	"verif/harness/internal/s3c"
)

// obj is the reference state of one key: what the property statement says every read path must report.
type obj struct {
	body    []byte
	etag    string   // quoted
	etagAlt []string // further acceptable ETags (copy of a multipart object: content md5 or the source's ETag)
	// content headers, "" = not supplied
	ct, ce, cd, cl, cc, exp string
	ceAlt                   []string          // acceptable Content-Encoding values (aws-chunked token kept or stripped); pinned after the first GET
	meta                    map[string]string // lower-case name -> value
	tags                    map[string]string
	tagsLiteral             map[string]string // what a server that does not decode x-amz-tagging would hold (nil unless tags came through that header)

	// provenance (for signatures and evidence classes)
	enc         string // upload path label
	sizeClass   string
	keyClass    string
	hdrClass    string
	writer      int // gateway index that acknowledged the upload
	epoch       int // restart epoch of the upload
	opIdx       int
	overwrote   bool            // the key held an object (or its leftovers) before this upload
	afterMarker bool            // the key held a delete marker at some time before this upload (versioning-enabled bucket)
	seenCks     map[string]bool // wrong checksum values already reported for this object
	hist        *keyHist        // everything earlier objects at this key held (to recognise stale leftovers)
}

// keyHist collects, per key, the values earlier objects at that key had (as uploaded, and as
// observed when a leftover was reported and taken over). A value a read path returns although
// the current upload did not supply it is a "stale" leftover when it is found here.
type keyHist struct {
	hdr    map[string]map[string]bool // content header name -> values
	meta   map[string]map[string]bool // lower-case metadata name -> values
	tags   []map[string]string
	bodies [][]byte
	etags  map[string]bool
	cks    map[string]bool // wrong checksum values seen earlier
}

func newHist() *keyHist {
	return &keyHist{hdr: map[string]map[string]bool{}, meta: map[string]map[string]bool{}, etags: map[string]bool{}, cks: map[string]bool{}}
}

// absorb adds the state of an object that is about to be replaced.
func (h *keyHist) absorb(o *obj) {
	if o == nil {
		return
	}
	for _, name := range contentHdrs {
		if v := *o.contentField(name); v != "" {
			if h.hdr[name] == nil {
				h.hdr[name] = map[string]bool{}
			}
			h.hdr[name][v] = true
		}
	}
	for _, a := range o.ceAlt {
		if a != "" {
			if h.hdr["Content-Encoding"] == nil {
				h.hdr["Content-Encoding"] = map[string]bool{}
			}
			h.hdr["Content-Encoding"][a] = true
		}
	}
	for k, v := range o.meta {
		if h.meta[k] == nil {
			h.meta[k] = map[string]bool{}
		}
		for _, e := range strings.Split(v, "\x1f") {
			h.meta[k][e] = true
		}
	}
	h.absorbTags(o.tags)
	h.absorbTags(o.tagsLiteral)
	known := false
	for _, b := range h.bodies {
		if bytes.Equal(b, o.body) {
			known = true
		}
	}
	if !known {
		h.bodies = append(h.bodies, o.body)
	}
	h.etags[o.etag] = true
	for _, e := range o.etagAlt {
		h.etags[e] = true
	}
	for v := range o.seenCks {
		h.cks[v] = true
	}
}

func (h *keyHist) absorbTags(t map[string]string) {
	if len(t) == 0 {
		return
	}
	for _, e := range h.tags {
		if mapsEqual(e, t) {
			return
		}
	}
	h.tags = append(h.tags, copyMap(t))
}

func (h *keyHist) hadHdr(name, v string) bool { return h != nil && v != "" && h.hdr[name][v] }
func (h *keyHist) hadMeta(k, v string) bool   { return h != nil && h.meta[k][v] }
func (h *keyHist) hadTags(t map[string]string) bool {
	if h == nil || len(t) == 0 {
		return false
	}
	for _, e := range h.tags {
		if mapsEqual(e, t) {
			return true
		}
	}
	return false
}
func (h *keyHist) hadBody(b []byte) bool {
	if h == nil {
		return false
	}
	for _, e := range h.bodies {
		if bytes.Equal(e, b) {
			return true
		}
	}
	return false
}
func (h *keyHist) hadLen(n string) bool {
	if h == nil {
		return false
	}
	for _, e := range h.bodies {
		if strconv.Itoa(len(e)) == n {
			return true
		}
	}
	return false
}

func (o *obj) snapshot() *obj {
	if o == nil {
		return nil
	}
	c := *o
	c.seenCks = copyBoolMap(o.seenCks)
	c.meta = copyMap(o.meta)
	c.tags = copyMap(o.tags)
	return &c
}

func copyMap(m map[string]string) map[string]string {
	if m == nil {
		return nil
	}
	c := make(map[string]string, len(m))
	for k, v := range m {
		c[k] = v
	}
	return c
}

func copyBoolMap(m map[string]bool) map[string]bool {
	c := map[string]bool{}
	for k, v := range m {
		c[k] = v
	}
	return c
}

func mapsEqual(a, b map[string]string) bool {
	if len(a) != len(b) {
		return false
	}
	for k, v := range a {
		if w, ok := b[k]; !ok || w != v {
			return false
		}
	}
	return true
}

func fmtMap(m map[string]string) string {
	var ks []string
	for k := range m {
		ks = append(ks, k)
	}
	sort.Strings(ks)
	var sb strings.Builder
	sb.WriteString("{")
	for i, k := range ks {
		if i > 0 {
			sb.WriteString(", ")
		}
		fmt.Fprintf(&sb, "%q:%q", k, m[k])
	}
	sb.WriteString("}")
	s := sb.String()
	if len(s) > 900 {
		s = s[:900] + "..."
	}
	return s
}

// diff is one disagreement between a read path and the reference.
type diff struct {
	what string // aspect, with "-stale" etc. qualifier
	exp  string
	got  string
}

func hv(h http.Header, name string) string { return strings.Join(h.Values(name), ",") }

func metaOf(h http.Header) map[string][]string {
	m := map[string][]string{}
	for k, vs := range h {
		lk := strings.ToLower(k)
		if strings.HasPrefix(lk, "x-amz-meta-") {
			m[lk[len("x-amz-meta-"):]] = append(m[lk[len("x-amz-meta-"):]], vs...)
		}
	}
	for _, vs := range m {
		sort.Strings(vs)
	}
	return m
}

func flatMeta(m map[string][]string) map[string]string {
	out := map[string]string{}
	for k, vs := range m {
		out[k] = strings.Join(vs, "\x1f")
	}
	return out
}

var contentHdrs = []string{"Content-Type", "Content-Encoding", "Content-Disposition", "Content-Language", "Cache-Control", "Expires"}

func (o *obj) contentField(name string) *string {
	switch name {
	case "Content-Type":
		return &o.ct
	case "Content-Encoding":
		return &o.ce
	case "Content-Disposition":
		return &o.cd
	case "Content-Language":
		return &o.cl
	case "Cache-Control":
		return &o.cc
	case "Expires":
		return &o.exp
	}
	panic(name)
}

func isDefaultCT(s string) bool {
	return s == "" || s == "binary/octet-stream" || s == "application/octet-stream"
}

// cmpHeaders compares the headers of a GET/HEAD response with the reference. With adopt=true
// (the GET path) ambiguous fields are pinned and disagreeing fields are taken over into the
// reference after having been reported, so that one defect is reported once per upload and
// does not cascade into later operations on the same key.
func cmpHeaders(o *obj, h http.Header, isGet, adopt bool, observe func(string)) []diff {
	var ds []diff
	stale := func(isStale bool) string {
		if isStale {
			return "-stale"
		}
		return ""
	}
	// length
	if cl := h.Get("Content-Length"); cl != strconv.Itoa(len(o.body)) {
		ds = append(ds, diff{"content-length" + stale(o.hist.hadLen(cl)), strconv.Itoa(len(o.body)), cl})
	}
	// ETag
	et := hv(h, "Etag")
	okE := et == o.etag
	for _, a := range o.etagAlt {
		if et == a {
			okE = true
		}
	}
	if !okE {
		ds = append(ds, diff{"etag" + stale(o.hist != nil && et != "" && o.hist.etags[et]), o.etag, et})
		if adopt {
			o.etag, o.etagAlt = et, nil
		}
	} else if adopt {
		o.etag, o.etagAlt = et, nil
	}
	// content headers
	for _, name := range contentHdrs {
		f := o.contentField(name)
		got := hv(h, name)
		ok := got == *f
		if name == "Content-Type" && *f == "" {
			ok = isDefaultCT(got)
		}
		if name == "Content-Encoding" && len(o.ceAlt) > 0 {
			ok = false
			for _, a := range o.ceAlt {
				if got == a {
					ok = true
				}
			}
			if ok && adopt {
				if strings.Contains(got, "aws-chunked") {
					observe("Content-Encoding of an aws-chunked upload is stored and returned including the aws-chunked token (not judged)")
				}
				o.ce, o.ceAlt = got, nil
			}
		}
		if ok {
			continue
		}
		ds = append(ds, diff{strings.ToLower(name) + stale(o.hist.hadHdr(name, got)), *f, got})
		if adopt {
			*f = got
			if name == "Content-Type" && isDefaultCT(got) {
				*f = ""
			}
			if name == "Content-Encoding" {
				o.ceAlt = nil
			}
		}
	}
	// user metadata (names case-insensitive)
	gm := metaOf(h)
	var missing, changed, extraStale, extraOther []string
	for k, v := range o.meta {
		vs, ok := gm[k]
		if !ok {
			missing = append(missing, k)
			continue
		}
		// the reference value is one value, or (after a multi-valued leftover was reported and taken over)
		// several joined by \x1f: every one of them must be returned; what is returned beyond that is a
		// leftover of the previous object (stale) or comes from nowhere (extra)
		rest := append([]string{}, vs...)
		okAll := true
		for _, w := range strings.Split(v, "\x1f") {
			hit := -1
			for i, g := range rest {
				if g == w {
					hit = i
					break
				}
			}
			if hit < 0 {
				okAll = false
				break
			}
			rest = append(rest[:hit], rest[hit+1:]...)
		}
		if !okAll {
			changed = append(changed, k)
			continue
		}
		for _, g := range rest {
			if o.hist.hadMeta(k, g) {
				extraStale = append(extraStale, k)
			} else {
				extraOther = append(extraOther, k)
			}
		}
	}
	for k, vs := range gm {
		if _, ok := o.meta[k]; ok {
			continue
		}
		for _, g := range vs {
			if o.hist.hadMeta(k, g) {
				extraStale = append(extraStale, k)
			} else {
				extraOther = append(extraOther, k)
			}
		}
	}
	if len(missing)+len(changed)+len(extraStale)+len(extraOther) > 0 {
		what := "meta"
		switch {
		case len(missing)+len(changed) > 0:
			what = "meta"
		case len(extraOther) > 0:
			what = "meta-extra"
		default:
			what = "meta-stale"
		}
		sort.Strings(missing)
		sort.Strings(changed)
		sort.Strings(extraStale)
		sort.Strings(extraOther)
		ds = append(ds, diff{what, fmtMap(o.meta), fmt.Sprintf("%s missing=%q changed=%q stale=%q extra=%q", fmtMap(flatMeta(gm)), missing, changed, extraStale, extraOther)})
		if adopt {
			o.meta = flatMeta(gm)
		}
	}
	// tag count (GET only). 0 tags: header absent or "0".
	if isGet {
		tc := h.Get("X-Amz-Tagging-Count")
		want := strconv.Itoa(len(o.tags))
		if !(tc == want || (len(o.tags) == 0 && tc == "")) {
			ds = append(ds, diff{"tagcount", want, tc})
		}
	}
	// checksums: whatever is returned must be the checksum of the object's bytes
	ds = append(ds, cmpChecksums(o, func(algo string) string { return h.Get("X-Amz-Checksum-" + algo) }, h.Get("X-Amz-Checksum-Type"), observe)...)
	return ds
}

func cmpChecksums(o *obj, get func(algo string) string, ctype string, observe func(string)) []diff {
	var ds []diff
	for _, a := range s3c.Algos {
		v := get(a)
		if v == "" {
			continue
		}
		if strings.EqualFold(ctype, "COMPOSITE") {
			observe("composite checksum returned (not judged)")
			continue
		}
		want := s3c.Checksum(a, o.body)
		if v != want {
			st := ""
			if o.hist != nil {
				if o.hist.cks[v] {
					st = "-stale"
				}
				for _, old := range o.hist.bodies {
					if v == s3c.Checksum(a, old) {
						st = "-stale"
					}
				}
			}
			if o.seenCks == nil {
				o.seenCks = map[string]bool{}
			}
			o.seenCks[v] = true
			// the checksum of zero bytes for a non-empty object; when an earlier object at the key was empty this
			// is ambiguous with a leftover - an in-place copy cannot inherit leftovers it did not have before
			if len(o.body) > 0 && v == s3c.Checksum(a, nil) && (st == "" || strings.HasPrefix(o.enc, "selfcopy")) {
				st = "-of-empty"
			}
			ds = append(ds, diff{"checksum" + st, a + " " + want, a + " " + v})
		}
	}
	return ds
}

func bodyDiff(want, got []byte) string {
	i := 0
	for i < len(want) && i < len(got) && want[i] == got[i] {
		i++
	}
	return fmt.Sprintf("len=%d md5=%s first-difference-at=%d", len(got), s3c.MD5Hex(got), i)
}

func bodyKind(o *obj, got []byte) string {
	switch {
	case o.hist.hadBody(got):
		return "body-stale"
	case len(got) > len(o.body) && bytes.Equal(got[:len(o.body)], o.body):
		return "body-padded"
	case len(got) < len(o.body) && bytes.Equal(got, o.body[:len(got)]):
		return "body-truncated"
	}
	return "body"
}

type attrsResp struct {
	ETag       string
	ObjectSize *int64
	Checksum   *struct {
		ChecksumCRC32     string
		ChecksumCRC32C    string
		ChecksumSHA1      string
		ChecksumSHA256    string
		ChecksumCRC64NVME string
		ChecksumType      string
	}
}

func parseAttrs(b []byte) (*attrsResp, error) {
	var a attrsResp
	if err := xml.Unmarshal(b, &a); err != nil {
		return nil, err
	}
	return &a, nil
}

func (a *attrsResp) checksum(algo string) string {
	if a.Checksum == nil {
		return ""
	}
	switch algo {
	case "crc32":
		return a.Checksum.ChecksumCRC32
	case "crc32c":
		return a.Checksum.ChecksumCRC32C
	case "sha1":
		return a.Checksum.ChecksumSHA1
	case "sha256":
		return a.Checksum.ChecksumSHA256
	case "crc64nvme":
		return a.Checksum.ChecksumCRC64NVME
	}
	return ""
}
