package c01

import (
	"fmt"
	"math/rand"
	"strings"

	"verif/harness/internal/s3c"
)

// ---------------------------------------------------------------- body sizes

var boundarySizes = []int{0, 1, 2, 4095, 4096, 4097, 8191, 8192, 8193,
	32<<10 - 1, 32 << 10, 32<<10 + 1, 64<<10 - 1, 64 << 10, 64<<10 + 1,
	128<<10 - 1, 128 << 10, 128<<10 + 1, 1<<20 - 1, 1 << 20, 1<<20 + 1}

const mib = 1 << 20

func genSize(r *rand.Rand, thorough bool) int {
	x := r.Intn(100)
	switch {
	case x < 68:
		return boundarySizes[r.Intn(len(boundarySizes))]
	case x < 97 || !thorough:
		if r.Intn(3) == 0 {
			return 3 + r.Intn(4000)
		}
		return 3 + r.Intn(300000)
	default:
		return []int{5*mib + 1, 8*mib + 3, 5 * mib}[r.Intn(3)]
	}
}

func near(n, c int) bool { return n >= c-1 && n <= c+1 }

func sizeClass(n int) string {
	switch {
	case n == 0:
		return "0"
	case n == 1 || n == 2:
		return "1-2"
	case near(n, 4096):
		return "~4k"
	case near(n, 8192):
		return "~8k"
	case near(n, 32<<10):
		return "~32k"
	case near(n, 64<<10):
		return "~64k"
	case near(n, 128<<10):
		return "~128k"
	case near(n, 1<<20):
		return "~1m"
	case n >= 5*mib:
		return ">=5m"
	case n < 4096:
		return "rnd<4k"
	case n < 64<<10:
		return "rnd<64k"
	}
	return "rnd>=64k"
}

func randBytes(r *rand.Rand, n int) []byte {
	b := make([]byte, n)
	r.Read(b)
	return b
}

// ---------------------------------------------------------------- keys

var keyClasses = []string{"plain", "spaces", "reserved", "pct-literal", "utf8", "seg255", "deep", "dots", "seg256"}

const alnum = "abcdefghijklmnopqrstuvwxyzABCDEFGHIJKLMNOPQRSTUVWXYZ0123456789"

func randWord(r *rand.Rand, alphabet string, min, max int) string {
	n := min
	if max > min {
		n += r.Intn(max - min + 1)
	}
	rs := []rune(alphabet)
	var sb strings.Builder
	for i := 0; i < n; i++ {
		sb.WriteRune(rs[r.Intn(len(rs))])
	}
	return sb.String()
}

// genKey returns a key of the given class; uniq makes keys of one program distinct.
// No key contains a "." or ".." path segment, a trailing slash, an empty segment or a control character.
func genKey(r *rand.Rand, class string, uniq string) string {
	switch class {
	case "plain":
		switch r.Intn(3) {
		case 0:
			return "obj-" + uniq
		case 1:
			return "dir" + uniq + "/sub/file-" + randWord(r, alnum, 1, 8) + ".bin"
		}
		return randWord(r, alnum, 1, 20) + "_" + uniq
	case "spaces":
		return []string{"my file " + uniq + ".txt", "a  b/ c /d e " + uniq, " lead" + uniq + "/trail /x y", uniq + " - copy (2)/n m"}[r.Intn(4)]
	case "reserved":
		const res = "+%&=?#;:@,$'\"<>[]{}|\\^~`!*()"
		n := 1 + r.Intn(3)
		var segs []string
		for i := 0; i < n; i++ {
			s := randWord(r, res+"ab1", 3, 12)
			// keep the class honest: '%' followed by two hex digits is what the pct-literal class is for, but it may also occur here
			segs = append(segs, s)
		}
		return "r" + uniq + "/" + strings.Join(segs, "/") + []string{"", "?x=1&y=2#frag", "+plus+", "&amp;", "=eq=", "a+b c&d=e"}[r.Intn(6)]
	case "pct-literal":
		p := []string{"%41", "a%2Fb", "%2F", "%25", "100%", "%", "%%", "%zz", "%00x", "%C3%A9", "a%20b", "%2B+%20 ", "%7e~", "%5C\\", "%3F?%23#"}[r.Intn(15)]
		switch r.Intn(3) {
		case 0:
			return p + uniq
		case 1:
			return "p" + uniq + "/" + p + "/" + p + "z"
		}
		return "p" + uniq + p
	case "utf8":
		// precomposed vs decomposed forms are distinct keys; 2-, 3- and 4-byte sequences; RTL; combining marks
		p := []string{"\u00e9", "e\u0301", "\u00f1and\u00fa", "\u65e5\u672c\u8a9e/\u30d5\u30a1\u30a4\u30eb", "\U0001F600\U0001F389", "\U0001D518\U0001D52B\U0001D526", "\u05e9\u05dc\u05d5\u05dd", "\u0639\u0631\u0628\u0649/\u0645\u0644\u0641", "\u03a9\u2248\u00e7\u221a\u222b", "a\u0323\u0308o", "\u00df/\u1e9e", "\u0130i\u0307\u0131", "\u00a0nbsp", "\uff46\uff55\uff4c\uff4c"}[r.Intn(14)]
		switch r.Intn(3) {
		case 0:
			return p + "-" + uniq
		case 1:
			return "u" + uniq + "/" + p + "/" + p
		}
		return "u" + uniq + p + ".dat"
	case "seg255":
		switch r.Intn(3) {
		case 0:
			return strings.Repeat("a", 255-len(uniq)) + uniq
		case 1:
			s := strings.Repeat("é", (255-len(uniq)-1)/2) // 2 bytes each
			s += strings.Repeat("x", 255-len(uniq)-len(s))
			return "d" + uniq + "/" + s + uniq
		}
		return strings.Repeat("b", 255-len(uniq)) + uniq + "/" + strings.Repeat("c", 255) + "/" + strings.Repeat("d", 254)
	case "seg256":
		return "l" + uniq + "/" + strings.Repeat("z", 256)
	case "deep":
		n := 10 + r.Intn(11)
		var segs []string
		for i := 0; i < n; i++ {
			segs = append(segs, fmt.Sprintf("d%d", i))
		}
		return "deep" + uniq + "/" + strings.Join(segs, "/") + "/leaf"
	case "dots":
		return []string{"a./.b" + uniq, "..x" + uniq + "/y..", ".../" + uniq, ".hidden" + uniq, uniq + "x.", "a" + uniq + "/.../b", uniq + "..", ".." + uniq + "./..."}[r.Intn(8)]
	}
	panic("key class " + class)
}

// ---------------------------------------------------------------- header sets

type kv struct{ k, v string }

type hdrSet struct {
	ct, ce, cd, cl, cc, exp string // "" = not supplied
	meta                    []kv   // name as spelled by the client (without x-amz-meta-), value
	metaPrefix              string
	tags                    []kv // decoded tags
	tagSpecial              bool
	class                   string
}

var metaNames = []string{"Foo", "foo", "bar-baz", "Camel-Case", "UPPER", "x", "a.b", "with_underscore", "N1", "content-type", "Meta-Meta", "q9z", "mtime", "Sha256sum"}

func genMetaValue(r *rand.Rand) (string, string) {
	switch x := r.Intn(20); {
	case x < 6:
		return randWord(r, alnum, 1, 24), "plain"
	case x < 10:
		return []string{"hello big world", "a b", "x - y - z", "1 2 3 4 5 6 7 8 9"}[r.Intn(4)], "space"
	case x < 14:
		return []string{"a=b; c=\"d\", e", "k=v", "==", "a,b,c", "{\"json\":[1,2]}", "100%;q=0.5", "<tag>&amp;</tag>", "back\\slash", "'single' \"double\"", "tab-less:colon"}[r.Intn(10)], "symbols"
	case x < 17:
		return []string{"grüße", "東京 タワー", "🎉 party", "naïve café", "Ωmega=ω", "שלום"}[r.Intn(6)], "utf8"
	case x < 18:
		return strings.Repeat(randWord(r, alnum, 10, 10), 20), "long"
	case x < 19:
		return "a  b   c", "multispace"
	}
	return "", "empty"
}

func genMeta(r *rand.Rand) ([]kv, string, string) {
	if r.Intn(20) == 0 {
		// a crowd of small entries (well inside the 2 KB S3 allows for user metadata): the count, not the size, is
		// what is unusual
		n := 30 + r.Intn(45)
		var out []kv
		for i := 0; i < n; i++ {
			out = append(out, kv{fmt.Sprintf("k%02d", i), randWord(r, alnum, 1, 6)})
		}
		return out, []string{"x-amz-meta-", "X-Amz-Meta-"}[r.Intn(2)], "m-crowd"
	}
	n := 0
	switch x := r.Intn(20); {
	case x < 5:
		n = 0
	case x < 15:
		n = 1 + r.Intn(3)
	default:
		n = 4 + r.Intn(5)
	}
	seen := map[string]bool{}
	var out []kv
	classes := map[string]bool{}
	for len(out) < n {
		name := metaNames[r.Intn(len(metaNames))]
		if seen[strings.ToLower(name)] {
			continue
		}
		seen[strings.ToLower(name)] = true
		switch r.Intn(4) {
		case 0:
			name = strings.ToLower(name)
		case 1:
			name = strings.ToUpper(name)
		}
		v, cl := genMetaValue(r)
		classes[cl] = true
		out = append(out, kv{name, v})
	}
	prefix := []string{"x-amz-meta-", "X-Amz-Meta-", "X-AMZ-META-", "x-Amz-mEtA-"}[r.Intn(4)]
	cl := "m0"
	if n > 0 {
		cl = "m-ascii"
		if classes["utf8"] {
			cl = "m-utf8"
		} else if classes["empty"] || classes["multispace"] {
			cl = "m-edge"
		}
		if n >= 4 {
			cl += "-many"
		}
	}
	return out, prefix, cl
}

func genTags(r *rand.Rand) ([]kv, bool, string) {
	n := 0
	switch x := r.Intn(20); {
	case x < 7:
		n = 0
	case x < 16:
		n = 1 + r.Intn(3)
	default:
		n = 4 + r.Intn(7)
	}
	special := n > 0 && r.Intn(2) == 0
	seen := map[string]bool{}
	var out []kv
	const tagAlpha = "abcXYZ019+-=._:/@ "
	word := func(min int) string {
		if !special {
			return randWord(r, alnum, min, 12)
		}
		s := randWord(r, tagAlpha, min, 14)
		if r.Intn(5) == 0 {
			s += "é"
		}
		s = strings.TrimSpace(s)
		if len(s) < min {
			s = "t" + s + "t"
		}
		return s
	}
	for len(out) < n {
		k := word(1)
		if seen[k] {
			continue
		}
		seen[k] = true
		v := word(0)
		out = append(out, kv{k, v})
	}
	cl := "t0"
	if n > 0 {
		cl = "t-plain"
		// "special" only if some character really needs URL encoding in the header form
		special = false
		for _, t := range out {
			if s3c.URIEncode(t.k, true) != t.k || s3c.URIEncode(t.v, true) != t.v {
				special = true
			}
		}
		if special {
			cl = "t-special"
		}
		if n >= 4 {
			cl += "-many"
		}
	}
	return out, special, cl
}

func genHdrSet(r *rand.Rand) *hdrSet {
	h := &hdrSet{}
	nc := 0
	pick := func(vals ...string) string {
		if r.Intn(2) == 0 {
			return ""
		}
		nc++
		return vals[r.Intn(len(vals))]
	}
	h.ct = pick("text/plain", "application/json; charset=utf-8", "image/png", "application/x-www-form-urlencoded", "text/html; charset=\"UTF-8\"", "binary/octet-stream", "x-custom/type+suffix")
	h.ce = pick("gzip", "identity", "br", "deflate, gzip")
	h.cd = pick("inline", "attachment; filename=\"a b.txt\"", "attachment; filename*=UTF-8''na%C3%AFve.txt", "attachment")
	h.cl = pick("en-US", "de, en", "mi")
	h.cc = pick("no-cache", "max-age=3600, public", "private, no-store", "s-maxage=0")
	h.exp = pick("Thu, 01 Dec 2044 16:00:00 GMT", "Sat, 31 Dec 2050 23:59:59 GMT", "2044-12-01T16:00:00Z")
	var mcl, tcl string
	h.meta, h.metaPrefix, mcl = genMeta(r)
	h.tags, h.tagSpecial, tcl = genTags(r)
	ccl := "c0"
	if nc == 6 {
		ccl = "c-all"
	} else if nc > 0 {
		ccl = "c-some"
	}
	h.class = mcl + "," + tcl + "," + ccl
	return h
}

func tagMap(t []kv) map[string]string {
	m := map[string]string{}
	for _, e := range t {
		m[e.k] = e.v
	}
	return m
}

// tagHeader renders tags the way the API defines the x-amz-tagging header: URL query encoding.
func tagHeader(t []kv) string {
	var parts []string
	for _, e := range t {
		parts = append(parts, s3c.URIEncode(e.k, true)+"="+s3c.URIEncode(e.v, true))
	}
	return strings.Join(parts, "&")
}

// tagHeaderLiteral is what a server that does not URL-decode the header would store.
func tagHeaderLiteral(t []kv) map[string]string {
	m := map[string]string{}
	for _, e := range t {
		m[s3c.URIEncode(e.k, true)] = s3c.URIEncode(e.v, true)
	}
	return m
}

// ---------------------------------------------------------------- upload encodings

type encT struct {
	label string
	mode  string // "signed" "unsigned" "presigned" "stream"
	strm  string // s3c stream mode
	algo  string // trailer / header checksum algorithm
	cks   string // "" | "hdr" (x-amz-checksum-<algo>: value) | "sdk" (x-amz-sdk-checksum-algorithm only)
}

func allEncodings() []encT {
	out := []encT{
		{label: "put-signed", mode: "signed"},
		{label: "put-unsigned", mode: "unsigned"},
		{label: "put-presigned", mode: "presigned"},
		{label: "put-chunked-signed", mode: "stream", strm: s3c.StreamSigned},
	}
	for _, a := range s3c.Algos {
		out = append(out,
			encT{label: "put-chunked-signed-trailer-" + a, mode: "stream", strm: s3c.StreamSignedTr, algo: a},
			encT{label: "put-chunked-unsigned-trailer-" + a, mode: "stream", strm: s3c.StreamUnsignTr, algo: a},
			encT{label: "put-signed+cksum-hdr-" + a, mode: "signed", algo: a, cks: "hdr"},
			encT{label: "put-signed+sdk-algo-" + a, mode: "signed", algo: a, cks: "sdk"},
		)
	}
	return out
}

func genChunks(r *rand.Rand, size int) []int {
	switch r.Intn(6) {
	case 0:
		return nil
	case 1:
		return []int{8192}
	case 2:
		return []int{65536}
	case 3:
		return []int{64 << 10, 8192, 100000}
	case 4:
		n := 1 + r.Intn(3)
		var out []int
		for i := 0; i < n; i++ {
			out = append(out, 8192+r.Intn(200000))
		}
		return out
	}
	// small chunks (below the 8 KiB the API documents as minimum - a refusal is fine), at most ~300 of them
	min := size/300 + 1
	n := 1 + r.Intn(4)
	var out []int
	for i := 0; i < n; i++ {
		out = append(out, min+r.Intn(5000))
	}
	return out
}
