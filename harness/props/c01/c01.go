// Package c01: stored objects read back byte-identical with their metadata.
//
// Generated upload programs run against two gateway processes sharing one store.
// Every request goes to a PRNG-chosen gateway, both gateways are restarted at a
// PRNG-chosen point. A reference object store in the harness (written from the
// property statement) is compared, after every acknowledged write and at the end
// of the program, with GET, HEAD, GetObjectAttributes, GetObjectTagging and
// ListObjectsV2.
package c01

import (
	"bytes"
	"encoding/xml"
	"fmt"
	"math/rand"
	"os"
	"path/filepath"
	"strconv"
	"strings"
	"sync"
	"syscall"
	"time"

	"verif/harness/internal/ev"
	"verif/harness/internal/fx"
	"verif/harness/internal/gw"
	"verif/harness/internal/reg"
	"verif/harness/internal/s3c"
)

func init() { reg.Register("C01", "exploration", Run) }

// coverage tables written into the evidence file
var (
	statMu sync.Mutex
	stats  = map[string]map[string]int{}
)

func stat(table, key string) {
	statMu.Lock()
	if stats[table] == nil {
		stats[table] = map[string]int{}
	}
	stats[table][key]++
	statMu.Unlock()
}

type cfgT struct {
	name  string
	store string // xattr | sidecar
	tmp   string // otmp | notmp
	ver   string // nover | verdir
	gw    gw.Config
}

func allConfigs() []cfgT {
	var out []cfgT
	for _, sc := range []bool{false, true} {
		for _, nt := range []bool{false, true} {
			for _, vd := range []bool{false, true} {
				c := cfgT{store: "xattr", tmp: "otmp", ver: "nover", gw: gw.Config{Sidecar: sc, NoOTmp: nt, Versioning: vd}}
				if sc {
					c.store = "sidecar"
				}
				if nt {
					c.tmp = "notmp"
				}
				if vd {
					c.ver = "verdir"
				}
				c.name = c.store + "-" + c.tmp + "-" + c.ver
				out = append(out, c)
			}
		}
	}
	return out
}

// world = one configuration: a store, two gateways, clients.
type world struct {
	c       *ev.Ctx
	cf      cfgT
	env     *fx.Env
	clients []*s3c.Client
	fatal   bool
	encs    []encT
	armFile string
}

func (w *world) client(i int) *s3c.Client { return w.clients[i] }

func (w *world) refresh(i int) {
	if w.clients[i] != nil {
		w.clients[i].CloseIdle()
	}
	w.clients[i] = w.env.Client(i)
}

func Run(c *ev.Ctx) int {
	c.Assume("HTTP/1.1 over loopback, tmpfs store (user xattrs and O_TMPFILE available); two gateway processes per store; body sizes <= 8 MiB+3 (multipart up to ~10 MiB); keys <= 1024 bytes without '.'/'..' segments, empty segments, trailing slashes or control characters")
	c.Assume("user metadata names are compared case-insensitively; values are visible ASCII (incl. inner blanks, '=', quotes) or UTF-8, no leading/trailing blanks; a 4xx answer to any generated request leaves the reference unchanged")
	c.Assume("not judged: whether the aws-chunked token of Content-Encoding is kept or stripped; a missing Content-Type may be reported as absent or as binary/octet-stream; GetObjectTagging of an object without tags may answer 404 NoSuchTagSet; a copy of a multipart object may report the source ETag or the content MD5")
	cfgs := allConfigs()
	if !c.Thorough() {
		var q []cfgT
		for _, cf := range cfgs {
			if cf.name == "xattr-otmp-verdir" || cf.name == "sidecar-notmp-nover" || cf.name == "sidecar-otmp-verdir" {
				q = append(q, cf)
			}
		}
		cfgs = q
	}
	var wg sync.WaitGroup
	for _, cf := range cfgs {
		if !c.Want(cf.name) {
			continue
		}
		wg.Add(1)
		go func(cf cfgT) {
			defer wg.Done()
			runConfig(c, cf)
		}(cf)
	}
	wg.Wait()
	// concurrent lane: distinct keys uploaded at the same time through one process
	rc := c.Rng("concurrent")
	for i, cf := range cfgs {
		rounds := c.Pick(3, 4)
		if !c.Thorough() && i > 0 {
			break
		}
		for k := 0; k < rounds; k++ {
			seed := rc.Int63n(1 << 40)
			wg.Add(1)
			go func(cf cfgT, k int, seed int64) {
				defer wg.Done()
				// round 0 default scheduler, round 1 two Ps, round 2 race-instrumented gateway
				runConcurrent(c, cf, k, seed, []string{"plain", "fewprocs", "race", "fewprocs"}[k%4])
			}(cf, k, seed)
		}
	}
	wg.Wait()
	statMu.Lock()
	for t, m := range stats {
		c.Set(t, m)
	}
	statMu.Unlock()
	return c.Finish("upload programs (PUT in 24 payload/checksum encodings, multipart, CopyObject with directives, PutObjectTagging) over keys of 8 classes, boundary body sizes, metadata/tag/content-header sets, on 2 gateways sharing one store with a restart; reference store vs GET/HEAD/GetObjectAttributes/GetObjectTagging/ListObjectsV2 after every acknowledged write, after the restart and at program end; a class is (upload path, size class, key class, header-set class, configuration, read by other process, read after restart) with all five read paths compared",
		c.Pick(150, 1500))
}

func runConfig(c *ev.Ctx, cf cfgT) {
	// a file that arms the kill switch of the gateways: while it exists, the first upload that reaches put.afterData
	// (its body received, nothing published yet) kills the process that serves it (opKilledThenPut)
	armFile := filepath.Join(gw.Scratch(), "c01-arm-"+cf.name)
	os.Remove(armFile)
	cf.gw.Env = append(append([]string{}, cf.gw.Env...), "VERIF_HOOK_ARM="+armFile, "VERIF_HOOK_CRASH=put.afterData#1")
	env, err := fx.New("c01-"+cf.name, cf.gw, 2)
	if err != nil {
		c.Inconclusive("gateway start (" + cf.name + "): " + firstLine(err.Error()))
		return
	}
	defer env.Close()
	w := &world{c: c, cf: cf, env: env, clients: make([]*s3c.Client, 2), encs: allEncodings(), armFile: armFile}
	w.refresh(0)
	w.refresh(1)
	defer func() {
		for _, cl := range w.clients {
			cl.CloseIdle()
		}
	}()
	nprog := c.Pick(40, 300)
	for i := 0; i < nprog && !w.fatal; i++ {
		id := fmt.Sprintf("%s/prog/%d", cf.name, i)
		if !c.Want(id) {
			continue
		}
		p := &prog{w: w, id: id, idx: i, r: c.Rng(id), rr: c.Rng(id + "/reads"), model: map[string]*obj{}, ghost: map[string]*obj{}, marker: map[string]bool{}, hist: map[string]*keyHist{}}
		p.run()
	}
	if i, cr := env.Dead(); cr != nil && !w.fatal {
		g := env.GWs[i]
		if sig := g.ExitSignal(); g.ScrapeCrash() == nil && (sig == syscall.SIGKILL || sig == syscall.SIGTERM) {
			c.Inconclusive("gateway process killed from outside (" + sig.String() + ")")
		} else {
			c.Violation("gateway-died:"+frameOf(cr), cf.name, map[string]any{"config": cf.name, "gateway": i, "crash": cr.Message, "excerpt": clip(cr.Excerpt, 1500)})
		}
	}
}

func firstLine(s string) string {
	if i := strings.IndexByte(s, '\n'); i >= 0 {
		s = s[:i]
	}
	return clip(s, 200)
}

func clip(s string, n int) string {
	if len(s) > n {
		return s[:n] + "..."
	}
	return s
}

func frameOf(cr *gw.Crash) string {
	if cr.TopFrame != "" {
		return strings.TrimPrefix(cr.TopFrame, "github.com/versity/versitygw/")
	}
	return "unknown"
}

// ------------------------------------------------------------------ program

type keyT struct{ key, class string }

type prog struct {
	// versioned buckets: every acknowledged upload with the version id it got (for copies from non-current versions)
	vers   map[string][]verRec
	w      *world
	id     string
	idx    int
	r      *rand.Rand // program generation
	rr     *rand.Rand // routing of read requests (separate stream: the program does not depend on how many reads were made)
	bucket string
	bv     bool // bucket versioning enabled
	keys   []keyT
	model  map[string]*obj
	epoch  int
	ops    []string
	opIdx  int
	nput   int
	// restart requested in the middle of the next multipart upload
	midRestart bool
	abort      bool            // stop judging (environment disturbed)
	ghost      map[string]*obj // last known state of keys whose current state is unknown (failed write) or a delete marker
	marker     map[string]bool // key held a delete marker (versioning-enabled bucket)
	hist       map[string]*keyHist
	sigSuffix  string // context of the current verification (part of the signatures)
}

func (p *prog) c() *ev.Ctx { return p.w.c }

func (p *prog) cfgTag() string {
	t := p.w.cf.tmp + "+" + p.w.cf.ver
	if p.bv {
		t += "-on"
	}
	return t
}

func (p *prog) sig(read, what string, o *obj) string {
	return what + ":" + p.w.cf.store + ":" + o.enc + ":" + read + ":" + p.cfgTag() + p.sigSuffix
}

func (p *prog) logOp(format string, a ...any) {
	s := fmt.Sprintf("#%d ", p.opIdx) + fmt.Sprintf(format, a...)
	p.ops = append(p.ops, clip(s, 400))
}

func (p *prog) detail(key string, o *obj, extra map[string]any) map[string]any {
	d := map[string]any{"config": p.w.cf.name, "bucket_versioning": p.bv, "bucket": p.bucket, "key": key, "op_index": p.opIdx}
	if o != nil {
		d["upload"] = o.enc
		d["upload_op"] = o.opIdx
		d["upload_gateway"] = o.writer
		d["size"] = len(o.body)
		d["key_class"] = o.keyClass
		d["header_class"] = o.hdrClass
		d["after_restart"] = p.epoch > o.epoch
		d["overwrote_existing"] = o.overwrote
	}
	for k, v := range extra {
		d[k] = v
	}
	ops := p.ops
	if len(ops) > 45 {
		ops = ops[len(ops)-45:]
	}
	d["ops"] = append([]string{}, ops...)
	return d
}

// outcome of a mutating request
const (
	acked = iota
	refused
	failed // 5xx / transport: effect unknown
)

// classify handles everything that is not an acknowledgement.
func (p *prog) classify(what string, g int, resp *s3c.Resp) int {
	c := p.c()
	switch {
	case resp.Err != nil:
		if !p.gatewayDeath(what) {
			c.Inconclusive("transport error on " + what)
			p.w.clients[g].CloseIdle()
		}
		return failed
	case resp.Status >= 500:
		if os.Getenv("C01_DEBUG") != "" {
			lg, _ := os.ReadFile(p.w.env.GWs[g].LogPath)
			if len(lg) > 600 {
				lg = lg[len(lg)-600:]
			}
			fmt.Fprintf(os.Stderr, "C01_DEBUG 5xx %s: %s -> %d %s | last op: %s\n  gateway log tail: %s\n", p.id, what, resp.Status, resp.ErrCode(), p.ops[len(p.ops)-1], lg)
		}
		c.Observe(fmt.Sprintf("%d %s on legal %s (%s)", resp.Status, resp.ErrCode(), what, p.w.cf.store))
		return failed
	case resp.Status >= 400 || resp.Status >= 300:
		if os.Getenv("C01_DEBUG") != "" {
			fmt.Fprintf(os.Stderr, "C01_DEBUG refusal %s: %s -> %d %s | last op: %s\n", p.id, what, resp.Status, resp.ErrCode(), p.ops[len(p.ops)-1])
		}
		c.Add("refusals", 1)
		c.Observe(fmt.Sprintf("refused: %s -> %d %s", what, resp.Status, resp.ErrCode()))
		return refused
	}
	return acked
}

// gatewayDeath looks for a dead gateway process and restarts it. A death with a Go panic / fatal
// error in its log is a violation; a process that went away by SIGKILL/SIGTERM without any such
// text was killed from outside (nothing in a gateway sends itself those): inconclusive, and the
// rest of the program is not judged.
func (p *prog) gatewayDeath(what string) bool {
	c, w := p.c(), p.w
	found := false
	for {
		i, cr := w.env.Dead()
		if cr == nil {
			return found
		}
		found = true
		g := w.env.GWs[i]
		sig := g.ExitSignal()
		if g.ScrapeCrash() == nil && (sig == syscall.SIGKILL || sig == syscall.SIGTERM) {
			c.Inconclusive("gateway process killed from outside (" + sig.String() + ")")
			p.abort = true
		} else {
			c.Violation("gateway-died:"+frameOf(cr), p.id, p.detail("", nil, map[string]any{"request": what, "gateway": i, "crash": cr.Message, "excerpt": clip(cr.Excerpt, 1500)}))
		}
		if err := w.env.Restart(i); err != nil {
			c.Inconclusive("restart after gateway death failed: " + firstLine(err.Error()))
			w.fatal = true
			return true
		}
		w.refresh(i)
		p.epoch++
	}
}

func (p *prog) run() {
	c, r, w := p.c(), p.r, p.w
	c.Add("programs", 1)
	p.gatewayDeath("program start")
	p.abort = false
	if w.fatal {
		return
	}
	p.bucket = fmt.Sprintf("p%03d-%s", p.idx, strings.ReplaceAll(w.cf.name, "-", ""))
	g := r.Intn(2)
	if resp := w.client(g).CreateBucket(p.bucket); !resp.OK() {
		c.Inconclusive("create bucket: " + resp.String())
		return
	}
	defer p.cleanup()
	if w.cf.ver == "verdir" && r.Intn(2) == 0 {
		g := r.Intn(2)
		if resp := w.client(g).PutBucketVersioning(p.bucket, "Enabled"); resp.OK() {
			p.bv = true
		} else {
			c.Observe("PutBucketVersioning refused: " + resp.String())
		}
	}
	// key pool: the first key's class rotates with the program index so that every class is reached in every tier
	classes := keyClasses[:len(keyClasses)-1] // seg256 only as an extra refusal probe
	nkeys := 4 + r.Intn(3)
	for j := 0; j < nkeys; j++ {
		cl := classes[r.Intn(len(classes))]
		if j < 2 {
			cl = classes[(p.idx*2+j)%len(classes)]
		}
		p.keys = append(p.keys, keyT{genKey(r, cl, fmt.Sprintf("k%d", j)), cl})
	}
	if r.Intn(3) == 0 {
		p.keys = append(p.keys, keyT{genKey(r, "seg256", "k9"), "seg256"})
	}
	if r.Intn(3) == 0 {
		// a key below another key of the pool: the posix mapping cannot hold both, the later one must be refused
		p.keys = append(p.keys, keyT{p.keys[0].key + "/below", "conflict"})
	}
	nops := 11 + r.Intn(c.Pick(6, 12))
	restartAt := 2 + r.Intn(nops-3)
	bigAt := -1
	if !c.Thorough() && p.idx%20 == 1 || c.Thorough() && r.Intn(3) == 0 {
		bigAt = r.Intn(nops)
	}
	for p.opIdx = 0; p.opIdx < nops && !w.fatal && !p.abort; p.opIdx++ {
		if p.opIdx == restartAt {
			if p.opIdx == bigAt && r.Intn(2) == 0 {
				p.midRestart = true
			} else {
				p.restart()
				p.verifyAll()
			}
		}
		if p.opIdx == bigAt {
			p.opMultipart(true)
			continue
		}
		p.step()
	}
	if !w.fatal && !p.abort {
		p.opIdx = nops
		p.verifyAll()
	}
	c.Sample(map[string]any{"program": p.id, "bucket_versioning": p.bv, "ops": p.ops})
}

func (p *prog) cleanup() {
	st := p.w.env.Store
	for _, d := range []string{st.Root, st.VerDir, st.Sidecar} {
		os.RemoveAll(filepath.Join(d, p.bucket))
	}
}

func (p *prog) restart() {
	c, w := p.c(), p.w
	if p.gatewayDeath("before restart") && (w.fatal || p.abort) {
		return
	}
	for i := 0; i < 2; i++ {
		if err := w.env.Restart(i); err != nil {
			c.Inconclusive("restart failed: " + firstLine(err.Error()))
			w.fatal = true
			return
		}
		w.refresh(i)
	}
	p.epoch++
	c.Add("restarts", 1)
	p.logOp("restart both gateways")
}

func (p *prog) pickKey() keyT { return p.keys[p.r.Intn(len(p.keys))] }

func (p *prog) existingKey() (string, bool) {
	var ks []string
	for _, k := range p.keys {
		if _, ok := p.model[k.key]; ok {
			ks = append(ks, k.key)
		}
	}
	if len(ks) == 0 {
		return "", false
	}
	return ks[p.r.Intn(len(ks))], true
}

func (p *prog) step() {
	r := p.r
	if len(p.model) == 0 {
		p.opPut()
		return
	}
	switch x := r.Intn(100); {
	case x < 5:
		p.opRefusedThenPut()
	case x < 8:
		p.opKilledThenPut()
	case x < 56:
		p.opPut()
	case x < 74:
		p.opCopy()
	case x < 80:
		p.opMultipart(false)
	case x < 92:
		p.opPutTagging()
	case x < 95:
		p.opDeleteTagging()
	default:
		p.opDelete()
	}
}

// install records an acknowledged upload in the reference and verifies the key.
type verRec struct {
	vid string
	o   *obj
}

func (p *prog) install(k keyT, o *obj, g int) {
	o.keyClass = k.class
	o.writer = g
	o.epoch = p.epoch
	o.opIdx = p.opIdx
	was := p.model[k.key]
	if was == nil {
		was = p.ghost[k.key]
	}
	delete(p.ghost, k.key)
	o.afterMarker = p.marker[k.key] // sticky: "the key held a delete marker at some time before this upload"
	h := p.hist[k.key]
	if h == nil {
		h = newHist()
		p.hist[k.key] = h
	}
	h.absorb(was)
	o.hist = h
	o.overwrote = was != nil
	p.model[k.key] = o
	p.c().Add("uploads_acked", 1)
	base := o.enc
	if i := strings.Index(base, "+tag-"); i >= 0 && strings.Contains(base, "copy-") {
		base = base[:i]
	}
	stat("acked_by_upload_path", base)
	stat("acked_by_key_class", k.class)
	stat("acked_by_size_class", o.sizeClass)
	stat("acked_by_config", p.w.cf.name)
	p.verify(k.key)
	if p.bv && !p.w.fatal {
		if h := p.w.client(g).HeadObject(p.bucket, k.key); h.OK() {
			if vid := h.Header.Get("X-Amz-Version-Id"); vid != "" && vid != "null" {
				if p.vers == nil {
					p.vers = map[string][]verRec{}
				}
				p.vers[k.key] = append(p.vers[k.key], verRec{vid, o})
			}
		}
	}
}

func (p *prog) histOf(key string) *keyHist {
	if p.hist[key] == nil {
		p.hist[key] = newHist()
	}
	return p.hist[key]
}

// drop: the state of the key is unknown from now on (failed write); what it held before is
// remembered so that leftovers of it are still recognised after the next acknowledged upload.
func (p *prog) drop(key string) {
	if o := p.model[key]; o != nil {
		p.ghost[key] = o
	}
	delete(p.model, key)
}

// applyHdrs fills the reference from a supplied header set.
func applyHdrs(o *obj, hs *hdrSet) {
	o.ct, o.ce, o.cd, o.cl, o.cc, o.exp = hs.ct, hs.ce, hs.cd, hs.cl, hs.cc, hs.exp
	o.meta = map[string]string{}
	for _, m := range hs.meta {
		o.meta[strings.ToLower(m.k)] = m.v
	}
	o.tags = tagMap(hs.tags)
	o.tagsLiteral = nil
	if len(hs.tags) > 0 {
		o.tagsLiteral = tagHeaderLiteral(hs.tags)
	}
	o.hdrClass = hs.class
}

// wireHdrs renders a header set; withTags adds the x-amz-tagging header.
func (p *prog) wireHdrs(hs *hdrSet, withTags bool) s3c.H {
	r := p.r
	var h s3c.H
	add := func(name, v string) {
		if v == "" {
			return
		}
		if r.Intn(4) == 0 {
			name = strings.ToLower(name)
		}
		h = append(h, [2]string{name, v})
	}
	add("Content-Type", hs.ct)
	add("Content-Encoding", hs.ce)
	add("Content-Disposition", hs.cd)
	add("Content-Language", hs.cl)
	add("Cache-Control", hs.cc)
	add("Expires", hs.exp)
	for _, m := range hs.meta {
		h = append(h, [2]string{hs.metaPrefix + m.k, m.v})
	}
	if withTags && len(hs.tags) > 0 {
		add("X-Amz-Tagging", tagHeader(hs.tags))
	}
	return h
}

func (p *prog) pickEnc() encT {
	encs := p.w.encs
	if p.nput < 4 {
		// rotation: every encoding is reached in the first puts of consecutive programs
		return encs[(p.idx*4+p.nput)%len(encs)]
	}
	switch x := p.r.Intn(10); {
	case x < 1:
		return encs[0]
	case x < 2:
		return encs[1]
	case x < 3:
		return encs[2]
	}
	return encs[3+p.r.Intn(len(encs)-3)]
}

func (p *prog) opPut() {
	r := p.r
	k := p.pickKey()
	e := p.pickEnc()
	p.nput++
	size := genSize(r, p.c().Thorough())
	body := randBytes(r, size)
	hs := genHdrSet(r)
	g := r.Intn(2)
	p.doPut(k, e, body, hs, g)
}

// opKilledThenPut: the gateway process is killed while it serves an upload (body received, nothing published), it is
// started again, and the same key is uploaded with a shorter body through either process. What the killed request
// left behind (a named temp file, attributes written by path) must not show in the acknowledged upload.
func (p *prog) opKilledThenPut() {
	r, c, w := p.r, p.c(), p.w
	k := p.pickKey()
	for k.class == "seg256" || k.class == "conflict" {
		k = p.pickKey()
	}
	g := r.Intn(2)
	big := randBytes(r, 150000+r.Intn(250000))
	hs := genHdrSet(r)
	lost := &obj{body: big, etag: `"` + s3c.MD5Hex(big) + `"`, enc: "put-killed", sizeClass: sizeClass(len(big))}
	applyHdrs(lost, hs)
	p.logOp("killed-upload key=%q(%s) size=%d gw=%d hdrs=%s (process killed at put.afterData, restarted)", clip(k.key, 80), k.class, len(big), g, hs.class)
	if err := os.WriteFile(w.armFile, nil, 0o644); err != nil {
		return
	}
	resp := w.client(g).Do(&s3c.Req{Method: "PUT", Path: s3c.ObjPath(p.bucket, k.key), Body: big, Header: p.wireHdrs(hs, true), Watchdog: 30 * time.Second, FreshConn: true})
	os.Remove(w.armFile)
	c.Eval(1)
	gwp := w.env.GWs[g]
	died := !gwp.Alive() || gwp.WaitExit(3*time.Second)
	// whatever the request did is unknown to the reference from here on (C11 judges the state after a crash)
	p.histOf(k.key).absorb(lost)
	p.drop(k.key)
	if !died {
		c.Observe("killed-upload: the gateway did not reach put.afterData (" + resp.String() + ")")
		if resp.OK() {
			// acknowledged after all: the next upload makes the key known again
		}
	} else {
		if err := w.env.Restart(g); err != nil {
			c.Inconclusive("restart after the killed upload failed: " + firstLine(err.Error()))
			w.fatal = true
			return
		}
		w.refresh(g)
		w.refresh(1 - g)
		p.epoch++
		c.Add("uploads_killed", 1)
	}
	// the shorter upload of the same key, any encoding, either process
	small := randBytes(r, 1+r.Intn(len(big)/3))
	p.doPut(k, p.pickEnc(), small, genHdrSet(r), r.Intn(2))
}

// opRefusedThenPut: an upload with a full set of headers, metadata and tags that the gateway refuses late (it asks
// for a legal hold, which a bucket without object lock cannot give), followed by an acknowledged upload of the same
// key with few or no attributes. Nothing of the refused request may show on the object.
func (p *prog) opRefusedThenPut() {
	r := p.r
	k := p.pickKey()
	g := r.Intn(2)
	var hs *hdrSet
	for i := 0; i < 20; i++ {
		hs = genHdrSet(r)
		if len(hs.meta) > 0 && (hs.ce != "" || hs.cd != "" || hs.cc != "") {
			break
		}
	}
	body := randBytes(r, 1+r.Intn(3000))
	o := &obj{body: body, etag: `"` + s3c.MD5Hex(body) + `"`, enc: "refused-put", sizeClass: sizeClass(len(body))}
	applyHdrs(o, hs)
	req := &s3c.Req{Method: "PUT", Path: s3c.ObjPath(p.bucket, k.key), Body: body}
	req.Header = append(p.wireHdrs(hs, true), [2]string{"X-Amz-Object-Lock-Legal-Hold", "ON"})
	p.logOp("refused-put(legal hold without object lock) key=%q(%s) gw=%d hdrs=%s", clip(k.key, 80), k.class, g, o.hdrClass)
	resp := p.w.client(g).Do(req)
	p.c().Eval(1)
	switch p.classify("put+legal-hold ["+k.class+"]", g, resp) {
	case refused:
		// whatever it may have left behind counts as a stale value of this key from now on
		p.histOf(k.key).absorb(o)
		stat("refused_uploads_followed_up", p.w.cf.name)
	case failed:
		p.histOf(k.key).absorb(o)
		p.drop(k.key)
		return
	default:
		// the bucket accepts legal holds: an ordinary acknowledged upload
		p.install(k, o, g)
		return
	}
	if _, exists := p.model[k.key]; exists {
		// the previous object of the key must be unaffected by the refused request
		p.sigSuffix = ":after-refused-upload"
		p.verify(k.key)
		p.sigSuffix = ""
	}
	few := &hdrSet{class: "m0,t0,c0"}
	if r.Intn(3) == 0 {
		few.ct, few.class = "text/plain", "m0,t0,c-some"
	}
	var e encT
	for i := 0; i < 50; i++ {
		if e = p.pickEnc(); e.mode != "presigned" {
			break
		}
	}
	before := p.model[k.key]
	p.doPut(k, e, randBytes(r, 1+r.Intn(3000)), few, r.Intn(2))
	if p.w.cf.store == "sidecar" && before != nil && p.model[k.key] == before {
		// the follow-up upload did not replace the object. With the sidecar store the refused upload may have
		// changed the existing object's attributes (known finding, reported above with its own signature): its
		// state is unknown from here on, later reads of it would only repeat that finding under other signatures
		p.histOf(k.key).absorb(before)
		p.drop(k.key)
	}
}

func (p *prog) doPut(k keyT, e encT, body []byte, hs *hdrSet, g int) {
	r := p.r
	o := &obj{body: body, etag: `"` + s3c.MD5Hex(body) + `"`, enc: e.label, sizeClass: sizeClass(len(body))}
	applyHdrs(o, hs)
	req := &s3c.Req{Method: "PUT", Path: s3c.ObjPath(p.bucket, k.key), Body: body}
	wire := *hs
	switch e.mode {
	case "unsigned":
		req.PayloadHash = s3c.Unsigned
	case "presigned":
		req.Presign = true
		if r.Intn(2) == 0 {
			// unsigned extra headers on a presigned URL are arguable: half of the presigned uploads carry only a content type
			wire = hdrSet{ct: hs.ct, class: "m0,t0,c-some"}
			if hs.ct == "" {
				wire.class = "m0,t0,c0"
			}
			applyHdrs(o, &wire)
		}
	case "stream":
		req.Stream = &s3c.Stream{Mode: e.strm, ChunkSizes: genChunks(r, len(body))}
		if e.algo != "" {
			req.Stream.TrailerName = "x-amz-checksum-" + e.algo
		}
		// Content-Encoding carries the transfer token; the stored value may keep or drop it
		if hs.ce == "" {
			wire.ce = "aws-chunked"
			o.ceAlt = []string{"aws-chunked", ""}
		} else {
			wire.ce = "aws-chunked," + hs.ce
			o.ceAlt = []string{wire.ce, hs.ce}
		}
	}
	req.Header = p.wireHdrs(&wire, true)
	switch e.cks {
	case "hdr":
		req.Header = append(req.Header, [2]string{"x-amz-checksum-" + e.algo, s3c.Checksum(e.algo, body)})
		if r.Intn(2) == 0 {
			req.Header = append(req.Header, [2]string{"x-amz-sdk-checksum-algorithm", strings.ToUpper(e.algo)})
		}
	case "sdk":
		req.Header = append(req.Header, [2]string{"x-amz-sdk-checksum-algorithm", strings.ToUpper(e.algo)})
	}
	if e.mode != "stream" && r.Intn(8) == 0 {
		req.Header = append(req.Header, [2]string{"Content-MD5", s3c.MD5B64(body)})
	}
	p.logOp("%s key=%q(%s) size=%d gw=%d hdrs=%s chunks=%v", e.label, clip(k.key, 80), k.class, len(body), g, o.hdrClass, chunksOf(req))
	resp := p.w.client(g).Do(req)
	p.c().Eval(1)
	switch p.classify(e.label+" ["+k.class+"]", g, resp) {
	case refused:
		return
	case failed:
		p.histOf(k.key).absorb(o) // effect unknown: whatever it may have written is a possible leftover later
		p.drop(k.key)
		return
	}
	// the acknowledgement itself reports ETag (and checksum)
	if et := resp.Header.Get("Etag"); et != o.etag {
		p.c().Violation(p.sig("ack", "etag", o), p.id, p.detail(k.key, o, map[string]any{"expected": o.etag, "got": et}))
	}
	for _, d := range cmpChecksums(o, func(a string) string { return resp.Header.Get("X-Amz-Checksum-" + a) }, resp.Header.Get("X-Amz-Checksum-Type"), p.c().Observe) {
		p.c().Violation(p.sig("ack", d.what, o), p.id, p.detail(k.key, o, map[string]any{"expected": d.exp, "got": d.got}))
	}
	p.install(k, o, g)
}

func chunksOf(req *s3c.Req) any {
	if req.Stream == nil {
		return "-"
	}
	if req.Stream.ChunkSizes == nil {
		return "one"
	}
	return req.Stream.ChunkSizes
}

func (p *prog) opMultipart(big bool) {
	r, c := p.r, p.c()
	k := p.pickKey()
	for k.class == "seg256" || k.class == "conflict" {
		k = p.pickKey()
	}
	nparts := 1
	if big {
		nparts = 2
		if c.Thorough() && r.Intn(2) == 0 {
			nparts = 3
		}
	}
	var parts [][]byte
	for i := 0; i < nparts; i++ {
		sz := genSize(r, false)
		if i < nparts-1 {
			sz = 5*mib + []int{0, 1, 4097}[r.Intn(3)]
		}
		parts = append(parts, randBytes(r, sz))
	}
	// the last part may be taken from an object that exists (UploadPartCopy, whole or a range of it) - by
	// preference one that was itself stored by a multipart upload: its ETag is not the MD5 of its content
	copySrc, copyRange := "", ""
	if r.Intn(3) == 0 {
		var cands, mp []string
		for _, kk := range p.keys {
			if so := p.model[kk.key]; so != nil && len(so.body) > 0 && len(so.body) <= 6*mib {
				cands = append(cands, kk.key)
				if strings.HasPrefix(so.enc, "multipart-") {
					mp = append(mp, kk.key)
				}
			}
		}
		if len(mp) > 0 && r.Intn(4) != 0 {
			cands = mp
		}
		if len(cands) > 0 {
			copySrc = cands[r.Intn(len(cands))]
			sb := p.model[copySrc].body
			switch r.Intn(4) {
			case 0: // a range that covers everything
				copyRange = fmt.Sprintf("bytes=0-%d", len(sb)-1)
			case 1:
				a := r.Intn(len(sb))
				b := a + r.Intn(len(sb)-a)
				copyRange = fmt.Sprintf("bytes=%d-%d", a, b)
				sb = sb[a : b+1]
			}
			parts[nparts-1] = sb
		}
	}
	body := bytes.Join(parts, nil)
	hs := genHdrSet(r)
	dropCE(r, hs)
	o := &obj{body: body, etag: `"` + s3c.MultipartETag(parts) + `"`, enc: fmt.Sprintf("multipart-%d", nparts), sizeClass: sizeClass(len(body))}
	applyHdrs(o, hs)
	// optional full-object checksum declaration
	algo := ""
	if copySrc != "" {
		o.enc += "+part-copied"
		if strings.HasPrefix(p.model[copySrc].enc, "multipart-") {
			o.enc += "-from-multipart"
		}
		if copyRange != "" {
			o.enc += "-range"
		}
	}
	if (copySrc == "" && r.Intn(4) == 0) || (copySrc != "" && r.Intn(2) == 0) {
		// (with a copied part: the upload's algorithm is as a rule not the one the source was stored with)
		algo = []string{"crc32", "crc32c", "crc64nvme"}[r.Intn(3)]
		o.enc += "+full-" + algo
	}
	hdr := p.wireHdrs(hs, true)
	if algo != "" {
		hdr = append(hdr, [2]string{"x-amz-checksum-algorithm", strings.ToUpper(algo)}, [2]string{"x-amz-checksum-type", "FULL_OBJECT"})
	}
	g := r.Intn(2)
	p.logOp("%s key=%q(%s) parts=%v hdrs=%s create@gw%d", o.enc, clip(k.key, 80), k.class, partSizes(parts), o.hdrClass, g)
	resp := p.w.client(g).Do(&s3c.Req{Method: "POST", Path: s3c.ObjPath(p.bucket, k.key), Query: "uploads=", Header: hdr})
	c.Eval(1)
	if p.classify("create-multipart ["+k.class+"]", g, resp) != acked {
		return
	}
	var init struct{ UploadId string }
	xml.Unmarshal(resp.Body, &init)
	if init.UploadId == "" {
		c.Inconclusive("no upload id in CreateMultipartUpload answer")
		return
	}
	nums := make([]int, nparts)
	n := 0
	for i := range nums {
		n += 1 + r.Intn(3)*r.Intn(2)
		nums[i] = n
	}
	var done []s3c.Part
	for i, pb := range parts {
		if i == 1 && p.midRestart {
			p.midRestart = false
			p.restart()
			if p.w.fatal {
				return
			}
		}
		g := r.Intn(2)
		if copySrc != "" && i == nparts-1 {
			h := s3c.H{{"X-Amz-Copy-Source", s3c.URIEncode(p.bucket+"/"+copySrc, false)}}
			if copyRange != "" {
				h = append(h, [2]string{"X-Amz-Copy-Source-Range", copyRange})
			}
			p.logOp("  part %d copied from %q %s @gw%d", nums[i], clip(copySrc, 60), copyRange, g)
			pr := p.w.client(g).Do(&s3c.Req{Method: "PUT", Path: s3c.ObjPath(p.bucket, k.key), Query: s3c.Q("partNumber", strconv.Itoa(nums[i]), "uploadId", init.UploadId), Header: h})
			c.Eval(1)
			if p.classify("upload-part-copy", g, pr) != acked {
				p.w.client(g).AbortMPU(p.bucket, k.key, init.UploadId)
				return
			}
			var cp struct {
				ETag string
				Code string
			}
			xml.Unmarshal(pr.Body, &cp)
			if cp.Code != "" {
				c.Observe("UploadPartCopy answered 200 with error " + cp.Code)
				p.w.client(g).AbortMPU(p.bucket, k.key, init.UploadId)
				return
			}
			if strings.Trim(cp.ETag, `"`) != s3c.MD5Hex(pb) {
				c.Violation(p.sig("ack-part", "etag", o), p.id, p.detail(k.key, o, map[string]any{"part": nums[i], "copied_from": copySrc, "range": copyRange, "expected": s3c.MD5Hex(pb), "got": cp.ETag}))
			}
			done = append(done, s3c.Part{N: nums[i], ETag: cp.ETag})
			continue
		}
		req := &s3c.Req{Method: "PUT", Path: s3c.ObjPath(p.bucket, k.key), Query: s3c.Q("partNumber", strconv.Itoa(nums[i]), "uploadId", init.UploadId), Body: pb}
		how := "signed"
		switch r.Intn(4) {
		case 0:
			req.PayloadHash = s3c.Unsigned
			how = "unsigned"
		case 1:
			req.Stream = &s3c.Stream{Mode: s3c.StreamSigned, ChunkSizes: []int{64 << 10}}
			how = "chunked-signed"
		}
		if algo != "" {
			if req.Stream == nil && r.Intn(4) == 0 {
				req.Stream = &s3c.Stream{Mode: s3c.StreamUnsignTr, ChunkSizes: []int{128 << 10}, TrailerName: "x-amz-checksum-" + algo}
				how = "chunked-unsigned-trailer"
			} else if req.Stream == nil {
				req.Header = append(req.Header, [2]string{"x-amz-checksum-" + algo, s3c.Checksum(algo, pb)})
			} else {
				req.Stream = &s3c.Stream{Mode: s3c.StreamSignedTr, ChunkSizes: []int{64 << 10}, TrailerName: "x-amz-checksum-" + algo}
				how = "chunked-signed-trailer"
			}
		}
		p.logOp("  part %d (%d bytes, %s) @gw%d", nums[i], len(pb), how, g)
		pr := p.w.client(g).Do(req)
		c.Eval(1)
		if p.classify("upload-part "+how, g, pr) != acked {
			p.w.client(g).AbortMPU(p.bucket, k.key, init.UploadId)
			return
		}
		et := pr.Header.Get("Etag")
		if strings.Trim(et, `"`) != s3c.MD5Hex(pb) {
			c.Violation(p.sig("ack-part", "etag", o), p.id, p.detail(k.key, o, map[string]any{"part": nums[i], "expected": s3c.MD5Hex(pb), "got": et}))
		}
		done = append(done, s3c.Part{N: nums[i], ETag: et})
	}
	if p.midRestart {
		p.midRestart = false
		p.restart()
		if p.w.fatal {
			return
		}
	}
	g = r.Intn(2)
	p.logOp("  complete @gw%d", g)
	// the completion lists every part with its ETag (and its checksum when the upload declared an algorithm)
	var cx strings.Builder
	cx.WriteString(`<CompleteMultipartUpload xmlns="http://s3.amazonaws.com/doc/2006-03-01/">`)
	for i, d := range done {
		fmt.Fprintf(&cx, "<Part><PartNumber>%d</PartNumber><ETag>%s</ETag>", d.N, s3c.XMLEsc(d.ETag))
		if algo != "" {
			el := map[string]string{"crc32": "ChecksumCRC32", "crc32c": "ChecksumCRC32C", "crc64nvme": "ChecksumCRC64NVME"}[algo]
			fmt.Fprintf(&cx, "<%s>%s</%s>", el, s3c.Checksum(algo, parts[i]), el)
		}
		cx.WriteString("</Part>")
	}
	cx.WriteString(`</CompleteMultipartUpload>`)
	cr := p.w.client(g).Do(&s3c.Req{Method: "POST", Path: s3c.ObjPath(p.bucket, k.key), Query: s3c.Q("uploadId", init.UploadId), Body: []byte(cx.String())})
	c.Eval(1)
	switch p.classify("complete-multipart", g, cr) {
	case refused:
		p.w.client(g).AbortMPU(p.bucket, k.key, init.UploadId)
		return
	case failed:
		p.histOf(k.key).absorb(o)
		p.drop(k.key)
		return
	}
	var res struct {
		ETag string
		Code string
	}
	xml.Unmarshal(cr.Body, &res)
	if res.Code != "" {
		c.Observe("CompleteMultipartUpload answered 200 with error " + res.Code)
		p.drop(k.key)
		return
	}
	if res.ETag != o.etag {
		c.Violation(p.sig("ack", "etag", o), p.id, p.detail(k.key, o, map[string]any{"expected": o.etag, "got": res.ETag}))
	}
	p.install(k, o, g)
	if copySrc != "" && copySrc != k.key && p.model[copySrc] != nil {
		// the object a part was copied from is what it was, checksums included
		p.verify(copySrc)
	}
}

// dropCE: the gateway refuses most body-less requests that carry a Content-Encoding (observed:
// 400 XAmzContentSHA256Mismatch); keep that case, but rare, so that copies and multipart uploads get acknowledged.
func dropCE(r *rand.Rand, hs *hdrSet) {
	if hs.ce != "" && r.Intn(4) != 0 {
		hs.ce = ""
	}
}

func partSizes(parts [][]byte) []int {
	var out []int
	for _, p := range parts {
		out = append(out, len(p))
	}
	return out
}

func (p *prog) opCopy() {
	r, c := p.r, p.c()
	srcKey, ok := p.existingKey()
	if !ok {
		p.opPut()
		return
	}
	src := p.model[srcKey]
	dst := p.pickKey()
	// versioned bucket: one copy in three names a NON-CURRENT version of some key as its source - data, content
	// headers, metadata and tags of the copy are those of that version, not of what the key holds now
	fromVid := ""
	if p.bv && r.Intn(3) == 0 {
		var cands []string
		for _, kk := range p.keys {
			if len(p.vers[kk.key]) >= 2 && kk.key != dst.key {
				cands = append(cands, kk.key)
			}
		}
		if len(cands) > 0 {
			srcKey = cands[r.Intn(len(cands))]
			vs := p.vers[srcKey]
			rec := vs[r.Intn(len(vs)-1)] // any but the newest
			src, fromVid = rec.o, rec.vid
		}
	}
	self := dst.key == srcKey
	md := []string{"", "COPY", "REPLACE"}[r.Intn(3)]
	if self && r.Intn(4) != 0 {
		md = "REPLACE" // a copy onto itself without REPLACE is refused by definition
	}
	td := []string{"", "COPY", "REPLACE"}[r.Intn(3)]
	hs := genHdrSet(r)
	dropCE(r, hs)
	lbl := func(d string) string {
		if d == "" {
			return "default"
		}
		return strings.ToLower(d)
	}
	o := &obj{body: src.body, sizeClass: src.sizeClass}
	o.enc = "copy-" + lbl(md) + "+tag-" + lbl(td)
	if self {
		o.enc = "self" + o.enc
	}
	if fromVid != "" {
		o.enc = "version-" + o.enc
	}
	md5tag := `"` + s3c.MD5Hex(src.body) + `"`
	o.etag = md5tag
	if src.etag != md5tag {
		o.etagAlt = append([]string{src.etag}, src.etagAlt...)
	}
	var hdr s3c.H
	supplied := r.Intn(3) > 0 || md == "REPLACE"
	if md == "REPLACE" {
		applyHdrs(o, hs)
	} else {
		o.ct, o.ce, o.cd, o.cl, o.cc, o.exp, o.ceAlt = src.ct, src.ce, src.cd, src.cl, src.cc, src.exp, append([]string{}, src.ceAlt...)
		o.meta = copyMap(src.meta)
		o.hdrClass = "copied:" + src.hdrClass
	}
	if td == "REPLACE" {
		o.tags = tagMap(hs.tags)
		o.tagsLiteral = nil
		if len(hs.tags) > 0 {
			o.tagsLiteral = tagHeaderLiteral(hs.tags)
		}
	} else {
		o.tags = copyMap(src.tags)
		if o.tags == nil {
			o.tags = map[string]string{}
		}
		o.tagsLiteral = copyMap(src.tagsLiteral)
	}
	if supplied {
		// headers are sent even when the directive says COPY: they must then be ignored
		hdr = p.wireHdrs(hs, true)
	} else if td == "REPLACE" && len(hs.tags) > 0 {
		hdr = append(hdr, [2]string{"x-amz-tagging", tagHeader(hs.tags)})
	}
	cs := s3c.URIEncode(p.bucket+"/"+srcKey, false)
	if r.Intn(2) == 0 {
		cs = "/" + cs
	}
	if fromVid != "" {
		cs += "?versionId=" + fromVid
	}
	hdr = append(hdr, [2]string{"X-Amz-Copy-Source", cs})
	if md != "" {
		hdr = append(hdr, [2]string{"x-amz-metadata-directive", md})
	}
	if td != "" {
		hdr = append(hdr, [2]string{"x-amz-tagging-directive", td})
	}
	if r.Intn(4) == 0 {
		// ask for a (new) checksum algorithm on the copy
		a := s3c.Algos[r.Intn(len(s3c.Algos))]
		hdr = append(hdr, [2]string{"x-amz-checksum-algorithm", strings.ToUpper(a)})
		o.enc += "+cksum-algo"
	}
	g := r.Intn(2)
	p.logOp("%s src=%q dst=%q(%s) gw=%d new-hdrs=%s supplied=%v", o.enc, clip(srcKey, 60), clip(dst.key, 60), dst.class, g, hs.class, supplied)
	resp := p.w.client(g).Do(&s3c.Req{Method: "PUT", Path: s3c.ObjPath(p.bucket, dst.key), Header: hdr})
	c.Eval(1)
	switch p.classify(o.enc+" ["+dst.class+"]", g, resp) {
	case refused:
		return
	case failed:
		p.histOf(dst.key).absorb(o)
		p.drop(dst.key)
		return
	}
	var res struct {
		ETag string
		Code string
	}
	xml.Unmarshal(resp.Body, &res)
	if res.Code != "" {
		c.Observe("CopyObject answered 200 with error " + res.Code)
		p.drop(dst.key)
		return
	}
	okE := res.ETag == o.etag
	for _, a := range o.etagAlt {
		okE = okE || res.ETag == a
	}
	if !okE {
		c.Violation(p.sig("ack", "etag", o), p.id, p.detail(dst.key, o, map[string]any{"expected": o.etag, "got": res.ETag}))
	}
	p.install(dst, o, g)
}

func (p *prog) opPutTagging() {
	r, c := p.r, p.c()
	key, ok := p.existingKey()
	if !ok {
		p.opPut()
		return
	}
	o := p.model[key]
	tags, _, tcl := genTags(r)
	g := r.Intn(2)
	p.logOp("put-tagging key=%q gw=%d tags=%s", clip(key, 80), g, tcl)
	resp := p.w.client(g).Sub("PUT", p.bucket, key, "tagging", s3c.TaggingXML(tagMap(tags)))
	c.Eval(1)
	switch p.classify("put-tagging", g, resp) {
	case refused:
		return
	case failed:
		p.drop(key)
		return
	}
	// a tagging change is a write of the key's tag set only
	n := o.snapshot()
	p.histOf(key).absorbTags(o.tags)
	n.hist = p.histOf(key)
	n.tags = tagMap(tags)
	n.tagsLiteral = nil
	if !strings.Contains(n.enc, "+put-tagging") {
		n.enc += "+put-tagging"
	}
	n.writer, n.epoch, n.opIdx = g, p.epoch, p.opIdx
	p.model[key] = n
	if vs := p.vers[key]; len(vs) > 0 && vs[len(vs)-1].o == o {
		vs[len(vs)-1].o = n // the version that is current keeps its id; its tag set is the new one
	}
	c.Add("tag_writes_acked", 1)
	p.verify(key)
}

func (p *prog) opDeleteTagging() {
	c := p.c()
	key, ok := p.existingKey()
	if !ok {
		p.opPut()
		return
	}
	o := p.model[key]
	g := p.r.Intn(2)
	p.logOp("delete-tagging key=%q gw=%d", clip(key, 80), g)
	resp := p.w.client(g).Sub("DELETE", p.bucket, key, "tagging", nil)
	c.Eval(1)
	switch p.classify("delete-tagging", g, resp) {
	case refused:
		return
	case failed:
		p.drop(key)
		return
	}
	n := o.snapshot()
	p.histOf(key).absorbTags(o.tags)
	n.hist = p.histOf(key)
	n.tags = map[string]string{}
	n.tagsLiteral = nil
	if !strings.Contains(n.enc, "+delete-tagging") {
		n.enc += "+delete-tagging"
	}
	n.writer, n.epoch, n.opIdx = g, p.epoch, p.opIdx
	p.model[key] = n
	if vs := p.vers[key]; len(vs) > 0 && vs[len(vs)-1].o == o {
		vs[len(vs)-1].o = n // the version that is current keeps its id; its tag set is the new one
	}
	c.Add("tag_writes_acked", 1)
	p.verify(key)
}

// opDelete removes a key so that a later upload re-creates it (not judged itself).
func (p *prog) opDelete() {
	key, ok := p.existingKey()
	if !ok {
		p.opPut()
		return
	}
	g := p.r.Intn(2)
	p.logOp("delete key=%q gw=%d", clip(key, 80), g)
	resp := p.w.client(g).DeleteObject(p.bucket, key)
	p.c().Eval(1)
	switch p.classify("delete-object", g, resp) {
	case refused:
		return
	case failed:
		p.drop(key)
		return
	}
	if p.bv {
		// versioning enabled: the delete put a delete marker in place of the object; what the key held
		// before is remembered like an overwritten object, the next upload replaces the marker
		p.ghost[key] = p.model[key]
		p.marker[key] = true
	} else {
		delete(p.ghost, key) // an acknowledged delete removes the object with all its attributes
		delete(p.hist, key)
	}
	delete(p.model, key)
}

// ------------------------------------------------------------------ read paths

func (p *prog) verifyAll() {
	for _, k := range p.keys {
		if p.w.fatal {
			return
		}
		if _, ok := p.model[k.key]; ok {
			p.verify(k.key)
		}
	}
}

// read sends one read request to a PRNG-chosen gateway; nil = not judgeable.
func (p *prog) read(what string, req *s3c.Req) (*s3c.Resp, int) {
	g := p.rr.Intn(2)
	resp := p.w.client(g).Do(req)
	p.c().Eval(1)
	p.c().Add("reads", 1)
	if resp.Err != nil {
		p.classify(what, g, resp)
		return nil, g
	}
	return resp, g
}

func (p *prog) verify(key string) {
	c := p.c()
	o := p.model[key]
	if o == nil || p.w.fatal || p.abort {
		return
	}
	c.Add("verify_rounds", 1)
	path := s3c.ObjPath(p.bucket, key)
	complete := true
	invisible := false
	unread := false // some read path could not be observed at all (transport error)
	viol := func(read, what string, exp, got any, g int) {
		c.Violation(p.sig(read, what, o), p.id, p.detail(key, o, map[string]any{"read_path": read, "aspect": what, "read_gateway": g, "expected": exp, "got": got}))
	}
	status := func(read string, resp *s3c.Resp, g int) bool {
		if resp == nil {
			complete = false
			unread = true
			return false
		}
		if resp.Status >= 500 {
			c.Observe(fmt.Sprintf("%d %s on %s of an acknowledged object (%s)", resp.Status, resp.ErrCode(), read, p.w.cf.store))
			complete = false
			return false
		}
		if resp.Status != 200 {
			what := "status"
			if resp.Status == 404 && o.afterMarker {
				what = "invisible-after-delete-marker"
			}
			viol(read, what, 200, resp.String(), g)
			complete = false
			if what == "invisible-after-delete-marker" {
				invisible = true
			}
			return false
		}
		return true
	}

	// 1. GetObjectTagging
	if resp, g := p.read("get-tagging", &s3c.Req{Method: "GET", Path: path, Query: "tagging"}); resp != nil {
		var got map[string]string
		judge := true
		switch {
		case resp.Status == 404 && resp.ErrCode() == "NoSuchTagSet":
			got = map[string]string{}
			if len(o.tags) == 0 {
				c.Observe("GetObjectTagging of an object without tags answers 404 NoSuchTagSet (not judged)")
			}
		case status("gettagging", resp, g):
			t, err := s3c.ParseTagging(resp.Body)
			if err != nil {
				viol("gettagging", "unparsable", "tagging xml", clip(string(resp.Body), 300), g)
				judge = false
			}
			got = t
		default:
			judge = false
		}
		if judge && !mapsEqual(got, o.tags) {
			what := "tags"
			switch {
			case o.tagsLiteral != nil && mapsEqual(got, o.tagsLiteral):
				what = "tags-not-urldecoded"
			case o.hist.hadTags(got):
				what = "tags-stale"
			}
			viol("gettagging", what, fmtMap(o.tags), fmtMap(got), g)
			o.tags, o.tagsLiteral = got, nil
		}
	} else {
		complete = false
		unread = true
	}

	// 2. GET with checksum mode
	other := false
	if resp, g := p.read("get", &s3c.Req{Method: "GET", Path: path, Header: s3c.H{{"x-amz-checksum-mode", "ENABLED"}}}); status("get", resp, g) {
		other = g != o.writer
		if !bytes.Equal(resp.Body, o.body) {
			viol("get", bodyKind(o, resp.Body), fmt.Sprintf("len=%d md5=%s", len(o.body), s3c.MD5Hex(o.body)), bodyDiff(o.body, resp.Body), g)
			o.body = resp.Body
		}
		for _, d := range cmpHeaders(o, resp.Header, true, true, c.Observe) {
			viol("get", d.what, d.exp, d.got, g)
		}
	}

	// 3. HEAD
	if resp, g := p.read("head", &s3c.Req{Method: "HEAD", Path: path, Header: s3c.H{{"x-amz-checksum-mode", "ENABLED"}}}); status("head", resp, g) {
		for _, d := range cmpHeaders(o, resp.Header, false, false, c.Observe) {
			viol("head", d.what, d.exp, d.got, g)
		}
	}

	// 4. GetObjectAttributes
	if resp, g := p.read("attributes", &s3c.Req{Method: "GET", Path: path, Query: "attributes", Header: s3c.H{{"x-amz-object-attributes", "ETag,ObjectSize,Checksum"}}}); status("attributes", resp, g) {
		a, err := parseAttrs(resp.Body)
		if err != nil {
			viol("attributes", "unparsable", "attributes xml", clip(string(resp.Body), 300), g)
		} else {
			if a.ObjectSize == nil || *a.ObjectSize != int64(len(o.body)) {
				got := "absent"
				if a.ObjectSize != nil {
					got = strconv.FormatInt(*a.ObjectSize, 10)
				}
				viol("attributes", "size", len(o.body), got, g)
			}
			if `"`+strings.Trim(a.ETag, `"`)+`"` != o.etag {
				viol("attributes", "etag", o.etag, a.ETag, g)
			}
			ct := ""
			if a.Checksum != nil {
				ct = a.Checksum.ChecksumType
			}
			for _, d := range cmpChecksums(o, a.checksum, ct, c.Observe) {
				viol("attributes", d.what, d.exp, d.got, g)
			}
		}
	}

	// 5. ListObjectsV2 entry
	if resp, g := p.read("list", &s3c.Req{Method: "GET", Path: s3c.BucketPath(p.bucket), Query: "list-type=2"}); status("list", resp, g) {
		l, err := s3c.ParseList(resp.Body)
		if err != nil {
			viol("list", "unparsable", "listing xml", clip(string(resp.Body), 300), g)
		} else {
			found := false
			for _, e := range l.Contents {
				if e.Key != key {
					continue
				}
				found = true
				if e.Size != int64(len(o.body)) {
					viol("list", "size", len(o.body), e.Size, g)
				}
				if e.ETag != o.etag {
					viol("list", "etag", o.etag, e.ETag, g)
				}
			}
			if !found && !l.IsTruncated {
				var ks []string
				for _, e := range l.Contents {
					ks = append(ks, clip(e.Key, 80))
				}
				what := "missing"
				if o.afterMarker {
					what = "missing-after-delete-marker"
				}
				viol("list", what, key, ks, g)
			}
		}
	}

	if invisible || unread {
		// the object cannot be read back (or a read was lost): its stored state can no longer be followed,
		// stop using it (as copy source, too) until the next acknowledged upload
		p.drop(key)
	}
	if complete && !p.abort {
		restarted := p.epoch > o.epoch
		c.Distinct(strings.Join([]string{o.enc, o.sizeClass, o.keyClass, o.hdrClass, p.w.cf.name, p.cfgTag(),
			"other-process=" + strconv.FormatBool(other || restarted), "after-restart=" + strconv.FormatBool(restarted)}, "|"))
		c.Add("keys_fully_compared", 1)
	}
}
