//go:build !solo || solo_c04

package props

import _ "verif/harness/props/c04"
