//go:build !solo || solo_c18

package props

import _ "verif/harness/props/c18"
