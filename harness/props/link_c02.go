//go:build !solo || solo_c02

package props

import _ "verif/harness/props/c02"
