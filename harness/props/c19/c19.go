// Package c19: event notifications match committed changes.
//
// An HTTP webhook receiver inside the harness collects every JSON document the
// gateway posts. 4-16 concurrent clients, each with its own bucket (distinct
// name lengths) and keys whose lengths are unique in the whole round, run put /
// copy / multipart-complete / delete / batch-delete / put-tagging /
// delete-tagging requests and deliberately failing twins of each. The oracle is
// a conservation ledger (exactly-once monitor): the multiset of events expected
// from the ACKNOWLEDGED requests and the active filter is compared, after
// quiescence, with the multiset received. Witness classes: missing, duplicate,
// unexpected, wrong-type, corrupted record, wrong size / eTag / version.
// A race lane repeats the workload against a -race gateway.
package c19

import (
	"bytes"
	"encoding/json"
	"encoding/xml"
	"fmt"
	"io"
	"math/rand"
	"net"
	"net/http"
	"net/url"
	"os"
	"path/filepath"
	"sort"
	"strings"
	"sync"
	"time"

	"verif/harness/internal/ev"
	"verif/harness/internal/fx"
	"verif/harness/internal/gw"
	"verif/harness/internal/reg"
	"verif/harness/internal/s3c"
)

func init() { reg.Register("C19", "exploration", Run) }

// ---- webhook receiver ----------------------------------------------------------

type receiver struct {
	ln      net.Listener
	srv     *http.Server
	mu      sync.Mutex
	docs    [][]byte // every POSTed body, in arrival order
	records int      // bodies that carry a "Records" member
	nconn   int

	// backlog lane: a receiver that needs `delay` per record, one record at a time. A delivery that has
	// already waited a second in the queue is not delayed further (the gateway gives up after 3 s: the
	// harness must never be the reason for a lost delivery).
	delay       time.Duration
	slowMu      sync.Mutex
	inflight    int
	maxInflight int
}

func newReceiver() (*receiver, error) {
	ln, err := net.Listen("tcp", "127.0.0.1:0")
	if err != nil {
		return nil, err
	}
	r := &receiver{ln: ln}
	r.srv = &http.Server{Handler: http.HandlerFunc(func(w http.ResponseWriter, q *http.Request) {
		t0 := time.Now()
		r.mu.Lock()
		r.inflight++
		if r.inflight > r.maxInflight {
			r.maxInflight = r.inflight
		}
		r.mu.Unlock()
		b, _ := io.ReadAll(io.LimitReader(q.Body, 8<<20))
		q.Body.Close()
		if r.delay > 0 {
			r.slowMu.Lock()
			if time.Since(t0) < time.Second {
				time.Sleep(r.delay)
			}
			r.slowMu.Unlock()
		}
		r.mu.Lock()
		r.inflight--
		r.docs = append(r.docs, b)
		if bytes.Contains(b, []byte(`"Records"`)) {
			r.records++
		}
		r.mu.Unlock()
		w.WriteHeader(http.StatusOK) // empty body: the gateway never closes response bodies
	})}
	r.srv.ConnState = func(_ net.Conn, st http.ConnState) {
		if st == http.StateNew {
			r.mu.Lock()
			r.nconn++
			r.mu.Unlock()
		}
	}
	go r.srv.Serve(ln)
	return r, nil
}

func (r *receiver) url() string {
	return fmt.Sprintf("http://127.0.0.1:%d/", r.ln.Addr().(*net.TCPAddr).Port)
}

func (r *receiver) count() int {
	r.mu.Lock()
	defer r.mu.Unlock()
	return r.records
}

func (r *receiver) snapshot() [][]byte {
	r.mu.Lock()
	defer r.mu.Unlock()
	return append([][]byte{}, r.docs...)
}

func (r *receiver) close() { r.srv.Close() }

func (r *receiver) peak() int {
	r.mu.Lock()
	defer r.mu.Unlock()
	return r.maxInflight
}

func (r *receiver) conns() int {
	r.mu.Lock()
	defer r.mu.Unlock()
	return r.nconn
}

// stall monitor: how late does a 20 ms sleep of the harness process wake up (starvation of the harness itself)
type stallMon struct {
	mu      sync.Mutex
	samples []stallSample
}
type stallSample struct {
	at   time.Time
	over time.Duration
}

var stalls = &stallMon{}
var stallOnce sync.Once

func (m *stallMon) start() {
	stallOnce.Do(func() {
		go func() {
			for {
				t0 := time.Now()
				time.Sleep(20 * time.Millisecond)
				if over := time.Since(t0) - 20*time.Millisecond; over > 100*time.Millisecond {
					m.mu.Lock()
					m.samples = append(m.samples, stallSample{time.Now(), over})
					m.mu.Unlock()
				}
			}
		}()
	})
}

func (m *stallMon) maxSince(t time.Time) time.Duration {
	m.mu.Lock()
	defer m.mu.Unlock()
	var mx time.Duration
	for _, s := range m.samples {
		if s.at.After(t) && s.over > mx {
			mx = s.over
		}
	}
	return mx
}

func (rd *round) gwLogLines() []string {
	b, err := os.ReadFile(rd.env.GWs[0].LogPath)
	if err != nil {
		return nil
	}
	var out []string
	for _, l := range strings.Split(string(b), "\n") {
		if strings.Contains(l, "webhook") || strings.Contains(l, "event") {
			out = append(out, trunc(l, 300))
			if len(out) >= 12 {
				break
			}
		}
	}
	return out
}

// ---- the record as the harness reads it (field names from the S3 event message structure) ----

type evDoc struct {
	Records []evRecord `json:"Records"`
}

type evRecord struct {
	EventName string `json:"eventName"`
	S3        struct {
		Bucket struct {
			Name string `json:"name"`
			Arn  string `json:"arn"`
		} `json:"bucket"`
		Object struct {
			Key       string  `json:"key"`
			Size      *int64  `json:"size"`
			ETag      *string `json:"eTag"`
			VersionId *string `json:"versionId"`
		} `json:"object"`
	} `json:"s3"`
}

// ---- filter reference -----------------------------------------------------------

const (
	evPut      = "s3:ObjectCreated:Put"
	evCopy     = "s3:ObjectCreated:Copy"
	evMPU      = "s3:ObjectCreated:CompleteMultipartUpload"
	evDelete   = "s3:ObjectRemoved:Delete"
	evDeleteN  = "s3:ObjectRemoved:DeleteObjects" // documented custom type of the gateway for batch delete
	evTagPut   = "s3:ObjectTagging:Put"
	evTagDel   = "s3:ObjectTagging:Delete"
	wcCreated  = "s3:ObjectCreated:*"
	wcRemoved  = "s3:ObjectRemoved:*"
	wcTagging  = "s3:ObjectTagging:*"
	evDelMark  = "s3:ObjectRemoved:DeleteMarkerCreated"
	arnPrefix  = "arn:aws:s3:::"
	userAK     = "c19plainuser"
	userSK     = "c19plainusersecret0123"
	fastStable = 10 // polls of 100 ms without a new record when nothing is outstanding
	slowStable = 45 // ... when expected records are outstanding (> the gateway's 3 s delivery timeout)
)

// allowedNames: the event types that name the change made by a request kind.
func allowedNames(kind string, versionedDelete bool) []string {
	switch kind {
	case "put":
		return []string{evPut}
	case "copy":
		return []string{evCopy}
	case "mpu-complete":
		return []string{evMPU}
	case "delete":
		if versionedDelete {
			return []string{evDelete, evDelMark}
		}
		return []string{evDelete}
	case "batch-delete":
		return []string{evDeleteN, evDelete}
	case "put-tagging":
		return []string{evTagPut}
	case "delete-tagging":
		return []string{evTagDel}
	}
	return nil
}

// passes: no filter file = everything; an exact entry decides; otherwise the
// wildcard entry of the category decides; a type mentioned by neither is not sent.
func passes(f map[string]bool, name string) bool {
	if f == nil {
		return true
	}
	if v, ok := f[name]; ok {
		return v
	}
	if i := strings.LastIndex(name, ":"); i >= 0 {
		if v, ok := f[name[:i+1]+"*"]; ok {
			return v
		}
	}
	return false
}

type filterClass struct {
	name string
	m    map[string]bool
}

func fixedFilters() []filterClass {
	return []filterClass{
		{"none", nil},
		{"wildcards-true", map[string]bool{wcCreated: true, wcRemoved: true, wcTagging: true}},
		{"exact-true-only", map[string]bool{evPut: true, evDelete: true, evTagDel: true, evDeleteN: true}},
		{"wildcard-true-exact-false", map[string]bool{wcCreated: true, evCopy: false, wcRemoved: true, evDeleteN: false, evDelete: true, wcTagging: true, evTagPut: false}},
		{"wildcard-false-exact-true", map[string]bool{wcCreated: false, evMPU: true, evCopy: true, wcRemoved: false, evDeleteN: true, evDelete: false, wcTagging: false, evTagPut: true}},
		{"all-false", map[string]bool{wcCreated: false, wcRemoved: false, wcTagging: false, evPut: false, evDelete: false}},
		// a filter file that enables nothing: {} (an allow list without entries is not "no filter")
		{"empty", map[string]bool{}},
	}
}

func generatedFilter(r *rand.Rand) filterClass {
	m := map[string]bool{}
	for _, n := range []string{evPut, evCopy, evMPU, evDelete, evDeleteN, evTagPut, evTagDel, wcCreated, wcRemoved, wcTagging,
		"s3:ObjectCreated:Post", "s3:ObjectAcl:Put", "s3:ObjectRestore:*"} {
		switch r.Intn(3) {
		case 0:
			m[n] = true
		case 1:
			m[n] = false
		}
	}
	return filterClass{"generated", m}
}

// ---- ledger --------------------------------------------------------------------

type reqRec struct {
	Idx     int      `json:"idx"`
	Worker  int      `json:"worker"`
	Kind    string   `json:"kind"` // "" = auxiliary request that changes no object (create upload, upload part)
	Variant string   `json:"variant"`
	Method  string   `json:"method"`
	Path    string   `json:"path"` // decoded
	Query   string   `json:"query,omitempty"`
	Bucket  string   `json:"bucket"`
	Keys    []string `json:"keys,omitempty"`
	Status  int      `json:"status"`
	Code    string   `json:"code,omitempty"`
	Err     string   `json:"err,omitempty"`
}

type expEvent struct {
	Bucket   string   `json:"bucket"`
	Key      string   `json:"key"`
	Names    []string `json:"names"` // acceptable names that pass the filter
	Optional bool     `json:"optional,omitempty"`
	Kind     string   `json:"kind"`
	Size     int64    `json:"size"` // -1 unknown
	SizeSent bool     `json:"size_in_request"`
	ETag     string   `json:"etag,omitempty"`
	Vid      string   `json:"version_id,omitempty"`
	// batch deletes: the id of the delete marker the response reported for an entry that named no version (the only
	// version id such an entry's record may carry); MarkerKnown tells that the response was looked at
	MarkerVid   string `json:"delete_marker_version_id,omitempty"`
	MarkerKnown bool   `json:"-"`
	Req      *reqRec  `json:"request"`
	matched  int
}

type triple struct{ b, k, n string }
type pair struct{ b, k string }

type roundCfg struct {
	id        string
	filter    filterClass
	workers   int
	scenarios int
	hook      string // description
	hookEnv   []string
	race      bool
	seed      int64
}

type round struct {
	burst   string // backlog lane: burst size class appended to missing signatures
	started time.Time
	c       *ev.Ctx
	cfg     roundCfg
	env     *fx.Env
	rcv     *receiver
	root    *s3c.Client
}

type worker struct {
	fixedBody []byte // when set, putObject uploads exactly these bytes (repeated identical uploads)
	batchVids map[string]string // version ids named by the entries of the batch delete being sent (key -> id)
	rd        *round
	w         int
	root      *s3c.Client
	user      *s3c.Client
	bucket    string
	missing   string
	versioned bool
	rng       *rand.Rand
	nkey      int
	nreq      int
	reqs      []*reqRec
	exps      []*expEvent
	supp      map[triple]*reqRec // acknowledged, but the filter suppresses the event
	failed    map[triple]*reqRec // refused requests
	transport string
}

func bucketName(prefix byte, w int) string {
	return fmt.Sprintf("%c%02d", prefix, w) + strings.Repeat(string(rune('a'+w)), 3+w)
}

// newKey: the length 12+16j+w is unique in the whole round (w < 16), the content names worker and op.
func (w *worker) newKey(special bool) string {
	j := w.nkey
	w.nkey++
	L := 12 + 16*j + w.w
	letter, pad := rune('a'+w.w), string(rune('A'+w.w))
	head := fmt.Sprintf("%c%03d-", letter, j)
	if j%3 == 1 {
		head = fmt.Sprintf("%c%03d/", letter, j)
	}
	if special {
		head = fmt.Sprintf("%c%03d +%%é=&", letter, j)
		if w.rng.Intn(2) == 0 {
			// literal percent signs followed by two hex digits: the key is these characters, not what they would decode to
			head = fmt.Sprintf("%c%03d %%41%%2Fx%%20%%25+&", letter, j)
		}
	}
	var sb strings.Builder
	sb.WriteString(head)
	seg := len(head)
	for sb.Len() < L {
		if seg >= 180 && sb.Len() < L-1 {
			sb.WriteByte('/')
			seg = 0
			continue
		}
		sb.WriteString(pad)
		seg++
	}
	return sb.String()
}

func (w *worker) body() []byte {
	n := 0
	switch w.rng.Intn(6) {
	case 0:
		n = 0
	case 1:
		n = 1 + w.rng.Intn(9)
	default:
		n = 10 + w.rng.Intn(3000)
	}
	b := make([]byte, n)
	w.rng.Read(b)
	return b
}

// do sends one request and records it. kind == "" marks an auxiliary request.
func (w *worker) do(kind, variant string, cl *s3c.Client, rq *s3c.Req, bucket string, keys []string) (*s3c.Resp, *reqRec) {
	path := "/" + bucket
	if len(keys) == 1 && rq.Path != s3c.BucketPath(bucket) {
		path += "/" + keys[0]
	}
	rec := &reqRec{Idx: w.nreq, Worker: w.w, Kind: kind, Variant: variant, Method: rq.Method, Path: path, Query: rq.Query, Bucket: bucket, Keys: keys}
	w.nreq++
	r := cl.Do(rq)
	rec.Status = r.Status
	rec.Code = r.ErrCode()
	if r.Err != nil {
		rec.Err = r.Err.Error()
		if w.transport == "" {
			w.transport = fmt.Sprintf("%s %s: %v", rq.Method, kind, r.Err)
		}
	}
	w.reqs = append(w.reqs, rec)
	if kind != "" && r.Err == nil && !r.OK() {
		for _, k := range keys {
			for _, n := range allowedNames(kind, true) {
				w.failed[triple{bucket, k, n}] = rec
			}
		}
	}
	if kind != "" && r.Err == nil {
		if variant == "ok" && !r.OK() {
			w.rd.c.Observe(fmt.Sprintf("well-formed %s refused: %s", kind, r))
		}
		if variant != "ok" && r.OK() {
			w.rd.c.Observe(fmt.Sprintf("failing twin %s/%s was acknowledged with %d (then judged as a success)", kind, variant, r.Status))
		}
	}
	return r, rec
}

// expect registers the event an acknowledged request must produce.
func (w *worker) expect(rec *reqRec, kind, bucket, key string, size int64, sizeSent bool, etag, vid string) {
	all := allowedNames(kind, w.versioned)
	var names []string
	for _, n := range all {
		if passes(w.rd.cfg.filter.m, n) {
			names = append(names, n)
		}
	}
	for _, n := range all {
		if !passes(w.rd.cfg.filter.m, n) {
			w.supp[triple{bucket, key, n}] = rec
		}
	}
	if len(names) == 0 {
		return
	}
	optional := len(names) < len(all) && !(kind == "delete" && passes(w.rd.cfg.filter.m, evDelete))
	w.exps = append(w.exps, &expEvent{Bucket: bucket, Key: key, Names: names, Optional: optional, Kind: kind, Size: size, SizeSent: sizeSent,
		ETag: strings.Trim(etag, `"`), Vid: vid, Req: rec})
}

func (w *worker) putObject(cl *s3c.Client, variant, bucket, key string, hdr s3c.H) ([]byte, *s3c.Resp) {
	body := w.body()
	if w.fixedBody != nil {
		body = w.fixedBody
	}
	r, rec := w.do("put", variant, cl, &s3c.Req{Method: "PUT", Path: s3c.ObjPath(bucket, key), Body: body, Header: hdr}, bucket, []string{key})
	if r.OK() {
		w.expect(rec, "put", bucket, key, int64(len(body)), true, r.Header.Get("Etag"), r.Header.Get("X-Amz-Version-Id"))
	}
	return body, r
}

func (w *worker) seed(key string) ([]byte, bool) {
	body, r := w.putObject(w.root, "ok", w.bucket, key, nil)
	return body, r.OK()
}

func (w *worker) copyObject(cl *s3c.Client, variant, sb, sk, db, dk string, srcLen int64) {
	h := s3c.H{{"X-Amz-Copy-Source", s3c.URIEncode(sb+"/"+sk, false)}}
	r, rec := w.do("copy", variant, cl, &s3c.Req{Method: "PUT", Path: s3c.ObjPath(db, dk), Header: h}, db, []string{dk})
	if r.OK() {
		var res struct{ ETag string }
		xml.Unmarshal(r.Body, &res)
		w.expect(rec, "copy", db, dk, srcLen, false, res.ETag, r.Header.Get("X-Amz-Version-Id"))
	}
}

// startUpload creates an upload with one part (auxiliary requests) and returns id and part list.
func (w *worker) startUpload(bucket, key string) (string, []s3c.Part, int64, bool) {
	r, _ := w.do("", "aux-create-upload", w.root, &s3c.Req{Method: "POST", Path: s3c.ObjPath(bucket, key), Query: "uploads="}, bucket, []string{key})
	if !r.OK() {
		return "", nil, 0, false
	}
	var o struct{ UploadId string }
	xml.Unmarshal(r.Body, &o)
	body := w.body()
	r, _ = w.do("", "aux-upload-part", w.root, &s3c.Req{Method: "PUT", Path: s3c.ObjPath(bucket, key), Query: s3c.Q("partNumber", "1", "uploadId", o.UploadId), Body: body}, bucket, []string{key})
	if !r.OK() {
		return "", nil, 0, false
	}
	return o.UploadId, []s3c.Part{{N: 1, ETag: strings.Trim(r.Header.Get("Etag"), `"`)}}, int64(len(body)), true
}

func (w *worker) complete(cl *s3c.Client, variant, bucket, key, id string, body []byte, size int64) {
	r, rec := w.do("mpu-complete", variant, cl, &s3c.Req{Method: "POST", Path: s3c.ObjPath(bucket, key), Query: s3c.Q("uploadId", id), Body: body}, bucket, []string{key})
	if r.OK() {
		var res struct{ ETag string }
		xml.Unmarshal(r.Body, &res)
		w.expect(rec, "mpu-complete", bucket, key, size, false, res.ETag, r.Header.Get("X-Amz-Version-Id"))
	}
}

func (w *worker) deleteObject(cl *s3c.Client, variant, bucket, key string) {
	r, rec := w.do("delete", variant, cl, &s3c.Req{Method: "DELETE", Path: s3c.ObjPath(bucket, key)}, bucket, []string{key})
	if r.OK() {
		w.expect(rec, "delete", bucket, key, -1, false, "", r.Header.Get("X-Amz-Version-Id"))
	}
}

func deleteXML(keys []string) []byte {
	var sb strings.Builder
	sb.WriteString(`<Delete xmlns="http://s3.amazonaws.com/doc/2006-03-01/">`)
	for _, k := range keys {
		sb.WriteString("<Object><Key>" + s3c.XMLEsc(k) + "</Key></Object>")
	}
	sb.WriteString(`</Delete>`)
	return []byte(sb.String())
}

func (w *worker) batchDelete(cl *s3c.Client, variant, bucket string, keys []string, body []byte) {
	h := s3c.H{{"Content-MD5", s3c.MD5B64(body)}}
	r, rec := w.do("batch-delete", variant, cl, &s3c.Req{Method: "POST", Path: s3c.BucketPath(bucket), Query: "delete", Body: body, Header: h}, bucket, keys)
	if r.OK() {
		var res struct {
			Deleted []struct{ Key, VersionId, DeleteMarkerVersionId string }
			Error   []struct{ Key, Code string }
		}
		if err := xml.Unmarshal(r.Body, &res); err != nil {
			w.rd.c.Observe("DeleteObjects result not parseable")
			return
		}
		for _, d := range res.Deleted {
			w.expect(rec, "batch-delete", bucket, d.Key, -1, false, "", w.batchVids[d.Key])
			if n := len(w.exps); n > 0 && w.batchVids[d.Key] == "" {
				x := w.exps[n-1]
				if x.Req == rec && x.Key == d.Key {
					x.MarkerVid, x.MarkerKnown = d.DeleteMarkerVersionId, true
				}
			}
		}
		committed := map[string]bool{}
		for _, d := range res.Deleted {
			committed[d.Key] = true
		}
		for _, e := range res.Error {
			w.rd.c.Observe("DeleteObjects reported a per-key error: " + e.Code)
			if committed[e.Key] {
				// the key was named twice and its other entry committed: that change is expected above, exactly once
				continue
			}
			for _, n := range allowedNames("batch-delete", true) {
				w.failed[triple{bucket, e.Key, n}] = rec
			}
		}
	}
}

func (w *worker) putTagging(cl *s3c.Client, variant, bucket, key string, body []byte) {
	h := s3c.H{{"Content-MD5", s3c.MD5B64(body)}}
	r, rec := w.do("put-tagging", variant, cl, &s3c.Req{Method: "PUT", Path: s3c.ObjPath(bucket, key), Query: "tagging", Body: body, Header: h}, bucket, []string{key})
	if r.OK() {
		w.expect(rec, "put-tagging", bucket, key, -1, false, "", "")
	}
}

func (w *worker) deleteTagging(cl *s3c.Client, variant, bucket, key string) {
	r, rec := w.do("delete-tagging", variant, cl, &s3c.Req{Method: "DELETE", Path: s3c.ObjPath(bucket, key), Query: "tagging"}, bucket, []string{key})
	if r.OK() {
		w.expect(rec, "delete-tagging", bucket, key, -1, false, "", "")
	}
}

func (w *worker) tags() []byte {
	return s3c.TaggingXML(map[string]string{fmt.Sprintf("t%d", w.w): fmt.Sprintf("v%d", w.nreq)})
}

type slot struct{ kind, variant string }

var failVariants = []slot{
	{"put", "missing-bucket"}, {"put", "bad-digest"}, {"put", "denied"},
	{"copy", "missing-bucket"}, {"copy", "missing-source"}, {"copy", "denied"},
	{"mpu-complete", "malformed-xml"}, {"mpu-complete", "bad-part"}, {"mpu-complete", "denied"}, {"mpu-complete", "missing-bucket"},
	{"delete", "missing-bucket"}, {"delete", "denied"},
	{"batch-delete", "malformed-xml"}, {"batch-delete", "missing-bucket"}, {"batch-delete", "denied"},
	{"put-tagging", "malformed-xml"}, {"put-tagging", "missing-key"}, {"put-tagging", "denied"}, {"put-tagging", "missing-bucket"},
	{"delete-tagging", "missing-bucket"}, {"delete-tagging", "denied"}, {"delete-tagging", "missing-key"},
}

var okKinds = []string{"put", "copy", "mpu-complete", "delete", "batch-delete", "put-tagging", "delete-tagging"}

func (w *worker) scenario(s slot) {
	b, m := w.bucket, w.missing
	v := s.variant
	switch s.kind {
	case "put":
		switch v {
		case "ok":
			if w.rng.Intn(4) == 0 {
				// the same change twice: same key, same data, one request right after the other - two changes, two events
				key := w.newKey(false)
				w.fixedBody = w.body()
				w.putObject(w.root, v, b, key, nil)
				w.putObject(w.root, v, b, key, nil)
				w.fixedBody = nil
				return
			}
			w.putObject(w.root, v, b, w.newKey(w.nkey < 14 && w.rng.Intn(3) == 0), nil)
		case "missing-bucket":
			w.putObject(w.root, v, m, w.newKey(false), nil)
		case "bad-digest":
			w.putObject(w.root, v, b, w.newKey(false), s3c.H{{"Content-MD5", s3c.MD5B64([]byte(fmt.Sprintf("not the body %d", w.nreq)))}})
		case "denied":
			w.putObject(w.user, v, b, w.newKey(false), nil)
		}
	case "copy":
		src := w.newKey(false)
		dst := w.newKey(false)
		if v == "missing-source" {
			w.copyObject(w.root, v, b, src, b, dst, 0)
			return
		}
		body, ok := w.seed(src)
		if !ok {
			return
		}
		switch v {
		case "ok":
			w.copyObject(w.root, v, b, src, b, dst, int64(len(body)))
		case "missing-bucket":
			w.copyObject(w.root, v, b, src, m, dst, int64(len(body)))
		case "denied":
			w.copyObject(w.user, v, b, src, b, dst, int64(len(body)))
		}
	case "mpu-complete":
		key := w.newKey(false)
		if v == "missing-bucket" {
			w.complete(w.root, v, m, key, "0123456789abcdef", s3c.CompleteXML([]s3c.Part{{N: 1, ETag: "d41d8cd98f00b204e9800998ecf8427e"}}), 0)
			return
		}
		id, parts, size, ok := w.startUpload(b, key)
		if !ok {
			return
		}
		switch v {
		case "ok":
			w.complete(w.root, v, b, key, id, s3c.CompleteXML(parts), size)
		case "malformed-xml":
			w.complete(w.root, v, b, key, id, []byte(`<CompleteMultipartUpload><Part><PartNumber>1</PartNumber><ETag>`), size)
		case "bad-part":
			w.complete(w.root, v, b, key, id, s3c.CompleteXML([]s3c.Part{{N: 1, ETag: "00000000000000000000000000000000"}}), size)
		case "denied":
			w.complete(w.user, v, b, key, id, s3c.CompleteXML(parts), size)
		}
	case "delete":
		key := w.newKey(false)
		if v == "missing-bucket" {
			w.deleteObject(w.root, v, m, key)
			return
		}
		if _, ok := w.seed(key); !ok {
			return
		}
		if v == "ok" {
			w.deleteObject(w.root, v, b, key)
		} else {
			w.deleteObject(w.user, v, b, key)
		}
	case "batch-delete":
		n := 2 + w.rng.Intn(4)
		var keys []string
		for i := 0; i < n; i++ {
			keys = append(keys, w.newKey(false))
		}
		if v == "missing-bucket" {
			w.batchDelete(w.root, v, m, keys, deleteXML(keys))
			return
		}
		w.batchVids = map[string]string{}
		for _, k := range keys {
			_, r := w.putObject(w.root, "ok", w.bucket, k, nil)
			if !r.OK() {
				return
			}
			// versioned bucket: about half of the entries name the version that was just written, in any position
			if vid := r.Header.Get("X-Amz-Version-Id"); vid != "" && v == "ok" && w.rng.Intn(2) == 0 {
				w.batchVids[k] = vid
			}
		}
		if v == "ok" && w.rng.Intn(2) == 0 {
			// one entry that fails for itself: a directory object that still has a key below it. The request succeeds,
			// the entry is reported under Errors and is no committed change
			d := w.newKey(false)
			if _, r := w.putObject(w.root, "ok", w.bucket, d+"/x", nil); r.OK() {
				at := w.rng.Intn(len(keys) + 1)
				keys = append(keys[:at], append([]string{d + "/"}, keys[at:]...)...)
			}
		}
		// versioned bucket: a key whose entry names no version (if the batch has one) is named a second time with a
		// well-formed version id that does not exist. That entry fails for itself (Errors), the other one commits a delete
		// marker: exactly one notification for the key, carrying the marker's id
		twice, twiceAt := "", -1
		if v == "ok" && w.versioned {
			for _, k := range keys {
				if w.batchVids[k] == "" && !strings.HasSuffix(k, "/") {
					twice, twiceAt = k, w.rng.Intn(len(keys)+1)
					break
				}
			}
		}
		switch v {
		case "ok":
			var sb strings.Builder
			sb.WriteString(`<Delete xmlns="http://s3.amazonaws.com/doc/2006-03-01/">`)
			for i, k := range keys {
				if i == twiceAt {
					sb.WriteString("<Object><Key>" + s3c.XMLEsc(twice) + "</Key><VersionId>01ARZ3NDEKTSV4RRFFQ69G5FAV</VersionId></Object>")
				}
				sb.WriteString("<Object><Key>" + s3c.XMLEsc(k) + "</Key>")
				if vid := w.batchVids[k]; vid != "" {
					sb.WriteString("<VersionId>" + vid + "</VersionId>")
				}
				sb.WriteString("</Object>")
			}
			if twiceAt == len(keys) {
				sb.WriteString("<Object><Key>" + s3c.XMLEsc(twice) + "</Key><VersionId>01ARZ3NDEKTSV4RRFFQ69G5FAV</VersionId></Object>")
			}
			if twice != "" {
				w.rd.c.Add("batch_deletes_naming_one_key_twice", 1)
			}
			sb.WriteString(`</Delete>`)
			w.batchDelete(w.root, v, b, keys, []byte(sb.String()))
		case "malformed-xml":
			x := deleteXML(keys)
			w.batchDelete(w.root, v, b, keys, x[:len(x)-len("</Key></Object></Delete>")])
		case "denied":
			w.batchDelete(w.user, v, b, keys, deleteXML(keys))
		}
	case "put-tagging":
		key := w.newKey(false)
		switch v {
		case "missing-bucket":
			w.putTagging(w.root, v, m, key, w.tags())
			return
		case "missing-key":
			w.putTagging(w.root, v, b, key, w.tags())
			return
		}
		if _, ok := w.seed(key); !ok {
			return
		}
		switch v {
		case "ok":
			t := w.tags()
			w.putTagging(w.root, v, b, key, t)
			if w.rng.Intn(3) == 0 {
				w.putTagging(w.root, v, b, key, t) // the same tag set once more: a second change, a second event
			}
		case "malformed-xml":
			w.putTagging(w.root, v, b, key, []byte(`<Tagging><TagSet><Tag><Key>a</Key><Value>b</Value></Tag></TagSet>`))
		case "denied":
			w.putTagging(w.user, v, b, key, w.tags())
		}
	case "delete-tagging":
		key := w.newKey(false)
		switch v {
		case "missing-bucket":
			w.deleteTagging(w.root, v, m, key)
			return
		case "missing-key":
			w.deleteTagging(w.root, v, b, key)
			return
		}
		if _, ok := w.seed(key); !ok {
			return
		}
		w.putTagging(w.root, "ok", b, key, w.tags())
		if v == "ok" {
			w.deleteTagging(w.root, v, b, key)
		} else {
			w.deleteTagging(w.user, v, b, key)
		}
	}
}

// ---- judging -------------------------------------------------------------------

func short(name string) string {
	switch name {
	case evPut, evCopy, evMPU, evDelete, evDeleteN, evTagPut, evTagDel, evDelMark, "s3:ObjectCreated:Post", "s3:ObjectAcl:Put",
		"s3:ObjectRestore:Post", "s3:ObjectRestore:Completed":
		return strings.TrimPrefix(name, "s3:")
	case wcCreated, wcRemoved, wcTagging:
		return strings.TrimPrefix(name, "s3:")
	}
	return "other-name"
}

func keyForms(k string) []string {
	out := []string{k}
	if u, err := url.PathUnescape(k); err == nil && u != k {
		out = append(out, u)
	}
	if u, err := url.QueryUnescape(k); err == nil && u != k {
		out = append(out, u)
	}
	return out
}

// explainBytes says what a corrupted path looks like: every byte either its own or, at the same
// offset, a byte of another request path of this round (a reused buffer overwritten from offset 0).
func explainBytes(got, own string, paths []string) string {
	// a multi-byte character cut by the overwrite reaches the receiver as U+FFFD: one unknown byte
	got = strings.ReplaceAll(got, "\uFFFD", "\xff")
	if len(got) != len(own) {
		return "length-changed"
	}
	eq := func(g, q byte) bool { return g == q || g == 0xff }
	p, segs, other := 0, 0, false
	for p < len(got) {
		best, bestOwn := 0, true
		for p+best < len(got) && eq(got[p+best], own[p+best]) {
			best++
		}
		for _, q := range paths {
			if q == own || len(q) <= p {
				continue
			}
			m := 0
			for p+m < len(got) && p+m < len(q) && eq(got[p+m], q[p+m]) {
				m++
			}
			if m > best {
				best, bestOwn = m, false
			}
		}
		if best == 0 {
			return "unrecognised-bytes"
		}
		if !bestOwn {
			other = true
		}
		p += best
		segs++
	}
	if !other || segs > 16 {
		return "unrecognised-bytes"
	}
	return "bytes-of-other-request"
}

type judgeStats struct {
	expected, received, matched, corrupted, emptyName, testDocs int
}

func (rd *round) judge(workers []*worker, docs [][]byte) judgeStats {
	c := rd.c
	var st judgeStats
	cfgDesc := map[string]any{"filter": rd.cfg.filter.name, "filter_map": rd.cfg.filter.m, "workers": rd.cfg.workers, "hook": rd.cfg.hook, "race": rd.cfg.race, "round_seed": rd.cfg.seed}
	viol := func(sig string, d map[string]any) {
		d["config"] = cfgDesc
		c.Violation(sig, rd.cfg.id, d)
	}
	expIdx := map[triple]*expEvent{}
	byPair := map[pair][]*expEvent{}
	reqPairs := map[pair]*reqRec{}
	failed := map[triple]*reqRec{}
	supp := map[triple]*reqRec{}
	var exps []*expEvent
	var paths []string
	seenPath := map[string]bool{}
	addPath := func(p string) {
		if !seenPath[p] {
			seenPath[p] = true
			paths = append(paths, p)
		}
	}
	for _, w := range workers {
		for _, x := range w.exps {
			exps = append(exps, x)
			for _, n := range x.Names {
				expIdx[triple{x.Bucket, x.Key, n}] = x
			}
			byPair[pair{x.Bucket, x.Key}] = append(byPair[pair{x.Bucket, x.Key}], x)
			if !x.Optional {
				st.expected++
			}
		}
		for k, v := range w.failed {
			failed[k] = v
		}
		for k, v := range w.supp {
			supp[k] = v
		}
		for _, r := range w.reqs {
			addPath(r.Path)
			addPath(s3c.EncodePath(r.Path))
			for _, k := range r.Keys {
				reqPairs[pair{r.Bucket, k}] = r
			}
		}
	}
	addPath("/create-user")
	addPath("/health")

	type orphan struct {
		rec evRecord
		key string
		raw string
	}
	var orphans []orphan
	type dup struct {
		x   *expEvent
		rec evRecord
		raw string
	}
	var dups []dup
	checkFields := func(x *expEvent, e evRecord, raw string) {
		d := func() map[string]any { return map[string]any{"expected": x, "event": json.RawMessage(raw)} }
		if e.S3.Object.Size != nil {
			got := *e.S3.Object.Size
			switch {
			case x.SizeSent && got != x.Size:
				viol("wrong-size:"+x.Kind, d())
			case !x.SizeSent && x.Size >= 0 && got != 0 && got != x.Size:
				viol("wrong-size:"+x.Kind, d())
			case !x.SizeSent && x.Size > 0 && got == 0:
				c.Observe("size 0 in the record of a " + x.Kind + " that created a non-empty object (the request itself carries no size)")
			}
		} else if x.SizeSent {
			c.Observe("size absent in the record of a " + x.Kind)
		}
		if x.ETag != "" {
			if e.S3.Object.ETag == nil {
				c.Observe("eTag absent in the record of a " + x.Kind)
			} else if strings.Trim(*e.S3.Object.ETag, `"`) != x.ETag {
				viol("wrong-etag:"+x.Kind, d())
			}
		}
		gotV := ""
		if e.S3.Object.VersionId != nil {
			gotV = *e.S3.Object.VersionId
		}
		if x.Vid != "" {
			if gotV == "" {
				c.Observe("versionId absent in the record of a " + x.Kind + " acknowledged with x-amz-version-id")
			} else if gotV != x.Vid {
				viol("wrong-version:"+x.Kind, d())
			}
		} else if gotV != "" && gotV != "null" && x.Kind != "batch-delete" {
			viol("wrong-version:"+x.Kind, d())
		} else if gotV != "" && gotV != "null" && x.Kind == "batch-delete" && x.MarkerKnown && gotV != x.MarkerVid {
			// the entry named no version: its record may carry the id of the delete marker that was created, nothing else
			viol("wrong-version:batch-delete:entry-without-version-id", d())
		}
	}

	for _, raw := range docs {
		var doc evDoc
		if err := json.Unmarshal(raw, &doc); err != nil {
			viol("malformed-document:not-json", map[string]any{"body": trunc(string(raw), 600), "error": err.Error()})
			continue
		}
		if doc.Records == nil {
			st.testDocs++ // the start-up test event {"Event":"s3:TestEvent",...}
			continue
		}
		if len(doc.Records) != 1 {
			viol("malformed-document:record-count", map[string]any{"body": trunc(string(raw), 600)})
		}
		for _, e := range doc.Records {
			st.received++
			if e.EventName == "" {
				st.emptyName++
				c.Observe("record with an empty eventName (names no change; not judged)")
				continue
			}
			b := e.S3.Bucket.Name
			done := false
			for i, k := range keyForms(e.S3.Object.Key) {
				x := expIdx[triple{b, k, e.EventName}]
				if x == nil {
					continue
				}
				done = true
				if i > 0 {
					c.Observe("object key in the record is URL-encoded")
				} else if strings.ContainsAny(k, " +%") {
					c.Observe("object key in the record is not URL-encoded (raw key bytes)")
				}
				if x.matched > 0 {
					dups = append(dups, dup{x, e, string(raw)})
				} else {
					st.matched++
					checkFields(x, e, string(raw))
				}
				x.matched++
				break
			}
			if done {
				continue
			}
			for _, k := range keyForms(e.S3.Object.Key) {
				if r := failed[triple{b, k, e.EventName}]; r != nil {
					viol(fmt.Sprintf("unexpected:failed-%s-%s", r.Kind, r.Variant), map[string]any{"request": r, "event": json.RawMessage(raw)})
					done = true
					break
				}
				if r := supp[triple{b, k, e.EventName}]; r != nil {
					viol("unexpected:filtered-out-"+r.Kind, map[string]any{"request": r, "event": json.RawMessage(raw)})
					done = true
					break
				}
			}
			if done {
				continue
			}
			for _, k := range keyForms(e.S3.Object.Key) {
				if reqPairs[pair{b, k}] != nil {
					orphans = append(orphans, orphan{e, k, string(raw)})
					done = true
					break
				}
			}
			if done {
				continue
			}
			// bucket/key of no request of this round: a corrupted record. The arn is formatted while the
			// request is still being handled and usually still names the request the record belongs to.
			st.corrupted++
			truePath := strings.TrimPrefix(e.S3.Bucket.Arn, arnPrefix)
			tb, tk, _ := strings.Cut(strings.TrimPrefix(truePath, "/"), "/")
			gotPath := "/" + b + "/" + e.S3.Object.Key
			var x *expEvent
			if !strings.HasPrefix(e.S3.Bucket.Arn, arnPrefix) {
				tb = ""
			} else if e.EventName == evDeleteN || tk == "" {
				// batch delete: the key comes from the request body, only the bucket from the path
				for _, k := range keyForms(e.S3.Object.Key) {
					if x = expIdx[triple{tb, k, e.EventName}]; x != nil {
						break
					}
				}
				truePath, gotPath = "/"+tb, "/"+b
			} else {
				for _, k := range keyForms(tk) {
					if x = expIdx[triple{tb, k, e.EventName}]; x != nil {
						break
					}
				}
			}
			detail := "unrecognised-bytes"
			if x != nil {
				detail = explainBytes(gotPath, truePath, paths)
			} else {
				for _, q := range paths {
					if len(q) >= 2 && strings.HasPrefix(gotPath, q) {
						detail = "bytes-of-other-request"
					}
				}
			}
			if x == nil || x.matched > 0 {
				viol("corrupted-record:unattributed:"+detail, map[string]any{"event": json.RawMessage(raw), "arn_path": truePath})
				continue
			}
			x.matched++
			field := "key"
			keyDiff := x.Kind != "batch-delete" && !contains(keyForms(e.S3.Object.Key), x.Key)
			switch {
			case b != x.Bucket && keyDiff:
				field = "bucket+key"
			case b != x.Bucket:
				field = "bucket"
			}
			viol(fmt.Sprintf("corrupted-%s:%s:%s", field, x.Kind, detail), map[string]any{"expected": x, "event": json.RawMessage(raw),
				"record_names": gotPath, "request_named": truePath, "explain": "bucket/key of the record belong to no request of this round; the arn of the record still names the request"})
		}
	}
	// a second record for an already satisfied expectation: when another change of the same key is still
	// without its record this is a record of the wrong type, otherwise a duplicate
	for _, d := range dups {
		var x *expEvent
		// the same change made twice (same key, same kind of request) expects two records of the same type: the
		// second record satisfies the second expectation
		same := false
		for _, cand := range byPair[pair{d.x.Bucket, d.x.Key}] {
			if cand.matched == 0 && cand.Kind == d.x.Kind && contains(cand.Names, d.rec.EventName) {
				x, same = cand, true
				break
			}
		}
		if same {
			x.matched++
			continue
		}
		for _, cand := range byPair[pair{d.x.Bucket, d.x.Key}] {
			if cand.matched == 0 && !cand.Optional {
				x = cand
				break
			}
		}
		if x != nil {
			x.matched++
			viol(fmt.Sprintf("wrong-type:%s:got-%s", x.Kind, short(d.rec.EventName)), map[string]any{"expected": x, "event": json.RawMessage(d.raw),
				"note": "the record repeats the type of an earlier change of the same key (" + d.x.Kind + ")"})
		} else {
			viol("duplicate:"+d.x.Kind, map[string]any{"expected": d.x, "event": json.RawMessage(d.raw)})
		}
	}
	for _, o := range orphans {
		var x *expEvent
		for _, cand := range byPair[pair{o.rec.S3.Bucket.Name, o.key}] {
			if cand.matched == 0 && !cand.Optional {
				x = cand
				break
			}
		}
		if x != nil {
			x.matched++
			viol(fmt.Sprintf("wrong-type:%s:got-%s", x.Kind, short(o.rec.EventName)), map[string]any{"expected": x, "event": json.RawMessage(o.raw)})
		} else {
			r := reqPairs[pair{o.rec.S3.Bucket.Name, o.key}]
			viol("unexpected:no-matching-request:"+short(o.rec.EventName), map[string]any{"last_request_on_key": r, "event": json.RawMessage(o.raw)})
		}
	}
	// records still outstanding: a delivery that failed between the gateway and the harness receiver (the gateway
	// logs it) or a starved harness process is a transport problem, not a verdict
	var missing []*expEvent
	for _, x := range exps {
		if x.matched == 0 && !x.Optional {
			missing = append(missing, x)
		}
	}
	if len(missing) > 0 {
		logLines := rd.gwLogLines()
		fails := 0
		for _, l := range logLines {
			if strings.Contains(l, "failed to send webhook event") {
				fails++
			}
		}
		stall := stalls.maxSince(rd.started)
		switch {
		case fails > 0:
			c.Inconclusive(fmt.Sprintf("%d record(s) outstanding, but the gateway logged delivery errors towards the harness receiver (transport)", len(missing)))
			c.Observe("gateway log: " + trunc(logLines[0], 200))
		case stall > time.Second:
			c.Inconclusive(fmt.Sprintf("%d record(s) outstanding, but the harness process was starved (a 20 ms sleep overslept by %d ms)", len(missing), stall.Milliseconds()))
		default:
			for _, x := range missing {
				sig := "missing:" + x.Kind
				if rd.burst != "" {
					sig += ":backlog" + rd.burst
				}
				viol(sig, map[string]any{"expected": x, "received_records": st.received, "expected_records": st.expected, "receiver_peak_concurrent_deliveries": rd.rcv.peak(), "gateway_log": logLines,
					"harness_stall_ms": stall.Milliseconds(), "receiver_connections": rd.rcv.conns()})
			}
		}
	}
	return st
}

func contains(l []string, s string) bool {
	for _, x := range l {
		if x == s {
			return true
		}
	}
	return false
}

func trunc(s string, n int) string {
	if len(s) > n {
		return s[:n]
	}
	return s
}

// ---- one round -----------------------------------------------------------------

func (rd *round) settle(expected int) bool {
	deadline := time.Now().Add(90 * time.Second)
	last, stable := -1, 0
	for time.Now().Before(deadline) {
		n := rd.rcv.count()
		if n == last {
			stable++
		} else {
			stable, last = 0, n
		}
		need := fastStable
		if n < expected {
			need = slowStable
		}
		if stable >= need {
			return true
		}
		time.Sleep(100 * time.Millisecond)
	}
	return false
}

func runRound(c *ev.Ctx, cfg roundCfg, slots []slot) {
	rcv, err := newReceiver()
	if err != nil {
		c.Inconclusive("webhook receiver: " + err.Error())
		return
	}
	defer rcv.close()
	gcfg := gw.Config{Webhook: rcv.url(), Versioning: true, Race: cfg.race, Env: cfg.hookEnv}
	if cfg.filter.m != nil {
		dir := fx.UniqueDir("c19-filter")
		defer os.RemoveAll(dir)
		p := filepath.Join(dir, "event_config.json")
		b, _ := json.Marshal(cfg.filter.m)
		if err := os.WriteFile(p, b, 0o644); err != nil {
			c.Inconclusive("filter file: " + err.Error())
			return
		}
		gcfg.EvFilter = p
	}
	env, err := fx.New("c19", gcfg, 1)
	if err != nil {
		c.Inconclusive("gateway start: " + trunc(err.Error(), 200))
		return
	}
	defer env.Close()
	rd := &round{c: c, cfg: cfg, env: env, rcv: rcv, root: env.Client(0), started: time.Now()}
	if r := env.CreateUser(userAK, userSK, "user", 0, 0); !r.OK() {
		c.Inconclusive("create user: " + r.String())
		return
	}
	workers := make([]*worker, cfg.workers)
	for i := range workers {
		w := &worker{rd: rd, w: i, root: env.Client(0), bucket: bucketName('w', i), missing: bucketName('m', i), versioned: i%2 == 1,
			rng: rand.New(rand.NewSource(cfg.seed*977 + int64(i))), supp: map[triple]*reqRec{}, failed: map[triple]*reqRec{}}
		w.user = w.root.With(userAK, userSK)
		workers[i] = w
		if r := rd.root.CreateBucket(w.bucket); !r.OK() {
			c.Inconclusive("create bucket: " + r.String())
			return
		}
		if w.versioned {
			if r := rd.root.PutBucketVersioning(w.bucket, "Enabled"); !r.OK() {
				c.Inconclusive("enable versioning: " + r.String())
				return
			}
		}
	}
	// prelude, before any other client starts: one client alone repeats a change right away - the same upload twice,
	// the same tag set twice, the same delete twice. Two acknowledged changes are two events, however alike they are.
	if !cfg.race && len(workers) > 0 {
		w := workers[0]
		key := w.newKey(false)
		w.fixedBody = w.body()
		w.putObject(w.root, "ok", w.bucket, key, nil)
		w.putObject(w.root, "ok", w.bucket, key, nil)
		w.fixedBody = nil
		t := w.tags()
		w.putTagging(w.root, "ok", w.bucket, key, t)
		w.putTagging(w.root, "ok", w.bucket, key, t)
		w.deleteTagging(w.root, "ok", w.bucket, key)
		w.deleteTagging(w.root, "ok", w.bucket, key)
	}
	var wg sync.WaitGroup
	for i, w := range workers {
		wg.Add(1)
		go func(i int, w *worker) {
			defer wg.Done()
			for s := 0; s < cfg.scenarios; s++ {
				if w.transport != "" {
					return
				}
				w.scenario(slots[(i*cfg.scenarios+s)%len(slots)])
			}
		}(i, w)
	}
	wg.Wait()
	nreq, nexp := 0, 0
	for _, w := range workers {
		nreq += len(w.reqs)
		for _, x := range w.exps {
			if !x.Optional {
				nexp++
			}
		}
	}
	c.Add("requests", nreq)
	for _, w := range workers {
		if w.transport != "" {
			if _, cr := env.Dead(); cr != nil {
				c.Observe("gateway died during the workload: " + cr.Message + " " + crashFrame(cr))
			}
			c.Inconclusive("transport error, outcome of a request unknown (" + cfg.id + ")")
			return
		}
	}
	if !rd.settle(nexp) {
		c.Inconclusive("webhook receiver did not become quiescent within the watchdog")
		return
	}
	if _, cr := env.Dead(); cr != nil {
		c.Observe("gateway died: " + cr.Message + " " + crashFrame(cr))
		c.Inconclusive("gateway died before the ledger could be closed (" + cfg.id + ")")
		return
	}
	docs := rcv.snapshot()
	st := rd.judge(workers, docs)
	c.Eval(nreq)
	c.Add("events_observed", st.received)
	c.Add("events_expected", st.expected)
	c.Add("events_matched", st.matched)
	c.Add("events_corrupted", st.corrupted)
	c.Add("rounds_judged", 1)
	if st.expected > 0 && st.received > 0 {
		lane := ""
		if cfg.race {
			lane = "|race"
		}
		for _, w := range workers {
			for _, r := range w.reqs {
				if r.Kind != "" {
					c.Distinct(fmt.Sprintf("%s|%s|filter=%s|clients=%d%s", r.Kind, r.Variant, cfg.filter.name, cfg.workers, lane))
				}
			}
		}
	}
	if len(workers[0].exps) > 0 {
		c.Sample(map[string]any{"round": cfg.id, "filter": cfg.filter.name, "clients": cfg.workers, "hook": cfg.hook, "requests": nreq,
			"expected_events": st.expected, "received_records": st.received, "matched": st.matched, "first_expected": workers[0].exps[0]})
	}
	if cfg.race {
		g := env.GWs[0]
		g.Stop()
		reps := g.RaceReports()
		c.Add("race_reports", len(reps))
		for _, rep := range reps {
			sig, inV := raceSig(rep)
			if inV {
				c.Violation("race:"+sig, cfg.id, map[string]any{"report": trunc(rep, 3500)})
			} else {
				c.Observe("race report entirely inside dependencies: " + sig)
			}
		}
	}
}

// ---- backlog lane -----------------------------------------------------------------
//
// Hundreds of notifications outstanding at once: a receiver that takes a few milliseconds per record
// (serialised) and either ONE DeleteObjects request naming 300 / 600 / 1000 keys or 16+ clients each doing
// a rapid run of puts and deletes. Same ledger; a shortfall is missing:<kind>:backlog<burst class>.

type backlogCfg struct {
	id      string
	mode    string // "batch" | "clients"
	keys    int    // batch: keys named by the one DeleteObjects request
	clients int
	perCl   int // clients mode: puts (and then deletes) per client
	delay   time.Duration
	hook    string
	hookEnv []string
	race    bool
	seed    int64
}

func burstClass(n int) string {
	switch {
	case n > 768:
		return ">768"
	case n > 512:
		return ">512"
	case n > 256:
		return ">256"
	}
	return "<=256"
}

func backlogKey(client, i int) string {
	return fmt.Sprintf("c%02d/k%04d-", client, i) + strings.Repeat(string(rune('a'+(client+i)%26)), 6+(i*7+client)%40)
}

func runBacklog(c *ev.Ctx, cfg backlogCfg) {
	rcv, err := newReceiver()
	if err != nil {
		c.Inconclusive("webhook receiver: " + err.Error())
		return
	}
	defer rcv.close()
	rcv.delay = cfg.delay
	env, err := fx.New("c19bl", gw.Config{Webhook: rcv.url(), Race: cfg.race, Env: cfg.hookEnv}, 1)
	if err != nil {
		c.Inconclusive("gateway start: " + trunc(err.Error(), 200))
		return
	}
	defer env.Close()
	rd := &round{c: c, env: env, rcv: rcv, root: env.Client(0), started: time.Now(),
		cfg: roundCfg{id: cfg.id, filter: filterClass{"none", nil}, workers: cfg.clients, hook: cfg.hook, race: cfg.race, seed: cfg.seed}}
	const bucket = "backlog-bucket"
	if r := rd.root.CreateBucket(bucket); !r.OK() {
		c.Inconclusive("create bucket: " + r.String())
		return
	}
	workers := make([]*worker, cfg.clients)
	for i := range workers {
		workers[i] = &worker{rd: rd, w: i, root: env.Client(0), bucket: bucket, missing: "backlog-missing",
			rng: rand.New(rand.NewSource(cfg.seed*131 + int64(i))), supp: map[triple]*reqRec{}, failed: map[triple]*reqRec{}}
		workers[i].user = workers[i].root
	}
	small := func(w *worker, key string) bool {
		body := []byte(fmt.Sprintf("b%d-%s", w.w, key[:8]))
		r, rec := w.do("put", "ok", w.root, &s3c.Req{Method: "PUT", Path: s3c.ObjPath(bucket, key), Body: body}, bucket, []string{key})
		if r.OK() {
			w.expect(rec, "put", bucket, key, int64(len(body)), true, r.Header.Get("Etag"), "")
		}
		return r.OK()
	}
	var wg sync.WaitGroup
	burst := 0
	switch cfg.mode {
	case "batch":
		// create the objects quickly with all clients, then ONE request removes them all
		per := (cfg.keys + cfg.clients - 1) / cfg.clients
		keys := make([][]string, cfg.clients)
		for i, w := range workers {
			wg.Add(1)
			go func(i int, w *worker) {
				defer wg.Done()
				for k := 0; k < per && i*per+k < cfg.keys; k++ {
					key := backlogKey(i, k)
					if w.transport != "" || !small(w, key) {
						return
					}
					keys[i] = append(keys[i], key)
				}
			}(i, w)
		}
		wg.Wait()
		var all []string
		for _, l := range keys {
			all = append(all, l...)
		}
		if len(all) != cfg.keys {
			c.Inconclusive("backlog: could not create all objects of the batch")
			return
		}
		rd.burst = burstClass(len(all))
		burst = len(all)
		// let the put notifications drain first: the burst under test is the one of the batch delete
		if !rd.settle(len(all)) {
			c.Inconclusive("webhook receiver did not become quiescent within the watchdog (backlog, after the puts)")
			return
		}
		workers[0].batchDelete(workers[0].root, "ok", bucket, all, deleteXML(all))
	case "clients":
		rd.burst = burstClass(cfg.clients * cfg.perCl)
		burst = cfg.clients * cfg.perCl
		for i, w := range workers {
			wg.Add(1)
			go func(i int, w *worker) {
				defer wg.Done()
				var mine []string
				for k := 0; k < cfg.perCl && w.transport == ""; k++ {
					key := backlogKey(i, k)
					if small(w, key) {
						mine = append(mine, key)
					}
				}
				for _, key := range mine {
					if w.transport != "" {
						return
					}
					w.deleteObject(w.root, "ok", bucket, key)
				}
			}(i, w)
		}
		wg.Wait()
	}
	nreq, nexp := 0, 0
	for _, w := range workers {
		nreq += len(w.reqs)
		nexp += len(w.exps)
		if w.transport != "" {
			if _, cr := env.Dead(); cr != nil {
				c.Observe("gateway died during the backlog workload: " + cr.Message + " " + crashFrame(cr))
			}
			c.Inconclusive("transport error, outcome of a request unknown (" + cfg.id + ")")
			return
		}
	}
	c.Add("requests", nreq)
	if !rd.settle(nexp) {
		c.Inconclusive("webhook receiver did not become quiescent within the watchdog (backlog)")
		return
	}
	if _, cr := env.Dead(); cr != nil {
		c.Observe("gateway died: " + cr.Message + " " + crashFrame(cr))
		c.Inconclusive("gateway died before the ledger could be closed (" + cfg.id + ")")
		return
	}
	st := rd.judge(workers, rcv.snapshot())
	c.Eval(nreq)
	c.Add("events_observed", st.received)
	c.Add("events_expected", st.expected)
	c.Add("events_matched", st.matched)
	c.Add("events_corrupted", st.corrupted)
	c.Add("backlog_rounds_judged", 1)
	c.Set("backlog_round/"+cfg.id, map[string]any{"burst_changes": burst, "clients": cfg.clients, "receiver_delay": cfg.delay.String(), "hook": cfg.hook, "race": cfg.race,
		"requests": nreq, "expected_events": st.expected, "received_records": st.received, "matched": st.matched, "peak_concurrent_deliveries": rcv.peak()})
	lane := ""
	if cfg.race {
		lane = "|race"
	}
	if st.expected > 0 && st.received > 0 {
		c.Distinct(fmt.Sprintf("backlog|%s|burst%s|clients=%d|receiver=%s|hook=%s%s", cfg.mode, rd.burst, cfg.clients, cfg.delay, cfg.hook, lane))
	}
	c.Sample(map[string]any{"round": cfg.id, "mode": cfg.mode, "burst_changes": burst, "clients": cfg.clients, "receiver_delay": cfg.delay.String(), "hook": cfg.hook,
		"requests": nreq, "expected_events": st.expected, "received_records": st.received, "matched": st.matched, "peak_concurrent_deliveries": rcv.peak()})
	if cfg.race {
		g := env.GWs[0]
		g.Stop()
		reps := g.RaceReports()
		c.Add("race_reports", len(reps))
		for _, rep := range reps {
			sig, inV := raceSig(rep)
			if inV {
				c.Violation("race:"+sig, cfg.id, map[string]any{"report": trunc(rep, 3500)})
			} else {
				c.Observe("race report entirely inside dependencies: " + sig)
			}
		}
	}
}

// raceSig reduces a race report to "<innermost versitygw frame or first non-runtime frame> <-> <same for the
// other access>", written without blanks, versitygw side first. (gw.RaceSig cuts method names at the receiver's
// parenthesis; this is the local replacement.)
func raceSig(report string) (string, bool) {
	var tops []string
	inV := false
	for _, b := range strings.Split(report, "\n\n") {
		if !(strings.Contains(b, "Write at") || strings.Contains(b, "Read at") || strings.Contains(b, "Previous write") || strings.Contains(b, "Previous read")) {
			continue
		}
		vg, dep := "", ""
		for _, l := range strings.Split(b, "\n") {
			if !strings.HasPrefix(l, "  ") || strings.HasPrefix(l, "      ") {
				continue // not a function line
			}
			l = strings.TrimSpace(l)
			l = strings.TrimSuffix(l, "()")
			if strings.HasPrefix(l, "github.com/versity/versitygw/") {
				if vg == "" {
					vg = strings.TrimPrefix(l, "github.com/versity/versitygw/")
				}
				continue
			}
			if dep == "" && strings.Contains(l, "/") && !strings.HasPrefix(l, "runtime.") && !strings.HasPrefix(l, "encoding/") {
				parts := strings.Split(l, "/")
				if len(parts) > 2 {
					parts = parts[len(parts)-2:]
				}
				dep = strings.Join(parts, "/")
			}
		}
		switch {
		case vg != "":
			inV = true
			tops = append(tops, vg)
		case dep != "":
			tops = append(tops, "dep:"+dep)
		default:
			tops = append(tops, "dep:runtime")
		}
		if len(tops) == 2 {
			break
		}
	}
	sort.SliceStable(tops, func(i, j int) bool {
		di, dj := strings.HasPrefix(tops[i], "dep:"), strings.HasPrefix(tops[j], "dep:")
		if di != dj {
			return dj
		}
		return tops[i] < tops[j]
	})
	return strings.ReplaceAll(strings.Join(tops, "<->"), " ", ""), inV
}

func crashFrame(cr *gw.Crash) string {
	for _, l := range strings.Split(cr.Excerpt, "\n") {
		l = strings.TrimSpace(l)
		if strings.HasPrefix(l, "github.com/versity/versitygw/") {
			if i := strings.LastIndex(l, "("); i > 0 {
				l = l[:i]
			}
			return strings.TrimPrefix(l, "github.com/versity/versitygw/")
		}
	}
	return cr.TopFrame
}

// nilKeyProbe: DeleteObjects with an <Object/> that has no <Key>. A crash is C20's business; here it is only observed.
func nilKeyProbe(c *ev.Ctx) {
	rcv, err := newReceiver()
	if err != nil {
		return
	}
	defer rcv.close()
	env, err := fx.New("c19nk", gw.Config{Webhook: rcv.url()}, 1)
	if err != nil {
		c.Inconclusive("gateway start (nil-key probe): " + trunc(err.Error(), 200))
		return
	}
	defer env.Close()
	cl := env.Client(0)
	if r := cl.CreateBucket("nilkeyprobe"); !r.OK() {
		return
	}
	body := []byte(`<Delete xmlns="http://s3.amazonaws.com/doc/2006-03-01/"><Object></Object></Delete>`)
	r := cl.Do(&s3c.Req{Method: "POST", Path: s3c.BucketPath("nilkeyprobe"), Query: "delete", Body: body, Header: s3c.H{{"Content-MD5", s3c.MD5B64(body)}}})
	time.Sleep(300 * time.Millisecond)
	if _, cr := env.Dead(); cr != nil {
		c.Observe("gateway died: DeleteObjects with an <Object/> lacking <Key> (" + cr.Message + " at " + crashFrame(cr) + ") - C20's business")
	} else {
		c.Observe("DeleteObjects with an <Object/> lacking <Key> answered " + r.String() + ", gateway alive")
	}
}

func Run(c *ev.Ctx) int {
	c.Assume("a notification counts as delivered when the webhook endpoint of the harness (loopback, answers at once) has received the POST; quiescence = all clients returned and no new record for 1 s (4.5 s while expected records are outstanding; the gateway gives up a delivery after 3 s)")
	c.Assume("filter reading: exact entry decides, else the category wildcard, else not sent; no filter file = every event")
	c.Assume("batch delete may be named s3:ObjectRemoved:DeleteObjects (gateway's documented custom type) or s3:ObjectRemoved:Delete; where a filter separates the two the record is accepted but not demanded")
	c.Assume("size is demanded only where the request carries it (put); an absent (null / 0) size, eTag or versionId is an observation, a present but different one a violation")

	stalls.start()
	fixed := fixedFilters()
	nRounds := c.Pick(10, 400)
	scen := c.Pick(5, 10)
	type job struct {
		cfg   roundCfg
		slots []slot
	}
	var jobs []job
	mk := func(i int, lane string, race bool) job {
		r := c.Rng(fmt.Sprintf("%s-%d", lane, i))
		var f filterClass
		switch {
		case race:
			f = fixed[0]
		case i%8 == 7 || (i >= 16 && i%2 == 1):
			f = generatedFilter(r)
		default:
			f = fixed[i%8%len(fixed)]
		}
		nw := []int{12, 8, 16, 4, 10, 16, 6, 14}[i%8]
		if i >= 8 {
			nw = 4 + r.Intn(13)
		}
		cfg := roundCfg{id: fmt.Sprintf("%s/%d", lane, i), filter: f, workers: nw, scenarios: scen, race: race, seed: r.Int63n(1 << 40)}
		switch i % 3 {
		case 0:
			cfg.hook, cfg.hookEnv = "event.send=3ms", []string{"VERIF_HOOK_DELAY=event.send=3"}
		case 1:
			cfg.hook, cfg.hookEnv = "rand:500:5", []string{fmt.Sprintf("VERIF_HOOK_RAND=%d:500:5", cfg.seed%100000)}
		default:
			cfg.hook = "none"
		}
		var slots []slot
		for rep := 0; rep < 3; rep++ {
			for _, k := range okKinds {
				slots = append(slots, slot{k, "ok"})
			}
		}
		slots = append(slots, failVariants...)
		r.Shuffle(len(slots), func(a, b int) { slots[a], slots[b] = slots[b], slots[a] })
		return job{cfg, slots}
	}
	for i := 0; i < nRounds; i++ {
		jobs = append(jobs, mk(i, "ledger", false))
	}
	nRace := c.Pick(1, 10)
	for i := 0; i < nRace; i++ {
		j := mk(i, "race", true)
		j.cfg.workers = 12
		if !c.Thorough() {
			j.cfg.scenarios = 4
		}
		jobs = append(jobs, j)
	}
	sem := make(chan struct{}, c.Pick(4, 6))
	var wg sync.WaitGroup
	for _, j := range jobs {
		if !c.Want(j.cfg.id) {
			continue
		}
		wg.Add(1)
		sem <- struct{}{}
		go func(j job) {
			defer wg.Done()
			defer func() { <-sem }()
			runRound(c, j.cfg, j.slots)
		}(j)
	}
	wg.Wait()
	// backlog lane: rounds run one after the other (each is a burst on its own; parallel bursts would only
	// starve each other)
	var bl []backlogCfg
	blRng := c.Rng("backlog")
	addBL := func(b backlogCfg) {
		b.id = fmt.Sprintf("backlog/%s/%d", b.mode, len(bl))
		b.seed = blRng.Int63n(1 << 40)
		bl = append(bl, b)
	}
	if c.Thorough() {
		addBL(backlogCfg{mode: "batch", keys: 300, clients: 16, delay: 2 * time.Millisecond, hook: "none"})
		addBL(backlogCfg{mode: "batch", keys: 600, clients: 16, delay: 2 * time.Millisecond, hook: "none"})
		addBL(backlogCfg{mode: "batch", keys: 1000, clients: 24, delay: time.Millisecond, hook: "none"})
		addBL(backlogCfg{mode: "batch", keys: 600, clients: 16, delay: 0, hook: "event.send=20ms", hookEnv: []string{"VERIF_HOOK_DELAY=event.send=20"}})
		addBL(backlogCfg{mode: "clients", clients: 16, perCl: 40, delay: 2 * time.Millisecond, hook: "event.send=10ms", hookEnv: []string{"VERIF_HOOK_DELAY=event.send=10"}})
		addBL(backlogCfg{mode: "clients", clients: 32, perCl: 40, delay: 2 * time.Millisecond, hook: "event.send=10ms", hookEnv: []string{"VERIF_HOOK_DELAY=event.send=10"}})
		addBL(backlogCfg{mode: "clients", clients: 24, perCl: 50, delay: time.Millisecond, hook: "none"})
		addBL(backlogCfg{mode: "batch", keys: 600, clients: 16, delay: 2 * time.Millisecond, hook: "none", race: true})
		addBL(backlogCfg{mode: "clients", clients: 16, perCl: 30, delay: 2 * time.Millisecond, hook: "event.send=10ms", hookEnv: []string{"VERIF_HOOK_DELAY=event.send=10"}, race: true})
	} else {
		addBL(backlogCfg{mode: "batch", keys: 600, clients: 16, delay: 2 * time.Millisecond, hook: "none"})
		addBL(backlogCfg{mode: "clients", clients: 24, perCl: 30, delay: 2 * time.Millisecond, hook: "event.send=10ms", hookEnv: []string{"VERIF_HOOK_DELAY=event.send=10"}})
	}
	for _, b := range bl {
		if c.Want(b.id) {
			runBacklog(c, b)
		}
	}
	if c.Want("nilkey") {
		nilKeyProbe(c)
	}
	kinds := append([]string{}, okKinds...)
	sort.Strings(kinds)
	return c.Finish("conservation ledger per round: one gateway with --event-webhook-url (+ generated --event-filter file), 4-16 concurrent clients with own buckets (distinct name lengths) and keys of round-unique lengths running "+strings.Join(kinds, ", ")+" and failing twins (missing bucket, bad digest, denied user, malformed XML, missing key/source, bad part); expected multiset from acknowledged requests x filter vs records received after quiescence; event.send delay / PRNG hook delays; race lane on a -race gateway; backlog lane: a receiver needing 1-2 ms per record (serialised) and one DeleteObjects naming 300/600/1000 keys or 16-32 clients in a rapid run of puts and deletes (hundreds of deliveries outstanding at once; shortfall = missing:<kind>:backlog<burst class>). distinct = (operation kind, ok|failure class, filter class, clients[, race]) in a judged round with >= 1 expected and received event", 60)
}
