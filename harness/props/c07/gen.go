package c07

import (
	"math/rand"
	"sort"
	"strings"
	"unicode/utf8"
)

// name tokens: bytes below '/' (! # - .), above (0 a b ~ é); a and b are
// over-represented so that the multi-character delimiter "ab" occurs.
var toks = []string{"a", "b", "a", "b", "ab", "!", "#", "-", ".", "0", "~", "é"}

var delims = []string{"", "/", "-", "ab", "!"}
var maxes = []int{0, 1, 2, 3, 7, 1000}

const maxKeysPerSet = 40
const maxDepth = 5

type keyset struct {
	keys  []string // files "a/b", directory objects "a/d/"
	stray []string // lane A only: empty directories that are not objects ("a/e")
}

type gen struct {
	r      *rand.Rand
	clean  bool // keep the set out of the walk-order input class
	budget int
	ks     keyset
	strays bool
}

func (g *gen) tok() string { return toks[g.r.Intn(len(toks))] }

func (g *gen) name(sibs []string) string {
	for {
		var n string
		if len(sibs) > 0 && g.r.Intn(100) < 40 {
			n = sibs[g.r.Intn(len(sibs))] + g.tok()
			if g.r.Intn(3) == 0 {
				n += g.tok()
			}
		} else {
			n = g.tok()
			for k := g.r.Intn(3); k > 0 && g.r.Intn(2) == 0; k-- {
				n += g.tok()
			}
		}
		if n == "." || n == ".." || n == ".sgwtmp" || len(n) > 12 {
			continue
		}
		return n
	}
}

// dir fills directory path (with trailing slash or "") and returns the number of keys created below it.
func (g *gen) dir(path string, depth int) int {
	n := 1 + g.r.Intn(4)
	if depth == 0 {
		n = 2 + g.r.Intn(5)
	}
	var names []string
	isDir := map[string]bool{}
	have := map[string]bool{}
	for i := 0; i < n; i++ {
		nm := g.name(names)
		if have[nm] {
			continue
		}
		have[nm] = true
		names = append(names, nm)
		if depth < maxDepth-1 && g.r.Intn(100) < 40 {
			isDir[nm] = true
		}
	}
	if g.clean {
		// drop siblings that start with a directory name followed by a byte < '/'
		var keep []string
		for _, s := range names {
			bad := false
			for d := range isDir {
				if len(s) > len(d) && strings.HasPrefix(s, d) && s[len(d)] < '/' {
					bad = true
				}
			}
			if !bad {
				keep = append(keep, s)
			}
		}
		names = keep
	}
	made := 0
	for _, nm := range names {
		if g.budget <= 0 {
			break
		}
		if !isDir[nm] {
			g.ks.keys = append(g.ks.keys, path+nm)
			g.budget--
			made++
			continue
		}
		explicit := g.r.Intn(100) < 30
		if explicit {
			g.ks.keys = append(g.ks.keys, path+nm+"/")
			g.budget--
			made++
		}
		below := 0
		if g.budget > 0 && (!explicit || g.r.Intn(100) < 65) {
			below = g.dir(path+nm+"/", depth+1)
		}
		if below == 0 && !explicit {
			if g.strays && g.r.Intn(4) == 0 {
				g.ks.stray = append(g.ks.stray, path+nm)
			} else if g.budget > 0 {
				g.ks.keys = append(g.ks.keys, path+nm+"/a")
				g.budget--
				below = 1
			}
		}
		made += below
	}
	return made
}

func genKeyset(r *rand.Rand, clean, strays bool) keyset {
	for {
		g := &gen{r: r, clean: clean, strays: strays, budget: 3 + r.Intn(maxKeysPerSet-2)}
		if r.Intn(4) == 0 {
			g.budget = 2 + r.Intn(6)
		}
		g.dir("", 0)
		if len(g.ks.keys) == 0 {
			continue
		}
		sort.Strings(g.ks.keys)
		return g.ks
	}
}

// cutRune cuts s at a rune boundary near byte position i.
func cutRune(s string, i int) string {
	for i > 0 && i < len(s) && !utf8.RuneStart(s[i]) {
		i--
	}
	return s[:i]
}

func genPrefix(r *rand.Rand, keys []string) string {
	k := keys[r.Intn(len(keys))]
	switch x := r.Intn(100); {
	case x < 28:
		return ""
	case x < 58: // existing prefix at a segment boundary
		var cuts []int
		for i := 0; i < len(k); i++ {
			if k[i] == '/' {
				cuts = append(cuts, i+1)
			}
		}
		if len(cuts) == 0 {
			return ""
		}
		return k[:cuts[r.Intn(len(cuts))]]
	case x < 82: // partial segment (may also be a whole key)
		return cutRune(k, 1+r.Intn(len(k)))
	case x < 90:
		return k + toks[r.Intn(len(toks))]
	case x < 95:
		return cutRune(k, r.Intn(len(k))) + "zz/"
	default:
		return []string{"zz", "zz/", "a/zz/b", "~~", "é/é"}[r.Intn(5)]
	}
}

func genMarker(r *rand.Rand, keys []string, prefix, delim string) string {
	all := refAll(keys, prefix, delim)
	k := keys[r.Intn(len(keys))]
	if len(all) > 0 && r.Intn(3) > 0 {
		k = all[r.Intn(len(all))].Name
	}
	switch x := r.Intn(100); {
	case x < 22:
		return ""
	case x < 45: // an existing key / entry
		return k
	case x < 65: // between keys
		switch r.Intn(5) {
		case 0:
			return k + "!"
		case 1:
			return k + "~"
		case 2:
			return cutRune(k, len(k)-1)
		case 3:
			return k + toks[r.Intn(len(toks))]
		default:
			kk := keys[r.Intn(len(keys))]
			return cutRune(kk, 1+r.Intn(len(kk))) + toks[r.Intn(len(toks))]
		}
	case x < 82: // a common prefix of this listing, or a directory prefix
		var cps []string
		for _, e := range all {
			if e.CP {
				cps = append(cps, e.Name)
			}
		}
		if len(cps) > 0 {
			return cps[r.Intn(len(cps))]
		}
		if i := strings.LastIndex(k, "/"); i > 0 {
			return k[:i+1]
		}
		return k
	case x < 90: // strictly inside a common prefix
		for _, kk := range keys {
			if !strings.HasPrefix(kk, prefix) || delim == "" {
				continue
			}
			if i := strings.Index(kk[len(prefix):], delim); i >= 0 && r.Intn(3) == 0 {
				cp := kk[:len(prefix)+i+len(delim)]
				if r.Intn(2) == 0 && len(kk) > len(cp) {
					return kk
				}
				return cp + toks[r.Intn(len(toks))]
			}
		}
		return k + "/"
	default: // beyond the end
		if r.Intn(2) == 0 {
			return "\xf4\x8f\xbf\xbf"
		}
		return keys[len(keys)-1] + "~"
	}
}

func genParams(r *rand.Rand, keys []string) params {
	p := params{}
	p.Prefix = genPrefix(r, keys)
	switch x := r.Intn(100); {
	case x < 22:
		p.Delim = ""
	case x < 55:
		p.Delim = "/"
	default:
		p.Delim = delims[2+r.Intn(3)]
	}
	p.Max = maxes[r.Intn(len(maxes))]
	p.Marker = genMarker(r, keys, p.Prefix, p.Delim)
	return p
}
