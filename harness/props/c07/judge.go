package c07

import (
	"fmt"
	"sort"
	"strings"
)

// obj is one listed object as seen by the monitor.
type obj struct {
	Key  string `json:"key"`
	Size int64  `json:"size"`
	ETag string `json:"etag"`
}

// page is one listing response.
type page struct {
	Objs  []obj    `json:"objs"`
	CPs   []string `json:"cps"`
	Trunc bool     `json:"trunc"`
	Next  string   `json:"next"`
	Err   string   `json:"err,omitempty"`   // refused / failed (never judged)
	Fatal string   `json:"fatal,omitempty"` // transport failure
	Bad   string   `json:"bad,omitempty"`   // malformed answer (judged)
	Notes []string `json:"notes,omitempty"` // non-deciding remarks about the response
}

func (p *page) entries() []entry {
	var out []entry
	for _, o := range p.Objs {
		out = append(out, entry{Name: o.Key})
	}
	for _, c := range p.CPs {
		out = append(out, entry{Name: c, CP: true})
	}
	return out
}

// lister fetches one page. first tells whether marker is the caller's start
// position (marker / start-after) or a continuation value returned by the
// previous page.
type lister func(marker string, first bool) page

type meta struct {
	Size int64
	ETag string
}

type params struct {
	Prefix string `json:"prefix"`
	Delim  string `json:"delimiter"`
	Marker string `json:"marker"`
	Max    int    `json:"max"`
}

type listCase struct {
	keys  []string        // sorted truth
	meta  map[string]meta // truth per key
	p     params
	dirty bool // key set in the walk-order input class
	lane  string
	// keys whose current version is a delete marker (versioned buckets): they read as missing and are no part of keys
	marked []string
	// the key set becomes one of the walk-order input class only when the files of delete-marked keys are counted
	dirtyMarked bool
}

type finding struct {
	Sym   string `json:"symptom"`
	Kind  string `json:"entry_kind,omitempty"`
	Entry string `json:"entry,omitempty"`
	Stage string `json:"stage"` // "first-page" | "chain"
	Note  string `json:"note,omitempty"`
	name  string
}

// priority of symptoms when one case shows several
var symPrio = map[string]int{
	"malformed-response": 0, "internal-name-visible": 1, "non-terminating": 2, "more-than-max": 3, "extra": 4,
	"marker-not-skipped": 5, "duplicate": 6, "missing": 7, "truncated-without-next-marker": 9,
	"order": 10, "wrong-size": 11, "wrong-etag": 12,
}

type verdict struct {
	Findings []finding `json:"findings"`
	Pages    []page    `json:"pages"`
	Expected []string  `json:"expected_after_marker"`
	Observes []string  `json:"-"`
	Skipped  string    `json:"-"` // not judged (refusal / transport)
	Entries  int       `json:"-"` // number of reference entries after marker
}

func names(es []entry) []string {
	out := make([]string, len(es))
	for i, e := range es {
		out[i] = e.String()
	}
	return out
}

func sameSeq(a, b []entry) bool {
	if len(a) != len(b) {
		return false
	}
	for i := range a {
		if a[i] != b[i] {
			return false
		}
	}
	return true
}

// splitKinds returns the objects (in order) and common prefixes (in order) of an entry sequence.
func splitKinds(es []entry) (objs, cps []entry) {
	for _, e := range es {
		if e.CP {
			cps = append(cps, e)
		} else {
			objs = append(objs, e)
		}
	}
	return
}

// judge runs the first-page oracle and the page-chain oracle for one case.
func judge(lc *listCase, ls lister) *verdict {
	v := &verdict{}
	ex := expect(lc.keys, lc.p.Prefix, lc.p.Delim, lc.p.Marker)
	v.Expected = names(ex.variants[0])
	v.Entries = len(ex.variants[0])
	inAll := map[entry]bool{}
	for _, e := range ex.all {
		inAll[e] = true
	}
	said := map[string]bool{}
	add := func(stage, sym string, e *entry, note string) {
		f := finding{Sym: sym, Stage: stage, Note: note}
		if e != nil {
			// one finding per (symptom, entry): what the first page already showed is not repeated for the chain
			k := sym + "\x00" + e.String()
			if said[k] {
				return
			}
			said[k] = true
		}
		if e != nil {
			f.Kind, f.Entry, f.name = e.kind(), e.String(), e.Name
		}
		v.Findings = append(v.Findings, f)
	}

	// ---- page chain -----------------------------------------------------
	max := lc.p.Max
	limit := len(ex.variants[0]) + 4
	marker := lc.p.Marker
	first := true
	terminated := false
	for n := 0; n < limit; n++ {
		pg := ls(marker, first)
		v.Pages = append(v.Pages, pg)
		v.Observes = append(v.Observes, pg.Notes...)
		if pg.Fatal != "" {
			v.Skipped = "transport: " + pg.Fatal
			return v
		}
		if pg.Err != "" {
			v.Skipped = "refused: " + pg.Err
			return v
		}
		if pg.Bad != "" {
			add(stage(first), "malformed-response", nil, pg.Bad)
			return v
		}
		if !pg.Trunc {
			terminated = true
			break
		}
		if max == 0 {
			break
		}
		if pg.Next == "" {
			add(stage(first), "truncated-without-next-marker", nil, "")
			break
		}
		marker, first = pg.Next, false
	}

	// per-page properties
	for i, pg := range v.Pages {
		st := stage(i == 0)
		es := pg.entries()
		if len(es) > max {
			add(st, "more-than-max", nil, fmt.Sprintf("page %d holds %d entries, max-keys %d", i, len(es), max))
		}
		for _, e := range es {
			if internalName(e.Name) && !inAll[e] {
				ee := e
				add(st, "internal-name-visible", &ee, "")
			}
		}
		for j := 1; j < len(pg.Objs); j++ {
			if !(pg.Objs[j-1].Key < pg.Objs[j].Key) && pg.Objs[j-1].Key != pg.Objs[j].Key {
				e := entry{Name: pg.Objs[j].Key}
				add(st, "order", &e, fmt.Sprintf("page %d: %q listed before %q", i, pg.Objs[j-1].Key, pg.Objs[j].Key))
				break
			}
		}
		for j := 1; j < len(pg.CPs); j++ {
			if !(pg.CPs[j-1] < pg.CPs[j]) && pg.CPs[j-1] != pg.CPs[j] {
				e := entry{Name: pg.CPs[j], CP: true}
				add(st, "order", &e, fmt.Sprintf("page %d: common prefix %q listed before %q", i, pg.CPs[j-1], pg.CPs[j]))
				break
			}
		}
		for _, o := range pg.Objs {
			m, ok := lc.meta[o.Key]
			if !ok {
				continue
			}
			e := entry{Name: o.Key}
			if o.Size != m.Size {
				add(st, "wrong-size", &e, fmt.Sprintf("listed %d, true %d", o.Size, m.Size))
			}
			if o.ETag != m.ETag {
				add(st, "wrong-etag", &e, fmt.Sprintf("listed %q, true %q", o.ETag, m.ETag))
			}
		}
	}

	// ---- first page against the reference sequence ---------------------------
	// The page must be a leading part of an acceptable sequence (a page shorter
	// than max-keys is legal as long as it says it is truncated).
	p0 := v.Pages[0]
	g0 := p0.entries()
	gotObjs, gotCPs := splitKinds(g0)
	matched := -1
	for vi, seq := range ex.variants {
		if max == 0 {
			break
		}
		if len(g0) > len(seq) || len(g0) > max {
			continue
		}
		wo, wc := splitKinds(seq[:len(g0)])
		if !sameSeq(gotObjs, wo) || !sameSeq(gotCPs, wc) {
			continue
		}
		matched = vi
		rest := len(seq) - len(g0)
		switch {
		case rest > 0 && !p0.Trunc:
			ee := seq[len(g0)]
			add("first-page", "missing", &ee, fmt.Sprintf("page is not truncated although %d entries remain after it", rest))
		case rest == 0 && p0.Trunc:
			v.Observes = append(v.Observes, "IsTruncated=true on a page after which nothing remains (harmless extra page)")
		case rest > 0 && len(g0) < max:
			v.Observes = append(v.Observes, "page shorter than max-keys although entries remain (legal, truncated)")
		}
		break
	}
	variant := ex.variants[0]
	if matched > 0 {
		variant = ex.variants[matched]
		v.Observes = append(v.Observes, "marker strictly inside a common prefix: the common prefix is listed again (key-level skipping; accepted)")
	}
	if matched < 0 && max > 0 {
		// classify against the primary reading
		allowedCP := entry{}
		if len(ex.variants) > 1 {
			allowedCP = ex.variants[1][0]
		}
		nf := 0
		seen := map[entry]int{}
		var last string
		for _, e := range g0 {
			seen[e]++
			ee := e
			switch {
			case seen[e] > 1:
				add("first-page", "duplicate", &ee, "twice in one page")
				nf++
			case !inAll[e]:
				add("first-page", "extra", &ee, "not an entry of the listing for this prefix/delimiter")
				nf++
			case lc.p.Marker != "" && e.Name <= lc.p.Marker && e != allowedCP:
				add("first-page", "marker-not-skipped", &ee, "entry <= marker returned")
				nf++
			}
			if inAll[e] && e.Name > last {
				last = e.Name
			}
		}
		for _, e := range variant {
			if seen[e] > 0 {
				continue
			}
			ee := e
			if e.Name < last {
				add("first-page", "missing", &ee, "skipped: a greater entry is on the page")
				nf++
			} else if !p0.Trunc {
				add("first-page", "missing", &ee, "page ends before this entry and is not truncated")
				nf++
			}
		}
		if nf == 0 && len(g0) <= max {
			add("first-page", "order", nil, "first page holds the right entries in a wrong arrangement")
		}
	}
	if matched < 0 && max == 0 {
		if len(p0.entries()) > 0 {
			add("first-page", "more-than-max", nil, "max-keys=0 returned entries")
		} else if p0.Trunc {
			v.Observes = append(v.Observes, "max-keys=0 answered IsTruncated=true")
		}
	}
	if max == 0 {
		return v
	}

	// ---- whole chain against the reference sequence -------------------------
	if !terminated && len(v.Pages) >= limit {
		var rep *entry
		cnt := map[entry]int{}
		for _, pg := range v.Pages {
			for _, e := range pg.entries() {
				cnt[e]++
				if ee := e; cnt[e] > 1 && (rep == nil || cnt[e] > cnt[*rep]) {
					rep = &ee
				}
			}
		}
		add("chain", "non-terminating", rep, fmt.Sprintf("%d pages followed for %d reference entries, still truncated", len(v.Pages), len(variant)))
	}
	count := map[entry]int{}
	var prevMax string
	for i, pg := range v.Pages {
		es := pg.entries()
		var lo, hi string
		for j, e := range es {
			count[e]++
			if j == 0 || e.Name < lo {
				lo = e.Name
			}
			if e.Name > hi {
				hi = e.Name
			}
		}
		if i > 0 && len(es) > 0 && prevMax != "" && lo <= prevMax {
			var le *entry
			for _, e := range es {
				if ee := e; e.Name == lo {
					le = &ee
				}
			}
			add("chain", "order", le, fmt.Sprintf("page %d starts at %q, not after %q (end of the page before)", i, lo, prevMax))
		}
		if len(es) > 0 {
			prevMax = hi
		}
		if i > 0 && i < len(v.Pages)-1 && len(es) == 0 {
			v.Observes = append(v.Observes, "empty truncated page inside a chain")
		}
	}
	want := map[entry]bool{}
	for _, e := range variant {
		want[e] = true
	}
	var got []entry
	for e := range count {
		got = append(got, e)
	}
	sort.Slice(got, func(i, j int) bool {
		if got[i].Name != got[j].Name {
			return got[i].Name < got[j].Name
		}
		return !got[i].CP
	})
	for _, e := range got {
		ee := e
		switch {
		case !inAll[e]:
			add("chain", "extra", &ee, "not an entry of the listing for this prefix/delimiter")
		case !want[e]:
			add("chain", "marker-not-skipped", &ee, "entry <= start position returned by a later page")
		case count[e] > 1:
			add("chain", "duplicate", &ee, fmt.Sprintf("returned %d times along the chain", count[e]))
		}
	}
	if terminated {
		for _, e := range variant {
			if count[e] == 0 {
				ee := e
				add("chain", "missing", &ee, "never returned although the chain ended")
			}
		}
		if last := v.Pages[len(v.Pages)-1]; len(v.Pages) > 1 && len(last.entries()) == 0 {
			v.Observes = append(v.Observes, "chain ends with an empty page (harmless extra page)")
		}
	}
	return v
}

func stage(first bool) string {
	if first {
		return "first-page"
	}
	return "chain"
}

// primary picks the finding that names the case: first-page findings before
// chain findings, then by symptom priority.
func (v *verdict) primary() *finding {
	if len(v.Findings) == 0 {
		return nil
	}
	best := 0
	rank := func(f finding) int {
		r := symPrio[f.Sym]
		if f.Stage != "first-page" {
			r += 100
		}
		return r
	}
	for i := range v.Findings {
		if rank(v.Findings[i]) < rank(v.Findings[best]) {
			best = i
		}
	}
	return &v.Findings[best]
}

// sigs returns the distinct signatures of all findings of a case, the primary one first.
func sigs(lc *listCase, ex expectation, v *verdict) []string {
	if len(v.Findings) == 0 {
		return nil
	}
	idx := make([]int, len(v.Findings))
	for i := range idx {
		idx[i] = i
	}
	rank := func(f finding) int {
		r := symPrio[f.Sym]
		if f.Stage != "first-page" {
			r += 100
		}
		return r
	}
	sort.SliceStable(idx, func(a, b int) bool { return rank(v.Findings[idx[a]]) < rank(v.Findings[idx[b]]) })
	seen := map[string]bool{}
	var out []string
	for _, i := range idx {
		s := signature(lc, ex, v, &v.Findings[i])
		if !seen[s] {
			seen[s] = true
			out = append(out, s)
		}
	}
	return out
}

// signature names the defect class of a finding: symptom, the kind of the
// affected entry refined by the input feature that matters for that symptom,
// and coarse parameter classes (delimiter none|slash|other, start position
// none|given|chained = a marker returned by the gateway itself).
//
// Two input classes come first because everything observed on them follows
// from the class: a user key with a path segment equal to the bookkeeping
// name, and key sets of the walk-order class (a directory name d next to a
// sibling d+<byte below '/'>) for every observation that depends on order.
func signature(lc *listCase, ex expectation, v *verdict, f *finding) string {
	hard := f.Sym == "internal-name-visible" || f.Sym == "wrong-size" || f.Sym == "wrong-etag" || f.Sym == "malformed-response"
	for _, k := range lc.keys {
		if internalName(k) && !hard {
			return f.Sym + ":user-key-segment-equals-internal-name"
		}
	}
	// on a dirty key set only an unpaginated listing from the start is independent of the walk order
	orderDependent := lc.p.Marker != "" || lc.p.Max <= len(ex.all) || f.Sym == "order"
	if lc.dirty && orderDependent && !hard {
		return "order:sibling-byte-below-slash"
	}
	if lc.dirtyMarked && orderDependent && !hard {
		return "order:sibling-byte-below-slash:sibling-holds-delete-marker"
	}
	sig := f.Sym
	ent := entry{}
	if f.Kind != "" {
		ent = entry{Name: f.name, CP: f.Kind == "cp"}
		kind := f.Kind
		switch {
		case f.Sym == "missing" && kind == "dirobj":
			// a directory object that also has keys below it?
			for _, k := range lc.keys {
				if len(k) > len(ent.Name) && strings.HasPrefix(k, ent.Name) {
					kind = "dirobj-nonempty"
					break
				}
			}
			if kind == "dirobj" {
				for _, k := range lc.marked {
					if strings.HasPrefix(k, ent.Name) {
						kind = "dirobj-with-delete-marked-keys-below"
						break
					}
				}
			}
		case f.Sym == "missing" && kind == "cp":
			// some start position used (given or returned) begins with the common prefix
			// minus its delimiter and still sorts before the common prefix
			stem := strings.TrimSuffix(ent.Name, lc.p.Delim)
			ms := []string{lc.p.Marker}
			for _, pg := range v.Pages {
				if pg.Trunc {
					ms = append(ms, pg.Next)
				}
			}
			for _, m := range ms {
				if m != "" && m < ent.Name && strings.HasPrefix(m, stem) {
					kind = "cp-stem-prefixes-marker"
					break
				}
			}
		case f.Sym == "extra":
			rest := strings.TrimPrefix(ent.Name, lc.p.Prefix)
			switch {
			case !strings.HasPrefix(ent.Name, lc.p.Prefix):
				kind += "-outside-prefix"
			case !ent.CP && lc.p.Delim != "" && strings.Contains(rest, lc.p.Delim):
				kind += "-not-rolled-up"
			case ent.CP && standsForMarkedOnly(lc, ent.Name):
				kind += "-of-delete-marked-keys-only"
			case ent.CP:
				kind += "-wrong-grouping"
			default:
				kind += "-unknown"
			}
		}
		sig += ":" + kind
	}
	dk := delimKind(lc.p.Delim)
	if dk == "char" || dk == "multi" {
		dk = "other"
	}
	mk := "none"
	if lc.p.Marker != "" {
		mk = "given"
	}
	if f.Stage == "chain" {
		mk = "chained"
	}
	return sig + ":delim=" + dk + ":marker=" + mk
}

// standsForMarkedOnly: the common prefix groups no key of the reference but at least one key that holds a delete marker
func standsForMarkedOnly(lc *listCase, cp string) bool {
	for _, k := range lc.keys {
		if strings.HasPrefix(k, cp) {
			return false
		}
	}
	for _, k := range lc.marked {
		if strings.HasPrefix(k, cp) {
			return true
		}
	}
	return false
}

func classKey(lc *listCase, ex expectation) string {
	return strings.Join([]string{lc.lane, shape(lc.keys, lc.dirty), prefixKind(lc.keys, lc.p.Prefix), delimKind(lc.p.Delim) + "(" + lc.p.Delim + ")",
		fmt.Sprint(lc.p.Max), markerKind(ex.all, lc.p.Marker)}, "|")
}
