package c07

import (
	"encoding/xml"
	"fmt"
	"math/rand"
	"sort"
	"strconv"
	"strings"
	"sync"

	"verif/harness/internal/ev"
	"verif/harness/internal/fx"
	"verif/harness/internal/gw"
	"verif/harness/internal/s3c"
)

type upload struct {
	Key    string `json:"key"`
	Size   int    `json:"size"`
	Status int    `json:"status"`
	Code   string `json:"code,omitempty"`
	Op     string `json:"op"`
}

// httpLister lists through the real API. api is "v1" or "v2"; resend tells a
// V2 chain to repeat start-after together with the continuation token (as the
// AWS SDK paginators do).
func httpLister(cl *s3c.Client, bucket, api string, p params, resend, owner bool) lister {
	return func(marker string, first bool) page {
		var kv []string
		if p.Prefix != "" {
			kv = append(kv, "prefix", p.Prefix)
		}
		if p.Delim != "" {
			kv = append(kv, "delimiter", p.Delim)
		}
		if p.Max != 1000 || resend {
			kv = append(kv, "max-keys", strconv.Itoa(p.Max))
		}
		var resp *s3c.Resp
		if api == "v1" {
			if marker != "" {
				kv = append(kv, "marker", marker)
			}
			resp = cl.ListV1(bucket, kv...)
		} else {
			if first {
				if marker != "" {
					kv = append(kv, "start-after", marker)
				}
			} else {
				kv = append(kv, "continuation-token", marker)
				if resend && p.Marker != "" {
					kv = append(kv, "start-after", p.Marker)
				}
			}
			if owner {
				kv = append(kv, "fetch-owner", "true")
			}
			resp = cl.ListV2(bucket, kv...)
		}
		if resp.Err != nil {
			return page{Fatal: resp.Err.Error()}
		}
		if resp.Status != 200 {
			return page{Err: fmt.Sprintf("%d %s", resp.Status, resp.ErrCode())}
		}
		l, err := s3c.ParseList(resp.Body)
		if err != nil {
			return page{Bad: "response is not well-formed XML: " + err.Error()}
		}
		pg := page{Trunc: l.IsTruncated}
		if api == "v1" {
			pg.Next = l.NextMarker
		} else {
			pg.Next = l.NextContinuationToken
		}
		if l.Prefix != p.Prefix || l.Delimiter != p.Delim {
			pg.Notes = append(pg.Notes, "response does not echo prefix/delimiter as sent")
		}
		if api == "v2" && l.KeyCount != len(l.Contents)+len(l.CommonPrefixes) {
			pg.Notes = append(pg.Notes, "KeyCount counts only Contents, not CommonPrefixes (S3 counts both)")
		}
		for _, o := range l.Contents {
			pg.Objs = append(pg.Objs, obj{Key: o.Key, Size: o.Size, ETag: o.ETag})
		}
		for _, cp := range l.CommonPrefixes {
			pg.CPs = append(pg.CPs, cp.Prefix)
		}
		return pg
	}
}

type e2e struct {
	c         *ev.Ctx
	env       *fx.Env
	cfg       string
	versioned bool
}

// dead reports a dead gateway (a listing must never kill it) and tells the caller to stop.
func (e *e2e) dead(id string, what any) bool {
	if _, cr := e.env.Dead(); cr != nil {
		e.c.Violation("gateway-died", id, map[string]any{"crash": cr.Message, "frame": cr.TopFrame, "during": what})
		return true
	}
	return false
}

func (e *e2e) bucketCase(cl *s3c.Client, idx int, seed int64, fixed []string) {
	c := e.c
	id := fmt.Sprintf("B/%s/%d", e.cfg, idx)
	r := rand.New(rand.NewSource(seed))
	bucket := fmt.Sprintf("c07-%s-%05d", e.cfg, idx)
	if fixed != nil {
		id = fmt.Sprintf("B/%s/fixed%d", e.cfg, idx)
		bucket = fmt.Sprintf("c07-%s-fixed%d", e.cfg, idx)
	}
	if resp := cl.CreateBucket(bucket); !resp.OK() {
		if resp.Err != nil {
			e.dead(id, "create bucket")
		}
		c.Inconclusive("create bucket: " + resp.String())
		return
	}
	clean := idx%2 == 0
	ks := genKeyset(r, clean, false)
	if fixed != nil {
		ks = keyset{keys: fixed}
	}
	if len(ks.keys) > 24 && !c.Thorough() {
		ks.keys = ks.keys[:24] // a sorted leading part is still a tree
	}
	// conflicting names: a file where a directory is, a key below a file, a directory object named like a file
	want := append([]string{}, ks.keys...)
	for n := r.Intn(4); n > 0 && fixed == nil; n-- {
		k := ks.keys[r.Intn(len(ks.keys))]
		switch r.Intn(3) {
		case 0:
			if i := strings.LastIndex(strings.TrimSuffix(k, "/"), "/"); i > 0 {
				want = append(want, k[:i])
			}
		case 1:
			if !strings.HasSuffix(k, "/") {
				want = append(want, k+"/b")
			}
		default:
			if !strings.HasSuffix(k, "/") {
				want = append(want, k+"/")
			}
		}
	}
	r.Shuffle(len(want), func(i, j int) { want[i], want[j] = want[j], want[i] })
	truth := map[string]meta{}
	var ups []upload
	// versioned configuration: the bucket goes through versioning states while it is filled; overwrites leave older
	// versions behind and deletes leave delete markers - a listing shows the current objects and nothing else
	vmode := 0
	setVer := func(st string) bool {
		resp := cl.PutBucketVersioning(bucket, st)
		ups = append(ups, upload{Key: "", Status: resp.Status, Code: resp.ErrCode(), Op: "PutBucketVersioning " + st})
		if !resp.OK() {
			c.Inconclusive("put bucket versioning: " + resp.String())
		}
		return resp.OK()
	}
	if e.versioned {
		vmode = 1 + r.Intn(4) // 1 enabled throughout, 2 suspended before the deletions, 3 suspended after them, 4 never enabled
		if vmode != 4 && !setVer("Enabled") {
			return
		}
		c.Add(fmt.Sprintf("e2e_versioned_buckets_mode%d", vmode), 1)
		// some keys are written twice
		for n := 1 + r.Intn(3); n > 0; n-- {
			want = append(want, want[r.Intn(len(want))])
		}
	}
	for _, k := range want {
		var body []byte
		if !strings.HasSuffix(k, "/") {
			body = make([]byte, r.Intn(41))
			r.Read(body)
		}
		var resp *s3c.Resp
		how := "PUT"
		if !strings.HasSuffix(k, "/") && r.Intn(5) == 0 {
			// the key is written by a multipart upload (created without naming a checksum algorithm) or by a copy:
			// objects that come into being another way than PutObject are listed like any other
			if r.Intn(3) > 0 {
				how = "CreateMPU+UploadPart+Complete"
				uid, cr := cl.CreateMPU(bucket, k)
				resp = cr
				if cr.OK() {
					pr := cl.UploadPart(bucket, k, uid, 1, body)
					resp = pr
					if pr.OK() {
						resp = cl.CompleteMPU(bucket, k, uid, []s3c.Part{{N: 1, ETag: pr.Header.Get("Etag")}})
						if resp.OK() {
							var cres struct{ ETag string }
							xml.Unmarshal(resp.Body, &cres)
							resp.Header.Set("ETag", cres.ETag)
						} else {
							cl.AbortMPU(bucket, k, uid)
						}
					}
				}
			} else {
				how = "PUT+Copy"
				src := "copy~source"
				if sr := cl.PutObject(bucket, src, body); sr.OK() {
					resp = cl.CopyObject(bucket, src, bucket, k)
					if resp.OK() {
						var cres struct{ ETag string }
						xml.Unmarshal(resp.Body, &cres)
						resp.Header.Set("ETag", cres.ETag)
					}
					cl.DeleteObject(bucket, src)
				} else {
					resp = sr
				}
			}
			c.Add("e2e_keys_written_by_"+strings.ToLower(strings.SplitN(how, "+", 2)[0])+"_path", 1)
		} else {
			resp = cl.PutObject(bucket, k, body)
		}
		if resp.Err != nil {
			if !e.dead(id, how+" "+k) {
				c.Inconclusive("transport error during upload")
			}
			return
		}
		ups = append(ups, upload{Key: k, Size: len(body), Status: resp.Status, Code: resp.ErrCode(), Op: how})
		if !resp.OK() {
			c.Observe(fmt.Sprintf("e2e: upload refused (%d %s) - key kept out of the reference", resp.Status, resp.ErrCode()))
			continue
		}
		et := resp.Header.Get("ETag")
		if how != "PUT" {
			// (multipart ETag / copy result: taken from the answer)
		} else if et != `"`+s3c.MD5Hex(body)+`"` {
			if strings.HasSuffix(k, "/") && et == s3c.MD5Hex(body) {
				c.Observe("e2e: PUT of a directory object answers an unquoted ETag")
			} else {
				c.Observe("e2e: PUT answered an ETag that is not the quoted MD5 of the body")
			}
		}
		truth[k] = meta{Size: int64(len(body)), ETag: et}
	}
	// an upload in flight: makes the bookkeeping directory exist inside the bucket
	mpuKey := "mpu~inflight/part"
	if uid, resp := cl.CreateMPU(bucket, mpuKey); resp.OK() {
		pr := cl.UploadPart(bucket, mpuKey, uid, 1, []byte("in flight"))
		ups = append(ups, upload{Key: mpuKey, Status: pr.Status, Op: "CreateMPU+UploadPart"})
		c.Add("e2e_buckets_with_upload_in_flight", 1)
	} else if resp.Err != nil {
		if !e.dead(id, "CreateMPU") {
			c.Inconclusive("transport error during upload")
		}
		return
	}
	// a few deletions (parents of deleted keys must not show up as anything)
	var have []string
	for k := range truth {
		have = append(have, k)
	}
	sort.Strings(have)
	marked := map[string]bool{}
	ndel := r.Intn(3)
	if vmode > 0 {
		ndel = 1 + r.Intn(4)
		if vmode == 2 && !setVer("Suspended") {
			return
		}
	}
	for n := ndel; n > 0 && len(have) > 3 && fixed == nil; n-- {
		k := have[r.Intn(len(have))]
		resp := cl.DeleteObject(bucket, k)
		if resp.Err != nil {
			if !e.dead(id, "DELETE "+k) {
				c.Inconclusive("transport error during delete")
			}
			return
		}
		ups = append(ups, upload{Key: k, Status: resp.Status, Code: resp.ErrCode(), Op: "DELETE"})
		if resp.OK() {
			delete(truth, k)
			if vmode >= 1 && vmode <= 3 && !strings.HasSuffix(k, "/") {
				marked[k] = true
			}
		}
	}
	if vmode == 3 && !setVer("Suspended") {
		return
	}
	if vmode > 0 && r.Intn(2) == 0 && len(have) > 0 {
		// a deleted key may come back
		k := have[r.Intn(len(have))]
		if _, there := truth[k]; !there && !strings.HasSuffix(k, "/") {
			body := []byte("written again")
			resp := cl.PutObject(bucket, k, body)
			ups = append(ups, upload{Key: k, Size: len(body), Status: resp.Status, Code: resp.ErrCode(), Op: "PUT"})
			if resp.OK() {
				truth[k] = meta{Size: int64(len(body)), ETag: resp.Header.Get("ETag")}
				delete(marked, k)
			}
		}
	}
	var markedKeys []string
	for k := range marked {
		markedKeys = append(markedKeys, k)
	}
	sort.Strings(markedKeys)
	// the key set of the bucket is what HEAD confirms (an acknowledged upload that a later
	// acknowledged upload destroyed is another property's business)
	var keys []string
	for k, m := range truth {
		h := cl.HeadObject(bucket, k)
		if h.Err != nil {
			if !e.dead(id, "HEAD "+k) {
				c.Inconclusive("transport error during head")
			}
			return
		}
		if h.Status != 200 {
			c.Observe(fmt.Sprintf("e2e: acknowledged key answers HEAD %d afterwards - kept out of the reference", h.Status))
			delete(truth, k)
			continue
		}
		if hl := h.Header.Get("Content-Length"); hl != strconv.FormatInt(m.Size, 10) {
			if strings.HasSuffix(k, "/") {
				c.Observe("e2e: HEAD of a directory object answers Content-Length = size of the directory inode, not 0 (listing says 0)")
			} else {
				c.Observe("e2e: HEAD Content-Length differs from the uploaded size")
			}
		}
		keys = append(keys, k)
	}
	sort.Strings(keys)
	if len(keys) == 0 {
		c.Observe("e2e: bucket without any acknowledged key")
		return
	}
	dirty, witness := orderClass(keys)
	dirtyMarked := false
	if !dirty && len(markedKeys) > 0 {
		all := append(append([]string{}, keys...), markedKeys...)
		sort.Strings(all)
		dirtyMarked, witness = orderClass(all)
	}
	nparams := c.Pick(9, 12)
	for j := -1; j < nparams; j++ {
		rj := rand.New(rand.NewSource(seed + int64(j+2)*7919))
		var p params
		if j < 0 {
			p = params{Max: 1000} // the plain listing of the whole bucket
		} else {
			p = genParams(rj, keys)
		}
		for _, api := range []string{"v1", "v2"} {
			cid := fmt.Sprintf("%s/%d/%s", id, j+1, api)
			if !c.Want(cid) {
				continue
			}
			resend := rj.Intn(2) == 0
			owner := rj.Intn(3) == 0
			lc := &listCase{keys: keys, meta: truth, p: p, dirty: dirty, lane: api, marked: markedKeys, dirtyMarked: dirtyMarked}
			v := judge(lc, httpLister(cl, bucket, api, p, resend, owner))
			c.Eval(len(v.Pages))
			for _, o := range v.Observes {
				c.Observe(api + ": " + o)
			}
			if strings.HasPrefix(v.Skipped, "transport") {
				if !e.dead(cid, map[string]any{"params": p, "api": api}) {
					c.Inconclusive("transport error during listing")
				}
				return
			}
			if v.Skipped != "" {
				c.Observe(api + ": listing not judged, " + v.Skipped + " [prefix class " + prefixKind(keys, p.Prefix) + "]")
				continue
			}
			ex := expect(keys, p.Prefix, p.Delim, p.Marker)
			if len(ex.all) >= 2 {
				c.Distinct(classKey(lc, ex))
			}
			c.Add("e2e_listings_"+api, 1)
			if idx < 1 && j == 0 && fixed == nil {
				c.Sample(map[string]any{"lane": "e2e " + api, "case": cid, "keys": keys, "params": p, "pages": v.Pages, "reference_after_marker": v.Expected})
			}
			sg := sigs(lc, ex, v)
			for _, sig := range sg {
				detail := map[string]any{"lane": "e2e " + api + " (" + e.cfg + ")", "bucket_keys": keys, "requests_before": ups, "params": p,
					"v2_resend_start_after": resend, "fetch_owner": owner, "input_class_dirty": dirty, "verdict": v, "all_signatures_of_case": sg, "keys_holding_a_delete_marker": markedKeys}
				if witness != "" {
					detail["order_class_witness"] = witness
				}
				c.Violation(sig, cid, detail)
			}
		}
	}
}

// fixed buckets: the anticipated witness, directory objects, and user keys
// with a path segment named like the gateway's bookkeeping directory
var e2eFixed = [][]string{
	{"a!b", "a/b"},
	{"d/", "d/a", "e/", "x", "y"},
	{"x/.sgwtmp", "x/a", "x/z", "y/.sgwtmp/k", "y/a"},
}

func laneE2E(c *ev.Ctx) {
	type conf struct {
		name string
		cfg  gw.Config
	}
	confs := []conf{{"xattr", gw.Config{}}}
	if c.Thorough() {
		confs = append(confs, conf{"sidecar", gw.Config{Sidecar: true}})
	}
	confs = append(confs, conf{"versioned", gw.Config{Versioning: true}})
	base := c.Rng("e2e").Int63()
	total := c.Pick(100, 1500)
	for ci, cf := range confs {
		n := total
		if c.Thorough() {
			n = total * 2 / 3
			if ci > 0 {
				n = total - n
			}
		}
		if cf.name == "versioned" {
			n = c.Pick(40, 300)
		}
		any := false
		for i := 0; i < n; i++ {
			if c.Want(fmt.Sprintf("B/%s/%d", cf.name, i)) {
				any = true
			}
		}
		if !any {
			continue
		}
		env, err := fx.New("c07"+cf.name, cf.cfg, 1)
		if err != nil {
			c.Inconclusive("gateway start: " + err.Error())
			continue
		}
		e := &e2e{c: c, env: env, cfg: cf.name, versioned: cf.cfg.Versioning}
		var wg sync.WaitGroup
		work := make(chan int, 16)
		for w := 0; w < 8; w++ {
			wg.Add(1)
			cl := env.Client(0)
			go func() {
				defer wg.Done()
				for i := range work {
					if _, cr := env.Dead(); cr != nil {
						continue
					}
					e.bucketCase(cl, i, base^int64(uint64(i+1)*0x9E3779B97F4A7C15)^int64(ci)<<40, nil)
				}
			}()
		}
		for i := 0; i < n; i++ {
			if c.Want(fmt.Sprintf("B/%s/%d", cf.name, i)) {
				work <- i
			}
		}
		close(work)
		wg.Wait()
		for fi, keys := range e2eFixed {
			if _, cr := env.Dead(); cr == nil && c.Want(fmt.Sprintf("B/%s/fixed%d", cf.name, fi)) {
				ks := append([]string{}, keys...)
				sort.Strings(ks)
				e.bucketCase(env.Client(0), fi, base+int64(fi), ks)
			}
		}
		e.dead("B/"+cf.name, "end of lane")
		c.Add("e2e_buckets", n)
		env.Close()
	}
}
