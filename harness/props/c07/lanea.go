package c07

import (
	"context"
	"crypto/md5"
	"encoding/hex"
	"fmt"
	"io/fs"
	"math/rand"
	"sort"
	"strings"
	"sync"
	"sync/atomic"
	"testing/fstest"

	"github.com/versity/versitygw/backend"
	"github.com/versity/versitygw/s3response"

	"verif/harness/internal/ev"
)

func md5hex(s string) string {
	h := md5.Sum([]byte(s))
	return hex.EncodeToString(h[:])
}

// memTree is the in-memory stand-in of a posix bucket directory.
type memTree struct {
	fsys     fstest.MapFS
	explicit map[string]bool // "a/d/" -> directory object
	meta     map[string]meta
}

func sizeOf(key string) int64 {
	if strings.HasSuffix(key, "/") {
		return 0
	}
	return int64(md5.Sum([]byte(key))[0] % 50)
}

func buildTree(ks keyset) *memTree {
	t := &memTree{fsys: fstest.MapFS{}, explicit: map[string]bool{}, meta: map[string]meta{}}
	for _, k := range ks.keys {
		if strings.HasSuffix(k, "/") {
			t.fsys[strings.TrimSuffix(k, "/")] = &fstest.MapFile{Mode: fs.ModeDir | 0o755}
			t.explicit[k] = true
		} else {
			t.fsys[k] = &fstest.MapFile{Data: make([]byte, sizeOf(k)), Mode: 0o644}
		}
		t.meta[k] = meta{Size: sizeOf(k), ETag: md5hex(k)}
	}
	for _, s := range ks.stray {
		t.fsys[s] = &fstest.MapFile{Mode: fs.ModeDir | 0o755}
	}
	return t
}

// getObj follows the conversion rules of a posix bucket: every file is an
// object; a directory is an object only if it was created as one ("d/").
func (t *memTree) getObj(path string, d fs.DirEntry) (s3response.Object, error) {
	if d.IsDir() {
		if !t.explicit[path] {
			return s3response.Object{}, backend.ErrSkipObj
		}
		size := int64(0)
		etag := md5hex(path)
		return s3response.Object{Key: &path, Size: &size, ETag: &etag}, nil
	}
	fi, err := d.Info()
	if err != nil {
		return s3response.Object{}, err
	}
	size := fi.Size()
	etag := md5hex(path)
	return s3response.Object{Key: &path, Size: &size, ETag: &etag}, nil
}

func (t *memTree) lister(p params) lister {
	return func(marker string, first bool) page {
		res, err := backend.Walk(context.Background(), t.fsys, p.Prefix, p.Delim, marker, int32(p.Max), t.getObj, []string{".sgwtmp"})
		if err != nil {
			return page{Err: err.Error()}
		}
		pg := page{Trunc: res.Truncated, Next: res.NextMarker}
		for _, o := range res.Objects {
			x := obj{}
			if o.Key == nil {
				return page{Bad: "object without key"}
			}
			x.Key = *o.Key
			if o.Size != nil {
				x.Size = *o.Size
			}
			if o.ETag != nil {
				x.ETag = *o.ETag
			}
			pg.Objs = append(pg.Objs, x)
		}
		for _, c := range res.CommonPrefixes {
			if c.Prefix == nil {
				return page{Bad: "common prefix without value"}
			}
			pg.CPs = append(pg.CPs, *c.Prefix)
		}
		return pg
	}
}

var sampled atomic.Int32

// shrinker state: minimise the first witness of every signature
var shrunkMu sync.Mutex
var shrunk = map[string]bool{}

func runDirectCase(ks keyset, p params) (*listCase, *verdict, []string) {
	t := buildTree(ks)
	dirty, _ := orderClass(ks.keys)
	lc := &listCase{keys: ks.keys, meta: t.meta, p: p, dirty: dirty, lane: "walk"}
	v := judge(lc, t.lister(p))
	return lc, v, sigs(lc, expect(lc.keys, p.Prefix, p.Delim, p.Marker), v)
}

func has(list []string, s string) bool {
	for _, x := range list {
		if x == s {
			return true
		}
	}
	return false
}

// shrink removes keys (and the prefix) while the same signature is still produced.
func shrink(ks keyset, p params, sig string) (keyset, params) {
	changed := true
	for changed {
		changed = false
		for i := 0; i < len(ks.keys); i++ {
			cand := keyset{keys: append(append([]string{}, ks.keys[:i]...), ks.keys[i+1:]...), stray: ks.stray}
			if len(cand.keys) == 0 {
				continue
			}
			if _, _, s := runDirectCase(cand, p); has(s, sig) {
				ks = cand
				changed = true
				i--
			}
		}
		for i := 0; i < len(ks.stray); i++ {
			cand := keyset{keys: ks.keys, stray: append(append([]string{}, ks.stray[:i]...), ks.stray[i+1:]...)}
			if _, _, s := runDirectCase(cand, p); has(s, sig) {
				ks = cand
				changed = true
				i--
			}
		}
		if p.Prefix != "" {
			q := p
			q.Prefix = ""
			if _, _, s := runDirectCase(ks, q); has(s, sig) {
				p = q
				changed = true
			}
		}
	}
	return ks, p
}

func reportDirect(c *ev.Ctx, id string, ks keyset, p params) {
	lc, v, sg := runDirectCase(ks, p)
	c.Eval(len(v.Pages))
	for _, o := range v.Observes {
		c.Observe("walk: " + o)
	}
	if v.Skipped != "" {
		c.Observe("walk: not judged, " + v.Skipped + " [prefix class " + prefixKind(ks.keys, p.Prefix) + "]")
		return
	}
	ex := expect(lc.keys, p.Prefix, p.Delim, p.Marker)
	if v.Entries >= 2 || len(ex.all) >= 2 {
		c.Distinct(classKey(lc, ex))
	}
	for _, sig := range sg {
		detail := map[string]any{"lane": "direct Walk on fstest.MapFS", "keys": ks.keys, "stray_dirs": ks.stray, "params": p,
			"input_class_dirty": lc.dirty, "verdict": v, "all_signatures_of_case": sg}
		if _, w := orderClass(ks.keys); w != "" {
			detail["order_class_witness"] = w
		}
		shrunkMu.Lock()
		done := shrunk[sig]
		shrunk[sig] = true
		shrunkMu.Unlock()
		if !done {
			mk, mp := shrink(ks, p, sig)
			_, mv, _ := runDirectCase(mk, mp)
			detail["minimal"] = map[string]any{"keys": mk.keys, "stray_dirs": mk.stray, "params": mp, "pages": mv.Pages, "expected_after_marker": mv.Expected, "findings": mv.Findings}
		}
		c.Violation(sig, id, detail)
	}
}

// fixed trees that every run covers (the anticipated witness first)
var fixedSets = [][]string{
	{"a!b", "a/b"},
	{"a.txt", "a/x", "a/y", "b"},
	{"d/", "x", "y"},
	{"d/", "d/a", "d/b", "e"},
	{"a", "ab", "abc", "abd/d", "b"},
	{"a-b/c", "a-b/d", "a-c", "a/b-c", "a/b-d"},
	{"a-b/c", "a-b/d", "a-c", "b/b-c", "b/b-d", "b/bab", "b/babab"},
	{"x/.sgwtmp", "x/a", "x/z"},
	{"x/.sgwtmp/y", "x/a", "x/z"},
}

func laneDirect(c *ev.Ctx) {
	base := c.Rng("direct").Int63()
	// fixed sets x full parameter grid
	for si, keys := range fixedSets {
		ks := keyset{keys: append([]string{}, keys...)}
		sort.Strings(ks.keys)
		var prefixes = []string{"", "a", "a/", "d/", "x/", "ab"}
		var markers = []string{"", "a", "a!", "a/", "a/b", "d", "d/", "x", "x/a", "~"}
		j := 0
		for _, pf := range prefixes {
			for _, dl := range delims {
				for _, mx := range maxes {
					for _, mk := range markers {
						id := fmt.Sprintf("A/fixed/%d/%d", si, j)
						j++
						if !c.Want(id) {
							continue
						}
						reportDirect(c, id, ks, params{Prefix: pf, Delim: dl, Marker: mk, Max: mx})
					}
				}
			}
		}
	}
	nsets := c.Pick(5000, 125000)
	const perSet = 8
	var wg sync.WaitGroup
	work := make(chan int, 64)
	for w := 0; w < 16; w++ {
		wg.Add(1)
		go func() {
			defer wg.Done()
			for i := range work {
				r := rand.New(rand.NewSource(base ^ int64(uint64(i+1)*0x9E3779B97F4A7C15)))
				clean := i%2 == 0
				ks := genKeyset(r, clean, true)
				for j := 0; j < perSet; j++ {
					p := genParams(r, ks.keys)
					id := fmt.Sprintf("A/gen/%d/%d", i, j)
					if !c.Want(id) {
						continue
					}
					reportDirect(c, id, ks, p)
					if ref := after(refAll(ks.keys, p.Prefix, p.Delim), p.Marker); i < 60 && len(ref) >= 2 && p.Max > 0 && p.Max < 1000 && sampled.Add(1) <= 4 {
						c.Sample(map[string]any{"lane": "direct", "case": id, "keys": ks.keys, "stray_dirs": ks.stray, "params": p,
							"reference_after_marker": names(after(refAll(ks.keys, p.Prefix, p.Delim), p.Marker))})
					}
				}
			}
		}()
	}
	for i := 0; i < nsets; i++ {
		if c.Want(fmt.Sprintf("A/gen/%d", i)) {
			work <- i
		}
	}
	close(work)
	wg.Wait()
	c.Add("direct_cases", nsets*perSet)
}
