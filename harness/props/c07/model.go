package c07

import (
	"fmt"
	"sort"
	"strings"
)

// ---------------------------------------------------------------------------
// Reference listing, written from the S3 listing rules (never from /repo):
//   * keys are ordered bytewise,
//   * only keys that start with the prefix take part,
//   * with a delimiter, a key whose remainder after the prefix contains the
//     delimiter is rolled up into the common prefix that ends with the first
//     occurrence of the delimiter; a common prefix is one entry,
//   * entries (keys and common prefixes together) are ordered bytewise; a page
//     starts with the first entry that is strictly greater than the marker,
//   * a page holds at most max-keys entries; it is truncated iff entries remain.
// ---------------------------------------------------------------------------

type entry struct {
	Name string
	CP   bool
}

func (e entry) kind() string {
	switch {
	case e.CP:
		return "cp"
	case strings.HasSuffix(e.Name, "/"):
		return "dirobj"
	}
	return "key"
}

func (e entry) String() string {
	if e.CP {
		return "CP(" + e.Name + ")"
	}
	return e.Name
}

// refAll is the complete ordered listing of the sorted key list for (prefix, delimiter).
func refAll(keys []string, prefix, delim string) []entry {
	var out []entry
	for _, k := range keys {
		if !strings.HasPrefix(k, prefix) {
			continue
		}
		e := entry{Name: k}
		if delim != "" {
			if i := strings.Index(k[len(prefix):], delim); i >= 0 {
				e = entry{Name: k[:len(prefix)+i+len(delim)], CP: true}
			}
		}
		if e.CP && len(out) > 0 && out[len(out)-1] == e {
			continue
		}
		out = append(out, e)
	}
	for i := 1; i < len(out); i++ {
		if !(out[i-1].Name < out[i].Name) {
			panic(fmt.Sprintf("c07 reference model broken: entries not strictly ascending: %q %q", out[i-1].Name, out[i].Name))
		}
	}
	return out
}

// after returns the entries strictly greater than marker.
func after(all []entry, marker string) []entry {
	if marker == "" {
		return all
	}
	i := sort.Search(len(all), func(i int) bool { return all[i].Name > marker })
	return all[i:]
}

// enclosingCP: the marker lies strictly inside a common prefix of the listing
// (the common prefix is a proper prefix of the marker) and keys greater than
// the marker exist below it. S3 implementations differ on whether that common
// prefix is listed again (key-level skipping) or not (entry-level skipping);
// both readings are accepted for exactly that one entry.
func enclosingCP(keys []string, all []entry, prefix, delim, marker string) (entry, bool) {
	if delim == "" || marker == "" || !strings.HasPrefix(marker, prefix) {
		return entry{}, false
	}
	i := strings.Index(marker[len(prefix):], delim)
	if i < 0 {
		return entry{}, false
	}
	cp := marker[:len(prefix)+i+len(delim)]
	if cp == marker {
		return entry{}, false
	}
	for _, k := range keys {
		if k > marker && strings.HasPrefix(k, cp) {
			return entry{Name: cp, CP: true}, true
		}
	}
	return entry{}, false
}

// expectations for one (prefix, delimiter, marker): one or two acceptable entry sequences.
type expectation struct {
	all      []entry   // full listing without marker
	variants [][]entry // acceptable sequences of entries after the marker
}

func expect(keys []string, prefix, delim, marker string) expectation {
	all := refAll(keys, prefix, delim)
	a := after(all, marker)
	ex := expectation{all: all, variants: [][]entry{a}}
	if cp, ok := enclosingCP(keys, all, prefix, delim, marker); ok {
		b := append([]entry{cp}, a...)
		ex.variants = append(ex.variants, b)
	}
	return ex
}

// ---------------------------------------------------------------------------
// input classes (for evidence and signatures)
// ---------------------------------------------------------------------------

func delimKind(d string) string {
	switch {
	case d == "":
		return "none"
	case d == "/":
		return "slash"
	case len(d) == 1:
		return "char"
	}
	return "multi"
}

func prefixKind(keys []string, p string) string {
	if p == "" {
		return "none"
	}
	match := false
	for _, k := range keys {
		if strings.HasPrefix(k, p) {
			match = true
			break
		}
	}
	switch {
	case !match:
		return "nomatch"
	case strings.HasSuffix(p, "/"):
		return "dir"
	}
	return "partial"
}

func markerKind(all []entry, marker string) string {
	if marker == "" {
		return "none"
	}
	for _, e := range all {
		if e.CP && len(marker) > len(e.Name) && strings.HasPrefix(marker, e.Name) {
			return "inside-cp"
		}
	}
	for _, e := range all {
		if e.Name == marker {
			return e.kind()
		}
	}
	if len(all) == 0 || marker > all[len(all)-1].Name {
		return "beyond"
	}
	if marker < all[0].Name {
		return "before"
	}
	return "between"
}

// orderClass reports whether the key set contains, in one directory, a
// directory name d and a sibling name that starts with d followed by a byte
// smaller than '/'. For such sets (and only for such sets) a pre-order walk of
// the directory tree with per-directory name order differs from bytewise key
// order. Returns a witness pair.
func orderClass(keys []string) (bool, string) {
	// directory -> set of child names, and which child names are directories
	type node struct {
		names map[string]bool
		dirs  map[string]bool
	}
	dirs := map[string]*node{}
	get := func(d string) *node {
		n := dirs[d]
		if n == nil {
			n = &node{names: map[string]bool{}, dirs: map[string]bool{}}
			dirs[d] = n
		}
		return n
	}
	for _, k := range keys {
		parts := strings.Split(strings.TrimSuffix(k, "/"), "/")
		isDirObj := strings.HasSuffix(k, "/")
		parent := ""
		for i, p := range parts {
			n := get(parent)
			n.names[p] = true
			if i < len(parts)-1 || isDirObj {
				n.dirs[p] = true
			}
			parent += p + "/"
		}
	}
	var dl []string
	for d := range dirs {
		dl = append(dl, d)
	}
	sort.Strings(dl)
	for _, d := range dl {
		n := dirs[d]
		var dn []string
		for x := range n.dirs {
			dn = append(dn, x)
		}
		sort.Strings(dn)
		var nn []string
		for x := range n.names {
			nn = append(nn, x)
		}
		sort.Strings(nn)
		for _, x := range dn {
			for _, s := range nn {
				if len(s) > len(x) && strings.HasPrefix(s, x) && s[len(x)] < '/' {
					return true, d + x + "/ vs " + d + s
				}
			}
		}
	}
	return false, ""
}

// internalName: a path segment that belongs to the gateway's bookkeeping.
func internalName(name string) bool {
	for _, seg := range strings.Split(name, "/") {
		if seg == ".sgwtmp" {
			return true
		}
	}
	return false
}

func shape(keys []string, dirty bool) string {
	depth, dirobj, nested := 0, false, false
	for _, k := range keys {
		if strings.HasSuffix(k, "/") {
			dirobj = true
		}
		if n := strings.Count(strings.TrimSuffix(k, "/"), "/"); n > depth {
			depth = n
		}
	}
	for i := 1; i < len(keys); i++ {
		if strings.HasPrefix(keys[i], keys[i-1]) {
			nested = true
		}
	}
	s := "clean"
	if dirty {
		s = "dirty"
	}
	if dirobj {
		s += "+dirobj"
	}
	if nested {
		s += "+keyprefix"
	}
	switch {
	case depth == 0:
		s += "+flat"
	case depth >= 3:
		s += "+deep"
	}
	return s
}
