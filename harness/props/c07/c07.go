// Package c07: listings are complete, ordered, correctly grouped and paginate
// without loss.
//
// Lane A calls backend.Walk directly on in-memory trees (testing/fstest.MapFS)
// built from generated key sets, with a getObj that follows the posix
// conversion rules. Lane B runs the same generator against real posix buckets
// through ListObjects V1 and V2. Both lanes share one oracle (judge.go): a
// reference listing written from the S3 listing rules (model.go), a first-page
// oracle and a page-chain oracle.
package c07

import (
	"verif/harness/internal/ev"
	"verif/harness/internal/reg"
)

func init() { reg.Register("C07", "exploration", Run) }

func Run(c *ev.Ctx) int {
	c.Assume("key sets are posix-representable trees (<= 40 keys, depth <= 5, segments over the alphabet a b ! # - . 0 ~ e-acute); keys with empty, '.' or '..' segments are left to C04")
	c.Assume("end to end the key set of a bucket is the set of acknowledged uploads that HEAD still confirms; refused uploads are not part of the reference")
	c.Assume("a marker strictly inside a common prefix may or may not list that common prefix again (both S3 readings accepted); pages shorter than max-keys and one trailing empty page are legal")
	c.Assume("listing requests that are answered with an error are counted as observations, not judged")
	laneDirect(c)
	laneE2E(c)
	rc := c.Rng("concurrent")
	for _, m := range []string{"plain", "fewprocs", "race"} {
		laneConcurrent(c, m, rc.Int63n(1<<40))
	}
	return c.Finish("lane A: backend.Walk on fstest.MapFS trees from generated key sets (two populations: with / without a directory name d next to a sibling d+<byte below '/'>), x prefix {none, dir, partial, nomatch} x delimiter {none, /, -, ab, !} x max-keys {0,1,2,3,7,1000} x marker {none, key, dirobj, cp, inside-cp, between, before, beyond}; lane B: the same through ListObjects V1/V2 on real posix buckets filled through the API with an upload in flight; lane C: 16 clients listing three buckets at once (default scheduler, GOMAXPROCS=2, race-instrumented gateway), every answer must equal the answer of the same request sent alone; oracle: reference listing from the S3 rules, first page must be a leading part of it, following the returned markers must yield every entry after the start position exactly once in ascending order with <= max-keys per page and terminate; a case is distinct by (lane, key-set shape, prefix class, delimiter, max-keys, marker class) and counts only with >= 2 reference entries", 200)
}
