package c07

import (
	"fmt"
	"math/rand"
	"strings"
	"sync"

	"verif/harness/internal/ev"
	"verif/harness/internal/fx"
	"verif/harness/internal/gw"
	"verif/harness/internal/s3c"
)

// Lane C: a listing must not depend on what other listings the process serves at the same moment. Three buckets
// with disjoint, recognisable key sets are listed by 16 clients at once with a fixed catalogue of requests (V1/V2,
// prefix, delimiter, max-keys, start positions); nothing is written meanwhile, so every answer must be the answer
// the same request got when it was sent alone.
func listingDigest(r *s3c.Resp) string {
	if r.Err != nil {
		return "ERR " + r.Err.Error()
	}
	if !r.OK() {
		return r.String()
	}
	l, err := s3c.ParseList(r.Body)
	if err != nil {
		return "unparsable: " + err.Error()
	}
	var sb strings.Builder
	fmt.Fprintf(&sb, "name=%s trunc=%v next=%q/%q count=%d\n", l.Name, l.IsTruncated, l.NextMarker, l.NextContinuationToken, l.KeyCount)
	for _, e := range l.Contents {
		fmt.Fprintf(&sb, "K %s %d %s\n", e.Key, e.Size, e.ETag)
	}
	for _, p := range l.CommonPrefixes {
		fmt.Fprintf(&sb, "P %s\n", p.Prefix)
	}
	return sb.String()
}

func laneConcurrent(c *ev.Ctx, mode string, seed int64) {
	id := "C/" + mode
	if !c.Want(id) {
		return
	}
	cfg := gw.Config{}
	switch mode {
	case "fewprocs":
		cfg.Env = []string{"GOMAXPROCS=2"}
	case "race":
		cfg.Race = true
	}
	env, err := fx.New("c07c", cfg, 1)
	if err != nil {
		c.Inconclusive("gateway start (concurrent lane): " + err.Error())
		return
	}
	defer env.Close()
	cl := env.Client(0)
	r := rand.New(rand.NewSource(seed))
	buckets := []string{"alpha", "bravo", "charlie"}
	for bi, b := range buckets {
		if rr := cl.CreateBucket(b); !rr.OK() {
			c.Inconclusive("create bucket: " + rr.String())
			return
		}
		n := 25 + 20*bi
		for i := 0; i < n; i++ {
			key := fmt.Sprintf("%s-%03d", b, i)
			switch i % 4 {
			case 1:
				key = fmt.Sprintf("dir%d/%s-%03d", i%3, b, i)
			case 2:
				key = fmt.Sprintf("dir%d/sub/%s-%03d", i%2, b, i)
			}
			if rr := cl.PutObject(b, key, []byte(strings.Repeat(b, 1+i%7))); !rr.OK() {
				c.Inconclusive("put: " + rr.String())
				return
			}
		}
	}
	type lreq struct{ bucket, query string }
	var reqs []lreq
	for _, b := range buckets {
		for _, v2 := range []bool{false, true} {
			for _, q := range [][]string{{}, {"delimiter", "/"}, {"prefix", "dir1/"}, {"prefix", "dir0/", "delimiter", "/"}, {"max-keys", "7"}, {"max-keys", "3", "delimiter", "/"}, {"prefix", b + "-0"}} {
				qs := s3c.Q(q...)
				if v2 {
					if qs != "" {
						qs = "list-type=2&" + qs
					} else {
						qs = "list-type=2"
					}
					if r.Intn(3) == 0 {
						qs += "&" + s3c.Q("start-after", "dir0/")
					}
				} else if r.Intn(3) == 0 {
					if qs != "" {
						qs += "&"
					}
					qs += s3c.Q("marker", "dir0/")
				}
				reqs = append(reqs, lreq{b, qs})
			}
		}
	}
	// alone
	ref := make([]string, len(reqs))
	for i, q := range reqs {
		ref[i] = listingDigest(cl.Do(&s3c.Req{Method: "GET", Path: "/" + q.bucket, Query: q.query}))
		if strings.HasPrefix(ref[i], "ERR") {
			c.Inconclusive("reference listing failed: " + ref[i])
			return
		}
	}
	// together
	var wg sync.WaitGroup
	var mu sync.Mutex
	differing := 0
	total := 0
	workers, per := 16, 60
	for w := 0; w < workers; w++ {
		wg.Add(1)
		go func(w int) {
			defer wg.Done()
			rr := rand.New(rand.NewSource(seed*131 + int64(w)))
			wc := env.Client(0)
			for n := 0; n < per; n++ {
				i := rr.Intn(len(reqs))
				got := listingDigest(wc.Do(&s3c.Req{Method: "GET", Path: "/" + reqs[i].bucket, Query: reqs[i].query}))
				mu.Lock()
				total++
				if got != ref[i] {
					differing++
					if differing <= 3 {
						foreign := ""
						for _, b := range buckets {
							if b != reqs[i].bucket && strings.Contains(got, b+"-") {
								foreign = b
							}
						}
						c.Violation("concurrent:listing-differs-from-the-same-request-alone", id, map[string]any{"mode": mode, "bucket": reqs[i].bucket, "query": reqs[i].query,
							"alone": clipLines(ref[i], 12), "among_other_listings": clipLines(got, 12), "entries_of_another_bucket": foreign})
					}
				}
				mu.Unlock()
			}
		}(w)
	}
	wg.Wait()
	c.Eval(total)
	c.Add("concurrent_listings", total)
	c.Add("concurrent_listings_differing", differing)
	if i, cr := env.Dead(); cr != nil {
		c.Violation("concurrent:gateway-died:"+strings.TrimPrefix(cr.TopFrame, "github.com/versity/versitygw/"), id, map[string]any{"gateway": i, "crash": cr.Message})
		return
	}
	if differing == 0 {
		c.Distinct("C|" + mode + "|all-answers-equal-the-sequential-ones")
	}
	if mode == "race" {
		seen := map[string]bool{}
		for _, g := range env.GWs {
			g.Stop()
			for _, rep := range g.RaceReports() {
				sig, inV := gw.RaceSig(rep)
				if seen[sig] {
					continue
				}
				seen[sig] = true
				if inV {
					c.Violation("concurrent:race:"+sig, id, map[string]any{"report": clipLines(rep, 60)})
				} else {
					c.Observe("race report entirely inside dependencies: " + sig)
				}
			}
		}
	}
}

func clipLines(s string, n int) string {
	l := strings.Split(s, "\n")
	if len(l) > n {
		l = append(l[:n], fmt.Sprintf("... %d more lines", len(l)-n))
	}
	return strings.Join(l, "\n")
}
