//go:build !solo || solo_c09

package props

import _ "verif/harness/props/c09"
