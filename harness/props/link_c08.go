//go:build !solo || solo_c08

package props

import _ "verif/harness/props/c08"
