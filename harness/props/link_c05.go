//go:build !solo || solo_c05

package props

import _ "verif/harness/props/c05"
