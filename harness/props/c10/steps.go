package c10

import (
	"fmt"
	"strings"
	"time"

	"verif/harness/internal/s3c"
)

const (
	dateSet     = "2099-01-01T00:00:00Z" // retention given to protected versions
	dateShorter = "2031-01-01T00:00:00Z"
	dateLonger  = "2150-01-01T00:00:00Z"
	// the instant of dateLonger written in other zones
	dateLongerWest = "2149-12-31T14:00:00-10:00"
	dateLongerEast = "2150-01-01T05:30:00+05:30"
	xmlns          = `xmlns="http://s3.amazonaws.com/doc/2006-03-01/"`
)

// steps that exist in both environments
var commonSteps = []string{
	"overwrite-put", "copy-onto", "copy-self-replace", "complete-mpu-onto", "complete-mpu-begun-earlier",
	"delete", "delete-bypass", "delete-objects", "delete-objects-bypass", "delete-objects-alias-key", "delete-bucket",
	"put-retention-shorter", "put-retention-shorter-bypass", "put-retention-downgrade", "put-retention-downgrade-bypass",
	"put-retention-empty", "put-retention-empty-bypass", "put-retention-extend", "put-retention-upgrade", "put-retention-extend-zone-west", "put-retention-extend-zone-east", "put-retention-extend-zone-west-bypass", "put-retention-extend-zone-east-bypass",
	"legal-hold-off", "legal-hold-on",
	"put-lock-config-no-enabled", "put-lock-config-disabled", "put-lock-config-rule-only", "put-lock-config-enabled-no-rule",
	"put-lock-config-shorter-rule", "put-lock-config-downgrade-rule", "put-lock-config-empty-body",
	"versioning-suspend",
}

// steps that need version ids
var versionedSteps = []string{
	"delete-vid", "delete-vid-bypass", "delete-objects-vid", "delete-objects-vid-bypass", "delete-top-version",
	"delete-objects-same-key-twice", "delete-objects-same-key-twice-bypass",
	"put-retention-shorter-vid", "put-retention-shorter-vid-bypass", "put-retention-downgrade-vid", "put-retention-downgrade-vid-bypass",
	"put-retention-empty-vid-bypass", "put-retention-extend-vid",
	"legal-hold-off-vid",
	"put-retention-foreign-vid", "put-retention-my-vid-on-other-key", "legal-hold-off-my-vid-on-other-key", "delete-my-vid-on-other-key-bypass",
}

var unversionedSteps = []string{"delete-bogus-version", "delete-bogus-version-bypass"}

var destructive = []string{"overwrite-put", "copy-onto", "complete-mpu-onto", "complete-mpu-begun-earlier", "delete", "delete-bypass", "delete-vid", "delete-vid-bypass",
	"delete-objects", "delete-objects-bypass", "delete-objects-vid", "delete-objects-vid-bypass", "delete-objects-same-key-twice", "delete-objects-same-key-twice-bypass", "delete-top-version", "delete-bucket"}

var enablers = []string{"put-lock-config-no-enabled", "put-lock-config-rule-only", "put-lock-config-enabled-no-rule", "put-lock-config-shorter-rule",
	"put-lock-config-downgrade-rule", "versioning-suspend", "legal-hold-off", "legal-hold-off-vid", "put-retention-shorter-bypass", "put-retention-shorter-vid-bypass",
	"put-retention-downgrade-vid-bypass", "delete", "delete-top-version", "overwrite-put", "copy-onto"}

func catalog(versioned bool) []string {
	out := append([]string{}, commonSteps...)
	if versioned {
		return append(out, versionedSteps...)
	}
	return append(out, unversionedSteps...)
}

type target struct {
	Key string `json:"key"`
	Vid string `json:"vid"` // "" in an unversioned bucket; resolved id of the current version otherwise ("?" unknown)
}

// stepLog is what one executed step did, as far as the oracle needs to know.
type stepLog struct {
	Step      string   `json:"step"`
	Caller    string   `json:"caller"`
	Request   string   `json:"request"`
	Status    string   `json:"answer"`
	Accepted  bool     `json:"accepted"`
	NA        bool     `json:"not_applicable,omitempty"`
	Bypass    bool     `json:"bypass_header,omitempty"`
	Kind      string   `json:"-"` // overwrite | delete | retention | hold-off | hold-on | config | versioning | bucket | meta
	Targets   []target `json:"-"`
	caller    int
	code      string
	transport bool
	sentUntil time.Time // retention steps: the instant the request named (zero = not applicable)
}

func retentionXML(mode, date string) []byte {
	if mode == "" && date == "" {
		return []byte(`<Retention ` + xmlns + `></Retention>`)
	}
	return []byte(`<Retention ` + xmlns + `><Mode>` + mode + `</Mode><RetainUntilDate>` + date + `</RetainUntilDate></Retention>`)
}

func holdXML(on bool) []byte {
	s := "OFF"
	if on {
		s = "ON"
	}
	return []byte(`<LegalHold ` + xmlns + `><Status>` + s + `</Status></LegalHold>`)
}

func lockConfigXML(enabled string, mode string, unit string, n int) []byte {
	var sb strings.Builder
	sb.WriteString(`<ObjectLockConfiguration ` + xmlns + `>`)
	if enabled != "" {
		sb.WriteString(`<ObjectLockEnabled>` + enabled + `</ObjectLockEnabled>`)
	}
	if mode != "" {
		fmt.Fprintf(&sb, `<Rule><DefaultRetention><Mode>%s</Mode><%s>%d</%s></DefaultRetention></Rule>`, mode, unit, n, unit)
	}
	sb.WriteString(`</ObjectLockConfiguration>`)
	return []byte(sb.String())
}

func subQ(sub, vid string) string {
	q := sub + "="
	if vid != "" {
		q += "&" + s3c.Q("versionId", vid)
	}
	return q
}

type delObj struct{ key, vid string }

func deleteXML(objs []delObj) []byte {
	var sb strings.Builder
	sb.WriteString(`<Delete ` + xmlns + `>`)
	for _, o := range objs {
		sb.WriteString(`<Object><Key>` + s3c.XMLEsc(o.key) + `</Key>`)
		if o.vid != "" {
			sb.WriteString(`<VersionId>` + s3c.XMLEsc(o.vid) + `</VersionId>`)
		}
		sb.WriteString(`</Object>`)
	}
	sb.WriteString(`</Delete>`)
	return []byte(sb.String())
}

// currentVid asks (as root) which version is current for key; "?" when there is none / a delete marker.
func (r *run) currentVid(key string) string {
	if !r.e.versioned {
		return ""
	}
	h := r.root().HeadObject(r.b, key)
	r.evals++
	if h.Err != nil || h.Status != 200 {
		return "?"
	}
	if v := h.Header.Get("X-Amz-Version-Id"); v != "" {
		return v
	}
	return "?"
}

// do executes one attack step against the main entry.
func (r *run) do(st step) stepLog {
	cl := r.e.cl[st.Caller]
	b := r.b
	m := r.main
	K, V := m.Key, m.Vid
	lg := stepLog{Step: st.Name, Caller: callerName[st.Caller], caller: st.Caller}
	name := st.Name
	byp := strings.HasSuffix(name, "-bypass")
	if byp {
		name = strings.TrimSuffix(name, "-bypass")
		lg.Bypass = true
	}
	var hdr []string
	if byp {
		hdr = []string{"X-Amz-Bypass-Governance-Retention", "true"}
	}
	finish := func(req string, resp *s3c.Resp) stepLog {
		lg.Request = req
		lg.Status = errText(resp)
		lg.code = resp.String()
		lg.Accepted = resp.OK()
		if resp.Err != nil {
			lg.transport = true
		}
		return lg
	}
	na := func(why string) stepLog {
		lg.NA = true
		lg.Request = "(not applicable: " + why + ")"
		return lg
	}
	pushTop := func(resp *s3c.Resp) {
		if resp.OK() && r.e.versioned {
			if v := resp.Header.Get("X-Amz-Version-Id"); v != "" {
				r.tops = append(r.tops, v)
			}
		}
	}
	useVid := strings.HasSuffix(name, "-vid")
	if useVid {
		name = strings.TrimSuffix(name, "-vid")
		if !r.e.versioned {
			return na("no version ids in this environment")
		}
	}
	// address of the main entry for this step
	addrVid := ""
	tgtVid := ""
	if useVid {
		addrVid, tgtVid = V, V
	} else if r.e.versioned {
		tgtVid = r.currentVid(K)
	}
	switch name {
	case "overwrite-put":
		w := r.ck.ws.Mk(false)
		lg.Kind, lg.Targets = "overwrite", []target{{K, tgtVid}}
		resp := cl.PutObject(b, K, w.Body, w.Hdr()...)
		pushTop(resp)
		return finish("PUT "+K, resp)
	case "copy-onto":
		lg.Kind, lg.Targets = "overwrite", []target{{K, tgtVid}}
		resp := cl.CopyObject(b, r.srcKey, b, K)
		pushTop(resp)
		return finish("PUT "+K+" x-amz-copy-source: "+r.srcKey, resp)
	case "copy-self-replace":
		lg.Kind, lg.Targets = "meta", []target{{K, tgtVid}}
		resp := cl.CopyObject(b, K, b, K, "X-Amz-Metadata-Directive", "REPLACE", "X-Amz-Meta-Wid", "replaced", "Content-Type", "text/replaced")
		if resp.OK() && r.e.versioned {
			if v := resp.Header.Get("X-Amz-Version-Id"); v != "" && v != tgtVid {
				r.tops = append(r.tops, v)
			}
		}
		return finish("PUT "+K+" x-amz-copy-source: "+K+" (REPLACE)", resp)
	case "complete-mpu-onto":
		w := r.ck.ws.Mk(false)
		lg.Kind, lg.Targets = "overwrite", []target{{K, tgtVid}}
		id, cr := cl.CreateMPU(b, K, w.Hdr()...)
		if !cr.OK() {
			return finish("POST "+K+"?uploads", cr)
		}
		up := cl.UploadPart(b, K, id, 1, w.Body)
		if !up.OK() {
			cl.AbortMPU(b, K, id)
			return finish("PUT "+K+"?partNumber=1", up)
		}
		resp := cl.CompleteMPU(b, K, id, []s3c.Part{{N: 1, ETag: strings.Trim(up.Header.Get("Etag"), `"`)}})
		if !resp.OK() {
			cl.AbortMPU(b, K, id)
		} else if strings.Contains(string(resp.Body), "<Error>") {
			// 200 with an error document
			resp.Status = 500
		}
		pushTop(resp)
		return finish("POST "+K+"?uploadId (one part)", resp)
	case "complete-mpu-begun-earlier":
		// the upload was initiated, and its part uploaded, before the key got its protection: the decision is due now
		if r.early == nil {
			return na("the early upload was completed or aborted already")
		}
		lg.Kind, lg.Targets = "overwrite", []target{{K, tgtVid}}
		ea := r.early
		resp := cl.CompleteMPU(b, K, ea.id, []s3c.Part{{N: 1, ETag: ea.etag}})
		if resp.OK() && strings.Contains(string(resp.Body), "<Error>") {
			resp.Status = 500
		}
		if resp.OK() {
			r.early = nil
		}
		pushTop(resp)
		return finish("POST "+K+"?uploadId=<initiated before the protection was set> (one part)", resp)
	case "delete":
		lg.Kind, lg.Targets = "delete", []target{{K, tgtVid}}
		if useVid {
			resp := cl.DeleteObjectV(b, K, V, hdr...)
			return finish("DELETE "+K+"?versionId="+V, resp)
		}
		resp := cl.DeleteObject(b, K, hdr...)
		if resp.OK() && r.e.versioned && resp.Header.Get("X-Amz-Delete-Marker") == "true" {
			// a delete marker on top: legitimate in a versioned bucket, the protected version is not touched
			lg.Kind = "marker"
			pushTop(resp)
		}
		return finish("DELETE "+K, resp)
	case "delete-bogus-version":
		// unversioned environment only
		lg.Kind, lg.Targets = "delete", []target{{K, ""}}
		resp := cl.DeleteObjectV(b, K, "01ARZ3NDEKTSV4RRFFQ69G5FAV", hdr...)
		return finish("DELETE "+K+"?versionId=<bogus>", resp)
	case "delete-top-version":
		if len(r.tops) == 0 {
			return na("nothing was stacked on the key")
		}
		top := r.tops[len(r.tops)-1]
		lg.Kind, lg.Targets = "delete", []target{{K, top}}
		resp := cl.DeleteObjectV(b, K, top, hdr...)
		if resp.OK() {
			r.tops = r.tops[:len(r.tops)-1]
		}
		return finish("DELETE "+K+"?versionId=<newest stacked version/marker>", resp)
	case "delete-objects":
		objs := []delObj{{r.otherKey, ""}}
		lg.Kind = "delete"
		for _, en := range r.ledger {
			if useVid {
				objs = append(objs, delObj{en.Key, en.Vid})
				lg.Targets = append(lg.Targets, target{en.Key, en.Vid})
			} else {
				objs = append(objs, delObj{en.Key, ""})
				lg.Targets = append(lg.Targets, target{en.Key, r.currentVid(en.Key)})
			}
		}
		resp := cl.Sub("POST", b, "", "delete=", deleteXML(objs), hdr...)
		out := finish(fmt.Sprintf("POST ?delete %v", objs), resp)
		// accepted only if something was reported deleted
		out.Accepted = resp.OK() && strings.Contains(string(resp.Body), "<Deleted>")
		if resp.OK() && !out.Accepted {
			out.Status += " (no <Deleted> element)"
		}
		if !useVid && r.e.versioned && out.Accepted {
			out.Kind = "marker"
		}
		return out
	case "delete-objects-same-key-twice":
		// one batch names every protected key twice: first the plain key (legal: a delete marker), then the
		// protected version. Every ENTRY needs its own lock decision.
		if !r.e.versioned {
			return na("no version ids in this environment")
		}
		var objs []delObj
		lg.Kind = "delete"
		for _, en := range r.ledger {
			if len(r.tops) > 0 {
				objs = append(objs, delObj{en.Key, r.tops[len(r.tops)-1]})
			} else {
				objs = append(objs, delObj{en.Key, ""})
			}
			objs = append(objs, delObj{en.Key, en.Vid})
			lg.Targets = append(lg.Targets, target{en.Key, en.Vid})
		}
		resp := cl.Sub("POST", b, "", "delete=", deleteXML(objs), hdr...)
		out := finish(fmt.Sprintf("POST ?delete %v", objs), resp)
		out.Accepted = resp.OK() && strings.Contains(string(resp.Body), "<Deleted>")
		if out.Accepted && len(r.tops) > 0 {
			r.tops = r.tops[:len(r.tops)-1]
		}
		return out
	case "delete-objects-alias-key":
		// the same file addressed through a path that is not the literal key
		alias := "aux/../" + K
		lg.Kind, lg.Targets = "delete", []target{{K, tgtVid}}
		resp := cl.Sub("POST", b, "", "delete=", deleteXML([]delObj{{alias, ""}}), hdr...)
		out := finish("POST ?delete ["+alias+"]", resp)
		out.Accepted = resp.OK() && strings.Contains(string(resp.Body), "<Deleted>")
		if !useVid && r.e.versioned && out.Accepted {
			out.Kind = "marker"
		}
		return out
	case "delete-bucket":
		lg.Kind = "bucket"
		return finish("DELETE bucket", cl.DeleteBucket(b))
	case "put-retention-shorter", "put-retention-downgrade", "put-retention-empty", "put-retention-extend", "put-retention-upgrade", "put-retention-extend-zone-west", "put-retention-extend-zone-east":
		mode := "GOVERNANCE"
		if m.Ret != nil {
			mode = m.Ret.Mode
		}
		date := dateShorter
		switch name {
		case "put-retention-downgrade":
			mode, date = "GOVERNANCE", dateSet
			if m.Ret != nil && m.Ret.Mode == "GOVERNANCE" {
				date = dateShorter // nothing to downgrade: shorten instead
			}
		case "put-retention-empty":
			mode, date = "", ""
		case "put-retention-extend":
			date = dateLonger
		case "put-retention-extend-zone-west":
			date = dateLongerWest // the same instant as dateLonger, written with a zone offset
		case "put-retention-extend-zone-east":
			date = dateLongerEast
		case "put-retention-upgrade":
			mode, date = "COMPLIANCE", dateSet
		}
		if t, err := time.Parse(time.RFC3339, date); err == nil {
			lg.sentUntil = t
		}
		lg.Kind, lg.Targets = "retention", []target{{K, tgtVid}}
		resp := cl.Sub("PUT", b, K, subQ("retention", addrVid), retentionXML(mode, date), hdr...)
		return finish(fmt.Sprintf("PUT %s?%s %s %s", K, subQ("retention", addrVid), mode, date), resp)
	case "legal-hold-off", "legal-hold-on":
		on := name == "legal-hold-on"
		lg.Kind = "hold-off"
		if on {
			lg.Kind = "hold-on"
		}
		lg.Targets = []target{{K, tgtVid}}
		resp := cl.Sub("PUT", b, K, subQ("legal-hold", addrVid), holdXML(on), hdr...)
		return finish(fmt.Sprintf("PUT %s?%s %v", K, subQ("legal-hold", addrVid), on), resp)
	case "put-retention-foreign":
		// the main key addressed with a version id that belongs to another key
		if len(r.otherVids) == 0 {
			return na("no foreign version id")
		}
		lg.Kind, lg.Targets = "retention", []target{{K, r.otherVids[0]}}
		resp := cl.Sub("PUT", b, K, subQ("retention", r.otherVids[0]), retentionXML("GOVERNANCE", dateShorter), hdr...)
		return finish("PUT "+K+"?retention&versionId=<id of a version of "+r.otherKey+"> GOVERNANCE "+dateShorter, resp)
	case "put-retention-my-vid-on-other-key":
		lg.Kind, lg.Targets = "retention", []target{{r.otherKey, V}}
		resp := cl.Sub("PUT", b, r.otherKey, subQ("retention", V), retentionXML("GOVERNANCE", dateShorter), hdr...)
		return finish("PUT "+r.otherKey+"?retention&versionId=<id of the protected version of "+K+"> GOVERNANCE "+dateShorter, resp)
	case "legal-hold-off-my-vid-on-other-key":
		lg.Kind, lg.Targets = "hold-off", []target{{r.otherKey, V}}
		resp := cl.Sub("PUT", b, r.otherKey, subQ("legal-hold", V), holdXML(false), hdr...)
		return finish("PUT "+r.otherKey+"?legal-hold&versionId=<id of the protected version of "+K+"> OFF", resp)
	case "delete-my-vid-on-other-key":
		lg.Kind, lg.Targets = "delete", []target{{r.otherKey, V}}
		resp := cl.DeleteObjectV(b, r.otherKey, V, hdr...)
		return finish("DELETE "+r.otherKey+"?versionId=<id of the protected version of "+K+">", resp)
	case "put-lock-config-no-enabled", "put-lock-config-disabled", "put-lock-config-rule-only", "put-lock-config-enabled-no-rule",
		"put-lock-config-shorter-rule", "put-lock-config-downgrade-rule", "put-lock-config-empty-body":
		var body []byte
		switch name {
		case "put-lock-config-no-enabled":
			body = lockConfigXML("", "", "", 0)
		case "put-lock-config-disabled":
			body = lockConfigXML("Disabled", "", "", 0)
		case "put-lock-config-rule-only":
			body = lockConfigXML("", "GOVERNANCE", "Days", 1)
		case "put-lock-config-enabled-no-rule":
			body = lockConfigXML("Enabled", "", "", 0)
		case "put-lock-config-shorter-rule":
			mode := "GOVERNANCE"
			if m.Def != "" {
				mode = m.Def
			}
			body = lockConfigXML("Enabled", mode, "Days", 1)
		case "put-lock-config-downgrade-rule":
			body = lockConfigXML("Enabled", "GOVERNANCE", "Years", 3)
		case "put-lock-config-empty-body":
			body = []byte{}
		}
		lg.Kind = "config"
		resp := cl.Sub("PUT", b, "", "object-lock=", body, hdr...)
		return finish("PUT ?object-lock "+string(body), resp)
	case "versioning-suspend":
		lg.Kind = "versioning"
		return finish("PUT ?versioning Suspended", cl.PutBucketVersioning(b, "Suspended"))
	}
	return na("unknown step " + st.Name)
}
