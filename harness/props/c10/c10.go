// Package c10: Object Lock protections cannot be circumvented.
//
// Protected states x attack programs. A fresh lock-enabled bucket is prepared
// per program (on a gateway with a versioning directory: versioned bucket; on
// one without: unversioned lock bucket) and one or two object versions are put
// under legal hold, COMPLIANCE / GOVERNANCE retention (at put time or
// afterwards, also on a non-current version) or under the bucket default
// retention rule. A program of 1-6 potentially destructive requests by root, an
// admin, the bucket owner, a user holding every permission except
// s3:BypassGovernanceRetention and one holding it too is then executed. After
// every step a ledger oracle written from the property statement re-reads every
// protected version (bytes) and its retention / legal hold and accepts a
// weakening only through the two doors the statement names.
//
// Every refuting observation is minimised (which earlier accepted steps are
// needed for the last step to break the entry) by re-running sub-programs on
// fresh buckets; the signature is built from the minimal witness:
//
//	<state>:<step>[+<step>...]:<effect>:as-<caller class>
package c10

import (
	"fmt"
	"math/rand"
	"os"
	"sort"
	"strings"
	"sync"
	"sync/atomic"

	"verif/harness/internal/ev"
	"verif/harness/internal/fx"
	"verif/harness/internal/gw"
	"verif/harness/internal/reg"
	"verif/harness/internal/s3c"
	"verif/harness/internal/wid"
)

func init() { reg.Register("C10", "exploration", Run) }

// caller classes
const (
	cRoot = iota
	cAdmin
	cOwner
	cNoByp
	cByp
	nCallers
)

var callerName = [nCallers]string{"root", "admin", "owner", "user-nobypass", "user-bypass"}

const (
	akAdmin = "c10admin"
	akOwner = "c10owner"
	akNoByp = "c10nobyp"
	akByp   = "c10byp"
	skAny   = "c10secret0123456789abcdef"
)

// policy forms
const (
	polNone     = 0 // no bucket policy: users act through the bucket ACL (only the owner can)
	polList     = 1 // explicit action lists (all actions without / with s3:BypassGovernanceRetention)
	polStarDeny = 2 // s3:* for everybody plus an explicit Deny of the bypass action for the users without it
)

type envT struct {
	name      string // "versioned" | "unversioned" (+"-sidecar")
	versioned bool
	fx        *fx.Env
	cl        [nCallers]*s3c.Client
	nb        atomic.Int64
	dead      atomic.Bool
}

type stateKind struct {
	name string
	hold bool
	mode string // explicit retention mode
	def  string // bucket default retention mode
}

var stateKinds = []stateKind{
	{name: "legal-hold", hold: true},
	{name: "compliance", mode: "COMPLIANCE"},
	{name: "governance", mode: "GOVERNANCE"},
	{name: "default-compliance", def: "COMPLIANCE"},
	{name: "default-governance", def: "GOVERNANCE"},
}

type step struct {
	Name   string `json:"step"`
	Caller int    `json:"-"`
	Who    string `json:"caller"`
}

type program struct {
	ID         string `json:"id"`
	Env        int    `json:"-"`
	EnvName    string `json:"env"`
	State      int    `json:"-"`
	StateName  string `json:"state"`
	After      bool   `json:"protection_set_afterwards"`
	Noncurrent bool   `json:"noncurrent"`
	Policy     int    `json:"policy_form"`
	Second     int    `json:"second_entry_state"` // -1: none
	Nested     bool   `json:"nested_key"`
	Steps      []step `json:"steps"`
}

func (p *program) label() string {
	s := stateKinds[p.State].name
	if p.Noncurrent {
		s = "noncurrent-" + s
	}
	return s
}

func stepNames(st []step) string {
	var n []string
	for _, s := range st {
		n = append(n, s.Name)
	}
	return strings.Join(n, "+")
}

type checker struct {
	c     *ev.Ctx
	ws    *wid.Set
	envs  []*envT
	trace bool

	memo sync.Map // minimisation memo: key -> bool
}

func startEnv(c *ev.Ctx, name string, versioned, sidecar bool) (*envT, error) {
	e, err := fx.New("c10"+strings.ReplaceAll(name, "-", ""), gw.Config{Versioning: versioned, Sidecar: sidecar}, 1)
	if err != nil {
		return nil, err
	}
	en := &envT{name: name, versioned: versioned, fx: e}
	for _, u := range []struct{ ak, role string }{{akAdmin, "admin"}, {akOwner, "user"}, {akNoByp, "user"}, {akByp, "user"}} {
		if r := e.CreateUser(u.ak, skAny, u.role, 0, 0); !r.OK() {
			e.Close()
			return nil, fmt.Errorf("create user %s: %s", u.ak, r)
		}
	}
	root := e.Client(0)
	en.cl[cRoot] = root
	en.cl[cAdmin] = root.With(akAdmin, skAny)
	en.cl[cOwner] = root.With(akOwner, skAny)
	en.cl[cNoByp] = root.With(akNoByp, skAny)
	en.cl[cByp] = root.With(akByp, skAny)
	return en, nil
}

// applicable states for an environment: (state index, noncurrent)
type stSel struct {
	st         int
	noncurrent bool
}

func statesFor(e *envT) []stSel {
	var out []stSel
	for i := range stateKinds {
		out = append(out, stSel{i, false})
	}
	if e.versioned {
		for i, k := range stateKinds {
			if k.def == "" {
				out = append(out, stSel{i, true})
			}
		}
	}
	return out
}

func (ck *checker) genPrograms() []*program {
	c := ck.c
	var progs []*program
	mk := func(id string, ei int, sel stSel, after bool, pol, second int, nested bool, steps []step) *program {
		e := ck.envs[ei]
		p := &program{ID: id, Env: ei, EnvName: e.name, State: sel.st, StateName: stateKinds[sel.st].name, After: after || sel.noncurrent,
			Noncurrent: sel.noncurrent, Policy: pol, Second: second, Nested: nested, Steps: steps}
		if stateKinds[sel.st].def != "" {
			p.After = false
		}
		for i := range p.Steps {
			p.Steps[i].Who = callerName[p.Steps[i].Caller]
		}
		return p
	}
	polFor := func(r *rand.Rand, primary int) int {
		if primary == cOwner && r.Intn(2) == 0 {
			return polNone
		}
		if r.Intn(3) == 0 {
			return polStarDeny
		}
		return polList
	}
	// lane A: every state x every single step; the caller rotates (quick) or all callers (thorough)
	ra := c.Rng("A")
	for ei, e := range ck.envs {
		n := 0
		for _, sel := range statesFor(e) {
			for si, sn := range catalog(e.versioned) {
				var callers []int
				if c.Thorough() {
					callers = []int{cRoot, cAdmin, cOwner, cNoByp, cByp}
				} else {
					callers = []int{(si + sel.st + int(c.Seed)) % nCallers}
					if strings.Contains(sn, "bypass") {
						// the bypass door: always exercise the holder and one non-holder
						callers = []int{cByp, []int{cNoByp, cOwner, cRoot, cAdmin}[(si+int(c.Seed))%4]}
					}
				}
				for _, ca := range callers {
					n++
					pol := polFor(ra, ca)
					after := ra.Intn(2) == 0
					progs = append(progs, mk(fmt.Sprintf("A/%s/%d", e.name, n), ei, sel, after, pol, -1, ra.Intn(4) == 0, []step{{Name: sn, Caller: ca}}))
				}
			}
		}
	}
	// lane B: random programs of 2-6 steps
	rb := c.Rng("B")
	nb := c.Pick(800, 60000)
	for i := 0; i < nb; i++ {
		ei := rb.Intn(len(ck.envs))
		e := ck.envs[ei]
		sels := statesFor(e)
		sel := sels[rb.Intn(len(sels))]
		primary := rb.Intn(nCallers)
		cat := catalog(e.versioned)
		ns := 2 + rb.Intn(5)
		var steps []step
		for j := 0; j < ns; j++ {
			var sn string
			switch {
			case j == ns-1 && rb.Intn(10) < 7:
				sn = destructive[rb.Intn(len(destructive))]
				if !e.versioned && strings.Contains(sn, "-vid") {
					sn = "delete"
				}
			case rb.Intn(10) < 4:
				sn = enablers[rb.Intn(len(enablers))]
				if !e.versioned && strings.Contains(sn, "-vid") {
					sn = strings.Replace(sn, "-vid", "", 1)
				}
			default:
				sn = cat[rb.Intn(len(cat))]
			}
			ca := primary
			if rb.Intn(5) == 0 {
				ca = rb.Intn(nCallers)
			}
			steps = append(steps, step{Name: sn, Caller: ca})
		}
		second := -1
		if rb.Intn(3) == 0 {
			second = rb.Intn(3) // an explicit kind
		}
		progs = append(progs, mk(fmt.Sprintf("B/%s/%d", e.name, i+1), ei, sel, rb.Intn(2) == 0, polFor(rb, primary), second, rb.Intn(4) == 0, steps))
	}
	return progs
}

func Run(c *ev.Ctx) int {
	c.Assume("retain-until dates lie between 2031 and 2150, default retention rules span >= 1 year (except the deliberately short rule of the shorter-rule attack, which is never waited for): no verdict depends on the clock")
	c.Assume("the bypass permission is held by the account the bucket policy grants s3:BypassGovernanceRetention; root and admin using the bypass header are not judged (the statement does not say whether they hold it); a holder acting on a GOVERNANCE-only version is outside the statement with or without the header")
	c.Assume("only the bytes of a protected version are compared; in-place metadata changes are reported as observations")
	c.Assume("an object under a bucket default retention rule of >= 1 year counts as protected in the rule's mode for the whole program, whatever is done to the rule afterwards")
	ck := &checker{c: c, ws: wid.NewSet(), trace: os.Getenv("VERIF_C10_TRACE") != ""}
	type envSpec struct {
		name               string
		versioned, sidecar bool
	}
	specs := []envSpec{{"versioned", true, false}, {"unversioned", false, false}}
	if c.Thorough() {
		specs = append(specs, envSpec{"versioned-sidecar", true, true}, envSpec{"unversioned-sidecar", false, true})
	}
	for _, s := range specs {
		e, err := startEnv(c, s.name, s.versioned, s.sidecar)
		if err != nil {
			c.Inconclusive("gateway start (" + s.name + "): " + err.Error())
			continue
		}
		defer e.fx.Close()
		ck.envs = append(ck.envs, e)
	}
	if len(ck.envs) == 0 {
		return c.Finish("no gateway could be started", 1)
	}
	progs := ck.genPrograms()
	jobs := make(chan *program)
	var wg sync.WaitGroup
	workers := 12
	if ck.trace {
		workers = 1
	}
	for w := 0; w < workers; w++ {
		wg.Add(1)
		go func() {
			defer wg.Done()
			for p := range jobs {
				ck.runAndReport(p)
			}
		}()
	}
	for _, p := range progs {
		if !c.Want(p.ID) {
			continue
		}
		jobs <- p
	}
	close(jobs)
	wg.Wait()
	for _, e := range ck.envs {
		if _, cr := e.fx.Dead(); cr != nil {
			c.Violation("gateway-died:"+e.name, "env/"+e.name, map[string]any{"crash": cr.Message, "frame": cr.TopFrame})
		}
	}
	c.Set("programs_generated", len(progs))
	return c.Finish("protected state (legal hold | COMPLIANCE | GOVERNANCE | bucket default rule in either mode; set at put time or afterwards; current or non-current version; versioned or unversioned lock bucket; optional second protected key) x attack program (lane A: every single step of the catalogue, lane B: PRNG programs of 2-6 steps) x caller class (root, admin, owner, user without / with the bypass permission) x policy form; after every step every ledger entry is re-read (bytes by version id / key, GetObjectRetention, GetObjectLegalHold) and compared with the ledger; distinct = (environment, state, callers, step sequence) of programs in which at least one attacking request was accepted", c.Pick(200, 3000))
}

// runAndReport executes one program, minimises every finding and reports it.
func (ck *checker) runAndReport(p *program) {
	c := ck.c
	e := ck.envs[p.Env]
	if e.dead.Load() {
		c.Inconclusive("gateway of environment " + e.name + " is gone")
		return
	}
	res := ck.execute(p, false)
	if res.abort != "" {
		c.Inconclusive(res.abort)
		return
	}
	c.Eval(res.evals)
	c.Add("programs", 1)
	c.Add("steps_executed", len(res.trace))
	accepted := 0
	for _, t := range res.trace {
		if t.Accepted {
			accepted++
		}
	}
	c.Add("attacking_requests_accepted", accepted)
	if accepted > 0 {
		var cs []string
		for _, s := range p.Steps {
			cs = append(cs, s.Who[:1]+s.Who[len(s.Who)-1:])
		}
		c.Distinct(fmt.Sprintf("%s|%s|a%v|p%d|%s|%s", e.name, p.label(), p.After, p.Policy, strings.Join(cs, ","), stepNames(p.Steps)))
	} else {
		c.Add("programs_only_refusals", 1)
	}
	if strings.HasSuffix(p.ID, "7") || len(res.findings) > 0 {
		c.Sample(map[string]any{"program": p, "trace": res.trace, "findings": len(res.findings)})
	}
	for _, f := range res.findings {
		wit := ck.minimise(p, f)
		sig := ck.signature(p, e, wit, f)
		c.Violation(sig, p.ID, map[string]any{"program": p, "trace": res.trace, "broken_at_step": f.Step + 1, "entry": f.Entry, "effect": f.Effect,
			"observation": f.Detail, "minimal_witness": wit, "ledger_before": f.Ledger})
	}
}

func (ck *checker) signature(p *program, e *envT, wit []step, f finding) string {
	st := f.State
	if !e.versioned {
		st += "-unversioned"
	}
	// the caller class is part of the signature where the bypass door is involved
	var callers []string
	seen := map[string]bool{}
	for _, s := range wit {
		if strings.HasSuffix(s.Name, "-bypass") && !seen[s.Who] {
			seen[s.Who] = true
			callers = append(callers, s.Who)
		}
	}
	sig := fmt.Sprintf("%s:%s:%s", st, stepNames(wit), f.Effect)
	if len(callers) > 0 {
		sig += ":bypass-header-by-" + strings.Join(callers, "+")
	}
	return sig
}

// minimise finds the smallest set of earlier accepted steps that, followed by the
// breaking step, reproduces the same effect on the same entry on a fresh bucket.
func (ck *checker) minimise(p *program, f finding) []step {
	last := p.Steps[f.Step]
	var prior []int
	for j := 0; j < f.Step; j++ {
		if f.AcceptedBefore[j] {
			prior = append(prior, j)
		}
	}
	try := func(idx []int) bool {
		var steps []step
		for _, j := range idx {
			steps = append(steps, p.Steps[j])
		}
		steps = append(steps, last)
		q := *p
		q.Steps = steps
		q.ID = p.ID + "/min"
		var kb strings.Builder
		fmt.Fprintf(&kb, "%d|%d|%v|%v|%d|%d|%v|%d|%s", p.Env, p.State, q.After, q.Noncurrent, q.Policy, q.Second, q.Nested, f.EntryIdx, f.Effect)
		for _, s := range steps {
			fmt.Fprintf(&kb, "|%s@%d", s.Name, s.Caller)
		}
		if v, ok := ck.memo.Load(kb.String()); ok {
			return v.(bool)
		}
		r := ck.execute(&q, true)
		ok := false
		if r.abort == "" {
			for _, g := range r.findings {
				if g.Step == len(steps)-1 && g.EntryIdx == f.EntryIdx && g.Effect == f.Effect {
					ok = true
				}
			}
			ck.memo.Store(kb.String(), ok)
		}
		ck.c.Add("minimisation_runs", 1)
		return ok
	}
	if len(prior) == 0 || try(nil) {
		return []step{last}
	}
	for _, j := range prior {
		if try([]int{j}) {
			return []step{p.Steps[j], last}
		}
	}
	for a := 0; a < len(prior); a++ {
		for b := a + 1; b < len(prior); b++ {
			if try([]int{prior[a], prior[b]}) {
				return []step{p.Steps[prior[a]], p.Steps[prior[b]], last}
			}
		}
	}
	// no smaller witness: all accepted earlier steps (distinct names, sorted for stability) + the last
	names := map[string]step{}
	for _, j := range prior {
		names[p.Steps[j].Name] = p.Steps[j]
	}
	var keys []string
	for k := range names {
		keys = append(keys, k)
	}
	sort.Strings(keys)
	var out []step
	for _, k := range keys {
		out = append(out, names[k])
	}
	return append(out, last)
}
