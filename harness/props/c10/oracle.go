package c10

import (
	"bytes"
	"encoding/xml"
	"fmt"
	"strconv"
	"strings"
	"time"

	"verif/harness/internal/s3c"
	"verif/harness/internal/wid"
)

type retn struct {
	Mode  string    `json:"mode"`
	Until time.Time `json:"until"`
}

// entry is one protected version in the ledger.
type entry struct {
	Key   string `json:"key"`
	Vid   string `json:"version_id"` // "" in the unversioned environment
	Wid   int    `json:"write_id"`
	Len   int    `json:"bytes"`
	Hold  bool   `json:"legal_hold"`
	Ret   *retn  `json:"retention,omitempty"`
	Def   string `json:"default_rule_mode,omitempty"`
	State string `json:"state"`

	w            *wid.Write
	gone         bool
	lockDisabled bool
	metaChanged  bool
}

type finding struct {
	Step           int
	EntryIdx       int
	Entry          string
	State          string
	Effect         string
	Detail         string
	Ledger         []entry
	AcceptedBefore []bool
}

type result struct {
	trace    []stepLog
	findings []finding
	abort    string
	evals    int
}

type run struct {
	ck     *checker
	e      *envT
	p      *program
	b      string
	probe  bool
	ledger []*entry
	main   *entry

	srcKey, otherKey string
	early            *earlyUpload // multipart upload on the main key, initiated (one part uploaded) before the key was protected
	otherVids        []string
	tops             []string
	evals            int
}

type earlyUpload struct {
	id, etag string
	w        *wid.Write
}

func (r *run) root() *s3c.Client { return r.e.cl[cRoot] }

func allActions(withBypass bool) string {
	acts := []string{"s3:GetBucketAcl", "s3:PutBucketAcl", "s3:DeleteBucket", "s3:PutBucketVersioning", "s3:GetBucketVersioning",
		"s3:GetBucketPolicy", "s3:AbortMultipartUpload", "s3:ListMultipartUploadParts", "s3:ListBucketMultipartUploads", "s3:PutObject", "s3:GetObject",
		"s3:GetObjectVersion", "s3:DeleteObject", "s3:GetObjectAcl", "s3:GetObjectAttributes", "s3:PutObjectAcl", "s3:GetBucketTagging", "s3:PutBucketTagging",
		"s3:GetObjectTagging", "s3:PutObjectTagging", "s3:DeleteObjectTagging", "s3:ListBucketVersions", "s3:ListBucket",
		"s3:PutBucketObjectLockConfiguration", "s3:GetObjectLegalHold", "s3:PutObjectLegalHold", "s3:GetObjectRetention", "s3:PutObjectRetention",
		"s3:PutBucketOwnershipControls", "s3:GetBucketOwnershipControls"}
	if withBypass {
		acts = append(acts, "s3:BypassGovernanceRetention")
	}
	return `["` + strings.Join(acts, `","`) + `"]`
}

func policyDoc(form int, b string) []byte {
	res := `["arn:aws:s3:::` + b + `","arn:aws:s3:::` + b + `/*"]`
	switch form {
	case polList:
		return []byte(`{"Version":"2012-10-17","Statement":[` +
			`{"Effect":"Allow","Principal":{"AWS":["` + akNoByp + `","` + akOwner + `"]},"Action":` + allActions(false) + `,"Resource":` + res + `},` +
			`{"Effect":"Allow","Principal":{"AWS":["` + akByp + `"]},"Action":` + allActions(true) + `,"Resource":` + res + `}]}`)
	case polStarDeny:
		return []byte(`{"Version":"2012-10-17","Statement":[` +
			`{"Effect":"Allow","Principal":{"AWS":["` + akNoByp + `","` + akOwner + `","` + akByp + `"]},"Action":"s3:*","Resource":` + res + `},` +
			`{"Effect":"Deny","Principal":{"AWS":["` + akNoByp + `","` + akOwner + `"]},"Action":"s3:BypassGovernanceRetention","Resource":"arn:aws:s3:::` + b + `/*"}]}`)
	}
	return nil
}

// holdsBypass: does the caller hold the bypass permission in this program's bucket?
// 1 = yes, 0 = no, -1 = not stated (root / admin)
func (r *run) holdsBypass(caller int) int {
	switch caller {
	case cByp:
		if r.p.Policy != polNone {
			return 1
		}
		return 0
	case cRoot, cAdmin:
		return -1
	}
	return 0
}

func lockHdr(k stateKind) []string {
	var h []string
	if k.hold {
		h = append(h, "X-Amz-Object-Lock-Legal-Hold", "ON")
	}
	if k.mode != "" {
		h = append(h, "X-Amz-Object-Lock-Mode", k.mode, "X-Amz-Object-Lock-Retain-Until-Date", dateSet)
	}
	return h
}

func mustTime(s string) time.Time {
	t, err := time.Parse(time.RFC3339, s)
	if err != nil {
		panic(err)
	}
	return t
}

// setup prepares bucket, accounts' policy, auxiliary keys and the protected entries.
func (r *run) setup() error {
	e, p := r.e, r.p
	root := r.root()
	short := "v"
	if !e.versioned {
		short = "u"
	}
	if strings.Contains(e.name, "sidecar") {
		short += "s"
	}
	r.b = fmt.Sprintf("c10%s-%d", short, e.nb.Add(1))
	b := r.b
	if cr := e.cl[cOwner].CreateBucket(b, "x-amz-bucket-object-lock-enabled", "true"); !cr.OK() {
		if cr.Err != nil {
			return fmt.Errorf("create bucket: %s", cr)
		}
		if cr2 := root.CreateBucket(b, "x-amz-bucket-object-lock-enabled", "true"); !cr2.OK() {
			return fmt.Errorf("create bucket: %s", cr2)
		}
		if ch := root.Admin("/change-bucket-owner", s3c.Q("bucket", b, "owner", akOwner), nil); !ch.OK() {
			return fmt.Errorf("change bucket owner: %s", ch)
		}
	}
	if doc := policyDoc(p.Policy, b); doc != nil {
		if pr := root.Sub("PUT", b, "", "policy=", doc); !pr.OK() {
			return fmt.Errorf("put bucket policy: %s %s", pr, pr.Body)
		}
	}
	kind := stateKinds[p.State]
	put := func(key string, hdr ...string) (*wid.Write, string, error) {
		w := r.ck.ws.Mk(false)
		resp := root.PutObject(b, key, w.Body, append(w.Hdr(), hdr...)...)
		if !resp.OK() {
			return nil, "", fmt.Errorf("seed put %s: %s", key, resp)
		}
		vid := resp.Header.Get("X-Amz-Version-Id")
		if e.versioned && vid == "" {
			return nil, "", fmt.Errorf("seed put %s: no version id in a lock bucket on a gateway with versioning", key)
		}
		if !e.versioned {
			vid = ""
		}
		return w, vid, nil
	}
	r.srcKey, r.otherKey = "aux/src", "aux/other"
	if _, _, err := put(r.srcKey); err != nil {
		return err
	}
	_, ov, err := put(r.otherKey)
	if err != nil {
		return err
	}
	if e.versioned {
		r.otherVids = append(r.otherVids, ov)
		if _, ov2, err := put(r.otherKey); err == nil {
			r.otherVids = append(r.otherVids, ov2)
		}
	}
	if kind.def != "" {
		body := lockConfigXML("Enabled", kind.def, "Years", 2)
		if p.Nested {
			body = lockConfigXML("Enabled", kind.def, "Days", 500)
		}
		if lr := root.Sub("PUT", b, "", "object-lock=", body); !lr.OK() {
			return fmt.Errorf("put default retention rule: %s", lr)
		}
	}
	K := "obj"
	if p.Nested {
		K = "dir/sub/obj"
	}
	label := p.label()
	// an upload on the key that is still open when the key becomes protected
	{
		w := r.ck.ws.Mk(false)
		if id, cr := root.CreateMPU(b, K, w.Hdr()...); cr.OK() {
			if up := root.UploadPart(b, K, id, 1, w.Body); up.OK() {
				r.early = &earlyUpload{id: id, etag: strings.Trim(up.Header.Get("Etag"), `"`), w: w}
			}
		}
	}
	var en *entry
	if !p.After {
		w, vid, err := put(K, lockHdr(kind)...)
		if err != nil {
			return err
		}
		en = &entry{Key: K, Vid: vid, w: w}
	} else {
		w, vid, err := put(K)
		if err != nil {
			return err
		}
		en = &entry{Key: K, Vid: vid, w: w}
		addr := ""
		if p.Noncurrent {
			_, vid2, err := put(K)
			if err != nil {
				return err
			}
			r.tops = append(r.tops, vid2)
			addr = vid
		} else if e.versioned && p.Nested {
			addr = vid
		}
		if kind.hold {
			if hr := root.Sub("PUT", b, K, subQ("legal-hold", addr), holdXML(true)); !hr.OK() {
				return fmt.Errorf("put legal hold: %s", hr)
			}
		}
		if kind.mode != "" {
			if rr := root.Sub("PUT", b, K, subQ("retention", addr), retentionXML(kind.mode, dateSet)); !rr.OK() {
				return fmt.Errorf("put retention: %s", rr)
			}
		}
	}
	en.Hold, en.Def, en.State = kind.hold, kind.def, label
	if kind.mode != "" {
		en.Ret = &retn{kind.mode, mustTime(dateSet)}
	}
	r.ledger = append(r.ledger, en)
	r.main = en
	if p.Second >= 0 {
		k2 := stateKinds[p.Second]
		w, vid, err := put("second/obj2", lockHdr(k2)...)
		if err != nil {
			return err
		}
		st2 := k2.name
		if kind.def != "" {
			st2 = kind.name + "+" + k2.name // also under the bucket default rule
		}
		e2 := &entry{Key: "second/obj2", Vid: vid, w: w, Hold: k2.hold, Def: kind.def, State: st2}
		if k2.mode != "" {
			e2.Ret = &retn{k2.mode, mustTime(dateSet)}
		}
		r.ledger = append(r.ledger, e2)
	}
	for _, en := range r.ledger {
		en.Wid, en.Len = en.w.ID, len(en.w.Body)
	}
	// the protected state must be what the ledger says before the first attack
	for _, en := range r.ledger {
		g := r.getData(en)
		if !(g.OK() && bytes.Equal(g.Body, en.w.Body)) {
			return fmt.Errorf("protected version not readable after setup: %s", g)
		}
		if en.Ret != nil {
			o, code := r.readRetention(en)
			if o == nil || o.Mode != en.Ret.Mode || !o.Until.Equal(en.Ret.Until) {
				return fmt.Errorf("retention after setup is %v %s, set %v", o, code, *en.Ret)
			}
		} else if en.Def != "" {
			if o, _ := r.readRetention(en); o != nil {
				en.Ret = o
			} else if !r.probe {
				r.ck.c.Observe("an object under the bucket default retention rule reports no retention of its own (GetObjectRetention: NoSuchObjectLockConfiguration); protection is evaluated from the bucket rule at request time")
			}
		}
		if en.Hold {
			st, code := r.readHold(en)
			if st != "ON" {
				return fmt.Errorf("legal hold after setup is %q %s", st, code)
			}
		}
	}
	return nil
}

func (r *run) getData(en *entry) *s3c.Resp {
	r.evals++
	if r.e.versioned {
		return r.root().GetObjectV(r.b, en.Key, en.Vid)
	}
	return r.root().GetObject(r.b, en.Key)
}

func (r *run) readRetention(en *entry) (*retn, string) {
	r.evals++
	resp := r.root().Do(&s3c.Req{Method: "GET", Path: s3c.ObjPath(r.b, en.Key), Query: subQ("retention", en.Vid)})
	if resp.Err != nil {
		return nil, "transport"
	}
	if !resp.OK() {
		return nil, errText(resp)
	}
	var x struct {
		Mode            string
		RetainUntilDate string
	}
	if err := xml.Unmarshal(resp.Body, &x); err != nil {
		return nil, "unparsable body"
	}
	t, err := time.Parse(time.RFC3339Nano, x.RetainUntilDate)
	if err != nil || x.Mode == "" {
		return nil, "no-mode-or-date: " + string(resp.Body)
	}
	return &retn{x.Mode, t}, ""
}

func (r *run) readHold(en *entry) (string, string) {
	r.evals++
	resp := r.root().Do(&s3c.Req{Method: "GET", Path: s3c.ObjPath(r.b, en.Key), Query: subQ("legal-hold", en.Vid)})
	if resp.Err != nil {
		return "", "transport"
	}
	if !resp.OK() {
		return "", errText(resp)
	}
	var x struct{ Status string }
	xml.Unmarshal(resp.Body, &x)
	return x.Status, ""
}

// errText renders status, code and message of an error answer.
func errText(resp *s3c.Resp) string {
	if resp.Err != nil {
		return resp.String()
	}
	msg := ""
	if i := bytes.Index(resp.Body, []byte("<Message>")); i >= 0 {
		if j := bytes.Index(resp.Body[i:], []byte("</Message>")); j > 0 {
			msg = string(resp.Body[i+9 : i+j])
		}
	}
	if len(msg) > 70 {
		msg = msg[:70]
	}
	if msg != "" {
		return resp.String() + " (" + msg + ")"
	}
	return resp.String()
}

func lockMissing(code string) bool {
	return strings.Contains(code, "missing Object Lock Configuration")
}

func matches(ts []target, en *entry) bool {
	for _, t := range ts {
		if t.Key == en.Key && t.Vid == en.Vid {
			return true
		}
	}
	return false
}

func (r *run) observe(s string) {
	if !r.probe {
		r.ck.c.Observe(s)
	}
}

// lossAllowed: may the entry's data have disappeared / changed through this step?
func (r *run) lossAllowed(en *entry, lg *stepLog) bool {
	if !en.Hold && en.Ret == nil && en.Def == "" {
		return true // no protection left (switched off through a legitimate door earlier)
	}
	compliance := (en.Ret != nil && en.Ret.Mode == "COMPLIANCE") || en.Def == "COMPLIANCE"
	if en.Hold || compliance {
		return false
	}
	// GOVERNANCE only
	if !(lg.Accepted && (lg.Kind == "delete" || lg.Kind == "overwrite") && matches(lg.Targets, en)) {
		return false
	}
	switch r.holdsBypass(lg.caller) {
	case 1:
		if !lg.Bypass {
			r.observe("a GOVERNANCE-only version was destroyed by a holder of the bypass permission without the bypass header (" + lg.Step + "; outside the statement)")
		}
		return true
	case -1:
		if lg.Bypass {
			r.observe("root/admin destroyed a GOVERNANCE-only version with the bypass header (not judged)")
			return true
		}
	}
	return false
}

func (r *run) snapshot() []entry {
	var out []entry
	for _, en := range r.ledger {
		if !en.gone {
			c := *en
			if en.Ret != nil {
				rc := *en.Ret
				c.Ret = &rc
			}
			out = append(out, c)
		}
	}
	return out
}

// judge re-reads every ledger entry after step k.
func (r *run) judge(k int, lg *stepLog, res *result) {
	before := r.snapshot()
	add := func(i int, en *entry, effect, detail string) {
		var acc []bool
		for _, t := range res.trace {
			acc = append(acc, t.Accepted)
		}
		who := en.Key
		if en.Vid != "" {
			who += "?versionId=" + en.Vid
		}
		res.findings = append(res.findings, finding{Step: k, EntryIdx: i, Entry: who, State: en.State, Effect: effect, Detail: detail, Ledger: before, AcceptedBefore: acc})
	}
	for i, en := range r.ledger {
		if en.gone {
			continue
		}
		g := r.getData(en)
		if g.Err != nil {
			res.abort = "transport error while re-reading a protected version"
			return
		}
		if !(g.Status == 200 && bytes.Equal(g.Body, en.w.Body)) {
			effect := "data-unreadable"
			switch {
			case g.Status == 200:
				effect = "data-replaced"
			case g.Status == 404 || g.Status == 405 || strings.Contains(g.ErrCode(), "NoSuch") || strings.Contains(errText(g), "Invalid version id"):
				effect = "data-gone"
			}
			en.gone = true
			if r.lossAllowed(en, lg) {
				if !r.probe {
					r.ck.c.Add("ledger_entries_removed_through_a_legitimate_door", 1)
				}
				continue
			}
			add(i, en, effect, fmt.Sprintf("GET of the protected version answers %s (%d bytes; recorded write %d has %d bytes)", g, len(g.Body), en.w.ID, len(en.w.Body)))
			continue
		}
		if mw := g.Header.Get("X-Amz-Meta-Wid"); mw != strconv.Itoa(en.w.ID) && lg.Accepted && !en.metaChanged {
			en.metaChanged = true
			r.observe("metadata of a protected version was changed in place while its bytes stayed (" + lg.Step + ")")
		}
		if en.lockDisabled {
			continue
		}
		targeted := lg.Accepted && matches(lg.Targets, en)
		// retention
		if en.Ret != nil {
			o, code := r.readRetention(en)
			if code == "transport" {
				res.abort = "transport error while reading retention"
				return
			}
			effect := ""
			switch {
			case o == nil && lockMissing(code):
				effect = "lock-disabled"
			case o == nil && strings.Contains(code, "NoSuchObjectLockConfiguration"):
				effect = "retention-removed"
			case o == nil:
				effect = "retention-unreadable"
			case en.Ret.Mode == "COMPLIANCE" && o.Mode != "COMPLIANCE":
				effect = "mode-downgraded"
			case o.Until.Before(en.Ret.Until):
				effect = "retention-shortened"
			}
			if effect == "" && targeted && lg.Kind == "retention" && !lg.sentUntil.IsZero() && !o.Until.Before(lg.sentUntil.Add(-24*time.Hour)) && !o.Until.Equal(lg.sentUntil) && !o.Until.Equal(en.Ret.Until) {
				// the accepted request named an instant; what is stored is another one (not the previous value either)
				add(i, en, "retention-stored-differs-from-the-date-sent", fmt.Sprintf("PutObjectRetention named %s (%s), GetObjectRetention answers %s",
					lg.sentUntil.UTC().Format(time.RFC3339), lg.Request, o.Until.UTC().Format(time.RFC3339)))
			}
			if effect == "" {
				if o.Mode != en.Ret.Mode || !o.Until.Equal(en.Ret.Until) {
					en.Ret = o // strengthened
				}
			} else {
				door := false
				if en.Ret.Mode == "GOVERNANCE" && targeted && lg.Kind == "retention" && effect != "lock-disabled" && effect != "retention-unreadable" {
					switch r.holdsBypass(lg.caller) {
					case 1:
						door = true
						if !lg.Bypass {
							r.observe("a GOVERNANCE retention was weakened by a holder of the bypass permission without the bypass header (outside the statement)")
						}
					case -1:
						if lg.Bypass {
							door = true
							r.observe("root/admin weakened a GOVERNANCE retention with the bypass header (not judged)")
						}
					}
				}
				if door {
					if !r.probe {
						r.ck.c.Add("governance_retention_changed_through_the_bypass_door", 1)
					}
				} else {
					add(i, en, effect, fmt.Sprintf("GetObjectRetention now answers %v %s; recorded %s until %s", o, code, en.Ret.Mode, en.Ret.Until.Format(time.RFC3339)))
				}
				if effect == "lock-disabled" || effect == "retention-unreadable" {
					en.lockDisabled = true
					continue
				}
				en.Ret = o // nil when removed
			}
		} else if targeted && lg.Kind == "retention" {
			if o, _ := r.readRetention(en); o != nil {
				if !lg.sentUntil.IsZero() && !o.Until.Equal(lg.sentUntil) {
					add(i, en, "retention-stored-differs-from-the-date-sent", fmt.Sprintf("PutObjectRetention named %s (%s), GetObjectRetention answers %s",
						lg.sentUntil.UTC().Format(time.RFC3339), lg.Request, o.Until.UTC().Format(time.RFC3339)))
				}
				en.Ret = o // a retention was added to a version that had none
			}
		}
		// legal hold
		if en.Hold {
			st, code := r.readHold(en)
			if code == "transport" {
				res.abort = "transport error while reading legal hold"
				return
			}
			if st != "ON" {
				effect := "hold-removed"
				if lockMissing(code) {
					effect = "lock-disabled"
				}
				if targeted && lg.Kind == "hold-off" && effect == "hold-removed" {
					if !r.probe {
						r.ck.c.Add("legal_hold_switched_off_through_the_legitimate_door", 1)
					}
				} else {
					add(i, en, effect, fmt.Sprintf("GetObjectLegalHold now answers %q %s; recorded ON", st, code))
				}
				if effect == "lock-disabled" {
					en.lockDisabled = true
					continue
				}
				en.Hold = false
			}
		} else if targeted && lg.Kind == "hold-on" {
			if st, _ := r.readHold(en); st == "ON" {
				en.Hold = true
			}
		}
	}
	// over-denial is only counted
	if !lg.Accepted && !lg.NA && !r.probe {
		m := r.main
		switch {
		case m.lockDisabled || strings.Contains(lg.Step, "bogus"):
		case strings.HasPrefix(lg.Step, "put-retention-extend") && m.Ret != nil && !m.gone:
			r.observe("extending an existing retention is refused (" + lg.code + ")")
		case lg.Step == "overwrite-put" && r.e.versioned:
			r.observe("a PUT that would only add a new version on top of a protected version is refused in a versioned bucket (" + lg.code + ")")
		case lg.Bypass && r.holdsBypass(lg.caller) == 1 && !m.gone && !m.Hold && m.Def != "COMPLIANCE" && (m.Ret == nil || m.Ret.Mode == "GOVERNANCE") && matches(lg.Targets, m):
			r.observe("a holder of the bypass permission sending the bypass header is refused on a GOVERNANCE-only version (" + lg.Step + ": " + lg.code + ")")
		}
	}
}

// execute runs a program on a fresh bucket. probe=true: no counters / observations (minimisation re-run).
func (ck *checker) execute(p *program, probe bool) *result {
	e := ck.envs[p.Env]
	r := &run{ck: ck, e: e, p: p, probe: probe}
	res := &result{}
	if err := r.setup(); err != nil {
		res.abort = "setup: " + err.Error()
		if _, cr := e.fx.Dead(); cr != nil {
			e.dead.Store(true)
		}
		return res
	}
	if ck.trace && !probe {
		fmt.Printf("--- %s env=%s state=%s after=%v policy=%d second=%d bucket=%s\n", p.ID, e.name, p.label(), p.After, p.Policy, p.Second, r.b)
	}
	for k, st := range p.Steps {
		lg := r.do(st)
		res.trace = append(res.trace, lg)
		if ck.trace && !probe {
			fmt.Printf("    %-45s %-14s %-28s %s\n", lg.Step, lg.Caller, lg.Status, lg.Request)
		}
		if lg.transport {
			if _, cr := e.fx.Dead(); cr != nil {
				e.dead.Store(true)
				if !probe {
					ck.c.Violation("gateway-died:"+st.Name, p.ID, map[string]any{"program": p, "trace": res.trace, "crash": cr.Message, "frame": cr.TopFrame})
				}
			}
			res.abort = "transport error during " + st.Name
			break
		}
		n := len(res.findings)
		r.judge(k, &res.trace[k], res)
		if ck.trace && !probe {
			for _, f := range res.findings[n:] {
				fmt.Printf("      !! %s %s: %s\n", f.Entry, f.Effect, f.Detail)
			}
		}
		if res.abort != "" {
			break
		}
	}
	res.evals = r.evals
	return res
}
