//go:build !solo || solo_c06

package props

import _ "verif/harness/props/c06"
