// Package props links every property check into vcheck.
package props

import (
	_ "verif/harness/props/c13"
	_ "verif/harness/props/selftest"
)
