package c12

import (
	"bytes"
	"fmt"
	"regexp"
	"strconv"
	"strings"
	"sync"
	"time"

	"verif/harness/internal/ev"
	"verif/harness/internal/fx"
	"verif/harness/internal/gw"
	"verif/harness/internal/s3c"
)

// ---------------------------------------------------------------------------
// lane B: chunked PUTs to a real gateway with chosen socket write sizes

const bkt = "c12-bucket"

type e2eDef struct {
	n     int
	sizes []int
	cls   string
}

var e2eDefs = []e2eDef{
	{5, []int{2}, "equal+rest"},
	{40, []int{17, 1}, "unequal-2digit"},
	{3, []int{1}, "all-1byte"},
	{1025, []int{1, 64}, "mixed-1byte"},
	{8193, []int{4096, 1}, "mixed-1byte"},
	{70000, []int{8192, 1, 70000}, "unequal"},
	{0, nil, "empty"},
}

type e2e struct {
	c    *ev.Ctx
	env  *fx.Env
	base uint64
	mu   sync.Mutex
	dead bool
}

func (e *e2e) client() *s3c.Client { return e.env.Client(0) }

// transportFailure decides between "gateway died" (violation) and inconclusive
func (e *e2e) transportFailure(id string, what string, r *s3c.Resp, detail map[string]any) {
	e.mu.Lock()
	defer e.mu.Unlock()
	// a dying process needs a moment to be reaped
	e.env.GWs[0].WaitExit(1500 * time.Millisecond)
	if _, cr := e.env.Dead(); cr != nil {
		if !e.dead {
			e.dead = true
			detail["crash"] = cr.Message
			detail["frame"] = crashFrame(cr)
			detail["request"] = what
			e.c.Violation("e2e:gateway-died:"+crashFrame(cr), id, detail)
		}
		return
	}
	e.c.Inconclusive("transport error without a dead gateway: " + what)
}

var reGwFrame = regexp.MustCompile(`(?m)^github\.com/versity/versitygw/(\S+)\(`)

// crashFrame: innermost gateway function of the goroutine that panicked (package-relative name)
func crashFrame(cr *gw.Crash) string {
	if m := reGwFrame.FindStringSubmatch(cr.Excerpt); m != nil {
		f := m[1]
		if i := strings.LastIndex(f, "/"); i >= 0 {
			f = f[i+1:]
		}
		return f
	}
	return "unknown"
}

type wirePlan struct {
	name  string
	frags []int // nil = one write
	cuts  []int // intended boundaries (for classification)
}

func (e *e2e) plans(id string, lay *layout, thorough bool) []wirePlan {
	L := lay.n
	var out []wirePlan
	out = append(out, wirePlan{name: "single-write"})
	fixed := func(k int) {
		var cuts []int
		for p := k; p < L; p += k {
			cuts = append(cuts, p)
		}
		out = append(out, wirePlan{name: "fixed-" + strconv.Itoa(k), frags: []int{k}, cuts: cuts})
	}
	if L <= 800 {
		fixed(1)
	}
	if L <= 4000 {
		fixed(7)
	}
	if L <= 40000 {
		fixed(64)
	}
	if L > 64 {
		fixed(4096)
	}
	cutAt := func(name string, cuts ...int) {
		var ok []int
		for _, c := range cuts {
			if c > 0 && c < L && (len(ok) == 0 || c > ok[len(ok)-1]) {
				ok = append(ok, c)
			}
		}
		if len(ok) == 0 {
			return
		}
		out = append(out, wirePlan{name: name, frags: append(cutsToFrags(ok), L), cuts: ok})
	}
	// a boundary inside the first header, inside chunk data, and k bytes into later framing
	cutAt("first-header+1", 1)
	cutAt("first-header+40", 40)
	if len(lay.dataEnd) > 0 {
		cutAt("inside-data", lay.hdrEnd[0]+(lay.dataEnd[0]-lay.hdrEnd[0])/2)
		cutAt("data-end", lay.dataEnd[0])
		hs := []int{0}
		if n := len(lay.dataEnd); n > 1 {
			hs = append(hs, n-1)
			if n > 3 && thorough {
				hs = append(hs, n/2)
			}
		}
		for _, h := range hs {
			for _, k := range []int{1, 2, 3, 4, 20} {
				cutAt(fmt.Sprintf("framing-after-chunk%d+%d", h, k), lay.dataEnd[h]+k)
			}
			if h+1 < len(lay.hdrEnd) {
				cutAt(fmt.Sprintf("framing-after-chunk%d-end-1", h), lay.hdrEnd[h+1]-1)
			}
		}
		// boundary right after the first two hex digits of a later chunk size
		for h := 0; h+1 < len(lay.dataEnd); h++ {
			if r := regOf(lay, "size", h+1); r != nil && r.end-r.start >= 2 {
				cutAt(fmt.Sprintf("size-digits-of-chunk%d+2", h+1), r.start+2)
				break
			}
		}
		cutAt("closing-crlf-1", L-1)
		cutAt("closing-crlf-3", L-3)
	}
	n := 2
	if thorough {
		n = 8
	}
	for i := 0; i < n; i++ {
		g := newPrng(e.base, fmt.Sprintf("%s/prng/%d", id, i))
		cutAt(fmt.Sprintf("prng-biased-%d", i), biasedCuts(lay, g, 1+g.intn(5))...)
	}
	return out
}

func planClass(name string) string {
	if i := strings.LastIndexAny(name, "+-"); i > 0 && strings.HasPrefix(name, "framing-after-chunk") {
		return "framing-after-chunk"
	}
	if strings.HasPrefix(name, "size-digits-of-chunk") {
		return "size-digits+2"
	}
	if strings.HasPrefix(name, "prng-biased") {
		return "prng-biased"
	}
	return name
}

func (e *e2e) positives(thorough bool) {
	c := e.c
	type job struct {
		id   string
		sp   *spec
		lay  *layout
		plan wirePlan
		key  string
	}
	var jobs []job
	k := 0
	for di, d := range e2eDefs {
		for mi, mode := range modes {
			algos := []string{s3c.Algos[(di+mi)%5]}
			if mode == mSigned {
				algos = []string{""}
			} else if di == 1 || thorough && di <= 3 {
				algos = s3c.Algos
			}
			for _, algo := range algos {
				sid := fmt.Sprintf("E%02d-%s-%s-%d", k, mode, algo, d.n)
				k++
				pay := make([]byte, d.n)
				newPrng(e.base, "pay/"+sid).fill(pay)
				sp := &spec{mode: mode, algo: algo, sizes: d.sizes, seqCls: d.cls, pay: pay}
				lay, err := buildLayout(sp, encode(sp.stream(), pay, dSeed))
				if err != nil {
					c.Inconclusive("encoder/layout self-check failed: " + err.Error())
					continue
				}
				if !c.Want("B/pos/" + sid) {
					continue
				}
				for pi, pl := range e.plans(sid, lay, thorough) {
					id := fmt.Sprintf("B/pos/%s/%s", sid, pl.name)
					if !c.Want(id) {
						continue
					}
					// quick tier: the long bodies only with a subset of the plans
					if !thorough && d.n > 8193 && pi%3 != 0 {
						continue
					}
					jobs = append(jobs, job{id: id, sp: sp, lay: lay, plan: pl, key: fmt.Sprintf("pos/%s/%s", sid, pl.name)})
				}
			}
		}
	}
	run := func(j job) {
		cl := e.client()
		sp := j.sp
		// one upload in three also carries a (true) Content-MD5 of the payload: the other readers stacked around the
		// decoder must see the decoded payload, whatever the chunking and the fragmentation
		var company s3c.H
		companyCls := "alone"
		if newPrng(e.base, "company/"+j.id).intn(3) == 0 {
			company, companyCls = s3c.H{{"Content-MD5", s3c.MD5B64(sp.pay)}}, "with-content-md5"
		}
		put := func(key string, frags []int) *s3c.Resp {
			return cl.Do(&s3c.Req{Method: "PUT", Path: s3c.ObjPath(bkt, key), Body: sp.pay, Stream: sp.stream(), Fragments: frags, Header: company})
		}
		detail := map[string]any{"accompanying_headers": companyCls,"mode": sp.mode, "algo": sp.algo, "payload_len": len(sp.pay), "chunk_sizes": head(sp.chunkLens(), 12), "body_len": j.lay.n,
			"socket_writes": j.plan.name, "write_sizes": head(j.plan.frags, 12), "intended_boundaries": head(j.plan.cuts, 12)}
		r := put(j.key, j.plan.frags)
		c.Eval(1)
		if r.Err != nil {
			e.transportFailure(j.id, "chunked PUT "+j.plan.name, r, detail)
			return
		}
		rdr := readerOf(sp.mode)
		cls := "aligned"
		if rdr == "signed" {
			cls = stradClass(j.lay, j.plan.cuts)
		}
		// where the gateway's reads are really cut is under our control only while request head and body
		// fit into its first 4 KiB socket read or arrive as separate small writes; beyond that the read
		// boundaries (4 KiB prefetch, 32 KiB copies, TCP segmentation) may fall anywhere
		refusedCls := cls
		if rdr == "signed" && cls != "nonfirst-header-straddle" && j.lay.n > 3000 {
			refusedCls = "uncontrolled-read-boundaries"
		}
		c.Distinct("B|pos|" + sp.mode + "|" + sp.algo + "|" + sp.seqCls + "|" + planClass(j.plan.name) + "|" + companyCls)
		detail["put"] = r.String()
		if r.OK() {
			g := cl.GetObject(bkt, j.key)
			if g.Err != nil {
				e.transportFailure(j.id, "GET after PUT", g, detail)
				return
			}
			if g.Status != 200 || !bytes.Equal(g.Body, sp.pay) {
				detail["get"] = g.String()
				detail["got_len"] = len(g.Body)
				detail["got"] = preview(g.Body, 60)
				detail["want"] = preview(sp.pay, 60)
				c.Violation("e2e:pos:"+rdr+":stored-object-differs:"+cls, j.id, detail)
			}
			return
		}
		// refused: is the very same stream accepted when written in one piece?
		if j.plan.frags == nil {
			if refusedCls == "uncontrolled-read-boundaries" {
				c.Violation("e2e:pos:"+rdr+":legal-refused-under-fragmentation:"+refusedCls, j.id, detail)
			} else {
				c.Violation("e2e:pos:"+rdr+":legal-stream-refused-in-one-write", j.id, detail)
			}
			return
		}
		ctl := put(j.key+".ctl", nil)
		if ctl.Err != nil {
			e.transportFailure(j.id, "control PUT", ctl, detail)
			return
		}
		detail["control_put_single_write"] = ctl.String()
		if ctl.OK() || refusedCls == "uncontrolled-read-boundaries" {
			c.Violation("e2e:pos:"+rdr+":legal-refused-under-fragmentation:"+refusedCls, j.id, detail)
		} else {
			c.Violation("e2e:pos:"+rdr+":legal-stream-refused-in-one-write", j.id, detail)
		}
	}
	var wg sync.WaitGroup
	ch := make(chan job)
	for i := 0; i < 8; i++ {
		wg.Add(1)
		go func() {
			defer wg.Done()
			for j := range ch {
				run(j)
			}
		}()
	}
	for i, j := range jobs {
		if i == 0 {
			c.Sample(map[string]any{"lane": "e2e", "case": j.id, "mode": j.sp.mode, "algo": j.sp.algo, "payload_len": len(j.sp.pay), "socket_write_sizes": j.plan.frags})
		}
		ch <- j
	}
	close(ch)
	wg.Wait()
	c.Add("e2e_positive_puts", len(jobs))
}

// ---------------------------------------------------------------------------

type badDef struct {
	kind   string
	region string
	strict bool
	prep   func(sp *spec, lay *layout, st *s3c.Stream) bool // false: not applicable
	kills  bool                                             // expected to be able to kill the gateway: run last, alone
}

func mutateAt(off int, f func(b byte) byte) func([]byte) []byte {
	return func(enc []byte) []byte {
		if off >= 0 && off < len(enc) {
			enc[off] = f(enc[off])
		}
		return enc
	}
}

func otherHex(b byte) byte {
	if b == '0' {
		return '1'
	}
	return '0'
}

func regOf(lay *layout, name string, chunk int) *region {
	for i := range lay.regs {
		if lay.regs[i].name == name && (chunk < 0 || lay.regs[i].chunk == chunk) {
			return &lay.regs[i]
		}
	}
	return nil
}

func decodedBefore(lay *layout, t int) int64 {
	var n int64
	for _, r := range lay.regs {
		if r.name != "data" {
			continue
		}
		switch {
		case r.end <= t:
			n += int64(r.end - r.start)
		case r.start < t:
			n += int64(t - r.start)
		}
	}
	return n
}

func truncDef(name string, at func(lay *layout) int, consistentLen bool) badDef {
	return badDef{kind: "truncate-" + name, region: "", prep: func(sp *spec, lay *layout, st *s3c.Stream) bool {
		t := at(lay)
		if t <= 0 || t >= lay.n {
			return false
		}
		st.TruncateAt = t
		if consistentLen {
			n := decodedBefore(lay, t)
			st.DecodedLen = &n
		}
		return true
	}}
}

func sizeRewrite(kind string, repl func(cur string) string, kills bool) badDef {
	return badDef{kind: kind, region: "size", kills: kills, prep: func(sp *spec, lay *layout, st *s3c.Stream) bool {
		reg := regOf(lay, "size", 0)
		if reg == nil {
			return false
		}
		a, b := reg.start, reg.end
		st.Mutate = func(enc []byte) []byte { return splice(enc, a, b, []byte(repl(string(enc[a:b])))) }
		return true
	}}
}

var badDefs = []badDef{
	{kind: "bad-chunk-signature-first", region: "sig", strict: true, prep: func(sp *spec, lay *layout, st *s3c.Stream) bool {
		st.BadChunkSig = 1
		return sp.mode != mUnsigned && len(lay.dataEnd) > 0
	}},
	{kind: "bad-chunk-signature-last", region: "sig", strict: true, prep: func(sp *spec, lay *layout, st *s3c.Stream) bool {
		st.BadChunkSig = len(lay.dataEnd)
		return sp.mode != mUnsigned && len(lay.dataEnd) > 1
	}},
	{kind: "bad-chunk-signature-final", region: "final-sig", strict: true, prep: func(sp *spec, lay *layout, st *s3c.Stream) bool {
		st.BadChunkSig = -1
		return sp.mode != mUnsigned
	}},
	{kind: "bad-trailer-signature", region: "trsig-value", strict: true, prep: func(sp *spec, lay *layout, st *s3c.Stream) bool {
		st.BadTrailerSig = true
		return sp.mode == mSignedTr
	}},
	{kind: "bad-trailer-value", region: "tr-value", strict: true, prep: func(sp *spec, lay *layout, st *s3c.Stream) bool {
		if sp.mode == mSigned {
			return false
		}
		st.TrailerVal = s3c.Checksum(sp.algo, append(append([]byte{}, sp.pay...), 'x'))
		return true
	}},
	{kind: "bad-trailer-name", region: "tr-name", strict: true, prep: func(sp *spec, lay *layout, st *s3c.Stream) bool {
		if sp.mode != mUnsigned {
			return false
		}
		a := regOf(lay, "tr-name", -1)
		b := regOf(lay, "tr-value", -1)
		if a == nil || b == nil {
			return false
		}
		oa := otherAlgo(sp.algo)
		line := "x-amz-checksum-" + oa + ":" + s3c.Checksum(oa, sp.pay)
		s, t := a.start, b.end
		st.Mutate = func(enc []byte) []byte { return splice(enc, s, t, []byte(line)) }
		return true
	}},
	{kind: "mutate-data-byte", region: "data", prep: func(sp *spec, lay *layout, st *s3c.Stream) bool {
		r := regOf(lay, "data", len(lay.dataEnd)-1)
		if r == nil {
			return false
		}
		st.Mutate = mutateAt(r.start, func(b byte) byte { return b ^ 0x01 })
		return true
	}},
	{kind: "mutate-signature-digit", region: "sig", strict: true, prep: func(sp *spec, lay *layout, st *s3c.Stream) bool {
		r := regOf(lay, "sig", 0)
		if r == nil {
			return false
		}
		st.Mutate = mutateAt(r.start+17, otherHex)
		return true
	}},
	truncDef("inside-first-header", func(l *layout) int { return 10 }, false),
	truncDef("inside-data", func(l *layout) int {
		if len(l.dataEnd) == 0 {
			return 0
		}
		k := len(l.dataEnd) - 1
		return l.hdrEnd[k] + (l.dataEnd[k]-l.hdrEnd[k])/2
	}, false),
	truncDef("at-data-start", func(l *layout) int {
		if len(l.dataEnd) == 0 {
			return 0
		}
		return l.hdrEnd[len(l.dataEnd)-1]
	}, false),
	truncDef("at-data-start-consistent-length", func(l *layout) int {
		if len(l.dataEnd) == 0 {
			return 0
		}
		return l.hdrEnd[len(l.dataEnd)-1]
	}, true),
	truncDef("after-data", func(l *layout) int {
		if len(l.dataEnd) < 2 {
			return 0
		}
		return l.dataEnd[0]
	}, false),
	truncDef("after-data-consistent-length", func(l *layout) int {
		if len(l.dataEnd) < 2 {
			return 0
		}
		return l.dataEnd[0]
	}, true),
	truncDef("inside-later-header-consistent-length", func(l *layout) int {
		if len(l.dataEnd) < 2 {
			return 0
		}
		return l.dataEnd[0] + 12
	}, true),
	truncDef("inside-final-unit", func(l *layout) int { return l.n - 3 }, false),
	{kind: "omit-final-chunk", region: "truncated-in-final-unit", prep: func(sp *spec, lay *layout, st *s3c.Stream) bool {
		st.OmitFinalChunk = true
		return true
	}},
	{kind: "extra-tail", region: "after-final-chunk", prep: func(sp *spec, lay *layout, st *s3c.Stream) bool {
		st.ExtraTail = []byte("5\r\nhello\r\n0\r\n\r\n")
		return true
	}},
	sizeRewrite("size-plus-one", func(cur string) string { n, _ := strconv.ParseInt(cur, 16, 64); return fmt.Sprintf("%x", n+1) }, false),
	sizeRewrite("size-beyond-stream", func(cur string) string { n, _ := strconv.ParseInt(cur, 16, 64); return fmt.Sprintf("%x", n+0x100000) }, false),
	sizeRewrite("size-final-chunk-nonzero", nil, false), // patched below: rewrites the final 0
	sizeRewrite("hostile-size-negative", func(string) string { return "-1" }, true),
}

func init() {
	for i := range badDefs {
		if badDefs[i].kind == "size-final-chunk-nonzero" {
			badDefs[i].region = "final-size"
			badDefs[i].prep = func(sp *spec, lay *layout, st *s3c.Stream) bool {
				reg := regOf(lay, "final-size", -1)
				if reg == nil {
					return false
				}
				st.Mutate = mutateAt(reg.start, func(byte) byte { return '2' })
				return true
			}
		}
	}
}

func (e *e2e) negatives(thorough bool) {
	c := e.c
	type job struct {
		id   string
		sp   *spec
		lay  *layout
		def  *badDef
		plan wirePlan
		key  string
	}
	var jobs, killers []job
	defs := []e2eDef{e2eDefs[1], e2eDefs[3]}
	if thorough {
		defs = append(defs, e2eDefs[0], e2eDefs[4])
	}
	k := 0
	for di, d := range defs {
		for mi, mode := range modes {
			algo := s3c.Algos[(di+mi+1)%5]
			if mode == mSigned {
				algo = ""
			}
			sid := fmt.Sprintf("N%02d-%s-%s-%d", k, mode, algo, d.n)
			k++
			pay := make([]byte, d.n)
			newPrng(e.base, "pay/"+sid).fill(pay)
			sp := &spec{mode: mode, algo: algo, sizes: d.sizes, seqCls: d.cls, pay: pay}
			lay, err := buildLayout(sp, encode(sp.stream(), pay, dSeed))
			if err != nil {
				c.Inconclusive("encoder/layout self-check failed: " + err.Error())
				continue
			}
			for bi := range badDefs {
				def := &badDefs[bi]
				if def.kills && di > 0 {
					continue
				}
				plans := []wirePlan{{name: "single-write"}, {name: "fixed-64", frags: []int{64}}}
				if def.kills {
					plans = plans[:1]
				}
				for _, pl := range plans {
					id := fmt.Sprintf("B/neg/%s/%s/%s", sid, def.kind, pl.name)
					if !c.Want(id) {
						continue
					}
					j := job{id: id, sp: sp, lay: lay, def: def, plan: pl, key: fmt.Sprintf("neg/%s/%s/%s", sid, def.kind, pl.name)}
					if def.kills {
						killers = append(killers, j)
					} else {
						jobs = append(jobs, j)
					}
				}
			}
		}
	}
	old := []byte("previous content of the key - must survive a refused upload")
	run := func(j job) {
		sp := j.sp
		st := sp.stream()
		if !j.def.prep(sp, j.lay, st) {
			return
		}
		cl := e.client()
		detail := map[string]any{"mode": sp.mode, "algo": sp.algo, "payload_len": len(sp.pay), "chunk_sizes": head(sp.chunkLens(), 12), "legal_body_len": j.lay.n,
			"defect": j.def.kind, "socket_writes": j.plan.name}
		if st.TruncateAt > 0 {
			detail["truncate_at"] = st.TruncateAt
			detail["first_missing"] = j.lay.regionAt(st.TruncateAt).name
		}
		if st.DecodedLen != nil {
			detail["x_amz_decoded_content_length"] = *st.DecodedLen
		}
		if r := cl.PutObject(bkt, j.key, old); !r.OK() {
			if r.Err != nil {
				e.transportFailure(j.id, "seed PUT", r, detail)
			} else {
				c.Inconclusive("seed PUT refused: " + r.String())
			}
			return
		}
		// one bad stream in three is sent as the only part of a multipart upload instead: the same decoders sit in
		// front of another handler, and what a wrongly accepted part holds shows once the upload is completed
		if !j.def.kills && newPrng(e.base, "as-part/"+j.id).intn(3) == 0 {
			pkey := j.key + ".as-part"
			uid, cr := cl.CreateMPU(bkt, pkey)
			if !cr.OK() {
				c.Inconclusive("create upload refused: " + cr.String())
				return
			}
			r := cl.Do(&s3c.Req{Method: "PUT", Path: s3c.ObjPath(bkt, pkey), Query: s3c.Q("partNumber", "1", "uploadId", uid), Body: sp.pay, Stream: st, Fragments: j.plan.frags})
			c.Eval(1)
			if r.Err != nil {
				e.transportFailure(j.id, "corrupted chunked UploadPart "+j.def.kind, r, detail)
				return
			}
			rdr := readerOf(sp.mode)
			region := j.def.region
			if region == "" {
				region = coarseTrunc(&bstream{sp: sp, lay: j.lay}, st.TruncateAt)
			}
			c.Distinct("B|neg-part|" + sp.mode + "|" + j.def.kind + "|" + j.plan.name)
			detail["upload_part"] = r.String()
			lp := cl.Do(&s3c.Req{Method: "GET", Path: s3c.ObjPath(bkt, pkey), Query: s3c.Q("uploadId", uid)})
			listed := strings.Contains(string(lp.Body), "<PartNumber>1</PartNumber>")
			if !r.OK() {
				if listed {
					c.Violation("e2e:neg:"+rdr+":part:refused-but-part-stored", j.id, detail)
				}
				cl.AbortMPU(bkt, pkey, uid)
				return
			}
			comp := cl.CompleteMPU(bkt, pkey, uid, []s3c.Part{{N: 1, ETag: r.Header.Get("Etag")}})
			g := cl.GetObject(bkt, pkey)
			detail["complete"], detail["get"], detail["got_len"], detail["got"] = comp.String(), g.String(), len(g.Body), preview(g.Body, 60)
			same := comp.OK() && g.Status == 200 && bytes.Equal(g.Body, sp.pay)
			switch {
			case same && j.def.strict:
				c.Violation("e2e:neg:"+rdr+":"+region+":part:accepted-unverified", j.id, detail)
			case same:
				c.Observe("lenient: gateway accepted a " + j.def.kind + " part upload (" + rdr + ") and stored exactly the payload")
			default:
				c.Violation("e2e:neg:"+rdr+":"+region+":part:accepted-different-or-short", j.id, detail)
			}
			return
		}
		r := cl.Do(&s3c.Req{Method: "PUT", Path: s3c.ObjPath(bkt, j.key), Body: sp.pay, Stream: st, Fragments: j.plan.frags})
		c.Eval(1)
		if r.Err != nil {
			e.transportFailure(j.id, "corrupted chunked PUT "+j.def.kind, r, detail)
			return
		}
		rdr := readerOf(sp.mode)
		region := j.def.region
		if region == "" {
			region = coarseTrunc(&bstream{sp: sp, lay: j.lay}, st.TruncateAt)
		}
		c.Distinct("B|neg|" + sp.mode + "|" + j.def.kind + "|" + j.plan.name)
		detail["put"] = r.String()
		g := cl.GetObject(bkt, j.key)
		if g.Err != nil {
			e.transportFailure(j.id, "GET after corrupted PUT", g, detail)
			return
		}
		detail["get"] = g.String()
		detail["got_len"] = len(g.Body)
		detail["got"] = preview(g.Body, 60)
		if !r.OK() {
			if g.Status != 200 || !bytes.Equal(g.Body, old) {
				c.Violation("e2e:neg:"+rdr+":refused-but-key-changed", j.id, detail)
			}
			return
		}
		same := g.Status == 200 && bytes.Equal(g.Body, sp.pay)
		switch {
		case same && j.def.strict:
			c.Violation("e2e:neg:"+rdr+":"+region+":accepted-unverified", j.id, detail)
		case same:
			c.Observe("lenient: gateway accepted a " + j.def.kind + " upload (" + rdr + ") and stored exactly the payload")
		default:
			how := "accepted-different"
			if len(g.Body) < len(sp.pay) && bytes.Equal(g.Body, sp.pay[:len(g.Body)]) {
				how = "accepted-short"
			} else if len(g.Body) >= len(sp.pay) && bytes.Equal(g.Body[:len(sp.pay)], sp.pay) || zeroPadded(g.Body, sp.pay) {
				how = "accepted-padded"
			}
			c.Violation("e2e:neg:"+rdr+":"+region+":"+how, j.id, detail)
		}
	}
	var wg sync.WaitGroup
	ch := make(chan job)
	for i := 0; i < 8; i++ {
		wg.Add(1)
		go func() {
			defer wg.Done()
			for j := range ch {
				run(j)
			}
		}()
	}
	for _, j := range jobs {
		ch <- j
	}
	close(ch)
	wg.Wait()
	c.Add("e2e_corrupted_puts", len(jobs)+len(killers))
	// the uploads that may take the process down: one at a time, restart in between
	for _, j := range killers {
		run(j)
		e.mu.Lock()
		e.dead = false
		e.mu.Unlock()
		if !e.env.GWs[0].Alive() {
			if err := e.env.Restart(0); err != nil {
				c.Inconclusive("gateway restart failed: " + err.Error())
				return
			}
		}
	}
}

// zeroPadded: got = a prefix of want followed by zero bytes up to len(want)
func zeroPadded(got, want []byte) bool {
	if len(got) != len(want) {
		return false
	}
	i := 0
	for i < len(got) && got[i] == want[i] {
		i++
	}
	for _, b := range got[i:] {
		if b != 0 {
			return false
		}
	}
	return i < len(got)
}

func laneE2E(c *ev.Ctx) {
	env, err := fx.New("c12", gw.Config{}, 1)
	if err != nil {
		c.Inconclusive("gateway start: " + err.Error())
		return
	}
	defer env.Close()
	e := &e2e{c: c, env: env, base: uint64(c.Rng("c12/e2e").Int63())}
	if r := e.client().CreateBucket(bkt); !r.OK() {
		c.Inconclusive("create bucket: " + r.String())
		return
	}
	e.positives(c.Thorough())
	if _, cr := env.Dead(); cr != nil {
		c.Violation("e2e:gateway-died:"+crashFrame(cr), "B/pos", map[string]any{"crash": cr.Message, "frame": crashFrame(cr)})
		return
	}
	e.negatives(c.Thorough())
}
