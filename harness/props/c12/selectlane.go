package c12

import (
	"fmt"
	"io"
	"strconv"
	"strings"
	"sync"

	"github.com/gofiber/fiber/v2"
	"github.com/valyala/fasthttp"
	"github.com/versity/versitygw/s3api/utils"

	"verif/harness/internal/ev"
	"verif/harness/internal/s3c"
)

// lane A2: the same streams through utils.NewChunkReader, i.e. with the reader and the checksum
// algorithm selected from the request headers the way the gateway does it.

type selector struct {
	app *fiber.App
}

func (s *selector) reader(hdr map[string]string, seed string, src io.Reader) (io.Reader, error) {
	ctx := s.app.AcquireCtx(&fasthttp.RequestCtx{})
	defer s.app.ReleaseCtx(ctx)
	for k, v := range hdr {
		ctx.Request().Header.Set(k, v)
	}
	ad := utils.AuthData{Signature: seed, Region: dRegion, Date: dDay, Algorithm: "AWS4-HMAC-SHA256", Access: "c12", SignedHeaders: "host;x-amz-content-sha256;x-amz-date"}
	return utils.NewChunkReader(ctx, src, ad, dRegion, dSecret, dDate, false)
}

func headersFor(mode, algo string, decoded int) map[string]string {
	h := map[string]string{"X-Amz-Content-Sha256": wireMode(mode), "X-Amz-Decoded-Content-Length": strconv.Itoa(decoded), "Content-Encoding": "aws-chunked"}
	if mode != mSigned {
		h["X-Amz-Trailer"] = "x-amz-checksum-" + algo
	}
	return h
}

func laneSelect(c *ev.Ctx) {
	r := &runner{c: c, base: uint64(c.Rng("c12/select").Int63())}
	sel := &selector{app: fiber.New(fiber.Config{DisableStartupMessage: true})}
	var wg sync.WaitGroup
	sem := make(chan struct{}, 16)
	k := 0
	for _, di := range []int{4, 8} {
		d := shortDefs[di]
		for _, mode := range modes {
			algos := s3c.Algos
			if mode == mSigned {
				algos = []string{""}
			}
			for _, algo := range algos {
				id := fmt.Sprintf("N%02d-%s-%s", k, mode, algo)
				k++
				sp := &spec{mode: mode, algo: algo, sizes: d.sizes, seqCls: d.cls, pay: r.payload(id, d.n, d.pay)}
				st, err := r.build(id, sp)
				if err != nil {
					c.Inconclusive("encoder/layout self-check failed: " + err.Error())
					continue
				}
				wg.Add(1)
				sem <- struct{}{}
				go func() {
					defer func() { <-sem; wg.Done() }()
					w := r.newWorker()
					w.lane = "A2"
					decoded := len(sp.pay)
					w.ctor = func(mode, algo, seed string, src io.Reader) (io.Reader, error) {
						return sel.reader(headersFor(mode, algo, decoded), seed, src)
					}
					w.posShort(st)
					w.negTargeted(st)
					w.flush()
				}()
			}
		}
	}
	wg.Wait()
	scratch := make([]byte, bigBuf)

	// selection itself: header combinations that must not select a reader, and spelling variants
	pay := []byte("selection-probe-payload")
	type probe struct {
		name   string
		hdr    map[string]string
		mode   string
		algo   string
		expect string // "reader" | "refuse" | "either"
	}
	base := func(mode, algo string) map[string]string { return headersFor(mode, algo, len(pay)) }
	with := func(h map[string]string, k, v string) map[string]string {
		if v == "\x00" {
			delete(h, k)
		} else {
			h[k] = v
		}
		return h
	}
	probes := []probe{
		{"trailer-header-upper-case", with(base(mSignedTr, "crc32"), "X-Amz-Trailer", "X-AMZ-CHECKSUM-CRC32"), mSignedTr, "crc32", "either"},
		{"unsigned-trailer-header-upper-case", with(base(mUnsigned, "sha1"), "X-Amz-Trailer", "X-Amz-Checksum-Sha1"), mUnsigned, "sha1", "either"},
		{"no-decoded-length", with(base(mSigned, ""), "X-Amz-Decoded-Content-Length", "\x00"), mSigned, "", "refuse"},
		{"trailer-mode-without-trailer-header", with(base(mSignedTr, "crc32"), "X-Amz-Trailer", "\x00"), mSignedTr, "crc32", "refuse"},
		{"unsigned-trailer-mode-without-trailer-header", with(base(mUnsigned, "crc32"), "X-Amz-Trailer", "\x00"), mUnsigned, "crc32", "refuse"},
		{"unknown-trailer-algorithm", with(base(mUnsigned, "crc32"), "X-Amz-Trailer", "x-amz-checksum-md5"), mUnsigned, "crc32", "refuse"},
		{"ecdsa-mode", with(base(mSigned, ""), "X-Amz-Content-Sha256", "STREAMING-AWS4-ECDSA-P256-SHA256-PAYLOAD"), mSigned, "", "refuse"},
		{"plain-sha256-value", with(base(mSigned, ""), "X-Amz-Content-Sha256", s3c.SHA256Hex(pay)), mSigned, "", "refuse"},
		{"signed-mode-with-stray-trailer-header", with(base(mSigned, ""), "X-Amz-Trailer", "x-amz-checksum-crc32"), mSigned, "", "either"},
	}
	for i, p := range probes {
		id := fmt.Sprintf("A2/select/%d-%s", i, p.name)
		if !c.Want(id) {
			continue
		}
		sp := &spec{mode: p.mode, algo: p.algo, pay: pay, sizes: []int{7}, seqCls: "equal+rest"}
		enc := encode(sp.stream(), pay, dSeed)
		sh := &shim{data: enc, tail: io.EOF}
		rd, err := sel.reader(p.hdr, dSeed, sh)
		c.Eval(1)
		c.Distinct("A2|select|" + p.name)
		if err != nil || rd == nil {
			if p.expect == "reader" {
				c.Violation("direct:select:legal-headers-refused:"+p.name, id, map[string]any{"headers": p.hdr, "error": errName(err)})
			} else {
				c.Observe("selection: " + p.name + " refused by NewChunkReader")
			}
			continue
		}
		fl := &flight{id: id, mode: p.mode, algo: p.algo, data: enc, buf: "buf-1048576", lane: "A2"}
		startFlightMonitor(c)
		flights.Store(fl, fl)
		o := consume(rd, sh, &bufSched{fixed: bigBuf}, scratch, len(enc), &fl.calls)
		flights.Delete(fl)
		ok := o.panicMsg == "" && o.err == io.EOF && string(o.out) == string(pay)
		switch {
		case o.panicMsg != "":
			c.Violation("direct:panic:"+o.panicSite+":"+o.panicMsg+":legal-stream", id, map[string]any{"headers": p.hdr})
		case o.err == io.EOF && string(o.out) != string(pay):
			c.Violation("direct:select:wrong-bytes-accepted:"+p.name, id, map[string]any{"headers": p.hdr, "output": preview(o.out, 60)})
		case p.expect == "refuse" && ok:
			c.Observe("selection: " + p.name + " accepted and decoded correctly (over-lenient, not judged)")
		case !ok:
			c.Observe("selection: " + p.name + " selected a reader that rejects the stream (" + strings.SplitN(errName(o.err), "\n", 2)[0] + ")")
		default:
			c.Observe("selection: " + p.name + " accepted and decoded correctly")
		}
	}
}
