package c12

import (
	"bytes"
	"encoding/base64"
	"errors"
	"fmt"
	"io"
	"regexp"
	"runtime"
	"strings"
	"sync/atomic"
	"time"

	"github.com/versity/versitygw/s3api/utils"

	"verif/harness/internal/s3c"
)

// ---------------------------------------------------------------------------
// fixed signing context of the direct lane (no wall clock anywhere)

const (
	dSecret = "c12-direct-lane-secret"
	dRegion = "us-east-1"
	dAmz    = "20300102T030405Z"
	dDay    = "20300102"
	dScope  = dDay + "/" + dRegion + "/s3/aws4_request"
	dSeed   = "5d2f7e1c9a4b38f06e7d1c2b3a495867708192a3b4c5d6e7f8091a2b3c4d5e6f"
	dSeed2  = "5d2f7e1c9a4b38f06e7d1c2b3a495867708192a3b4c5d6e7f8091a2b3c4d5e60"
)

var (
	dDate = time.Date(2030, 1, 2, 3, 4, 5, 0, time.UTC)
	dKey  = s3c.SigningKey(dSecret, dDay, dRegion, "s3")
)

// modes
const (
	mSigned   = "signed"
	mSignedTr = "signed-trailer"
	mUnsigned = "unsigned-trailer"
)

var modes = []string{mSigned, mSignedTr, mUnsigned}

func wireMode(m string) string {
	switch m {
	case mSigned:
		return s3c.StreamSigned
	case mSignedTr:
		return s3c.StreamSignedTr
	}
	return s3c.StreamUnsignTr
}

// readerOf names the reader implementation behind a mode (for signatures).
func readerOf(m string) string {
	if m == mUnsigned {
		return "unsigned"
	}
	return "signed"
}

// spec describes a legal stream.
type spec struct {
	mode   string
	algo   string // "" only for mSigned
	pay    []byte
	sizes  []int  // chunk-size sequence handed to the encoder (cycled)
	seqCls string // class of the chunk-size sequence ("upper-hex...": sizes are written with upper-case hex digits)
	payCls string
}

func (s *spec) upperHex() bool { return strings.HasPrefix(s.seqCls, "upper-hex") }

func (s *spec) trailerName() string {
	if s.mode == mSigned || s.algo == "" {
		return ""
	}
	return "x-amz-checksum-" + s.algo
}

func (s *spec) stream() *s3c.Stream {
	return &s3c.Stream{Mode: wireMode(s.mode), ChunkSizes: s.sizes, TrailerName: s.trailerName(), UpperHex: s.upperHex()}
}

// chunkLens replicates the documented splitting rule of s3c.Stream (sizes cycled, last chunk = remainder).
func (s *spec) chunkLens() []int {
	var out []int
	rest := len(s.pay)
	for i := 0; rest > 0; i++ {
		n := rest
		if len(s.sizes) > 0 {
			n = s.sizes[i%len(s.sizes)]
			if n <= 0 {
				n = 1
			}
			if n > rest {
				n = rest
			}
		}
		out = append(out, n)
		rest -= n
	}
	return out
}

func encode(st *s3c.Stream, pay []byte, seed string) []byte {
	return st.Encode(pay, dKey, dAmz, dScope, seed)
}

// ---------------------------------------------------------------------------
// layout of a legal stream: every byte belongs to exactly one named region

type region struct {
	name       string
	start, end int
	chunk      int // index of the chunk (len(chunks) for the final 0-chunk)
}

type layout struct {
	regs     []region
	n        int
	hdrEnd   []int // end offset of the header line of chunk i (incl. CRLF); last entry: final header
	dataEnd  []int // end offset of the data of chunk i
	hdrStart []int // offset where the header of chunk i starts (for i>0: first byte after the data CRLF of i-1)
}

// buildLayout walks a legal stream using only the AWS framing rules and the known chunk lengths;
// it doubles as an independent check of the encoder's output shape.
func buildLayout(sp *spec, enc []byte) (*layout, error) {
	l := &layout{n: len(enc)}
	pos := 0
	add := func(name string, n, chunk int) {
		l.regs = append(l.regs, region{name, pos, pos + n, chunk})
		pos += n
	}
	expect := func(name, lit string, chunk int) error {
		if pos+len(lit) > len(enc) || string(enc[pos:pos+len(lit)]) != lit {
			return fmt.Errorf("layout: expected %q (%s) at %d", lit, name, pos)
		}
		add(name, len(lit), chunk)
		return nil
	}
	signed := sp.mode != mUnsigned
	lens := sp.chunkLens()
	hdr := func(i, n int, pfx string) error {
		l.hdrStart = append(l.hdrStart, pos)
		szf := "%x"
		if sp.upperHex() {
			szf = "%X"
		}
		if err := expect(pfx+"size", fmt.Sprintf(szf, n), i); err != nil {
			return err
		}
		if signed {
			if err := expect(pfx+"semi", ";", i); err != nil {
				return err
			}
			if err := expect(pfx+"sigkey", "chunk-signature=", i); err != nil {
				return err
			}
			if pos+64 > len(enc) {
				return errors.New("layout: short signature")
			}
			add(pfx+"sig", 64, i)
		}
		if err := expect(pfx+"hdr-crlf", "\r\n", i); err != nil {
			return err
		}
		l.hdrEnd = append(l.hdrEnd, pos)
		return nil
	}
	for i, n := range lens {
		if err := hdr(i, n, ""); err != nil {
			return nil, err
		}
		if pos+n > len(enc) {
			return nil, errors.New("layout: short data")
		}
		add("data", n, i)
		l.dataEnd = append(l.dataEnd, pos)
		if err := expect("data-crlf", "\r\n", i); err != nil {
			return nil, err
		}
	}
	fi := len(lens)
	if err := hdr(fi, 0, "final-"); err != nil {
		return nil, err
	}
	if tn := sp.trailerName(); tn != "" {
		if err := expect("tr-name", tn, fi); err != nil {
			return nil, err
		}
		if err := expect("tr-colon", ":", fi); err != nil {
			return nil, err
		}
		val := s3c.Checksum(sp.algo, sp.pay)
		if err := expect("tr-value", val, fi); err != nil {
			return nil, err
		}
		if err := expect("tr-crlf", "\r\n", fi); err != nil {
			return nil, err
		}
		if sp.mode == mSignedTr {
			if err := expect("trsig-name", "x-amz-trailer-signature", fi); err != nil {
				return nil, err
			}
			if err := expect("trsig-colon", ":", fi); err != nil {
				return nil, err
			}
			if pos+64 > len(enc) {
				return nil, errors.New("layout: short trailer signature")
			}
			add("trsig-value", 64, fi)
			if err := expect("trsig-crlf", "\r\n", fi); err != nil {
				return nil, err
			}
		}
	}
	if err := expect("end-crlf", "\r\n", fi); err != nil {
		return nil, err
	}
	if pos != len(enc) {
		return nil, fmt.Errorf("layout: %d trailing bytes", len(enc)-pos)
	}
	return l, nil
}

func (l *layout) regionAt(i int) *region {
	lo, hi := 0, len(l.regs)
	for lo < hi {
		m := (lo + hi) / 2
		if l.regs[m].end <= i {
			lo = m + 1
		} else {
			hi = m
		}
	}
	if lo < len(l.regs) {
		return &l.regs[lo]
	}
	return &l.regs[len(l.regs)-1]
}

// structural boundaries (start offsets of all regions) - used for boundary-biased cuts.
func (l *layout) edges() []int {
	out := make([]int, 0, len(l.regs))
	for _, r := range l.regs {
		if r.start > 0 {
			out = append(out, r.start)
		}
	}
	return out
}

// straddle classifies a read boundary b (0<b<n) for the signed reader:
// "first-header" strictly inside the header line of chunk 0, "nonfirst-header" strictly inside a later
// framing region (CRLF after chunk data + next header line; for the last one everything up to the end),
// "" otherwise (inside chunk data, or exactly at the end of chunk data / end of a header line).
func (l *layout) straddle(b int) string {
	if b <= 0 || b >= l.n {
		return ""
	}
	if len(l.dataEnd) == 0 {
		return "first-header" // empty payload: the final unit is the first header
	}
	if b < l.hdrEnd[0] {
		return "first-header"
	}
	last := len(l.dataEnd) - 1
	for k := 0; k < last; k++ {
		if b > l.dataEnd[k] && b < l.hdrEnd[k+1] {
			return "nonfirst-header"
		}
	}
	if b > l.dataEnd[last] {
		return "nonfirst-header" // final unit: CRLF, 0-chunk header, trailer lines, closing CRLF
	}
	return ""
}

// safeCuts lists the offsets at which a read boundary does not split any framing:
// inside chunk data, at the end of chunk data and at the end of a (non-final) header line.
func (l *layout) safeCuts() []int {
	var out []int
	for _, r := range l.regs {
		if r.name == "data" {
			for p := r.start; p <= r.end; p++ {
				if p > 0 && p < l.n {
					out = append(out, p)
				}
			}
		}
	}
	return out
}

// ---------------------------------------------------------------------------
// the io.Reader shim that fragments the stream

type shim struct {
	data     []byte
	pos      int
	frags    []int // successive fragment sizes; once used up the rest comes in one piece
	fi       int
	left     int   // bytes left in the current fragment
	eofAlone bool  // deliver the terminal error with n==0 in a separate call
	tail     error // terminal error (io.EOF unless a transport failure is simulated)
	bounds   []int // stream offsets at which a read returned (what the reader really saw)
	after    int   // reads issued after the terminal error was delivered
	done     bool
}

func (s *shim) Read(p []byte) (int, error) {
	if s.pos >= len(s.data) {
		if s.done {
			s.after++
		}
		s.done = true
		return 0, s.tail
	}
	if len(p) == 0 {
		return 0, nil
	}
	if s.left == 0 {
		if s.fi < len(s.frags) {
			s.left = s.frags[s.fi]
			s.fi++
			if s.left <= 0 {
				s.left = 1
			}
		} else {
			s.left = len(s.data) - s.pos
		}
	}
	n := s.left
	if n > len(p) {
		n = len(p)
	}
	if n > len(s.data)-s.pos {
		n = len(s.data) - s.pos
		s.left = n
	}
	copy(p, s.data[s.pos:s.pos+n])
	s.pos += n
	s.left -= n
	s.bounds = append(s.bounds, s.pos)
	if s.pos >= len(s.data) && !s.eofAlone {
		s.done = true
		return n, s.tail
	}
	return n, nil
}

// cutsToFrags turns sorted cut offsets into fragment sizes.
func cutsToFrags(cuts []int) []int {
	out := make([]int, 0, len(cuts))
	prev := 0
	for _, c := range cuts {
		if c > prev {
			out = append(out, c-prev)
			prev = c
		}
	}
	return out
}

// bufSched yields destination buffer sizes.
type bufSched struct {
	fixed int
	list  []int // explicit sizes, used in order; afterwards `fixed`
	vary  []int // if set: PRNG pick per call
	rng   *prng
	cls   string
}

func (b *bufSched) next(i int) int {
	if i < len(b.list) {
		if b.list[i] > 0 {
			return b.list[i]
		}
		return 1
	}
	if b.vary != nil {
		return b.vary[b.rng.intn(len(b.vary))]
	}
	return b.fixed
}

// outcome of consuming a reader to its terminal error
type outcome struct {
	out       []byte
	err       error
	panicMsg  string // non-empty: the reader panicked
	panicSite string
	stuck     bool // no terminal error within the call budget
	calls     int
	bounds    []int
}

var reDigits = regexp.MustCompile(`[-0-9\[\]:]+`)

func normPanic(v any) string {
	s := fmt.Sprint(v)
	s = strings.TrimPrefix(s, "runtime error: ")
	s = reDigits.ReplaceAllString(s, "")
	s = strings.Join(strings.Fields(s), "-")
	if len(s) > 50 {
		s = s[:50]
	}
	return s
}

// panicSite returns the innermost frame that belongs to the gateway module.
func panicSite() string {
	pcs := make([]uintptr, 64)
	n := runtime.Callers(0, pcs)
	fr := runtime.CallersFrames(pcs[:n])
	for {
		f, more := fr.Next()
		if strings.Contains(f.Function, "versity/versitygw/") {
			fn := f.Function
			if i := strings.LastIndex(fn, "/"); i >= 0 {
				fn = fn[i+1:]
			}
			return fn
		}
		if !more {
			break
		}
	}
	return "unknown"
}

// consume reads rd until it reports an error, with the given buffer schedule.
// scratch must be at least as large as the largest buffer size used.
func consume(rd io.Reader, sh *shim, bs *bufSched, scratch []byte, encLen int, progress *atomic.Int64) (o outcome) {
	defer func() {
		if r := recover(); r != nil {
			o.panicMsg = normPanic(r)
			o.panicSite = panicSite()
			o.bounds = sh.bounds
		}
	}()
	budget := 4*encLen + 256
	var out []byte
	for i := 0; ; i++ {
		if i >= budget || len(out) > encLen+64 {
			o.stuck = true
			break
		}
		k := bs.next(i)
		if k > len(scratch) {
			k = len(scratch)
		}
		p := scratch[:k:k]
		n, err := rd.Read(p)
		o.calls++
		if progress != nil {
			progress.Add(1)
		}
		if n < 0 || n > len(p) {
			o.panicMsg = "read-count-out-of-range"
			o.panicSite = "Read"
			break
		}
		out = append(out, p[:n]...)
		if err != nil {
			o.err = err
			break
		}
	}
	o.out = out
	o.bounds = sh.bounds
	return o
}

// ---------------------------------------------------------------------------
// constructing the readers under test

// the constructors take the unexported utils.checksumType; untyped constants convert implicitly
func newSigned(r io.Reader, seed, algo string) (io.Reader, error) {
	ad := utils.AuthData{Signature: seed, Region: dRegion, Date: dDay, Algorithm: "AWS4-HMAC-SHA256", Access: "c12", SignedHeaders: "host;x-amz-content-sha256;x-amz-date"}
	switch algo {
	case "":
		return utils.NewSignedChunkReader(r, ad, dRegion, dSecret, dDate, "", false)
	case "crc32":
		return utils.NewSignedChunkReader(r, ad, dRegion, dSecret, dDate, "x-amz-checksum-crc32", false)
	case "crc32c":
		return utils.NewSignedChunkReader(r, ad, dRegion, dSecret, dDate, "x-amz-checksum-crc32c", false)
	case "sha1":
		return utils.NewSignedChunkReader(r, ad, dRegion, dSecret, dDate, "x-amz-checksum-sha1", false)
	case "sha256":
		return utils.NewSignedChunkReader(r, ad, dRegion, dSecret, dDate, "x-amz-checksum-sha256", false)
	case "crc64nvme":
		return utils.NewSignedChunkReader(r, ad, dRegion, dSecret, dDate, "x-amz-checksum-crc64nvme", false)
	}
	return nil, errors.New("c12: unknown algorithm " + algo)
}

func newUnsigned(r io.Reader, algo string) (io.Reader, error) {
	var (
		u   *utils.UnsignedChunkReader
		err error
	)
	switch algo {
	case "crc32":
		u, err = utils.NewUnsignedChunkReader(r, "x-amz-checksum-crc32", false)
	case "crc32c":
		u, err = utils.NewUnsignedChunkReader(r, "x-amz-checksum-crc32c", false)
	case "sha1":
		u, err = utils.NewUnsignedChunkReader(r, "x-amz-checksum-sha1", false)
	case "sha256":
		u, err = utils.NewUnsignedChunkReader(r, "x-amz-checksum-sha256", false)
	case "crc64nvme":
		u, err = utils.NewUnsignedChunkReader(r, "x-amz-checksum-crc64nvme", false)
	default:
		return nil, errors.New("c12: unknown algorithm " + algo)
	}
	if err != nil {
		return nil, err
	}
	return u, nil
}

// newReader builds the reader for a mode directly through the exported constructors.
func newReader(mode, algo, seed string, src io.Reader) (io.Reader, error) {
	switch mode {
	case mSigned:
		return newSigned(src, seed, "")
	case mSignedTr:
		return newSigned(src, seed, algo)
	}
	return newUnsigned(src, algo)
}

// ---------------------------------------------------------------------------
// small deterministic PRNG (per case; seeded from the run seed and the case id)

type prng struct{ s uint64 }

func newPrng(base uint64, id string) *prng {
	h := uint64(1469598103934665603)
	for i := 0; i < len(id); i++ {
		h ^= uint64(id[i])
		h *= 1099511628211
	}
	return &prng{s: base ^ h ^ 0x9e3779b97f4a7c15}
}

func (p *prng) next() uint64 {
	p.s += 0x9e3779b97f4a7c15
	z := p.s
	z = (z ^ (z >> 30)) * 0xbf58476d1ce4e5b9
	z = (z ^ (z >> 27)) * 0x94d049bb133111eb
	return z ^ (z >> 31)
}

func (p *prng) intn(n int) int {
	if n <= 0 {
		return 0
	}
	return int(p.next() % uint64(n))
}

func (p *prng) fill(b []byte) {
	for i := 0; i < len(b); i += 8 {
		v := p.next()
		for j := 0; j < 8 && i+j < len(b); j++ {
			b[i+j] = byte(v >> (8 * j))
		}
	}
}

// ---------------------------------------------------------------------------
// helpers for judging

func errName(err error) string {
	if err == nil {
		return "nil"
	}
	if err == io.EOF {
		return "io.EOF"
	}
	s := err.Error()
	if len(s) > 80 {
		s = s[:80]
	}
	return s
}

func sameB64(a, b string) bool {
	da, ea := base64.StdEncoding.DecodeString(a)
	db, eb := base64.StdEncoding.DecodeString(b)
	return ea == nil && eb == nil && bytes.Equal(da, db)
}

func hexVal(b byte) int {
	switch {
	case b >= '0' && b <= '9':
		return int(b - '0')
	case b >= 'a' && b <= 'f':
		return int(b-'a') + 10
	case b >= 'A' && b <= 'F':
		return int(b-'A') + 10
	}
	return -1
}

func preview(b []byte, n int) string {
	if len(b) > n {
		return fmt.Sprintf("%q...(%d bytes)", b[:n], len(b))
	}
	return fmt.Sprintf("%q", b)
}
