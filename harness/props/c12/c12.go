// Package c12: aws-chunked decoding is independent of stream fragmentation.
//
// Lane A calls the exported chunk readers of /repo directly over an io.Reader shim that
// delivers an encoded stream in chosen fragments, and reads with chosen destination buffer
// sizes. Lane B sends chunked PUTs with chosen socket write sizes to a real gateway.
// The encoder (s3c.Stream) and the layout walker in this package are written from the
// AWS sigv4-streaming specification, not from /repo.
package c12

import (
	"os"
	"strings"

	"verif/harness/internal/ev"
	"verif/harness/internal/reg"
)

func init() { reg.Register("C12", "exploration", Run) }

func Run(c *ev.Ctx) int {
	c.Assume("positive oracle: for a legal stream every fragmentation x buffer schedule must end in io.EOF with exactly the payload")
	c.Assume("negative oracle: a bad stream may end in io.EOF only with exactly the payload; streams whose defect is a wrong chunk signature, seed signature, trailing checksum (value or announced algorithm) or trailer signature must be rejected outright")
	c.Assume("mutations that may leave the meaning intact (hex case, blanks, leading zeros of a size, extra data after the closing CRLF, a cut inside the closing framing) are judged leniently and listed as observations when accepted; a changed byte in the CR LF that ends a chunk header is not among them")
	c.Assume("direct lane: payloads <= 256 KiB, destination buffers 1 B .. 1 MiB, wire chunk sizes that would make the reader allocate more than 64 MiB are not generated")
	finishRule = "lane A: utils.NewSignedChunkReader / NewUnsignedChunkReader / NewChunkReader over a fragmenting io.Reader shim; legal streams (3 modes x 5 checksum algorithms x chunk-size sequences incl. 1-byte chunks) under exhaustive single cuts and header-pair cuts (short streams), boundary-biased PRNG cuts, aligned cuts, fixed-size fragments and 12 buffer sizes + varying schedules; bad streams: every single-byte mutation and truncation point of short streams plus named defects. lane B: chunked PUT with chosen socket write sizes, GET back; corrupted streams must be refused and leave the key unchanged. distinct = (lane, mode, algorithm, chunk-sequence class, fragmentation class, buffer class) resp. (mode, defect kind, stream region, fragmentation class)"
	// lanes: A (direct constructors), A2 (through utils.NewChunkReader), B (end to end); a replay runs only its lane
	lane := func(prefix string) bool {
		return c.Only == "" || strings.HasPrefix(c.Only, prefix+"/") || c.Only == prefix
	}
	if os.Getenv("C12_SKIP_DIRECT") == "" {
		if lane("A") {
			laneDirect(c)
		}
		if lane("A2") {
			laneSelect(c)
		}
		if lane("A3") {
			laneRotation(c)
		}
	}
	if os.Getenv("C12_SKIP_E2E") == "" && lane("B") {
		laneE2E(c)
	}
	return c.Finish(finishRule, 150)
}
