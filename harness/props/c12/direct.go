package c12

import (
	"bytes"
	"errors"
	"fmt"
	"io"
	"os"
	"runtime"
	"sort"
	"strconv"
	"strings"
	"sync"
	"sync/atomic"
	"time"

	"verif/harness/internal/ev"
	"verif/harness/internal/s3c"
)

// ---------------------------------------------------------------------------
// lane A: direct calls of the exported chunk readers

var bufSizes = []int{1, 2, 3, 7, 16, 64, 511, 512, 513, 4096, 32 << 10, 1 << 20}

const bigBuf = 1 << 20

type runner struct {
	c    *ev.Ctx
	base uint64
}

// worker-local aggregation (keeps the shared mutex out of the hot loop)
type worker struct {
	r        *runner
	scratch  []byte
	evals    int
	runs     int
	pos, neg int
	distinct map[string]struct{}
	obs      map[string]int
	sigSeen  map[string]bool
	lane     string // "A" direct constructors, "A2" through utils.NewChunkReader
	ctor     func(mode, algo, seed string, src io.Reader) (io.Reader, error)
}

func (r *runner) newWorker() *worker {
	return &worker{r: r, scratch: make([]byte, bigBuf), distinct: map[string]struct{}{}, obs: map[string]int{}, sigSeen: map[string]bool{}, lane: "A", ctor: newReader}
}

func (w *worker) flush() {
	c := w.r.c
	c.Eval(w.evals)
	c.Add("reader_runs", w.runs)
	c.Add(w.lane+"_legal_stream_runs", w.pos)
	c.Add(w.lane+"_bad_stream_runs", w.neg)
	for k := range w.distinct {
		c.Distinct(k)
	}
	for k, n := range w.obs {
		for i := 0; i < n; i++ {
			c.Observe(k)
		}
	}
	w.evals, w.runs, w.pos, w.neg = 0, 0, 0, 0
	w.distinct = map[string]struct{}{}
	w.obs = map[string]int{}
}

func (w *worker) want(id string) bool { return w.r.c.Only == "" || w.r.c.Want(id) }

// violation: the detail is only built for the first occurrence of a signature per worker
func (w *worker) violation(sig, id string, detail func() map[string]any) {
	if !w.sigSeen[sig] {
		w.sigSeen[sig] = true
		w.r.c.Violation(sig, id, detail())
		return
	}
	w.r.c.Violation(sig, id, nil)
}

// bstream is a built legal stream.
type bstream struct {
	id  string
	sp  *spec
	enc []byte
	lay *layout
}

func (r *runner) build(id string, sp *spec) (*bstream, error) {
	enc := encode(sp.stream(), sp.pay, dSeed)
	lay, err := buildLayout(sp, enc)
	if err != nil {
		return nil, err
	}
	return &bstream{id: id, sp: sp, enc: enc, lay: lay}, nil
}

type fragSpec struct {
	frags    []int
	eofAlone bool
	cls      string
	// splits: this fragmentation may split framing after the first header (bad-stream lane, signed reader):
	// acceptances seen under it are reported under one coarse signature because the reader garbles even legal
	// streams there; the precise signatures come from the fragmentations that keep all framing intact
	splits bool
}

func (w *worker) exec(id, mode, algo, seed string, data []byte, fr fragSpec, bs *bufSched, tail error) outcome {
	sh := &shim{data: data, frags: fr.frags, eofAlone: fr.eofAlone, tail: tail}
	rd, err := w.ctor(mode, algo, seed, sh)
	if err != nil {
		return outcome{err: fmt.Errorf("constructor: %w", err)}
	}
	w.runs++
	fl := &flight{id: id, mode: mode, algo: algo, data: data, fr: fr, buf: bs.cls, lane: w.lane}
	startFlightMonitor(w.r.c)
	flights.Store(w, fl)
	defer flights.Delete(w)
	return consume(rd, sh, bs, w.scratch, len(data), &fl.calls)
}

// ---------------------------------------------------------------------------
// watchdog of the direct lanes: a Read of the reader under test that never returns cannot be interrupted
// (it runs in this process), so it is reported and the run ends.

type flight struct {
	id, mode, algo, buf, lane string
	data                      []byte
	fr                        fragSpec
	calls                     atomic.Int64 // Read calls that returned
}

var (
	flights       sync.Map // *worker -> *flight
	flightMonitor sync.Once
	finishRule    string
)

const readStallLimit = 60 * time.Second // one Read of at most 1 MiB of decoded data

func startFlightMonitor(c *ev.Ctx) {
	flightMonitor.Do(func() {
		go func() {
			type seen struct {
				fl    *flight
				calls int64
				since time.Time
			}
			last := map[any]*seen{}
			for {
				time.Sleep(2 * time.Second)
				now := time.Now()
				flights.Range(func(k, v any) bool {
					fl := v.(*flight)
					s := last[k]
					if s == nil || s.fl != fl || s.calls != fl.calls.Load() {
						last[k] = &seen{fl, fl.calls.Load(), now}
						return true
					}
					if now.Sub(s.since) < readStallLimit {
						return true
					}
					c.Eval(1)
					c.Violation("direct:read-never-returns:"+readerOf(fl.mode), fl.id, map[string]any{"lane": fl.lane, "mode": fl.mode, "algo": fl.algo,
						"stream": preview(fl.data, 300), "stream_len": len(fl.data), "fragments": head(fl.fr.frags, 12), "eof_alone": fl.fr.eofAlone, "buffer_class": fl.buf,
						"reads_returned_before_the_stall": fl.calls.Load(), "stalled_for_s": int(now.Sub(s.since) / time.Second),
						"note": "the Read call runs inside this process and cannot be interrupted: the run ends here"})
					os.Exit(c.Finish(finishRule+" [ended early: a Read never returned]", 1))
					return false
				})
			}
		}()
	})
}

func head(v []int, n int) []int {
	if len(v) > n {
		return v[:n]
	}
	return v
}

func tailInts(v []int, n int) []int {
	if len(v) > n {
		return v[len(v)-n:]
	}
	return v
}

func (st *bstream) describe() map[string]any {
	d := map[string]any{"mode": st.sp.mode, "algo": st.sp.algo, "payload_len": len(st.sp.pay), "chunk_sizes": head(st.sp.chunkLens(), 16),
		"chunk_seq_class": st.sp.seqCls, "stream_len": len(st.enc)}
	if len(st.enc) <= 700 {
		d["stream"] = string(st.enc)
	}
	return d
}

// stradClass: which framing did the read boundaries the reader really saw split?
func stradClass(lay *layout, bounds []int) string {
	first := false
	for _, b := range bounds {
		switch lay.straddle(b) {
		case "nonfirst-header":
			return "nonfirst-header-straddle"
		case "first-header":
			first = true
		}
	}
	if first {
		return "first-header-straddle"
	}
	return "aligned"
}

// judgePos applies the positive oracle: output == payload and terminal error == io.EOF.
func (w *worker) judgePos(id string, st *bstream, fr fragSpec, bs *bufSched, o outcome) {
	w.evals++
	w.pos++
	sp := st.sp
	rdr := readerOf(sp.mode)
	detail := func(why string) func() map[string]any {
		return func() map[string]any {
			d := st.describe()
			d["why"] = why
			d["fragmentation"] = fr.cls
			d["fragment_sizes"] = head(fr.frags, 16)
			d["eof_delivered_alone"] = fr.eofAlone
			d["buffers"] = bs.cls
			d["terminal_error"] = errName(o.err)
			d["output_len"] = len(o.out)
			d["output"] = preview(o.out, 80)
			d["read_boundaries_seen_last"] = tailInts(o.bounds, 8)
			d["panic"] = o.panicMsg
			d["panic_site"] = o.panicSite
			return d
		}
	}
	if o.panicMsg != "" {
		w.violation("direct:panic:"+o.panicSite+":"+o.panicMsg+":legal-stream", id, detail("reader panicked on a legal stream"))
		return
	}
	if o.stuck {
		w.violation("direct:pos:"+rdr+":no-termination", id, detail("reader neither finished nor failed within the call budget"))
		return
	}
	w.distinct[w.lane+"|pos|"+sp.mode+"|"+sp.algo+"|"+sp.seqCls+"|"+fr.cls+"|"+bs.cls] = struct{}{}
	if o.err == io.EOF && bytes.Equal(o.out, sp.pay) {
		return
	}
	cls := "any"
	if rdr == "signed" {
		cls = stradClass(st.lay, o.bounds)
	}
	if o.err == io.EOF {
		w.violation("direct:pos:"+rdr+":wrong-bytes-accepted:"+cls, id, detail("legal stream decoded to different bytes and reported success for this fragmentation"))
		return
	}
	w.violation("direct:pos:"+rdr+":legal-rejected:"+cls, id, detail("legal stream rejected for this fragmentation / buffer schedule (accepted for others)"))
}

// negCase is a stream that is not the legal encoding of pay.
type negCase struct {
	kind   string
	region string
	strict bool // the statement names this defect explicitly: must be rejected even if the bytes come out right
	data   []byte
	seed   string
	mode   string // reader under test
	algo   string
	pay    []byte
	note   string
}

func (w *worker) judgeNeg(id string, nc *negCase, fr fragSpec, bs *bufSched, o outcome) {
	w.evals++
	w.neg++
	rdr := readerOf(nc.mode)
	detail := func(why string) func() map[string]any {
		return func() map[string]any {
			d := map[string]any{"why": why, "mode": nc.mode, "algo": nc.algo, "kind": nc.kind, "region": nc.region, "note": nc.note,
				"payload_len": len(nc.pay), "payload": preview(nc.pay, 60), "stream_len": len(nc.data),
				"fragmentation": fr.cls, "fragment_sizes": head(fr.frags, 16), "eof_delivered_alone": fr.eofAlone, "buffers": bs.cls,
				"terminal_error": errName(o.err), "output_len": len(o.out), "output": preview(o.out, 80), "panic": o.panicMsg, "panic_site": o.panicSite}
			if len(nc.data) <= 700 {
				d["stream"] = string(nc.data)
			}
			return d
		}
	}
	if o.panicMsg != "" {
		w.violation("direct:panic:"+o.panicSite+":"+o.panicMsg, id, detail("reader panicked instead of rejecting the stream"))
		return
	}
	if o.stuck {
		w.violation("direct:neg:"+rdr+":no-termination:"+nc.kind, id, detail("reader neither rejected nor finished within the call budget"))
		return
	}
	w.distinct[w.lane+"|neg|"+nc.mode+"|"+nc.kind+"|"+nc.region+"|"+fr.cls] = struct{}{}
	if o.err != io.EOF {
		return // rejected
	}
	if fr.splits && rdr == "signed" && (nc.strict || !bytes.Equal(o.out, nc.pay)) {
		w.violation("direct:neg:signed:bad-stream-accepted:framing-split-across-reads", id, detail("bad stream reported success under a fragmentation that splits chunk framing (kind "+nc.kind+", region "+nc.region+")"))
		return
	}
	if bytes.Equal(o.out, nc.pay) {
		if nc.strict {
			w.violation("direct:neg:"+rdr+":"+nc.region+":accepted-unverified", id, detail("stream with a wrong signature / checksum / chunk header terminator reported success"))
			return
		}
		w.obs["lenient: "+rdr+" accepted a "+nc.kind+" stream ("+nc.region+") with exactly the payload"]++
		return
	}
	how := "accepted-different"
	if len(o.out) < len(nc.pay) && bytes.Equal(o.out, nc.pay[:len(o.out)]) {
		how = "accepted-short"
	}
	w.violation("direct:neg:"+rdr+":"+nc.region+":"+how, id, detail("bad stream reported success (io.EOF) with bytes that are not the payload"))
}

// ---------------------------------------------------------------------------
// catalogues

type shortDef struct {
	n     int
	sizes []int
	cls   string
	pay   string // explicit payload ("" = PRNG bytes)
}

// streams small enough for exhaustive enumeration (signed: <= 600 bytes, i.e. at most 5 data chunks)
var shortDefs = []shortDef{
	{0, nil, "empty", ""},
	{1, nil, "one-chunk", ""},
	{2, []int{1}, "all-1byte", ""},
	{3, []int{1, 2}, "unequal", ""},
	{5, []int{2}, "equal+rest", ""},
	{5, []int{5}, "framing-like-payload", "0\r\n\r\n"},
	{16, []int{16}, "one-chunk-2digit", ""},
	{17, []int{16}, "2digit+1byte", ""},
	{40, []int{17, 1}, "unequal-2digit", ""},
	{5, []int{1}, "all-1byte", ""},
	// chunk sizes with hex digits above 9, written in upper case (1A, A, AB): hex is case-insensitive
	{47, []int{26, 10}, "upper-hex", ""},
	{181, []int{171}, "upper-hex-2digit", ""},
}

// additional ones for the (much shorter) unsigned framing
var shortDefsUnsigned = []shortDef{
	{17, []int{1}, "all-1byte", ""},
	{64, []int{1, 2, 3}, "unequal", ""},
	{300, []int{255, 1}, "unequal-2digit", ""},
	{23, []int{4}, "framing-like-payload", "0\r\n\r\n0\r\nx-amz-checksum:\r\n\r\n"},
}

type seqDef struct {
	cls    string
	sizes  []int
	maxPay int
}

var longSeqs = []seqDef{
	{"one-chunk", nil, 1 << 30},
	{"equal-8k", []int{8192}, 1 << 30},
	{"equal-64k", []int{65536}, 1 << 30},
	{"mixed-1byte", []int{1, 8192}, 1 << 30},
	{"unequal", []int{4096, 1, 4097, 17}, 1 << 30},
	{"small", []int{16, 1, 255, 256}, 8193},
	{"all-1byte", []int{1}, 1025},
	{"random", nil, 1 << 30}, // sizes drawn per stream
	{"upper-hex", []int{43690, 171, 64250}, 1 << 30},
}

var longLens = []int{1023, 1024, 1025, 4095, 4096, 4097, 8191, 8192, 8193, 65535, 65536, 65537}

func (r *runner) payload(id string, n int, explicit string) []byte {
	if explicit != "" {
		return []byte(explicit)
	}
	p := make([]byte, n)
	newPrng(r.base, "pay/"+id).fill(p)
	return p
}

func (r *runner) shortSpecs() []*bstream {
	var out []*bstream
	add := func(mode, algo string, i int, d shortDef) {
		id := fmt.Sprintf("S%02d-%s-%s", i, mode, algo)
		sp := &spec{mode: mode, algo: algo, sizes: d.sizes, seqCls: d.cls, pay: r.payload(id, d.n, d.pay)}
		st, err := r.build(id, sp)
		if err != nil {
			r.c.Inconclusive("encoder/layout self-check failed: " + err.Error())
			return
		}
		out = append(out, st)
	}
	for i, d := range shortDefs {
		add(mSigned, "", i, d)
		add(mSignedTr, s3c.Algos[i%5], i, d)
		add(mUnsigned, s3c.Algos[(i+2)%5], i, d)
		if i == 4 { // every algorithm once on the same shape
			for _, a := range s3c.Algos {
				if a != s3c.Algos[i%5] {
					add(mSignedTr, a, i, d)
				}
				if a != s3c.Algos[(i+2)%5] {
					add(mUnsigned, a, i, d)
				}
			}
		}
	}
	for i, d := range shortDefsUnsigned {
		add(mUnsigned, s3c.Algos[i%5], 20+i, d)
	}
	return out
}

func (r *runner) longSpecs() []*bstream {
	var out []*bstream
	thorough := r.c.Thorough()
	lens := append([]int{}, longLens...)
	if thorough {
		g := newPrng(r.base, "long-lens")
		for i := 0; i < 6; i++ {
			lens = append(lens, 1+g.intn(256<<10))
		}
		lens = append(lens, 256<<10)
	}
	k := 0
	for li, n := range lens {
		for si, sq := range longSeqs {
			if n > sq.maxPay {
				continue
			}
			// quick: two sequence classes per length (rotating), thorough: all
			if !thorough && (si+li)%4 != 0 {
				continue
			}
			for mi, mode := range modes {
				algos := []string{s3c.Algos[(li+si+mi)%5]}
				if mode == mSigned {
					algos = []string{""}
				} else if thorough && si == 1 {
					algos = s3c.Algos
				}
				for _, algo := range algos {
					id := fmt.Sprintf("L%03d-%s-%s-%d-%s", k, mode, algo, n, sq.cls)
					k++
					sizes := sq.sizes
					if sq.cls == "random" {
						g := newPrng(r.base, "seq/"+id)
						cnt := 2 + g.intn(6)
						for j := 0; j < cnt; j++ {
							sizes = append(sizes, 1+g.intn(n/3+1))
						}
					}
					sp := &spec{mode: mode, algo: algo, sizes: sizes, seqCls: sq.cls, pay: r.payload(id, n, "")}
					st, err := r.build(id, sp)
					if err != nil {
						r.c.Inconclusive("encoder/layout self-check failed: " + err.Error())
						continue
					}
					out = append(out, st)
				}
			}
		}
	}
	return out
}

// ---------------------------------------------------------------------------
// fragmentation helpers

func (w *worker) bufFixed(k int) *bufSched { return &bufSched{fixed: k, cls: "buf-" + strconv.Itoa(k)} }

func (w *worker) bufVary(id string) *bufSched {
	return &bufSched{vary: bufSizes, rng: newPrng(w.r.base, "buf/"+id), cls: "buf-vary"}
}

// bufChoice: a deterministic pick among fixed sizes and a varying schedule
func (w *worker) bufChoice(id string, g *prng) *bufSched {
	k := g.intn(len(bufSizes) + 3)
	if k >= len(bufSizes) {
		return w.bufVary(id)
	}
	return w.bufFixed(bufSizes[k])
}

// biasedCuts draws cut offsets within +-3 bytes of structural edges (and a few uniform ones).
func biasedCuts(lay *layout, g *prng, count int) []int {
	edges := lay.edges()
	set := map[int]bool{}
	for i := 0; i < count; i++ {
		var p int
		if len(edges) > 0 && g.intn(5) != 0 {
			p = edges[g.intn(len(edges))] + g.intn(7) - 3
		} else {
			p = g.intn(lay.n + 1)
		}
		if p > 0 && p < lay.n {
			set[p] = true
		}
	}
	out := make([]int, 0, len(set))
	for p := range set {
		out = append(out, p)
	}
	sort.Ints(out)
	return out
}

// alignedCuts draws cuts from the safe offsets (never inside framing).
func alignedCuts(lay *layout, g *prng, count int) []int {
	safe := lay.safeCuts()
	if len(safe) == 0 {
		return nil
	}
	set := map[int]bool{}
	for i := 0; i < count; i++ {
		set[safe[g.intn(len(safe))]] = true
	}
	// the ends of chunk data are the interesting aligned points
	for _, e := range lay.dataEnd {
		if g.intn(2) == 0 && e > 0 && e < lay.n {
			set[e] = true
		}
	}
	out := make([]int, 0, len(set))
	for p := range set {
		out = append(out, p)
	}
	sort.Ints(out)
	return out
}

func cutRegionClass(lay *layout, cut int) string {
	if s := lay.straddle(cut); s != "" {
		return s
	}
	return "data-or-edge"
}

// nearHeader: offsets within +-3 of any header line or trailer (used for the pair enumeration)
func nearHeader(lay *layout, full bool) []int {
	set := map[int]bool{}
	mark := func(a, b int) {
		for p := a; p <= b; p++ {
			if p > 0 && p < lay.n {
				set[p] = true
			}
		}
	}
	if full {
		for k := range lay.hdrStart {
			mark(lay.hdrStart[k]-5, lay.hdrEnd[k]+3)
		}
		mark(lay.hdrEnd[len(lay.hdrEnd)-1], lay.n)
	} else {
		for _, r := range lay.regs {
			mark(r.start-3, r.start+3)
		}
	}
	out := make([]int, 0, len(set))
	for p := range set {
		out = append(out, p)
	}
	sort.Ints(out)
	return out
}

// ---------------------------------------------------------------------------
// positive families

func (w *worker) posShort(st *bstream) {
	gid := w.lane + "/pos/" + st.id
	if !w.want(gid) {
		return
	}
	defer w.flush()
	thorough := w.r.c.Thorough()
	L := len(st.enc)
	sp := st.sp
	run := func(id string, fr fragSpec, bs *bufSched) {
		if !w.want(id) {
			return
		}
		o := w.exec(id, sp.mode, sp.algo, dSeed, st.enc, fr, bs, io.EOF)
		w.judgePos(id, st, fr, bs, o)
	}
	bufsFor := func(id string) []*bufSched {
		if thorough {
			var out []*bufSched
			for _, k := range bufSizes {
				out = append(out, w.bufFixed(k))
			}
			return append(out, w.bufVary(id))
		}
		return []*bufSched{w.bufFixed(bigBuf), w.bufFixed(7), w.bufFixed(1), w.bufVary(id)}
	}
	// whole stream, every buffer size, both EOF styles
	for _, alone := range []bool{false, true} {
		for _, k := range bufSizes {
			run(fmt.Sprintf("%s/whole/%v/%d", gid, alone, k), fragSpec{eofAlone: alone, cls: "whole"}, w.bufFixed(k))
		}
		for v := 0; v < 3; v++ {
			id := fmt.Sprintf("%s/whole/%v/vary%d", gid, alone, v)
			run(id, fragSpec{eofAlone: alone, cls: "whole"}, w.bufVary(id))
		}
	}
	// every single cut position
	for cut := 1; cut < L; cut++ {
		cls := "cut1:" + cutRegionClass(st.lay, cut)
		base := fmt.Sprintf("%s/cut1/%d", gid, cut)
		for bi, bs := range bufsFor(base) {
			run(fmt.Sprintf("%s/%d", base, bi), fragSpec{frags: []int{cut}, eofAlone: (cut+bi)%2 == 1, cls: cls}, bs)
		}
	}
	// every pair of cut positions around the headers
	near := nearHeader(st.lay, thorough || L <= 200)
	for ai, a := range near {
		for _, b := range near[ai+1:] {
			cls := "cut2:" + cutRegionClass(st.lay, a) + "+" + cutRegionClass(st.lay, b)
			id := fmt.Sprintf("%s/cut2/%d-%d", gid, a, b)
			run(id+"/big", fragSpec{frags: []int{a, b - a}, eofAlone: (a+b)%2 == 1, cls: cls}, w.bufFixed(bigBuf))
			if readerOf(sp.mode) == "unsigned" || thorough {
				run(id+"/vary", fragSpec{frags: []int{a, b - a}, eofAlone: (a+b)%2 == 0, cls: cls}, w.bufVary(id))
			}
		}
	}
	// fixed-size fragments (1 = every byte on its own)
	for _, k := range []int{1, 2, 3, 5, 7, 16, 64} {
		if k >= L {
			continue
		}
		frags := make([]int, 0, L/k+1)
		for n := 0; n < L; n += k {
			frags = append(frags, k)
		}
		base := fmt.Sprintf("%s/fixed/%d", gid, k)
		for bi, bs := range bufsFor(base) {
			run(fmt.Sprintf("%s/%d", base, bi), fragSpec{frags: frags, eofAlone: bi%2 == 0, cls: "fixed-" + strconv.Itoa(k)}, bs)
		}
	}
	// aligned cuts (never inside framing) and buffer-driven fragmentation
	n := w.r.c.Pick(6, 40)
	for i := 0; i < n; i++ {
		id := fmt.Sprintf("%s/aligned/%d", gid, i)
		g := newPrng(w.r.base, id)
		cuts := alignedCuts(st.lay, g, 1+g.intn(4))
		frags := cutsToFrags(cuts)
		run(id+"/src", fragSpec{frags: frags, eofAlone: i%2 == 0, cls: "aligned"}, w.bufFixed(bigBuf))
		// the same boundaries produced by the destination buffer sizes instead of the source
		run(id+"/buf", fragSpec{eofAlone: i%2 == 1, cls: "buffer-driven"}, &bufSched{list: frags, fixed: bigBuf, cls: "buf-driven"})
	}
}

func (w *worker) posLong(st *bstream) {
	gid := w.lane + "/pos/" + st.id
	if !w.want(gid) {
		return
	}
	defer w.flush()
	sp := st.sp
	L := len(st.enc)
	run := func(id string, fr fragSpec, bs *bufSched) {
		if !w.want(id) {
			return
		}
		// one-byte buffers on long streams cost a call per byte: keep them to the shorter ones
		if bs.fixed > 0 && bs.fixed < 16 && bs.vary == nil && L > 70000 && !w.r.c.Thorough() {
			bs = w.bufFixed(64)
		}
		o := w.exec(id, sp.mode, sp.algo, dSeed, st.enc, fr, bs, io.EOF)
		w.judgePos(id, st, fr, bs, o)
	}
	for i, k := range bufSizes {
		run(fmt.Sprintf("%s/whole/%d", gid, k), fragSpec{eofAlone: i%2 == 0, cls: "whole"}, w.bufFixed(k))
	}
	n := w.r.c.Pick(24, 240)
	for i := 0; i < n; i++ {
		id := fmt.Sprintf("%s/prng/%d", gid, i)
		g := newPrng(w.r.base, id)
		cuts := biasedCuts(st.lay, g, 1+g.intn(12))
		run(id, fragSpec{frags: cutsToFrags(cuts), eofAlone: g.intn(2) == 0, cls: "prng-biased"}, w.bufChoice(id, g))
	}
	// single boundary-biased cut with a large buffer (isolates one straddle)
	for i := 0; i < n; i++ {
		id := fmt.Sprintf("%s/cut1/%d", gid, i)
		g := newPrng(w.r.base, id)
		cuts := biasedCuts(st.lay, g, 1)
		if len(cuts) == 0 {
			continue
		}
		run(id, fragSpec{frags: cutsToFrags(cuts), eofAlone: g.intn(2) == 0, cls: "cut1:" + cutRegionClass(st.lay, cuts[0])}, w.bufFixed(bigBuf))
	}
	for i := 0; i < n; i++ {
		id := fmt.Sprintf("%s/aligned/%d", gid, i)
		g := newPrng(w.r.base, id)
		frags := cutsToFrags(alignedCuts(st.lay, g, 1+g.intn(10)))
		run(id+"/src", fragSpec{frags: frags, eofAlone: g.intn(2) == 0, cls: "aligned"}, w.bufFixed(bigBuf))
		big := true
		for _, f := range frags {
			if f > bigBuf {
				big = false
			}
		}
		if big {
			run(id+"/buf", fragSpec{eofAlone: g.intn(2) == 0, cls: "buffer-driven"}, &bufSched{list: frags, fixed: bigBuf, cls: "buf-driven"})
		}
	}
	for _, k := range []int{1, 7, 512, 4096, 4097} {
		if k == 1 && L > 70000 {
			continue
		}
		frags := make([]int, 0, L/k+1)
		for n := 0; n < L; n += k {
			frags = append(frags, k)
		}
		id := fmt.Sprintf("%s/fixed/%d", gid, k)
		run(id, fragSpec{frags: frags, eofAlone: k%2 == 0, cls: "fixed-" + strconv.Itoa(k)}, w.bufChoice(id, newPrng(w.r.base, id)))
	}
}

// ---------------------------------------------------------------------------
// negative families

var mutAlphabet = []byte{'0', '1', 'f', 'F', '-', '+', '\r', '\n', ';', ':', '=', ' ', 0, 0xff, 'x'}

func mutValues(orig byte, all bool, g *prng) []byte {
	if all {
		out := make([]byte, 0, 255)
		for v := 0; v < 256; v++ {
			if byte(v) != orig {
				out = append(out, byte(v))
			}
		}
		return out
	}
	set := map[byte]bool{orig ^ 0x01: true, orig ^ 0x80: true, orig ^ 0x20: true, orig + 1: true, byte(g.intn(256)): true}
	for _, b := range mutAlphabet {
		set[b] = true
	}
	delete(set, orig)
	out := make([]byte, 0, len(set))
	for b := range set {
		out = append(out, b)
	}
	sort.Slice(out, func(i, j int) bool { return out[i] < out[j] })
	return out
}

// strictMutation: does a one-byte change at position i provably falsify a signature or the trailing checksum?
func strictMutation(st *bstream, reg *region, i int, v byte) bool {
	switch reg.name {
	case "sig", "final-sig", "trsig-value":
		return hexVal(v) != hexVal(st.enc[i]) // other digit or not a digit at all; a mere case change is not judged strictly
	case "hdr-crlf", "final-hdr-crlf", "data-crlf":
		// a chunk header ends in CR LF, and so does the data of a chunk; any other byte in either place is a malformed
		// stream, not another way of writing the same one
		return v != st.enc[i]
	case "tr-value":
		orig := string(st.enc[reg.start:reg.end])
		m := []byte(orig)
		m[i-reg.start] = v
		return !sameB64(orig, string(m))
	}
	return false
}

func coarseTrunc(st *bstream, t int) string {
	lay := st.lay
	reg := lay.regionAt(t)
	switch {
	case strings.HasPrefix(reg.name, "final-"), strings.HasPrefix(reg.name, "tr"), reg.name == "end-crlf":
		return "truncated-in-final-unit"
	case reg.name == "data" && t == reg.start && readerOf(st.sp.mode) == "unsigned":
		return "truncated-at-chunk-data-start"
	case reg.name == "data", reg.name == "data-crlf":
		return "truncated-in-chunk-data"
	}
	return "truncated-in-chunk-header"
}

// negFrags yields the fragmentations under which one bad stream is tried. prefix is the length of
// the part of the stream that is byte-identical to the legal stream (the legal layout is valid there);
// focus is the offset of the defect (0 = none in particular).
func (w *worker) negFrags(id string, st *bstream, nc *negCase, prefix, focus int, variants int) []fragBuf {
	data := nc.data
	g := newPrng(w.r.base, "nf/"+id)
	unsignedRdr := readerOf(nc.mode) == "unsigned"
	sameFraming := readerOf(nc.mode) == readerOf(st.sp.mode)
	if !sameFraming {
		prefix = 0
	}
	if prefix > len(data) {
		prefix = len(data)
	}
	buf := func() *bufSched {
		if unsignedRdr {
			return w.bufChoice(id, g)
		}
		return w.bufFixed(bigBuf)
	}
	aligned := func() []int {
		var cuts []int
		for _, c := range alignedCuts(st.lay, g, 1+g.intn(3)) {
			if c <= prefix && c < len(data) {
				cuts = append(cuts, c)
			}
		}
		return cuts
	}
	out := []fragBuf{
		{fragSpec{eofAlone: false, cls: "whole"}, w.bufFixed(bigBuf)},
		{fragSpec{eofAlone: true, cls: "whole"}, w.bufFixed(bigBuf)},
	}
	for v := 0; v < variants; v++ {
		switch (v + g.intn(2)) % 4 {
		case 0: // boundary at the point of interest
			if focus > 0 && focus < len(data) {
				splits := !unsignedRdr && (!sameFraming || focus > prefix || st.lay.straddle(focus) != "")
				out = append(out, fragBuf{fragSpec{frags: []int{focus}, eofAlone: g.intn(2) == 0, cls: "cut-at-defect", splits: splits}, buf()})
				continue
			}
			fallthrough
		case 1: // cuts that keep all framing of the legal prefix intact
			out = append(out, fragBuf{fragSpec{frags: cutsToFrags(aligned()), eofAlone: g.intn(2) == 0, cls: "aligned"}, buf()})
		case 2:
			if unsignedRdr {
				frags := make([]int, len(data))
				for i := range frags {
					frags[i] = 1
				}
				out = append(out, fragBuf{fragSpec{frags: frags, eofAlone: g.intn(2) == 0, cls: "fixed-1"}, buf()})
				continue
			}
			fallthrough
		default:
			var cuts []int
			for _, c := range biasedCuts(st.lay, g, 1+g.intn(3)) {
				if c < len(data) {
					cuts = append(cuts, c)
				}
			}
			out = append(out, fragBuf{fragSpec{frags: cutsToFrags(cuts), eofAlone: g.intn(2) == 0, cls: "prng-biased", splits: !unsignedRdr}, buf()})
		}
	}
	return out
}

type fragBuf struct {
	fr fragSpec
	bs *bufSched
}

func (w *worker) runNeg(id string, st *bstream, nc *negCase, prefix, focus int, variants int) {
	if !w.want(id) {
		return
	}
	for vi, v := range w.negFrags(id, st, nc, prefix, focus, variants) {
		lid := fmt.Sprintf("%s/f%d", id, vi)
		if !w.want(lid) {
			continue
		}
		o := w.exec(lid, nc.mode, nc.algo, nc.seed, nc.data, v.fr, v.bs, io.EOF)
		w.judgeNeg(lid, nc, v.fr, v.bs, o)
	}
}

// negMutTrunc: every single-byte mutation and every truncation point of a short stream
func (w *worker) negMutTrunc(st *bstream) {
	gid := w.lane + "/neg/" + st.id
	if !w.want(gid) {
		return
	}
	defer w.flush()
	sp := st.sp
	L := len(st.enc)
	all := w.r.c.Thorough() && L <= 250
	for i := 0; i < L; i++ {
		if !w.want(fmt.Sprintf("%s/mut/%d", gid, i)) {
			continue
		}
		reg := st.lay.regionAt(i)
		g := newPrng(w.r.base, fmt.Sprintf("%s/mut/%d", gid, i))
		for _, v := range mutValues(st.enc[i], all, g) {
			id := fmt.Sprintf("%s/mut/%d/%d", gid, i, v)
			if !w.want(id) {
				continue
			}
			m := append([]byte{}, st.enc...)
			m[i] = v
			nc := &negCase{kind: "mutate", region: reg.name, strict: strictMutation(st, reg, i, v), data: m, seed: dSeed, mode: sp.mode, algo: sp.algo, pay: sp.pay,
				note: fmt.Sprintf("byte %d (%s of chunk %d) %q -> %q", i, reg.name, reg.chunk, st.enc[i], v)}
			nv := 1
			if all {
				nv = 0
				if v%16 == 0 {
					nv = 1
				}
			}
			w.runNeg(id, st, nc, i, i, nv)
		}
	}
	for t := 0; t < L; t++ {
		id := fmt.Sprintf("%s/trunc/%d", gid, t)
		nc := &negCase{kind: "truncate", region: coarseTrunc(st, t), data: st.enc[:t], seed: dSeed, mode: sp.mode, algo: sp.algo, pay: sp.pay,
			note: fmt.Sprintf("cut short to %d of %d bytes (first missing byte: %s of chunk %d)", t, L, st.lay.regionAt(t).name, st.lay.regionAt(t).chunk)}
		w.runNeg(id, st, nc, t, 0, 2)
	}
}

// negLong: PRNG-chosen mutations and truncations of a long stream
func (w *worker) negLong(st *bstream) {
	gid := w.lane + "/neg/" + st.id
	if !w.want(gid) {
		return
	}
	defer w.flush()
	sp := st.sp
	L := len(st.enc)
	n := w.r.c.Pick(16, 120)
	for k := 0; k < n; k++ {
		id := fmt.Sprintf("%s/mut/%d", gid, k)
		g := newPrng(w.r.base, id)
		var i int
		if g.intn(4) != 0 {
			cs := biasedCuts(st.lay, g, 1)
			if len(cs) == 0 {
				continue
			}
			i = cs[0]
		} else {
			i = g.intn(L)
		}
		vals := mutValues(st.enc[i], false, g)
		v := vals[g.intn(len(vals))]
		reg := st.lay.regionAt(i)
		m := append([]byte{}, st.enc...)
		m[i] = v
		nc := &negCase{kind: "mutate", region: reg.name, strict: strictMutation(st, reg, i, v), data: m, seed: dSeed, mode: sp.mode, algo: sp.algo, pay: sp.pay,
			note: fmt.Sprintf("byte %d (%s of chunk %d) %q -> %q", i, reg.name, reg.chunk, st.enc[i], v)}
		w.runNeg(id, st, nc, i, i, 1)
	}
	for k := 0; k < n; k++ {
		id := fmt.Sprintf("%s/trunc/%d", gid, k)
		g := newPrng(w.r.base, id)
		t := g.intn(L)
		if g.intn(3) != 0 {
			if cs := biasedCuts(st.lay, g, 1); len(cs) > 0 {
				t = cs[0]
			}
		}
		nc := &negCase{kind: "truncate", region: coarseTrunc(st, t), data: st.enc[:t], seed: dSeed, mode: sp.mode, algo: sp.algo, pay: sp.pay,
			note: fmt.Sprintf("cut short to %d of %d bytes (first missing byte: %s of chunk %d)", t, L, st.lay.regionAt(t).name, st.lay.regionAt(t).chunk)}
		w.runNeg(id, st, nc, t, 0, 1)
	}
	w.negTargeted(st)
}

// splice replaces enc[a:b] by repl.
func splice(enc []byte, a, b int, repl []byte) []byte {
	out := make([]byte, 0, len(enc)-(b-a)+len(repl))
	out = append(out, enc[:a]...)
	out = append(out, repl...)
	return append(out, enc[b:]...)
}

func otherAlgo(a string) string {
	for i, x := range s3c.Algos {
		if x == a {
			return s3c.Algos[(i+1)%len(s3c.Algos)]
		}
	}
	return "crc32"
}

// negTargeted: the named defects of the property statement and of DESIGN.md C12
func (w *worker) negTargeted(st *bstream) {
	gid := w.lane + "/neg/" + st.id + "/tgt"
	if !w.want(gid) {
		return
	}
	defer w.flush()
	sp := st.sp
	lay := st.lay
	nch := len(lay.dataEnd)
	signed := sp.mode != mUnsigned
	mk := func(kind, region string, strict bool, data []byte, note string) *negCase {
		return &negCase{kind: kind, region: region, strict: strict, data: data, seed: dSeed, mode: sp.mode, algo: sp.algo, pay: sp.pay, note: note}
	}
	var cases []*negCase
	var prefix, focus []int
	// add(case, p, f): p = length of the prefix identical to the legal stream, f = offset of the defect (0: none)
	add := func(nc *negCase, p, f int) {
		cases = append(cases, nc)
		prefix = append(prefix, p)
		focus = append(focus, f)
	}

	if signed {
		nc := mk("bad-seed", "seed-signature", true, st.enc, "reader seeded with another request signature than the encoder")
		nc.seed = dSeed2
		add(nc, len(st.enc), 0)
		idx := []int{-1}
		for k := 1; k <= nch && k <= 6; k++ {
			idx = append(idx, k)
		}
		if nch > 6 {
			idx = append(idx, nch)
		}
		for _, k := range idx {
			s := sp.stream()
			s.BadChunkSig = k
			region, f := "sig", 0
			if k == -1 {
				region = "final-sig"
				f = lay.hdrStart[nch]
			} else {
				f = lay.hdrStart[k-1]
			}
			add(mk("bad-chunk-signature", region, true, encode(s, sp.pay, dSeed), fmt.Sprintf("signature of chunk %d corrupted", k)), f, f)
		}
	}
	if sp.trailerName() != "" {
		s := sp.stream()
		s.TrailerVal = s3c.Checksum(sp.algo, append(append([]byte{}, sp.pay...), 'x'))
		add(mk("bad-trailer-value", "tr-value", true, encode(s, sp.pay, dSeed), "trailing checksum of other data (trailer signature consistent with it)"), lay.hdrStart[nch], lay.hdrStart[nch])
		s = sp.stream()
		s.TrailerName = "x-amz-checksum-" + otherAlgo(sp.algo)
		add(mk("bad-trailer-name", "tr-name", true, encode(s, sp.pay, dSeed), "trailer carries (correctly) another algorithm than the announced one"), lay.hdrStart[nch], lay.hdrStart[nch])
		if sp.mode == mSignedTr {
			s = sp.stream()
			s.BadTrailerSig = true
			add(mk("bad-trailer-signature", "trsig-value", true, encode(s, sp.pay, dSeed), "x-amz-trailer-signature corrupted"), lay.hdrStart[nch], lay.hdrStart[nch])
		}
	}
	unit := func(k int) []byte { return st.enc[lay.hdrStart[k]:lay.hdrStart[k+1]] }
	if nch >= 2 {
		// swap two different chunks wholesale (header, data, CRLF)
		a, b := 0, nch-1
		if !bytes.Equal(unit(a), unit(b)) {
			var d []byte
			for k := 0; k < nch; k++ {
				switch k {
				case a:
					d = append(d, unit(b)...)
				case b:
					d = append(d, unit(a)...)
				default:
					d = append(d, unit(k)...)
				}
			}
			d = append(d, st.enc[lay.hdrStart[nch]:]...)
			add(mk("swap-chunks", "chunk-order", false, d, fmt.Sprintf("chunks %d and %d exchanged", a, b)), 0, lay.hdrStart[1])
		}
		add(mk("drop-chunk", "chunk-order", false, splice(st.enc, lay.hdrStart[nch-1], lay.hdrStart[nch], nil), "last data chunk removed"), lay.hdrStart[nch-1], lay.hdrStart[nch-1])
		add(mk("drop-chunk", "chunk-order", false, splice(st.enc, 0, lay.hdrStart[1], nil), "first data chunk removed"), 0, 0)
	}
	if nch >= 1 {
		add(mk("dup-chunk", "chunk-order", false, splice(st.enc, lay.hdrStart[nch], lay.hdrStart[nch], unit(nch-1)), "last data chunk sent twice"), lay.hdrStart[nch], lay.hdrStart[nch])
	}
	for i, tail := range [][]byte{[]byte("x"), []byte("\r\n"), []byte("0\r\n\r\n"), st.enc} {
		add(mk("extra-tail", "after-final-chunk", false, append(append([]byte{}, st.enc...), tail...), fmt.Sprintf("extra data variant %d after the closing CRLF", i)), len(st.enc), len(st.enc))
	}
	{
		s := sp.stream()
		s.OmitFinalChunk = true
		add(mk("omit-final-chunk", "truncated-in-final-unit", false, encode(s, sp.pay, dSeed), "stream ends after the last data chunk"), lay.hdrStart[nch], 0)
		s = sp.stream()
		s.UpperHex = true
		add(mk("upper-hex-size", "size", false, encode(s, sp.pay, dSeed), "chunk sizes in upper-case hex"), 0, 0)
	}
	// the size field of the first and the last data chunk rewritten (no re-signing)
	sizeReg := func(k int) *region {
		for i := range lay.regs {
			if lay.regs[i].chunk == k && lay.regs[i].name == "size" {
				return &lay.regs[i]
			}
		}
		return nil
	}
	ks := []int{}
	if nch >= 1 {
		ks = append(ks, 0)
	}
	if nch >= 2 {
		ks = append(ks, nch-1)
	}
	for _, k := range ks {
		reg := sizeReg(k)
		if reg == nil {
			continue
		}
		cur := string(st.enc[reg.start:reg.end])
		n, _ := strconv.ParseInt(cur, 16, 64)
		// sizes that would really be allocated stay far below 64 MiB; the huge ones are beyond what the
		// runtime can allocate at all (makeslice refuses them without touching memory)
		for _, s := range []string{"-1", "-" + cur, "-0", "+" + cur, "0" + cur, "000" + cur, " " + cur, cur + " ", "0x" + cur,
			"7fffffffffffffff", "-7fffffffffffffff", "8000000000000000", "ffffffffffffffff", "1000000000001",
			fmt.Sprintf("%x", n+1), fmt.Sprintf("%x", n-1), fmt.Sprintf("%x", n+0x10000), ""} {
			kind := "size-rewritten"
			if strings.HasPrefix(s, "-") || len(s) >= 13 {
				kind = "hostile-size"
			}
			add(mk(kind, "size", false, splice(st.enc, reg.start, reg.end, []byte(s)), fmt.Sprintf("size field of chunk %d %q -> %q", k, cur, s)), reg.start, reg.start)
		}
	}
	// a stream of one mode fed to the reader of another
	for _, other := range modes {
		if other == sp.mode {
			continue
		}
		nc := mk("mode-mismatch", "foreign-framing", false, st.enc, "legal "+sp.mode+" stream read by the "+other+" reader")
		nc.mode = other
		if other == mSigned {
			nc.algo = ""
		} else if nc.algo == "" {
			nc.algo = "crc32"
		}
		add(nc, 0, 0)
	}
	for i, nc := range cases {
		w.runNeg(fmt.Sprintf("%s/%d-%s", gid, i, nc.kind), st, nc, prefix[i], focus[i], 3)
	}
	// the source fails after delivering a complete legal stream (what the gateway's deferred
	// signature check does): recorded, not judged (belongs to C02)
	if w.want(gid + "/src-error") {
		srcErr := errors.New("c12: simulated failure of the underlying reader")
		for _, alone := range []bool{false, true} {
			o := w.exec(gid+"/src-error", sp.mode, sp.algo, dSeed, st.enc, fragSpec{eofAlone: alone, cls: "whole"}, w.bufFixed(bigBuf), srcErr)
			if o.panicMsg == "" && o.err == io.EOF {
				w.obs[fmt.Sprintf("not judged (C02): %s reader reports success although the underlying reader ended with an error (error delivered alone=%v)", readerOf(sp.mode), alone)]++
			}
		}
	}
}

// ---------------------------------------------------------------------------

func laneDirect(c *ev.Ctx) {
	r := &runner{c: c, base: uint64(c.Rng("c12/direct").Int63())}
	shorts := r.shortSpecs()
	longs := r.longSpecs()
	c.Set("direct_streams_short", len(shorts))
	c.Set("direct_streams_long", len(longs))

	type job func(w *worker)
	var jobs []job
	for _, st := range shorts {
		st := st
		jobs = append(jobs, func(w *worker) { w.posShort(st) })
		if len(st.enc) <= 400 || readerOf(st.sp.mode) == "signed" && len(st.enc) <= 600 && c.Thorough() {
			jobs = append(jobs, func(w *worker) { w.negMutTrunc(st) })
		}
		jobs = append(jobs, func(w *worker) { w.negTargeted(st) })
	}
	for _, st := range longs {
		st := st
		jobs = append(jobs, func(w *worker) { w.posLong(st) })
		jobs = append(jobs, func(w *worker) { w.negLong(st) })
	}
	ch := make(chan job)
	var wg sync.WaitGroup
	nw := runtime.GOMAXPROCS(0)
	if nw > 16 {
		nw = 16
	}
	for i := 0; i < nw; i++ {
		wg.Add(1)
		go func() {
			defer wg.Done()
			w := r.newWorker()
			for j := range ch {
				j(w)
			}
			w.flush()
		}()
	}
	// long jobs first (better packing)
	for i := len(jobs) - 1; i >= 0; i-- {
		ch <- jobs[i]
	}
	close(ch)
	wg.Wait()
	if len(shorts) > 0 {
		st := shorts[len(shorts)/2]
		c.Sample(map[string]any{"lane": "direct", "stream_id": st.id, "mode": st.sp.mode, "algo": st.sp.algo, "payload": preview(st.sp.pay, 40),
			"chunk_sizes": st.sp.chunkLens(), "stream": preview(st.enc, 200), "oracle": "for every fragmentation x buffer schedule: output == payload && err == io.EOF"})
	}
	for _, st := range shorts {
		if st.sp.mode == mUnsigned && len(st.lay.dataEnd) >= 2 {
			t := st.lay.hdrEnd[1]
			c.Sample(map[string]any{"lane": "direct", "kind": "truncate", "stream_id": st.id, "payload": preview(st.sp.pay, 40), "stream_cut_to": preview(st.enc[:t], 200),
				"oracle": "terminal error != io.EOF, or output == payload", "tried_under": "whole / aligned cuts / 1-byte fragments, EOF delivered with the last bytes or alone, buffers 1 B..1 MiB"})
			break
		}
	}
}
