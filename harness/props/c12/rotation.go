package c12

import (
	"bytes"
	"fmt"
	"io"
	"time"

	"github.com/versity/versitygw/s3api/utils"

	"verif/harness/internal/ev"
	"verif/harness/internal/s3c"
)

// Lane A3: the verdict on a stream depends on that stream and the credentials handed to the reader - not on what the
// process decoded before. A sequence of signed streams is decoded in one process, each with its own (access key,
// secret, day, region): the same access key with a new secret (a rotated secret), another access key with the same
// secret, another day, another region. A stream whose chunks are signed with the key derived from the credentials
// given to the reader must decode to exactly its payload; one whose chunks are signed with any other key (the secret
// the access key had before, the key of another day) must be rejected.
func laneRotation(c *ev.Ctx) {
	if !c.Want("A3") {
		return
	}
	type cred struct{ access, secret, day, amz, region string }
	base := cred{"c12rot", "first-secret-of-the-account", dDay, dAmz, dRegion}
	vary := func(f func(*cred)) cred { x := base; f(&x); return x }
	creds := map[string]cred{
		"base":           base,
		"rotated-secret": vary(func(x *cred) { x.secret = "second-secret-of-the-account" }),
		"other-access":   vary(func(x *cred) { x.access = "c12other" }),
		"next-day":       vary(func(x *cred) { x.day, x.amz = "20300103", "20300103T000001Z" }),
		"other-region":   vary(func(x *cred) { x.region = "eu-west-3" }),
	}
	// every ordered pair (earlier, later) of credential sets, each later stream once valid and once signed with the
	// key of the earlier one; three chunk layouts, with and without trailer
	names := []string{"base", "rotated-secret", "other-access", "next-day", "other-region"}
	pay := bytes.Repeat([]byte("rotation-lane-payload."), 700)
	run := func(cr, signer cred, mode, algo string, chunks []int) (out []byte, err error) {
		st := &s3c.Stream{Mode: s3c.StreamSigned, ChunkSizes: chunks}
		trailer := ""
		if mode == mSignedTr {
			st.Mode, st.TrailerName = s3c.StreamSignedTr, "x-amz-checksum-"+algo
			trailer = st.TrailerName
		}
		scope := signer.day + "/" + signer.region + "/s3/aws4_request"
		enc := st.Encode(pay, s3c.SigningKey(signer.secret, signer.day, signer.region, "s3"), signer.amz, scope, dSeed)
		ad := utils.AuthData{Signature: dSeed, Region: cr.region, Date: cr.day, Algorithm: "AWS4-HMAC-SHA256", Access: cr.access, SignedHeaders: "host;x-amz-content-sha256;x-amz-date"}
		tm, _ := timeOf(cr.amz)
		var rd io.Reader
		switch trailer {
		case "":
			rd, err = utils.NewSignedChunkReader(bytes.NewReader(enc), ad, cr.region, cr.secret, tm, "", false)
		case "x-amz-checksum-crc32":
			rd, err = utils.NewSignedChunkReader(bytes.NewReader(enc), ad, cr.region, cr.secret, tm, "x-amz-checksum-crc32", false)
		default:
			rd, err = utils.NewSignedChunkReader(bytes.NewReader(enc), ad, cr.region, cr.secret, tm, "x-amz-checksum-sha256", false)
		}
		if err != nil {
			return nil, err
		}
		return io.ReadAll(rd)
	}
	n := 0
	for _, first := range names {
		for _, second := range names {
			if first == second {
				continue
			}
			for li, chunks := range [][]int{{4096}, {1, 8191, 100}, nil} {
				for _, ma := range [][2]string{{mSigned, ""}, {mSignedTr, "crc32"}, {mSignedTr, "sha256"}} {
					n++
					id := fmt.Sprintf("A3/%s/%s/%d/%s%s", first, second, li, ma[0], ma[1])
					if !c.Want(id) {
						continue
					}
					a, b := creds[first], creds[second]
					det := map[string]any{"earlier_credentials": first, "later_credentials": second, "mode": ma[0], "trailer": ma[1], "chunk_sizes": chunks}
					c.Eval(3)
					// 1. a valid stream under the earlier credentials (whatever the process remembers is now loaded)
					if out, err := run(a, a, ma[0], ma[1], chunks); err != nil || !bytes.Equal(out, pay) {
						det["error"] = fmt.Sprint(err)
						c.Violation("rotation:valid-stream-rejected:first:"+first, id, det)
						continue
					}
					// 2. a valid stream under the later credentials
					out, err := run(b, b, ma[0], ma[1], chunks)
					if err != nil || !bytes.Equal(out, pay) {
						det["error"], det["decoded_len"] = fmt.Sprint(err), len(out)
						c.Violation("rotation:valid-stream-rejected:after:"+first+"->"+second, id, det)
						continue
					}
					// 3. later credentials, chunks signed with the key of the earlier ones (the access key is no part of the key
					// derivation: with the same secret, day and region the key is the same and there is nothing to refuse)
					if a.secret == b.secret && a.day == b.day && a.region == b.region {
						c.Distinct(fmt.Sprintf("A3|%s->%s|%s%s|layout%d", first, second, ma[0], ma[1], li))
						continue
					}
					out, err = run(b, a, ma[0], ma[1], chunks)
					if err == nil {
						det["decoded_len"] = len(out)
						c.Violation("rotation:chunks-signed-with-another-key-accepted:"+first+"->"+second, id, det)
						continue
					}
					c.Distinct(fmt.Sprintf("A3|%s->%s|%s%s|layout%d", first, second, ma[0], ma[1], li))
				}
			}
		}
	}
	c.Add("rotation_cases", n)
}

func timeOf(amz string) (t time.Time, err error) { return time.Parse("20060102T150405Z", amz) }
