package c03

import (
	"math/rand"
	"strings"

	"verif/harness/props/catalog"
)

// Directed cases: fixed configurations around the decisions the property statement singles
// out (per key of a batch delete, source and destination of a copy, version-addressed
// requests, one bucket's grants never open another bucket). They run in every tier and for
// every seed through the same reference and the same verdict rule as the generated matrix.

type scenario struct {
	name    string
	variant string
	role    string
	build   func(w *worker, who account) (setups []bucketSetup, decoy string)
}

func pol(stmts ...stmt) *policy {
	p := &policy{Stmts: stmts}
	p.render(rand.New(rand.NewSource(1)))
	return p
}

func allow(who string, actions []string, resources ...string) stmt {
	return stmt{Effect: "Allow", Principals: []string{who}, Actions: actions, Resources: resources}
}

func deny(who string, actions []string, resources ...string) stmt {
	return stmt{Effect: "Deny", Principals: []string{who}, Actions: actions, Resources: resources}
}

var private = aclSpec{Kind: "private", Canned: "private", Syntax: "canned"}

func scenarios() []scenario {
	A := func(a ...string) []string { return a }
	return []scenario{
		{"batch-deny-on-prefix", "delete-objects", "user", func(w *worker, who account) ([]bucketSetup, string) {
			b := w.st.Plain
			return []bucketSetup{{Bucket: b, Owner: otherAK, ACL: private,
				Policy: pol(allow(who.ak, A("s3:*"), b, b+"/*"), deny(who.ak, A("s3:DeleteObject"), b+"/d/*"))}}, ""
		}},
		{"batch-allow-on-prefix", "delete-objects+3keys", "userplus", func(w *worker, who account) ([]bucketSetup, string) {
			b := w.st.Plain
			return []bucketSetup{{Bucket: b, Owner: otherAK, ACL: private, Policy: pol(allow(who.ak, A("s3:DeleteObject"), b, b+"/d/*"))}}, ""
		}},
		{"batch-all-keys-allowed", "delete-objects", "user", func(w *worker, who account) ([]bucketSetup, string) {
			b := w.st.Plain
			return []bucketSetup{{Bucket: b, Owner: otherAK, ACL: private, Policy: pol(allow(who.ak, A("s3:DeleteObject"), b+"/*"))}}, ""
		}},
		{"object-tagging-by-bucket-tagging-grant", "put-object-tagging", "user", func(w *worker, who account) ([]bucketSetup, string) {
			b := w.st.Plain
			return []bucketSetup{{Bucket: b, Owner: otherAK, ACL: private, Policy: pol(allow(who.ak, A("s3:PutBucketTagging", "s3:GetObject"), b, b+"/*"))}}, ""
		}},
		{"object-tagging-by-object-tagging-grant", "put-object-tagging", "user", func(w *worker, who account) ([]bucketSetup, string) {
			b := w.st.Plain
			return []bucketSetup{{Bucket: b, Owner: otherAK, ACL: private, Policy: pol(allow(who.ak, A("s3:PutObjectTagging"), b+"/*"))}}, ""
		}},
		{"head-version-by-plain-get-grant", "head-object-version", "user", func(w *worker, who account) ([]bucketSetup, string) {
			b := w.st.Vers
			return []bucketSetup{{Bucket: b, Owner: otherAK, ACL: private, Policy: pol(allow(who.ak, A("s3:GetObject"), b+"/*"))}}, ""
		}},
		{"get-version-by-plain-get-grant", "get-object-version", "user", func(w *worker, who account) ([]bucketSetup, string) {
			b := w.st.Vers
			return []bucketSetup{{Bucket: b, Owner: otherAK, ACL: private, Policy: pol(allow(who.ak, A("s3:GetObject"), b+"/*"))}}, ""
		}},
		{"delete-version-by-plain-delete-grant", "delete-object-version", "userplus", func(w *worker, who account) ([]bucketSetup, string) {
			b := w.st.Vers
			return []bucketSetup{{Bucket: b, Owner: otherAK, ACL: private, Policy: pol(allow(who.ak, A("s3:DeleteObject"), b+"/*"))}}, ""
		}},
		{"copy-source-version-by-plain-get-grant", "copy-object+srcversion", "user", func(w *worker, who account) ([]bucketSetup, string) {
			d, s := w.st.Plain, w.st.Vers
			return []bucketSetup{{Bucket: d, Owner: otherAK, ACL: private, Policy: pol(allow(who.ak, A("s3:PutObject"), d+"/*"))},
				{Bucket: s, Owner: otherAK, ACL: private, Policy: pol(allow(who.ak, A("s3:GetObject"), s+"/*"))}}, ""
		}},
		{"copy-source-version-denied-by-exact-key", "copy-object+srcversion", "user", func(w *worker, who account) ([]bucketSetup, string) {
			d, s := w.st.Plain, w.st.Vers
			return []bucketSetup{{Bucket: d, Owner: otherAK, ACL: private, Policy: pol(allow(who.ak, A("s3:PutObject"), d+"/*"))},
				{Bucket: s, Owner: otherAK, ACL: private, Policy: pol(allow(who.ak, A("s3:*"), s+"/*"), deny(who.ak, A("s3:Get*"), s+"/"+w.st.V2.Key))}}, ""
		}},
		{"part-copy-source-version-denied-by-exact-key", "upload-part-copy+srcversion", "userplus", func(w *worker, who account) ([]bucketSetup, string) {
			d, s := w.st.Plain, w.st.Vers
			return []bucketSetup{{Bucket: d, Owner: otherAK, ACL: private, Policy: pol(allow(who.ak, A("s3:PutObject"), d+"/*"))},
				{Bucket: s, Owner: otherAK, ACL: private, Policy: pol(allow(who.ak, A("s3:*"), s+"/*"), deny(who.ak, A("s3:Get*"), s+"/"+w.st.V1.Key))}}, ""
		}},
		{"part-copy-source-version-by-plain-get-grant", "upload-part-copy+srcversion", "user", func(w *worker, who account) ([]bucketSetup, string) {
			d, s := w.st.Plain, w.st.Vers
			return []bucketSetup{{Bucket: d, Owner: otherAK, ACL: private, Policy: pol(allow(who.ak, A("s3:PutObject"), d+"/*"))},
				{Bucket: s, Owner: otherAK, ACL: private, Policy: pol(allow(who.ak, A("s3:GetObject"), s+"/*"))}}, ""
		}},
		{"copy-source-version-granted", "copy-object+srcversion", "user", func(w *worker, who account) ([]bucketSetup, string) {
			d, s := w.st.Plain, w.st.Vers
			return []bucketSetup{{Bucket: d, Owner: otherAK, ACL: private, Policy: pol(allow(who.ak, A("s3:PutObject"), d+"/*"))},
				{Bucket: s, Owner: otherAK, ACL: private, Policy: pol(allow(who.ak, A("s3:GetObjectVersion"), s+"/"+w.st.V2.Key))}}, ""
		}},
		{"copy-private-source-open-destination-acl", "copy-object", "user", func(w *worker, who account) ([]bucketSetup, string) {
			return []bucketSetup{{Bucket: w.st.Vers, Owner: otherAK, ACL: permissiveACL()}, {Bucket: w.st.Plain, Owner: otherAK, ACL: private}}, ""
		}},
		{"copy-closed-source-open-destination-policy", "copy-object", "userplus", func(w *worker, who account) ([]bucketSetup, string) {
			d, s := w.st.Vers, w.st.Plain
			return []bucketSetup{{Bucket: d, Owner: otherAK, ACL: private, Policy: pol(allow(who.ak, A("s3:*"), d, d+"/*"))},
				{Bucket: s, Owner: otherAK, ACL: permissiveACL(), Policy: pol(allow(otherAK, A("s3:*"), s, s+"/*"))}}, ""
		}},
		{"copy-open-source-closed-destination", "copy-object", "user", func(w *worker, who account) ([]bucketSetup, string) {
			d, s := w.st.Vers, w.st.Plain
			return []bucketSetup{{Bucket: d, Owner: otherAK, ACL: private}, {Bucket: s, Owner: otherAK, ACL: permissiveACL()}}, ""
		}},
		{"part-copy-private-other-source", "upload-part-copy+othersrc", "user", func(w *worker, who account) ([]bucketSetup, string) {
			return []bucketSetup{{Bucket: w.st.Plain, Owner: otherAK, ACL: permissiveACL()}, {Bucket: w.st.Vers, Owner: otherAK, ACL: private}}, ""
		}},
		{"read-private-bucket-beside-open-bucket-acl", "get-object", "user", func(w *worker, who account) ([]bucketSetup, string) {
			return []bucketSetup{{Bucket: w.st.Plain, Owner: otherAK, ACL: private}, {Bucket: w.st.Vers, Owner: otherAK, ACL: permissiveACL()}}, w.st.Vers
		}},
		{"write-closed-bucket-beside-open-bucket-policy", "put-object", "userplus", func(w *worker, who account) ([]bucketSetup, string) {
			o := w.st.Lock
			return []bucketSetup{{Bucket: w.st.Plain, Owner: otherAK, ACL: private, Policy: pol(allow(otherAK, A("s3:*"), w.st.Plain, w.st.Plain+"/*"))},
				{Bucket: o, Owner: w.world[o].Owner, ACL: permissiveACL(), Policy: pol(allow(who.ak, A("s3:*"), o, o+"/*"))}}, o
		}},
		{"list-buckets-foreign-owner", "list-buckets", "user", func(w *worker, who account) ([]bucketSetup, string) {
			return []bucketSetup{{Bucket: w.st.Plain, Owner: otherAK, ACL: permissiveACL()}}, w.st.Plain
		}},
		{"acl-read-grant-does-not-write", "put-object", "user", func(w *worker, who account) ([]bucketSetup, string) {
			return []bucketSetup{{Bucket: w.st.Plain, Owner: otherAK, ACL: aclSpec{Kind: "grant-READ-caller", Grants: []grant{{who.ak, "READ"}}, Syntax: "headers"}}}, ""
		}},
		{"acl-write-grant-does-not-read-acl", "get-bucket-acl", "user", func(w *worker, who account) ([]bucketSetup, string) {
			return []bucketSetup{{Bucket: w.st.Plain, Owner: otherAK, ACL: aclSpec{Kind: "grant-WRITE-caller", Grants: []grant{{who.ak, "WRITE"}}, Syntax: "xml"}}}, ""
		}},
		{"vbatch-object-grant-only-k.kv1", "delete-objects+k.kv1", "user", func(w *worker, who account) ([]bucketSetup, string) {
			b := w.st.Vers
			return []bucketSetup{{Bucket: b, Owner: otherAK, ACL: private, Policy: pol(allow(who.ak, A("s3:DeleteObject"), b+"/*"))}}, ""
		}},
		{"vbatch-object-grant-only-kv1.k", "delete-objects+kv1.k", "userplus", func(w *worker, who account) ([]bucketSetup, string) {
			b := w.st.Vers
			return []bucketSetup{{Bucket: b, Owner: otherAK, ACL: private, Policy: pol(allow(who.ak, A("s3:DeleteObject"), b+"/*"))}}, ""
		}},
		{"vbatch-version-grant-only-k.kv1", "delete-objects+k.kv1", "userplus", func(w *worker, who account) ([]bucketSetup, string) {
			b := w.st.Vers
			return []bucketSetup{{Bucket: b, Owner: otherAK, ACL: private, Policy: pol(allow(who.ak, A("s3:DeleteObjectVersion"), b+"/*"))}}, ""
		}},
		{"vbatch-version-grant-only-kv1.k", "delete-objects+kv1.k", "user", func(w *worker, who account) ([]bucketSetup, string) {
			b := w.st.Vers
			return []bucketSetup{{Bucket: b, Owner: otherAK, ACL: private, Policy: pol(allow(who.ak, A("s3:DeleteObjectVersion"), b+"/*"))}}, ""
		}},
		{"vbatch-version-denied-on-prefix", "delete-objects+mixed", "user", func(w *worker, who account) ([]bucketSetup, string) {
			b := w.st.Vers
			return []bucketSetup{{Bucket: b, Owner: otherAK, ACL: private,
				Policy: pol(allow(who.ak, A("s3:*"), b, b+"/*"), deny(who.ak, A("s3:DeleteObjectVersion"), b+"/p/*"))}}, ""
		}},
		{"vbatch-object-denied-on-exact-key", "delete-objects+q.p.qv.pv", "userplus", func(w *worker, who account) ([]bucketSetup, string) {
			b := w.st.Vers
			return []bucketSetup{{Bucket: b, Owner: otherAK, ACL: private,
				Policy: pol(allow(who.ak, A("s3:*"), b, b+"/*"), deny(who.ak, A("s3:DeleteObject"), b+"/"+w.x.QKey))}}, ""
		}},
		{"vbatch-version-denied-later-duplicate", "delete-objects+k.kv1.kv2", "user", func(w *worker, who account) ([]bucketSetup, string) {
			b := w.st.Vers
			return []bucketSetup{{Bucket: b, Owner: otherAK, ACL: private,
				Policy: pol(allow(who.ak, A("s3:DeleteObject*"), b+"/*"), deny(who.ak, A("s3:DeleteObjectVersion"), b+"/"+w.st.V1.Key))}}, ""
		}},
		{"vbatch-both-granted", "delete-objects+kv2.k.kv1", "user", func(w *worker, who account) ([]bucketSetup, string) {
			b := w.st.Vers
			return []bucketSetup{{Bucket: b, Owner: otherAK, ACL: private, Policy: pol(allow(who.ak, A("s3:DeleteObject", "s3:DeleteObjectVersion"), b+"/*"))}}, ""
		}},
		{"policy-overrides-open-acl", "get-object", "user", func(w *worker, who account) ([]bucketSetup, string) {
			b := w.st.Plain
			return []bucketSetup{{Bucket: b, Owner: otherAK, ACL: permissiveACL(), Policy: pol(allow(otherAK, A("s3:GetObject"), b+"/*"))}}, ""
		}},
	}
}

// scenarioCase builds the case of a directed scenario.
func (w *worker) scenarioCase(sc *scenario, vs map[string]*variant) *kase {
	v := vs[sc.variant]
	k := &kase{id: "s/" + sc.name, v: v, role: sc.role, who: w.acc[sc.role]}
	w.bind(k)
	k.setups, k.decoy = sc.build(w, k.who)
	k.tClass, k.tShape = "acl", "scenario:"+sc.name
	for _, s := range k.setups {
		k.involve = append(k.involve, s.Bucket)
		if s.Bucket == k.a.Bucket {
			k.owner = s.Owner == k.who.ak
			if s.Policy != nil {
				k.tClass = "policy"
			}
			if v.e.Op == "PutBucketAcl" {
				k.a.Owner = s.Owner
			}
		}
	}
	return k
}

// Sweeps: for every endpoint that is decided by the bucket's configuration, configurations that grant the
// caller everything EXCEPT what the reference needs - every action but the needed one, every resource but
// the exact one, every permission but the needed one - for the target and, for copies, for the source.
// The reference denies each of them; a call site that evaluates another action / resource / permission
// (or nothing) allows.
var sweepKinds = []string{"actions", "actions-version", "resource", "permissions", "source-actions", "source-resource", "source-permissions"}

func (w *worker) sweepCase(v *variant, kind string, idx int) *kase {
	e := v.e
	k := &kase{v: v}
	w.bind(k)
	a := k.a
	if (e.Level != catalog.LvlBucket && e.Level != catalog.LvlObject) || a.Bucket == w.st.NewBucket || e.Role != "" || e.Action == "" {
		return nil
	}
	src := strings.HasPrefix(kind, "source-")
	if src && a.SrcBucket == "" {
		return nil
	}
	if kind == "actions-version" && k.batch == nil {
		return nil
	}
	role := []string{"user", "userplus"}[idx%2]
	k.id, k.role, k.who, k.tShape = "w/"+v.name+"/"+kind, role, w.acc[role], "sweep:"+kind
	who := k.who.ak
	b, sb := a.Bucket, a.SrcBucket
	open := func(bk string) *policy { return pol(allow(who, []string{"s3:*"}, bk, bk+"/*")) }
	allBut := func(not string) []string {
		var out []string
		for _, n := range w.ai.names {
			if n != not && !w.avoid[n] {
				out = append(out, n)
			}
		}
		return out
	}
	permsBut := func(not string) aclSpec {
		sp := aclSpec{Kind: "all-but-" + not, Syntax: "headers"}
		for _, p := range []string{"READ", "WRITE", "READ_ACP", "WRITE_ACP"} {
			if p != not {
				sp.Grants = append(sp.Grants, grant{who, p})
			}
		}
		return sp
	}
	exact := b
	if e.Level == catalog.LvlObject {
		exact = b + "/" + a.Key
	}
	if len(a.DelKeys) > 0 {
		exact = b + "/" + a.DelKeys[0]
	}
	var tgt, sc *bucketSetup
	tgt = &bucketSetup{Bucket: b, Owner: otherAK, ACL: private}
	if sb != "" && sb != b {
		sc = &bucketSetup{Bucket: sb, Owner: otherAK, ACL: private}
	}
	k.tClass = "policy"
	switch kind {
	case "actions":
		tgt.ACL, tgt.Policy = permissiveACL(), pol(allow(who, allBut(e.Action), b, b+"/*"))
		if sc != nil {
			sc.Policy = open(sb)
		}
	case "actions-version":
		// batch entries with a version id need s3:DeleteObjectVersion: everything but that
		tgt.ACL, tgt.Policy = permissiveACL(), pol(allow(who, allBut("s3:DeleteObjectVersion"), b, b+"/*"))
	case "resource":
		tgt.ACL, tgt.Policy = permissiveACL(), pol(allow(who, []string{"s3:*"}, b, b+"/*"), deny(who, []string{"s3:*"}, exact))
		if sc != nil {
			sc.Policy = open(sb)
		}
	case "permissions":
		k.tClass = "acl"
		tgt.ACL = permsBut(e.ACL)
		if sc != nil {
			sc.ACL = permissiveACL()
		}
	case "source-actions":
		if sc == nil {
			tgt.Policy = pol(allow(who, allBut(v.srcAct()), b, b+"/*"))
		} else {
			tgt.Policy, sc.Policy = open(b), pol(allow(who, allBut(v.srcAct()), sb, sb+"/*"))
		}
	case "source-resource":
		if sc == nil {
			tgt.Policy = pol(allow(who, []string{"s3:*"}, b, b+"/*"), deny(who, []string{"s3:*"}, b+"/"+a.SrcKey))
		} else {
			tgt.Policy, sc.Policy = open(b), pol(allow(who, []string{"s3:*"}, sb, sb+"/*"), deny(who, []string{"s3:*"}, sb+"/"+a.SrcKey))
		}
	case "source-permissions":
		if sc == nil {
			return nil // one bucket: the destination's WRITE and the source's READ cannot be told apart by ACL
		}
		k.tClass = "acl"
		tgt.ACL, sc.ACL = permissiveACL(), permsBut("READ")
	}
	k.setups = []bucketSetup{*tgt}
	if sc != nil {
		k.setups = append(k.setups, *sc)
	}
	for _, s := range k.setups {
		k.involve = append(k.involve, s.Bucket)
	}
	if e.Op == "PutBucketAcl" {
		k.a.Owner = otherAK
	}
	return k
}
