package c03

import (
	"math/rand"
	"strings"
)

// Generators of access configurations. They only produce documents that are
// valid and unambiguous in the policy language (the corner cases of the language
// are C14's subject): trailing-'*' action patterns, resources inside the bucket,
// every statement carries a resource of the kind its actions apply to.

var perms = []string{"READ", "WRITE", "READ_ACP", "WRITE_ACP", "FULL_CONTROL"}

type aclSpec struct {
	Kind   string // private | public-read | public-read-write | grant-<PERM>-caller | grant-<PERM>-other | two-grants
	Canned string
	Grants []grant
	Syntax string // canned | headers | xml
}

func genACL(r *rand.Rand, caller, other string) aclSpec {
	syntax := []string{"headers", "xml"}[r.Intn(2)]
	n := r.Intn(100)
	if caller == "" && n >= 39 && n < 74 {
		n = 80 // no grant can name the root account: grant to somebody else instead
	}
	switch {
	case n < 15:
		return aclSpec{Kind: "private", Canned: "private", Syntax: "canned"}
	case n < 27:
		return aclSpec{Kind: "public-read", Canned: "public-read", Syntax: "canned", Grants: []grant{{"all-users", "READ"}}}
	case n < 39:
		return aclSpec{Kind: "public-read-write", Canned: "public-read-write", Syntax: "canned", Grants: []grant{{"all-users", "READ"}, {"all-users", "WRITE"}}}
	case n < 74:
		p := perms[r.Intn(len(perms))]
		return aclSpec{Kind: "grant-" + p + "-caller", Grants: []grant{{caller, p}}, Syntax: syntax}
	case n < 94 || caller == "":
		p := perms[r.Intn(len(perms))]
		return aclSpec{Kind: "grant-" + p + "-other", Grants: []grant{{other, p}}, Syntax: syntax}
	}
	p1, p2 := perms[r.Intn(len(perms))], perms[r.Intn(len(perms))]
	return aclSpec{Kind: "two-grants", Grants: []grant{{caller, p1}, {other, p2}}, Syntax: syntax}
}

func permissiveACL() aclSpec {
	return aclSpec{Kind: "public-read-write", Canned: "public-read-write", Syntax: "canned", Grants: []grant{{"all-users", "READ"}, {"all-users", "WRITE"}}}
}

// resourceFor draws one resource pattern related to (bucket, key).
func resourceFor(r *rand.Rand, b, k string) string {
	if k == "" {
		k = "cnry-obj.txt"
	}
	n := r.Intn(100)
	switch {
	case n < 15:
		return b
	case n < 35:
		return b + "/*"
	case n < 55:
		return b + "/" + k
	case n < 70:
		// prefix: up to a '/' boundary when there is one, else a few characters
		if i := strings.Index(k, "/"); i > 0 && i < len(k)-1 && r.Intn(3) > 0 {
			return b + "/" + k[:i+1] + "*"
		}
		return b + "/" + k[:1+r.Intn(len(k)-1+1)/2] + "*"
	case n < 80:
		i := r.Intn(len(k))
		if k[i] == '/' {
			i = 0
		}
		return b + "/" + k[:i] + "?" + k[i+1:]
	case n < 88:
		return b + "/zz-none*"
	case n < 94:
		return b + "/" + k + "x"
	}
	return b + "/*" + k[len(k)/2:]
}

func isObjectResource(res string) bool { return strings.Contains(res, "/") }

// genPolicy draws a policy of 1-4 statements around the target (action, bucket, keys).
// caller may be "" (the root account cannot be named as a principal).
func genPolicy(r *rand.Rand, ai *actionInfo, b string, keys []string, action, caller, other string, avoid map[string]bool) *policy {
	if action == "" {
		action = ai.names[r.Intn(len(ai.names))]
	}
	p := &policy{}
	n := 1 + r.Intn(4)
	for i := 0; i < n; i++ {
		s := stmt{Effect: "Allow"}
		if (i == 0 && r.Intn(4) == 0) || (i > 0 && r.Intn(5) < 2) {
			s.Effect = "Deny"
		}
		switch x := r.Intn(10); {
		case x < 5 && caller != "":
			s.Principals = []string{caller}
		case x < 7 || caller == "" && x < 8:
			s.Principals = []string{"*"}
		case x < 9 || caller == "":
			s.Principals = []string{other}
		default:
			s.Principals = []string{caller, other}
		}
		na := 1
		if r.Intn(3) == 0 {
			na += 1 + r.Intn(2)
		}
		seen := map[string]bool{}
		for len(s.Actions) < na {
			var a string
			switch x := r.Intn(100); {
			case x < 25:
				a = action
			case x < 35:
				if sib := ai.siblings(action); len(sib) > 0 {
					a = sib[r.Intn(len(sib))]
				} else {
					a = action
				}
			case x < 50:
				// a neighbour: another action with the same verb (what a copied call site would pass)
				if nb := ai.neighbours(action); len(nb) > 0 {
					a = nb[r.Intn(len(nb))]
				} else {
					a = action
				}
			case x < 60:
				a = "s3:*"
			case x < 80:
				if pf := ai.usablePrefixes(action, avoid); len(pf) > 0 {
					a = pf[r.Intn(len(pf))]
				} else {
					a = "s3:*"
				}
			default:
				a = ai.names[r.Intn(len(ai.names))]
			}
			if avoid[a] {
				// this exact name is not accepted in a policy document: use its longest wildcard form
				// that also covers an accepted name
				a = ai.wildcardFor(a, avoid)
			}
			if !seen[a] {
				seen[a] = true
				s.Actions = append(s.Actions, a)
			}
		}
		needObj, needBkt := false, false
		for _, a := range s.Actions {
			if a == "s3:*" {
				continue
			}
			o, bk := ai.patternKinds(a)
			needObj = needObj || o
			needBkt = needBkt || bk
		}
		nr := 1 + r.Intn(3)
		rs := map[string]bool{}
		for len(s.Resources) < nr {
			res := resourceFor(r, b, keys[r.Intn(len(keys))])
			if !rs[res] {
				rs[res] = true
				s.Resources = append(s.Resources, res)
			}
		}
		hasObj, hasBkt := false, false
		for _, res := range s.Resources {
			if isObjectResource(res) {
				hasObj = true
			} else {
				hasBkt = true
			}
		}
		if needObj && !hasObj {
			res := resourceFor(r, b, keys[r.Intn(len(keys))])
			for !isObjectResource(res) {
				res = resourceFor(r, b, keys[r.Intn(len(keys))])
			}
			s.Resources = append(s.Resources, res)
		}
		if needBkt && !hasBkt {
			s.Resources = append(s.Resources, b)
		}
		p.Stmts = append(p.Stmts, s)
	}
	p.render(r)
	return p
}

// permissivePolicy allows who everything on bucket b.
func permissivePolicy(r *rand.Rand, b, who string) *policy {
	p := &policy{Stmts: []stmt{{Effect: "Allow", Principals: []string{who}, Actions: []string{"s3:*"}, Resources: []string{b, b + "/*"}}}}
	p.render(r)
	return p
}
