package c03

import (
	"encoding/xml"
	"fmt"
	"math/rand"
	"strings"

	"verif/harness/internal/s3c"
	"verif/harness/props/catalog"
)

// Batch deletes over the VERSIONED bucket whose entries carry version ids. The catalogue can only
// express plain key lists, so the DeleteObjects body is built here.
//
// Reference, per ENTRY of the batch: an entry without version id needs s3:DeleteObject on bucket/key,
// an entry with a version id needs s3:DeleteObjectVersion on bucket/key (ACL branch: WRITE). The same
// key may occur several times in one batch, in different forms; every entry is decided on its own.
//
// Verdict, per denied entry and whatever the answer to the batch as a whole was: the named version
// must still be listed and retrievable by root afterwards (GET ?versionId), an entry without version
// id must not have produced a delete marker, and a 2xx answer must not list the entry as <Deleted>.

type bentry struct {
	Key, VersionID string
	Marker         bool // the version id names a delete marker (not retrievable by GET even when present)
}

func (b bentry) form() string {
	if b.VersionID != "" {
		return "versioned"
	}
	return "unversioned"
}

func (b bentry) String() string {
	if b.VersionID == "" {
		return b.Key
	}
	return b.Key + "@" + b.VersionID
}

func (b bentry) action() string {
	if b.VersionID != "" {
		return "s3:DeleteObjectVersion"
	}
	return "s3:DeleteObject"
}

// extras are the objects this check adds to the versioned bucket of the seed (two versions each).
type extras struct {
	PKey, PV1, PV2 string
	QKey, QV1, QV2 string
}

func (w *worker) seedExtras(root *s3c.Client) error {
	w.x = &extras{PKey: "p/one.txt", QKey: "q/two.txt"}
	put := func(key, content string) (string, error) {
		r := root.PutObject(w.st.Vers, key, []byte(content))
		if err := okOr("seed "+key, r); err != nil {
			return "", err
		}
		id := r.Header.Get("x-amz-version-id")
		if id == "" {
			return "", fmt.Errorf("seed %s: no version id returned", key)
		}
		return id, nil
	}
	var err error
	if w.x.PV1, err = put(w.x.PKey, "C03-p-one-version-1"); err != nil {
		return err
	}
	if w.x.PV2, err = put(w.x.PKey, "C03-p-one-version-2"); err != nil {
		return err
	}
	if w.x.QV1, err = put(w.x.QKey, "C03-q-two-version-1"); err != nil {
		return err
	}
	w.x.QV2, err = put(w.x.QKey, "C03-q-two-version-2")
	return err
}

// batchShapes: name -> entries. k = the seeded two-version key (v1, v2 = latest), p and q = the extra
// two-version keys, g = the seeded deleted key (one version gv below a delete marker gm).
func batchShapes() []variant {
	del := catalog.ByName("delete-objects")
	mk := func(name string, f func(st *catalog.State, x *extras) []bentry) variant {
		return variant{name: "delete-objects+" + name, e: del, batch: f}
	}
	K := func(st *catalog.State) bentry { return bentry{Key: st.V1.Key} }
	K1 := func(st *catalog.State) bentry { return bentry{Key: st.V1.Key, VersionID: st.V1.VersionID} }
	K2 := func(st *catalog.State) bentry { return bentry{Key: st.V2.Key, VersionID: st.V2.VersionID} }
	G := func(st *catalog.State) bentry { return bentry{Key: st.Gone.Key, VersionID: st.Gone.VersionID} }
	GM := func(st *catalog.State) bentry {
		return bentry{Key: st.Gone.Key, VersionID: st.MarkerVersionID, Marker: true}
	}
	return []variant{
		mk("k.kv1", func(st *catalog.State, x *extras) []bentry { return []bentry{K(st), K1(st)} }),
		mk("kv1.k", func(st *catalog.State, x *extras) []bentry { return []bentry{K1(st), K(st)} }),
		mk("kv1.kv2", func(st *catalog.State, x *extras) []bentry { return []bentry{K1(st), K2(st)} }),
		mk("kv2.kv1", func(st *catalog.State, x *extras) []bentry { return []bentry{K2(st), K1(st)} }),
		mk("k.k", func(st *catalog.State, x *extras) []bentry { return []bentry{K(st), K(st)} }),
		mk("kv1.kv1", func(st *catalog.State, x *extras) []bentry { return []bentry{K1(st), K1(st)} }),
		mk("k.kv1.kv2", func(st *catalog.State, x *extras) []bentry { return []bentry{K(st), K1(st), K2(st)} }),
		mk("kv2.k.kv1", func(st *catalog.State, x *extras) []bentry { return []bentry{K2(st), K(st), K1(st)} }),
		mk("mixed", func(st *catalog.State, x *extras) []bentry {
			return []bentry{K(st), {Key: x.PKey, VersionID: x.PV1}, {Key: x.QKey}, G(st)}
		}),
		mk("mixed-rev", func(st *catalog.State, x *extras) []bentry {
			return []bentry{G(st), {Key: x.QKey}, {Key: x.PKey, VersionID: x.PV1}, K(st)}
		}),
		mk("pv.qv.p.q", func(st *catalog.State, x *extras) []bentry {
			return []bentry{{Key: x.PKey, VersionID: x.PV1}, {Key: x.QKey, VersionID: x.QV1}, {Key: x.PKey}, {Key: x.QKey}}
		}),
		mk("q.p.qv.pv", func(st *catalog.State, x *extras) []bentry {
			return []bentry{{Key: x.QKey}, {Key: x.PKey}, {Key: x.QKey, VersionID: x.QV2}, {Key: x.PKey, VersionID: x.PV2}}
		}),
		mk("marker.k.kv1", func(st *catalog.State, x *extras) []bentry { return []bentry{GM(st), K(st), K1(st)} }),
		mk("single-kv1", func(st *catalog.State, x *extras) []bentry { return []bentry{K1(st)} }),
	}
}

// bind gives a case the arguments of its variant; batch variants target the versioned bucket.
func (w *worker) bind(k *kase) {
	k.a = k.v.args(w.st)
	if k.v.batch == nil {
		return
	}
	k.batch = k.v.batch(w.st, w.x)
	k.a.Bucket = w.st.Vers
	k.a.DelKeys = nil
	seen := map[string]bool{}
	for _, b := range k.batch {
		if !seen[b.Key] {
			seen[b.Key] = true
			k.a.DelKeys = append(k.a.DelKeys, b.Key)
		}
	}
}

func batchXML(es []bentry) []byte {
	var sb strings.Builder
	sb.WriteString(`<Delete xmlns="http://s3.amazonaws.com/doc/2006-03-01/">`)
	for _, e := range es {
		sb.WriteString(`<Object><Key>` + s3c.XMLEsc(e.Key) + `</Key>`)
		if e.VersionID != "" {
			sb.WriteString(`<VersionId>` + s3c.XMLEsc(e.VersionID) + `</VersionId>`)
		}
		sb.WriteString(`</Object>`)
	}
	sb.WriteString(`</Delete>`)
	return []byte(sb.String())
}

// position of entry i among the entries of the batch that name the same key.
func position(es []bentry, i int) string {
	n, before := 0, 0
	for j, e := range es {
		if e.Key == es[i].Key {
			n++
			if j < i {
				before++
			}
		}
	}
	switch {
	case n == 1:
		return "only"
	case before == 0:
		return "first"
	}
	return "later"
}

// versionState is what root sees in the versioned bucket: the listed (key, version id) pairs and the
// number of delete markers per key.
type versionState struct {
	present map[string]bool
	markers map[string]int
}

func (w *worker) versionState(bucket string) (*versionState, error) {
	r := w.root.Do(&s3c.Req{Method: "GET", Path: s3c.BucketPath(bucket), Query: "versions"})
	if !r.OK() {
		return nil, fmt.Errorf("list versions: %s", r.String())
	}
	var l struct {
		IsTruncated  bool
		Version      []struct{ Key, VersionId string }
		DeleteMarker []struct{ Key, VersionId string }
	}
	if err := xml.Unmarshal(r.Body, &l); err != nil {
		return nil, err
	}
	if l.IsTruncated {
		return nil, fmt.Errorf("version listing truncated")
	}
	vs := &versionState{present: map[string]bool{}, markers: map[string]int{}}
	for _, v := range l.Version {
		vs.present[v.Key+"@"+v.VersionId] = true
	}
	for _, m := range l.DeleteMarker {
		vs.present[m.Key+"@"+m.VersionId] = true
		vs.markers[m.Key]++
	}
	return vs, nil
}

// deletedList parses the <Deleted> entries of a DeleteObjects answer.
func deletedList(body []byte) []bentry {
	var l struct {
		Deleted []struct{ Key, VersionId string }
	}
	xml.Unmarshal(body, &l)
	var out []bentry
	for _, d := range l.Deleted {
		out = append(out, bentry{Key: d.Key, VersionID: d.VersionId})
	}
	return out
}

// decideBatch: the reference decision per entry.
func (w *worker) decideBatch(k *kase, v *verdict) {
	cfg := w.world[k.a.Bucket]
	v.class = cfg.class()
	v.perEntry = make([]bool, len(k.batch))
	v.allow = true
	v.expl = ""
	for i, b := range k.batch {
		ok := cfg.allows(k.who.ak, b.action(), resourceOf(k.a.Bucket, b.Key), "WRITE")
		v.perEntry[i] = ok
		v.allow = v.allow && ok
	}
}

// judgeBatch applies the per-entry verdict; returns the number of violations raised.
func (w *worker) judgeBatch(k *kase, v *verdict, resp *s3c.Resp, pre *versionState, cc string, det func() map[string]any) int {
	post, err := w.versionState(k.a.Bucket)
	if err != nil {
		w.c.Inconclusive("version listing after a batch delete failed")
		return 0
	}
	var listed []bentry
	if resp.OK() {
		listed = deletedList(resp.Body)
	}
	bad := 0
	reported := map[string]bool{}
	for i, b := range k.batch {
		if v.perEntry[i] {
			continue
		}
		why := ""
		if b.VersionID != "" {
			switch {
			case pre.present[b.String()] && !post.present[b.String()]:
				why = "the version is no longer listed"
			case pre.present[b.String()] && !b.Marker:
				if r := w.root.GetObjectV(k.a.Bucket, b.Key, b.VersionID); !r.OK() {
					why = "GET ?versionId by root answers " + r.String()
				}
			}
		} else if post.markers[b.Key] > pre.markers[b.Key] {
			why = "a delete marker was added for the key"
		}
		if why == "" {
			for _, d := range listed {
				if d.Key == b.Key && d.VersionID == b.VersionID {
					why = "the 2xx answer lists the entry as <Deleted>"
				}
			}
		}
		if why == "" {
			continue
		}
		form := b.form() + "-" + position(k.batch, i)
		expl := w.explain(k.who.ak, k.a.Bucket, b.action(), resourceOf(k.a.Bucket, b.Key), "WRITE", "", nil)
		// which other entries of the same key were allowed? (a decision carried over from a sibling entry)
		for j, o := range k.batch {
			if j != i && o.Key == b.Key && v.perEntry[j] {
				expl += "+same-key-entry-allowed"
				break
			}
		}
		sig := fmt.Sprintf("%s:%s:%s:batch-entry-deleted:form=%s:expl=%s", k.v.name, v.class, cc, form, strings.TrimPrefix(expl, "none+"))
		if reported[sig] {
			continue
		}
		reported[sig] = true
		m := det()
		m["denied_entry"], m["denied_entry_index"], m["observed"] = b.String(), i, why
		w.c.Violation(sig, k.id, m)
		bad++
	}
	return bad
}

// genSplitPolicy draws a policy that treats s3:DeleteObject and s3:DeleteObjectVersion differently for
// the caller and differently per key: for each of the two actions independently one of
// {allowed everywhere, allowed on some keys, allowed everywhere but denied on some keys, not mentioned}.
func genSplitPolicy(r *rand.Rand, b string, keys []string, caller, other string) *policy {
	if caller == "" {
		caller = "*"
	}
	p := &policy{}
	some := func() []string {
		var out []string
		for _, k := range keys {
			if r.Intn(2) == 0 {
				if i := strings.Index(k, "/"); i > 0 && r.Intn(2) == 0 {
					out = append(out, b+"/"+k[:i+1]+"*")
				} else {
					out = append(out, b+"/"+k)
				}
			}
		}
		if len(out) == 0 {
			out = []string{b + "/" + keys[r.Intn(len(keys))]}
		}
		return out
	}
	for _, act := range []string{"s3:DeleteObject", "s3:DeleteObjectVersion"} {
		who := []string{caller}
		if r.Intn(4) == 0 {
			who = []string{"*"}
		}
		switch r.Intn(5) {
		case 0:
			p.Stmts = append(p.Stmts, stmt{Effect: "Allow", Principals: who, Actions: []string{act}, Resources: []string{b + "/*"}})
		case 1, 2:
			p.Stmts = append(p.Stmts, stmt{Effect: "Allow", Principals: who, Actions: []string{act}, Resources: some()})
		case 3:
			p.Stmts = append(p.Stmts, stmt{Effect: "Allow", Principals: who, Actions: []string{act}, Resources: []string{b + "/*"}},
				stmt{Effect: "Deny", Principals: who, Actions: []string{act}, Resources: some()})
		default:
			// not mentioned for the caller; somebody else may
			if r.Intn(2) == 0 {
				p.Stmts = append(p.Stmts, stmt{Effect: "Allow", Principals: []string{other}, Actions: []string{act}, Resources: []string{b + "/*"}})
			}
		}
	}
	if len(p.Stmts) == 0 {
		p.Stmts = append(p.Stmts, stmt{Effect: "Allow", Principals: []string{other}, Actions: []string{"s3:DeleteObject"}, Resources: []string{b + "/*"}})
	}
	if r.Intn(3) == 0 {
		// the wildcard spelling covers both actions
		p.Stmts[0].Actions = []string{"s3:DeleteObject*"}
	}
	p.render(r)
	return p
}
