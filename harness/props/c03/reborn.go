package c03

import (
	"encoding/xml"
	"fmt"
	"math/rand"
	"os"
	"path/filepath"
	"strings"
	"time"

	"verif/harness/internal/ev"
	"verif/harness/internal/fx"
	"verif/harness/internal/gw"
	"verif/harness/internal/s3c"
)

// Reborn lane: access decisions follow the bucket that exists NOW. A bucket with a generous policy / ACL is used by
// the accounts it favours (so that whatever the process remembers about it is loaded), emptied and deleted, and a
// bucket of the same name is created by another account in the same gateway process. Nothing the deleted bucket
// granted may still be in force: accounts without a grant on the new bucket must be refused, its owner served.
func rebornLane(c *ev.Ctx, sidecar bool, grantKind string) {
	store := "xattr"
	if sidecar {
		store = "sidecar"
	}
	id := "r/" + grantKind + "/" + store
	if !c.Want(id) {
		return
	}
	env, err := fx.New("c03r", gw.Config{Sidecar: sidecar, Versioning: true}, 1)
	if err != nil {
		c.Inconclusive("gateway start (reborn lane): " + err.Error())
		return
	}
	defer env.Close()
	root := env.Client(0)
	for _, u := range [][2]string{{"alice", "user"}, {"mallory", "user"}, {"bob", "userplus"}} {
		if r := env.CreateUser(u[0], u[0]+"-secret-1", u[1], 0, 0); r.Status != 201 {
			c.Inconclusive("create user: " + r.String())
			return
		}
	}
	alice, mallory, bob := root.With("alice", "alice-secret-1"), root.With("mallory", "mallory-secret-1"), root.With("bob", "bob-secret-1")
	const b = "reborn"
	var cr *s3c.Resp
	switch grantKind {
	case "policy":
		cr = root.CreateBucket(b)
		pol := fmt.Sprintf(`{"Version":"2012-10-17","Statement":[{"Effect":"Allow","Principal":{"AWS":["alice","mallory"]},"Action":"s3:*","Resource":["arn:aws:s3:::%s","arn:aws:s3:::%s/*"]}]}`, b, b)
		if r := root.Sub("PUT", b, "", "policy=", []byte(pol)); !r.OK() {
			c.Inconclusive("put policy: " + r.String())
			return
		}
	case "acl-grants":
		cr = root.CreateBucket(b, "x-amz-object-ownership", "BucketOwnerPreferred", "x-amz-grant-full-control", "alice,mallory")
	case "acl-public":
		cr = root.CreateBucket(b, "x-amz-object-ownership", "BucketOwnerPreferred", "x-amz-acl", "public-read-write")
	}
	if !cr.OK() {
		c.Inconclusive("create bucket (" + grantKind + "): " + cr.String())
		return
	}
	// the favoured accounts use the bucket (positive control, and whatever is cached gets loaded)
	for _, cl := range []*s3c.Client{alice, mallory} {
		p := cl.PutObject(b, "by-"+cl.AK, []byte("data of the first bucket"))
		g := cl.GetObject(b, "by-"+cl.AK)
		l := cl.Do(&s3c.Req{Method: "GET", Path: "/" + b, Query: "list-type=2"})
		if !p.OK() || !g.OK() || !l.OK() {
			c.Inconclusive(fmt.Sprintf("positive control failed (%s): put %s get %s list %s", grantKind, p, g, l))
			return
		}
	}
	for _, k := range []string{"by-alice", "by-mallory"} {
		root.DeleteObject(b, k)
	}
	if d := root.DeleteBucket(b); d.Status != 204 && d.Status != 200 {
		c.Inconclusive("delete bucket: " + d.String())
		return
	}
	// another account creates a bucket of that name and stores something in it
	if r := bob.CreateBucket(b); !r.OK() {
		c.Inconclusive("re-create by bob: " + r.String())
		return
	}
	c.Eval(1)
	det := func(extra map[string]any) map[string]any {
		m := map[string]any{"first_bucket": grantKind + " in favour of alice and mallory, created by root", "second_bucket": "created by bob, no policy, default ACL", "store": store}
		for k, v := range extra {
			m[k] = v
		}
		return m
	}
	if p := bob.PutObject(b, "bobs-object", []byte("bob's data")); !p.OK() {
		c.Violation("reborn-bucket:owner-refused:put-object["+store+"]", id, det(map[string]any{"put": p.String()}))
		return
	}
	if g := bob.GetObject(b, "bobs-object"); !g.OK() {
		c.Violation("reborn-bucket:owner-refused:get-object["+store+"]", id, det(map[string]any{"get": g.String()}))
	}
	type attempt struct {
		name string
		run  func(cl *s3c.Client) *s3c.Resp
	}
	attempts := []attempt{
		{"get-object", func(cl *s3c.Client) *s3c.Resp { return cl.GetObject(b, "bobs-object") }},
		{"head-object", func(cl *s3c.Client) *s3c.Resp { return cl.HeadObject(b, "bobs-object") }},
		{"list-objects", func(cl *s3c.Client) *s3c.Resp {
			return cl.Do(&s3c.Req{Method: "GET", Path: "/" + b, Query: "list-type=2"})
		}},
		{"put-object", func(cl *s3c.Client) *s3c.Resp { return cl.PutObject(b, "intruder-"+cl.AK, []byte("x")) }},
		{"overwrite-object", func(cl *s3c.Client) *s3c.Resp { return cl.PutObject(b, "bobs-object", []byte("replaced")) }},
		{"get-bucket-acl", func(cl *s3c.Client) *s3c.Resp { return cl.Sub("GET", b, "", "acl=", nil) }},
		{"put-bucket-policy", func(cl *s3c.Client) *s3c.Resp {
			return cl.Sub("PUT", b, "", "policy=", []byte(fmt.Sprintf(`{"Version":"2012-10-17","Statement":[{"Effect":"Allow","Principal":"*","Action":"s3:*","Resource":"arn:aws:s3:::%s/*"}]}`, b)))
		}},
		{"delete-object", func(cl *s3c.Client) *s3c.Resp { return cl.DeleteObject(b, "bobs-object") }},
	}
	for _, cl := range []*s3c.Client{alice, mallory} {
		for _, a := range attempts {
			r := a.run(cl)
			c.Eval(1)
			if r.Err != nil {
				c.Inconclusive("transport error in reborn lane")
				return
			}
			if r.Status < 300 {
				c.Violation("reborn-bucket:"+a.name+":allowed-by-what-the-deleted-bucket-granted:"+grantKind+"["+store+"]", id,
					det(map[string]any{"caller": cl.AK, "operation": a.name, "answer": r.String(), "body_head": clipS(string(r.Body), 200)}))
			} else {
				c.Distinct("reborn|" + grantKind + "|" + a.name + "|" + store)
			}
		}
	}
	// and the data is still what its owner stored
	if g := bob.GetObject(b, "bobs-object"); !g.OK() || string(g.Body) != "bob's data" {
		c.Violation("reborn-bucket:owners-object-changed["+store+"]", id, det(map[string]any{"get": g.String(), "body": clipS(string(g.Body), 100)}))
	}
}

func clipS(s string, n int) string {
	s = strings.ToValidUTF8(s, "?")
	if len(s) > n {
		return s[:n]
	}
	return s
}

// Refused-admin-change lane: an account's rights are what its stored record says. An admin request that is REFUSED
// (create-user for an access key that exists, naming another role) must leave the account's rights as they were,
// in the running process as well as after a restart.
func refusedAdminLane(c *ev.Ctx, cacheCfg string) {
	id := "a/refused-create/" + cacheCfg
	if !c.Want(id) {
		return
	}
	cfg := gw.Config{}
	if cacheCfg == "cache-disabled" {
		cfg.Env = []string{"VGW_IAM_CACHE_DISABLE=true"}
	}
	env, err := fx.New("c03a", cfg, 1)
	if err != nil {
		c.Inconclusive("gateway start (refused-admin lane): " + err.Error())
		return
	}
	defer env.Close()
	root := env.Client(0)
	if r := env.CreateUser("mallory", "mallory-secret-1", "user", 0, 0); r.Status != 201 {
		c.Inconclusive("create user: " + r.String())
		return
	}
	mallory := root.With("mallory", "mallory-secret-1")
	if r := root.CreateBucket("vault"); !r.OK() {
		c.Inconclusive("create bucket: " + r.String())
		return
	}
	root.PutObject("vault", "secret", []byte("top secret"))
	type attempt struct {
		name string
		run  func() *s3c.Resp
	}
	attempts := []attempt{
		{"get-object-of-another-account", func() *s3c.Resp { return mallory.GetObject("vault", "secret") }},
		{"put-object-into-another-accounts-bucket", func() *s3c.Resp { return mallory.PutObject("vault", "intruder", []byte("x")) }},
		{"list-another-accounts-bucket", func() *s3c.Resp {
			return mallory.Do(&s3c.Req{Method: "GET", Path: "/vault", Query: "list-type=2"})
		}},
		{"create-bucket-as-role-user", func() *s3c.Resp { return mallory.CreateBucket("mallorys-bucket") }},
		{"admin-list-users", func() *s3c.Resp { return mallory.Do(&s3c.Req{Method: "PATCH", Path: "/list-users"}) }},
		{"admin-create-user", func() *s3c.Resp {
			return mallory.Admin("/create-user", "", []byte(`<Account><Access>eve</Access><Secret>eve-secret-1</Secret><Role>admin</Role><UserID>0</UserID><GroupID>0</GroupID></Account>`))
		}},
	}
	judge := func(when string) bool {
		for _, a := range attempts {
			r := a.run()
			c.Eval(1)
			if r.Err != nil {
				c.Inconclusive("transport error in refused-admin lane")
				return false
			}
			if r.Status < 300 {
				c.Violation("refused-admin-change:"+a.name+":allowed:"+when+"["+cacheCfg+"]", id, map[string]any{"account": "mallory (role user)", "operation": a.name, "answer": r.String(), "when": when})
			} else if when != "before" {
				c.Distinct("refused-admin|" + a.name + "|" + when + "|" + cacheCfg)
			}
		}
		return true
	}
	if !judge("before") {
		return
	}
	for _, body := range []string{
		`<Account><Access>mallory</Access><Secret>mallory-secret-1</Secret><Role>admin</Role><UserID>0</UserID><GroupID>0</GroupID></Account>`,
		`<Account><Access>mallory</Access><Secret>other-secret-22</Secret><Role>userplus</Role><UserID>0</UserID><GroupID>0</GroupID></Account>`,
	} {
		r := root.Admin("/create-user", "", []byte(body))
		c.Eval(1)
		if r.Status < 300 {
			c.Violation("refused-admin-change:create-user-on-existing-key-accepted["+cacheCfg+"]", id, map[string]any{"answer": r.String(), "body": body})
		}
		if !judge("after-refused-create-user") {
			return
		}
	}
	if r := mallory.Do(&s3c.Req{Method: "GET", Path: "/"}); r.Status != 200 {
		c.Violation("refused-admin-change:account-lost-its-own-access["+cacheCfg+"]", id, map[string]any{"answer": r.String()})
	}
	if err := env.Restart(0); err != nil {
		c.Inconclusive("restart: " + err.Error())
		return
	}
	root = env.Client(0)
	mallory = root.With("mallory", "mallory-secret-1")
	judge("after-restart")
}

// Aliased-name lane: a decision is taken for the object the request reaches. With Allow bkt/* and Deny bkt/secret/*
// every way of writing the name of a denied object differently (empty path elements, leading slash) must either be
// refused or reach another, harmless object - never the data of secret/x.
func aliasedNameLane(c *ev.Ctx, sidecar bool) {
	store := "xattr"
	if sidecar {
		store = "sidecar"
	}
	id := "n/aliased-names/" + store
	if !c.Want(id) {
		return
	}
	env, err := fx.New("c03n", gw.Config{Sidecar: sidecar}, 1)
	if err != nil {
		c.Inconclusive("gateway start (aliased-name lane): " + err.Error())
		return
	}
	defer env.Close()
	root := env.Client(0)
	if r := env.CreateUser("alice", "alice-secret-1", "user", 0, 0); r.Status != 201 {
		c.Inconclusive("create user: " + r.String())
		return
	}
	alice := root.With("alice", "alice-secret-1")
	const b = "aliased"
	if r := root.CreateBucket(b); !r.OK() {
		c.Inconclusive("create bucket: " + r.String())
		return
	}
	const secret = "TOP-SECRET-aliased-7e1f"
	root.PutObject(b, "secret/x", []byte(secret))
	root.PutObject(b, "public/y", []byte("public data"))
	pol := fmt.Sprintf(`{"Version":"2012-10-17","Statement":[{"Effect":"Allow","Principal":{"AWS":["alice"]},"Action":"s3:*","Resource":["arn:aws:s3:::%s","arn:aws:s3:::%s/*"]},{"Effect":"Deny","Principal":{"AWS":["alice"]},"Action":"s3:*","Resource":"arn:aws:s3:::%s/secret/*"}]}`, b, b, b)
	if r := root.Sub("PUT", b, "", "policy=", []byte(pol)); !r.OK() {
		c.Inconclusive("put policy: " + r.String())
		return
	}
	// controls: the plain names behave as the policy says
	if g := alice.GetObject(b, "public/y"); !g.OK() {
		c.Inconclusive("control: allowed read refused: " + g.String())
		return
	}
	if g := alice.GetObject(b, "secret/x"); g.Status < 400 {
		c.Violation("aliased-name:plain-name:denied-object-read["+store+"]", id, map[string]any{"get": g.String()})
		return
	}
	check := func(what string, r *s3c.Resp) {
		c.Eval(1)
		det := map[string]any{"attempt": what, "answer": r.String(), "policy": "Allow alice s3:* on aliased/*, Deny alice s3:* on aliased/secret/*"}
		if r.Err == nil && strings.Contains(string(r.Body), secret) {
			c.Violation("aliased-name:"+what+":denied-object-disclosed["+store+"]", id, det)
			return
		}
		if g := root.GetObject(b, "secret/x"); !g.OK() || string(g.Body) != secret {
			det["secret_object_now"] = g.String()
			c.Violation("aliased-name:"+what+":denied-object-changed["+store+"]", id, det)
			root.PutObject(b, "secret/x", []byte(secret))
			return
		}
		// data copied somewhere alice can read it?
		for _, k := range []string{"loot"} {
			if g := root.GetObject(b, k); g.OK() && strings.Contains(string(g.Body), secret) {
				det["copied_to"] = k
				c.Violation("aliased-name:"+what+":denied-object-copied["+store+"]", id, det)
				root.DeleteObject(b, k)
				return
			}
		}
		c.Distinct("aliased|" + what + "|" + store)
	}
	for _, name := range []string{"/secret/x", "secret//x", "/secret//x", "public/..//secret/x", "x//../secret/x", "//secret/x"} {
		raw := "/" + b + "/" + name
		check("get:"+name, alice.Do(&s3c.Req{Method: "GET", Path: raw, CanonPath: raw}))
		check("head:"+name, alice.Do(&s3c.Req{Method: "HEAD", Path: raw, CanonPath: raw}))
		check("copy-source:"+name, alice.Do(&s3c.Req{Method: "PUT", Path: s3c.ObjPath(b, "loot"), Header: s3c.H{{"X-Amz-Copy-Source", b + "/" + name}}}))
		body := []byte(`<Delete xmlns="http://s3.amazonaws.com/doc/2006-03-01/"><Object><Key>` + s3c.XMLEsc(name) + `</Key></Object></Delete>`)
		check("delete-objects:"+name, alice.Do(&s3c.Req{Method: "POST", Path: "/" + b, Query: "delete=", Body: body, Header: s3c.H{{"Content-MD5", s3c.MD5B64(body)}}}))
		check("delete:"+name, alice.Do(&s3c.Req{Method: "DELETE", Path: raw, CanonPath: raw}))
		check("put:"+name, alice.Do(&s3c.Req{Method: "PUT", Path: raw, CanonPath: raw, Body: []byte("overwritten by alice")}))
	}
}

// Unclaimed-directory lane: a directory below the gateway root that carries no ACL attribute - one that was there
// before the gateway was pointed at it, or one a CreateBucket left behind when the process died between the mkdir
// and the ACL write - is served as a bucket of the root account with no grantees. Nothing grants a non-admin account
// anything on it, so whatever such an account sends (a CreateBucket of that name included, by an account whose role
// may create buckets) must leave it refused: no object disclosed, nothing changed, the owner still root.
func unclaimedDirLane(c *ev.Ctx, sidecar bool, how string) {
	store := "xattr"
	if sidecar {
		store = "sidecar"
	}
	id := "u/" + how + "/" + store
	if !c.Want(id) {
		return
	}
	cfg := gw.Config{Sidecar: sidecar}
	if how == "interrupted-create" {
		cfg.Env = []string{"VERIF_HOOK_CRASH=mkbucket.afterMkdir#1"}
	}
	env, err := fx.New("c03u", cfg, 1)
	if err != nil {
		c.Inconclusive("gateway start (unclaimed-directory lane): " + err.Error())
		return
	}
	defer env.Close()
	for _, u := range [][2]string{{"alice", "user"}, {"bob", "userplus"}} {
		if r := env.CreateUser(u[0], u[0]+"-secret-1", u[1], 0, 0); r.Status != 201 {
			c.Inconclusive("create user: " + r.String())
			return
		}
	}
	const b = "orphan"
	const secret = "ROOTS-DATA-orphan-51c9"
	switch how {
	case "preexisting":
		if err := os.MkdirAll(filepath.Join(env.Store.Root, b, "legacy"), 0o755); err != nil {
			c.Inconclusive(err.Error())
			return
		}
		os.WriteFile(filepath.Join(env.Store.Root, b, "legacy", "file.txt"), []byte(secret), 0o644)
	case "interrupted-create":
		env.Client(0).CreateBucket(b) // dies after the mkdir
		if !env.GWs[0].WaitExit(10 * time.Second) {
			c.Inconclusive("the gateway did not die at mkbucket.afterMkdir")
			return
		}
		if _, err := os.Stat(filepath.Join(env.Store.Root, b)); err != nil {
			c.Inconclusive("no bucket directory after the interrupted create")
			return
		}
		env.GWs[0].Cfg.Env = nil
		if err := env.Restart(0); err != nil {
			c.Inconclusive("restart: " + err.Error())
			return
		}
	}
	root := env.Client(0)
	alice, bob := root.With("alice", "alice-secret-1"), root.With("bob", "bob-secret-1")
	if p := root.PutObject(b, "roots-object", []byte(secret)); !p.OK() {
		c.Observe("unclaimed directory (" + how + ") is not usable by root: " + p.String())
		return
	}
	if l := root.ListBuckets(); !strings.Contains(string(l.Body), "<Name>"+b+"</Name>") {
		c.Observe("unclaimed directory (" + how + ") is not listed for root")
	}
	det := func(extra map[string]any) map[string]any {
		m := map[string]any{"bucket": "directory without an ACL attribute (" + how + "), served as a bucket of root with no grantees", "store": store}
		for k, v := range extra {
			m[k] = v
		}
		return m
	}
	type attempt struct {
		name string
		run  func(cl *s3c.Client) *s3c.Resp
	}
	attempts := []attempt{
		{"create-bucket", func(cl *s3c.Client) *s3c.Resp { return cl.CreateBucket(b) }},
		{"create-bucket-with-acl", func(cl *s3c.Client) *s3c.Resp {
			return cl.CreateBucket(b, "x-amz-object-ownership", "BucketOwnerPreferred", "x-amz-acl", "public-read-write")
		}},
		{"get-object", func(cl *s3c.Client) *s3c.Resp { return cl.GetObject(b, "roots-object") }},
		{"head-object", func(cl *s3c.Client) *s3c.Resp { return cl.HeadObject(b, "roots-object") }},
		{"list-objects", func(cl *s3c.Client) *s3c.Resp {
			return cl.Do(&s3c.Req{Method: "GET", Path: "/" + b, Query: "list-type=2"})
		}},
		{"put-object", func(cl *s3c.Client) *s3c.Resp { return cl.PutObject(b, "intruder-"+cl.AK, []byte("x")) }},
		{"overwrite-object", func(cl *s3c.Client) *s3c.Resp { return cl.PutObject(b, "roots-object", []byte("replaced")) }},
		{"get-bucket-acl", func(cl *s3c.Client) *s3c.Resp { return cl.Sub("GET", b, "", "acl=", nil) }},
		{"put-bucket-acl", func(cl *s3c.Client) *s3c.Resp {
			return cl.Sub("PUT", b, "", "acl=", nil, "X-Amz-Grant-Full-Control", cl.AK)
		}},
		{"put-bucket-policy", func(cl *s3c.Client) *s3c.Resp {
			return cl.Sub("PUT", b, "", "policy=", []byte(fmt.Sprintf(`{"Version":"2012-10-17","Statement":[{"Effect":"Allow","Principal":"*","Action":"s3:*","Resource":"arn:aws:s3:::%s/*"}]}`, b)))
		}},
		{"delete-object", func(cl *s3c.Client) *s3c.Resp { return cl.DeleteObject(b, "roots-object") }},
		{"delete-bucket", func(cl *s3c.Client) *s3c.Resp { return cl.DeleteBucket(b) }},
	}
	for round := 0; round < 2; round++ { // the second round runs after every create / acl / policy attempt was made
		for _, cl := range []*s3c.Client{bob, alice} {
			for _, a := range attempts {
				r := a.run(cl)
				c.Eval(1)
				if r.Err != nil {
					c.Inconclusive("transport error in unclaimed-directory lane")
					return
				}
				what := fmt.Sprintf("unclaimed-dir:%s:%s", how, a.name)
				switch {
				case r.Status < 300:
					c.Violation(what+":allowed-without-any-grant["+store+"]", id, det(map[string]any{"caller": cl.AK, "round": round, "answer": r.String(), "body_head": clipS(string(r.Body), 200)}))
				case strings.Contains(string(r.Body), secret):
					c.Violation(what+":data-disclosed["+store+"]", id, det(map[string]any{"caller": cl.AK, "answer": r.String()}))
				default:
					c.Distinct("unclaimed|" + how + "|" + a.name + "|" + store)
				}
			}
		}
	}
	if g := root.GetObject(b, "roots-object"); !g.OK() || string(g.Body) != secret {
		c.Violation("unclaimed-dir:"+how+":roots-object-changed["+store+"]", id, det(map[string]any{"get": g.String(), "body": clipS(string(g.Body), 100)}))
	}
	for _, cl := range []*s3c.Client{bob, alice} {
		if l := cl.ListBuckets(); l.OK() && strings.Contains(string(l.Body), "<Name>"+b+"</Name>") {
			c.Violation("unclaimed-dir:"+how+":listed-as-a-bucket-of-the-caller["+store+"]", id, det(map[string]any{"caller": cl.AK, "list_buckets": clipS(string(l.Body), 400)}))
		}
	}
}

// Refused-settings-change lane: a request that is refused changes nothing - also a PutBucketPolicy whose document is
// valid but cannot be stored (larger than what the metadata store takes for one attribute). The bucket's ACL is more
// generous than its policy (bob holds READ, the owner alice FULL_CONTROL; the policy allows alice to read and nothing
// else), so whatever removes or damages the policy in force shows as access the policy does not give. The oversized
// document allows exactly what the policy in force allows: whether the store takes it or not, the decisions stay.
func refusedPolicyPutLane(c *ev.Ctx, sidecar bool) {
	store := "xattr"
	if sidecar {
		store = "sidecar"
	}
	id := "p/oversized-policy/" + store
	if !c.Want(id) {
		return
	}
	env, err := fx.New("c03p", gw.Config{Sidecar: sidecar}, 1)
	if err != nil {
		c.Inconclusive("gateway start (refused-policy lane): " + err.Error())
		return
	}
	defer env.Close()
	root := env.Client(0)
	for _, u := range [][2]string{{"alice", "userplus"}, {"bob", "user"}} {
		if r := env.CreateUser(u[0], u[0]+"-secret-1", u[1], 0, 0); r.Status != 201 {
			c.Inconclusive("create user: " + r.String())
			return
		}
	}
	alice, bob := root.With("alice", "alice-secret-1"), root.With("bob", "bob-secret-1")
	const b = "guarded"
	if r := alice.CreateBucket(b, "x-amz-object-ownership", "BucketOwnerPreferred", "x-amz-grant-read", "bob", "x-amz-grant-full-control", "alice"); !r.OK() {
		c.Inconclusive("create bucket: " + r.String())
		return
	}
	root.PutObject(b, "doc", []byte("guarded data"))
	p1 := fmt.Sprintf(`{"Version":"2012-10-17","Statement":[{"Effect":"Allow","Principal":{"AWS":["alice"]},"Action":["s3:GetObject","s3:ListBucket"],"Resource":["arn:aws:s3:::%s","arn:aws:s3:::%s/*"]}]}`, b, b)
	if r := root.Sub("PUT", b, "", "policy=", []byte(p1)); !r.OK() {
		c.Inconclusive("put policy: " + r.String())
		return
	}
	type probe struct {
		name  string
		allow bool
		run   func() *s3c.Resp
	}
	probes := []probe{
		{"owner-get-object", true, func() *s3c.Resp { return alice.GetObject(b, "doc") }},
		{"owner-list", true, func() *s3c.Resp { return alice.ListV2(b) }},
		{"owner-put-object", false, func() *s3c.Resp { return alice.PutObject(b, "new", []byte("x")) }},
		{"owner-delete-object", false, func() *s3c.Resp { return alice.DeleteObject(b, "doc") }},
		{"owner-put-bucket-acl", false, func() *s3c.Resp { return alice.Sub("PUT", b, "", "acl=", nil, "X-Amz-Acl", "public-read-write") }},
		{"acl-grantee-get-object", false, func() *s3c.Resp { return bob.GetObject(b, "doc") }},
		{"acl-grantee-list", false, func() *s3c.Resp { return bob.ListV2(b) }},
		{"acl-grantee-put-object", false, func() *s3c.Resp { return bob.PutObject(b, "intruder", []byte("x")) }},
	}
	judge := func(when string) bool {
		ok := true
		for _, p := range probes {
			r := p.run()
			c.Eval(1)
			if r.Err != nil {
				c.Inconclusive("transport error in refused-policy lane")
				return false
			}
			got := r.Status < 300
			if got != p.allow {
				dir := "allowed-against-the-policy-in-force"
				if !got {
					dir = "refused-against-the-policy-in-force"
				}
				c.Violation("refused-policy-put:"+when+":"+p.name+":"+dir+"["+store+"]", id, map[string]any{"when": when, "probe": p.name, "answer": r.String(), "policy_in_force": p1})
				ok = false
			}
		}
		if g := root.GetObject(b, "doc"); !g.OK() || string(g.Body) != "guarded data" {
			c.Violation("refused-policy-put:"+when+":object-changed["+store+"]", id, map[string]any{"get": g.String()})
			root.PutObject(b, "doc", []byte("guarded data"))
			ok = false
		}
		return ok
	}
	if !judge("before") {
		return
	}
	// the same permissions written as very many statements: ~80 KB
	var sb strings.Builder
	sb.WriteString(`{"Version":"2012-10-17","Statement":[`)
	sb.WriteString(fmt.Sprintf(`{"Effect":"Allow","Principal":{"AWS":["alice"]},"Action":["s3:GetObject","s3:ListBucket"],"Resource":["arn:aws:s3:::%s","arn:aws:s3:::%s/*"]}`, b, b))
	for i := 0; sb.Len() < 80000; i++ {
		sb.WriteString(fmt.Sprintf(`,{"Sid":"statement-%05d","Effect":"Allow","Principal":{"AWS":["alice"]},"Action":"s3:GetObject","Resource":"arn:aws:s3:::%s/archive/%05d/*"}`, i, b, i))
	}
	sb.WriteString(`]}`)
	for _, big := range []string{sb.String(), strings.Repeat(" ", 70000) + p1} {
		pr := root.Sub("PUT", b, "", "policy=", []byte(big))
		c.Eval(1)
		if pr.Err != nil {
			c.Inconclusive("transport error in refused-policy lane")
			return
		}
		gp := root.Sub("GET", b, "", "policy=", nil)
		switch {
		case pr.Status < 300:
			if !gp.OK() || string(gp.Body) != big {
				c.Violation("refused-policy-put:accepted-document-not-read-back["+store+"]", id, map[string]any{"put": pr.String(), "get": gp.String(), "get_len": len(gp.Body), "put_len": len(big)})
			}
			if judge("after-accepted-large-policy") {
				c.Distinct("refused-policy|accepted|" + store)
			}
			// back to the short form for the next document
			root.Sub("PUT", b, "", "policy=", []byte(p1))
		default:
			if !gp.OK() || string(gp.Body) != p1 {
				c.Violation("refused-policy-put:policy-in-force-gone-after-refused-put["+store+"]", id, map[string]any{"put": pr.String(), "put_len": len(big), "get_policy_now": gp.String(), "body": clipS(string(gp.Body), 200)})
			}
			if judge("after-refused-large-policy") {
				c.Distinct("refused-policy|refused|" + store)
			}
			if gp2 := root.Sub("GET", b, "", "policy=", nil); !gp2.OK() {
				root.Sub("PUT", b, "", "policy=", []byte(p1))
			}
		}
	}
}

// Inner-wildcard lane: "allows that account the corresponding S3 action on that exact resource and no statement denies
// it" - with resources whose wildcard is followed by literal text (b/*/private/*, b/*.txt, b/*-secret-*), and keys
// in which that literal has false starts before its real occurrence (alice/priv/private/x: "/priv" looks like the
// beginning of "/private/"; the character that ends the false start is the one that begins the real match). A Deny of
// that shape sits next to a wide Allow; every key is read by the non-admin account and the answer compared with the
// reference matcher.
func innerWildcardLane(c *ev.Ctx, seed int64) {
	id := "w/inner-wildcard"
	if !c.Want(id) {
		return
	}
	env, err := fx.New("c03w", gw.Config{}, 1)
	if err != nil {
		c.Inconclusive("gateway start (inner-wildcard lane): " + err.Error())
		return
	}
	defer env.Close()
	root := env.Client(0)
	if r := env.CreateUser("alice", "alice-secret-1", "user", 0, 0); r.Status != 201 {
		c.Inconclusive("create user: " + r.String())
		return
	}
	alice := root.With("alice", "alice-secret-1")
	const b = "inner"
	if r := root.CreateBucket(b); !r.OK() {
		c.Inconclusive("create bucket: " + r.String())
		return
	}
	r := rand.New(rand.NewSource(seed))
	type world struct {
		pattern string
		keys    []string
	}
	worlds := []world{
		{"*/private/*", []string{"alice/priv/private/salary", "bob/p/private/key.pem", "x/private/y", "a/privateX/z", "private/top", "q/privat/e"}},
		{"*.txt", []string{"a.t.txt", "a.txt", "a.tx", "notes.tx.txt", "t.txt.bak"}},
		{"*-secret-*", []string{"a-sec-secret-b", "a-secret-b", "a-secre-t-b", "--secret--", "a-s-se-sec-secret-x"}},
		{"*aab*", []string{"aaab", "aab", "abab", "xaaaab", "aaba"}},
		{"logs/*/2024/*", []string{"logs/a/20/2024/x", "logs/a/2024/x", "logs/2024/x", "logs/a/2024x/y"}},
	}
	// generated: a literal, and keys with a false start of every length
	for i := 0; i < 4; i++ {
		lit := []string{"/keep/", "-ab-", ".bak", "/aa/a"}[i]
		var keys []string
		for j := 1; j < len(lit); j++ {
			keys = append(keys, fmt.Sprintf("k%d", r.Intn(90))+lit[:j]+lit+"tail")
		}
		keys = append(keys, "plain"+lit+"tail", "none"+lit[:len(lit)-1]+"x")
		worlds = append(worlds, world{"*" + lit + "*", keys})
	}
	// '?' stands for exactly one CHARACTER of the key, however many bytes its encoding has
	worlds = append(worlds,
		world{"private/report-?", []string{"private/report-a", "private/report-\u00e9", "private/report-\u65e5", "private/report-ab", "private/report-", "private/report-\u00e9\u00e9"}},
		world{"?/x", []string{"a/x", "\u00e9/x", "ab/x", "\U0001F600/x"}},
		world{"d/??.txt", []string{"d/\u00e9a.txt", "d/a\u00e9.txt", "d/\u00e9.txt", "d/abc.txt", "d/\u65e5\u672c.txt"}},
	)
	for wi, w := range worlds {
		pol := fmt.Sprintf(`{"Version":"2012-10-17","Statement":[{"Effect":"Allow","Principal":{"AWS":["alice"]},"Action":"s3:*","Resource":["arn:aws:s3:::%s","arn:aws:s3:::%s/*"]},{"Effect":"Deny","Principal":{"AWS":["alice"]},"Action":["s3:GetObject","s3:DeleteObject"],"Resource":"arn:aws:s3:::%s/%s"}]}`, b, b, b, w.pattern)
		if pr := root.Sub("PUT", b, "", "policy=", []byte(pol)); !pr.OK() {
			c.Observe("inner-wildcard lane: policy refused: " + pr.String())
			continue
		}
		for _, k := range w.keys {
			if p := root.PutObject(b, k, []byte("data of "+k)); !p.OK() {
				c.Observe("inner-wildcard lane: key not storable: " + k)
				continue
			}
			denied := glob(b+"/"+w.pattern, b+"/"+k)
			for _, op := range []string{"GetObject", "DeleteObject"} {
				var resp *s3c.Resp
				if op == "GetObject" {
					resp = alice.GetObject(b, k)
				} else {
					resp = alice.DeleteObject(b, k)
				}
				c.Eval(1)
				if resp.Err != nil {
					c.Inconclusive("transport error in inner-wildcard lane")
					return
				}
				got := resp.Status == 403
				det := map[string]any{"deny_resource": b + "/" + w.pattern, "key": k, "operation": op, "answer": resp.String(), "reference_denies": denied}
				switch {
				case denied && !got:
					c.Violation(fmt.Sprintf("inner-wildcard:%s:served-although-a-deny-statement-matches:world%d", op, wi), id, det)
				case !denied && got:
					c.Violation(fmt.Sprintf("inner-wildcard:%s:refused-although-no-deny-statement-matches:world%d", op, wi), id, det)
				default:
					c.Distinct(fmt.Sprintf("inner|%s|%s|denied=%v", w.pattern, op, denied))
				}
				if op == "DeleteObject" && !got {
					root.PutObject(b, k, []byte("data of "+k))
				}
			}
		}
	}
}

// Copy-source lane: "the decision is taken ... for both source and destination of a copy" - for the source object the
// copy actually reads. A key may contain the text "?versionId=" (it is an ordinary character sequence in a key);
// the account may read Y and nothing else, and names as copy source spellings whose split into key and version id is
// ambiguous. Whatever object the gateway reads, it must be one the account may read: the secret never reaches a place
// where the account can see it.
func copySourceSplitLane(c *ev.Ctx, sidecar bool) {
	store := "xattr"
	if sidecar {
		store = "sidecar"
	}
	id := "cs/copy-source-split/" + store
	if !c.Want(id) {
		return
	}
	env, err := fx.New("c03cs", gw.Config{Sidecar: sidecar, Versioning: true}, 1)
	if err != nil {
		c.Inconclusive("gateway start (copy-source lane): " + err.Error())
		return
	}
	defer env.Close()
	root := env.Client(0)
	if r := env.CreateUser("alice", "alice-secret-1", "user", 0, 0); r.Status != 201 {
		c.Inconclusive("create user: " + r.String())
		return
	}
	alice := root.With("alice", "alice-secret-1")
	const b = "cbkt"
	if r := root.CreateBucket(b); !r.OK() {
		c.Inconclusive("create bucket: " + r.String())
		return
	}
	const secret = "SECRET-copy-source-split-4be2"
	denied := []string{"Y?versionId=Z", "Y?versionId=", "Y?versionId=Z?versionId=Q", "sub/Y?versionId=null"}
	root.PutObject(b, "Y", []byte("public data of Y"))
	root.PutObject(b, "sub/Y", []byte("public data of sub/Y"))
	stored := 0
	for _, k := range denied {
		if p := root.PutObject(b, k, []byte(secret+" in "+k)); p.OK() {
			stored++
		}
	}
	if stored == 0 {
		c.Observe("copy-source lane: keys containing ?versionId= are not storable")
		return
	}
	pol := fmt.Sprintf(`{"Version":"2012-10-17","Statement":[{"Effect":"Allow","Principal":{"AWS":["alice"]},"Action":["s3:GetObject","s3:GetObjectVersion"],"Resource":["arn:aws:s3:::%s/Y","arn:aws:s3:::%s/sub/Y"]},{"Effect":"Allow","Principal":{"AWS":["alice"]},"Action":["s3:PutObject","s3:GetObject"],"Resource":"arn:aws:s3:::%s/loot*"}]}`, b, b, b)
	if r := root.Sub("PUT", b, "", "policy=", []byte(pol)); !r.OK() {
		c.Inconclusive("put policy: " + r.String())
		return
	}
	if g := alice.GetObject(b, "Y"); !g.OK() {
		c.Inconclusive("control: allowed read refused: " + g.String())
		return
	}
	for _, k := range denied {
		if g := alice.GetObject(b, k); g.Status < 400 {
			c.Violation("copy-source-split:plain-get-of-denied-key-served["+store+"]", id, map[string]any{"key": k, "get": g.String()})
			return
		}
	}
	enc := func(s string) string { return strings.NewReplacer("?", "%3F", "=", "%3D").Replace(s) }
	sources := []string{
		b + "/" + enc("Y?versionId=Z") + "?versionId=",
		b + "/" + enc("Y?versionId=Z"),
		b + "/Y?versionId=Z?versionId=",
		b + "/" + enc("Y?versionId=") + "?versionId=",
		b + "/" + enc("Y?versionId=Z?versionId=Q") + "?versionId=",
		b + "/Y?versionId=Z?versionId=Q",
		b + "/" + enc("sub/Y?versionId=null") + "?versionId=",
		"/" + b + "/" + enc("Y?versionId=Z") + "?versionId=",
	}
	for i, src := range sources {
		for _, op := range []string{"CopyObject", "UploadPartCopy"} {
			loot := fmt.Sprintf("loot-%d", i)
			var resp *s3c.Resp
			if op == "CopyObject" {
				resp = alice.Do(&s3c.Req{Method: "PUT", Path: s3c.ObjPath(b, loot), Header: s3c.H{{"X-Amz-Copy-Source", src}}})
			} else {
				loot += "-mpu"
				up, cr := alice.CreateMPU(b, loot)
				if !cr.OK() {
					continue
				}
				resp = alice.Do(&s3c.Req{Method: "PUT", Path: s3c.ObjPath(b, loot), Query: s3c.Q("partNumber", "1", "uploadId", up), Header: s3c.H{{"X-Amz-Copy-Source", src}}})
				if resp.OK() && !strings.Contains(string(resp.Body), "<Error>") {
					var cp struct{ ETag string }
					xml.Unmarshal(resp.Body, &cp)
					alice.CompleteMPU(b, loot, up, []s3c.Part{{N: 1, ETag: cp.ETag}})
				}
			}
			c.Eval(1)
			if resp.Err != nil {
				c.Inconclusive("transport error in copy-source lane")
				return
			}
			g := root.GetObject(b, loot)
			det := map[string]any{"copy_source": src, "operation": op, "answer": resp.String(), "policy": "alice may read cbkt/Y and cbkt/sub/Y, and write/read cbkt/loot*"}
			if g.OK() && strings.Contains(string(g.Body), secret) {
				det["destination_holds"] = clipS(string(g.Body), 80)
				c.Violation("copy-source-split:"+op+":content-of-a-denied-key-copied["+store+"]", id, det)
				root.DeleteObject(b, loot)
				continue
			}
			c.Distinct(fmt.Sprintf("cs|%s|%d|%s", op, i, store))
		}
	}
}

// Bypass-batch lane: "the decision is taken per object, also for every key of a batch delete" - including the decision
// whether the caller may bypass GOVERNANCE retention. The account holds s3:BypassGovernanceRetention on tmp/* only;
// batch deletes with the bypass header name protected versions under tmp/ (may go) and under keep/ (must stay) in
// every order. Whatever is answered, no version under keep/ may be gone afterwards.
func bypassBatchLane(c *ev.Ctx, sidecar bool) {
	store := "xattr"
	if sidecar {
		store = "sidecar"
	}
	id := "bb/bypass-batch/" + store
	if !c.Want(id) {
		return
	}
	env, err := fx.New("c03bb", gw.Config{Sidecar: sidecar, Versioning: true}, 1)
	if err != nil {
		c.Inconclusive("gateway start (bypass-batch lane): " + err.Error())
		return
	}
	defer env.Close()
	root := env.Client(0)
	if r := env.CreateUser("alice", "alice-secret-1", "user", 0, 0); r.Status != 201 {
		c.Inconclusive("create user: " + r.String())
		return
	}
	alice := root.With("alice", "alice-secret-1")
	const b = "lockb"
	if r := root.CreateBucket(b, "x-amz-bucket-object-lock-enabled", "true"); !r.OK() {
		c.Inconclusive("create lock bucket: " + r.String())
		return
	}
	pol := fmt.Sprintf(`{"Version":"2012-10-17","Statement":[{"Effect":"Allow","Principal":{"AWS":["alice"]},"Action":["s3:DeleteObject","s3:DeleteObjectVersion","s3:GetObject","s3:GetObjectVersion","s3:ListBucket"],"Resource":["arn:aws:s3:::%s","arn:aws:s3:::%s/*"]},{"Effect":"Allow","Principal":{"AWS":["alice"]},"Action":"s3:BypassGovernanceRetention","Resource":"arn:aws:s3:::%s/tmp/*"}]}`, b, b, b)
	if r := root.Sub("PUT", b, "", "policy=", []byte(pol)); !r.OK() {
		c.Inconclusive("put policy: " + r.String())
		return
	}
	until := time.Now().Add(48 * time.Hour).UTC().Format("2006-01-02T15:04:05Z")
	put := func(key string) string {
		r := root.PutObject(b, key, []byte("protected data of "+key), "X-Amz-Object-Lock-Mode", "GOVERNANCE", "X-Amz-Object-Lock-Retain-Until-Date", until)
		if !r.OK() {
			return ""
		}
		return r.Header.Get("X-Amz-Version-Id")
	}
	orders := [][]string{{"tmp/a", "keep/b"}, {"keep/b", "tmp/a"}, {"tmp/a", "tmp/c", "keep/b", "keep/d"}, {"keep/b"}, {"tmp/a", "keep/b", "tmp/c"}}
	for oi, order := range orders {
		vids := map[string]string{}
		okPut := true
		for _, k := range order {
			key := fmt.Sprintf("%s-%d", k, oi)
			if vids[key] = put(key); vids[key] == "" {
				okPut = false
			}
		}
		if !okPut {
			c.Inconclusive("bypass-batch lane: protected upload refused")
			return
		}
		for _, withVid := range []bool{true, false} {
			var sb strings.Builder
			sb.WriteString(`<Delete xmlns="http://s3.amazonaws.com/doc/2006-03-01/">`)
			for _, k := range order {
				key := fmt.Sprintf("%s-%d", k, oi)
				sb.WriteString("<Object><Key>" + key + "</Key>")
				if withVid {
					sb.WriteString("<VersionId>" + vids[key] + "</VersionId>")
				}
				sb.WriteString("</Object>")
			}
			sb.WriteString("</Delete>")
			body := []byte(sb.String())
			resp := alice.Do(&s3c.Req{Method: "POST", Path: "/" + b, Query: "delete=", Body: body, Header: s3c.H{{"Content-MD5", s3c.MD5B64(body)}, {"X-Amz-Bypass-Governance-Retention", "true"}}})
			c.Eval(1)
			if resp.Err != nil {
				c.Inconclusive("transport error in bypass-batch lane")
				return
			}
			bad := false
			for _, k := range order {
				if !strings.HasPrefix(k, "keep/") {
					continue
				}
				key := fmt.Sprintf("%s-%d", k, oi)
				g := root.GetObjectV(b, key, vids[key])
				if !g.OK() || string(g.Body) != "protected data of "+key {
					c.Violation(fmt.Sprintf("bypass-batch:protected-version-outside-the-bypass-grant-deleted:order%d[%s]", oi, store), id, map[string]any{"batch_order": order, "entries_carry_version_ids": withVid,
						"answer": resp.String(), "body": clipS(string(resp.Body), 300), "lost": key + "?versionId=" + vids[key], "get": g.String(), "policy": "s3:BypassGovernanceRetention on lockb/tmp/* only"})
					bad = true
				}
			}
			if !bad {
				c.Distinct(fmt.Sprintf("bb|order%d|vid=%v|%s", oi, withVid, store))
			}
		}
	}
}
